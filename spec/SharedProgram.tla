---------------------------- MODULE SharedProgram ----------------------------
(***************************************************************************)
(* Property C19b: a parsed Program is immutable and shareable.             *)
(*                                                                         *)
(* One shared `program` (what parser.ParseProgram returns: compiled code,  *)
(* constant table, compiled regular expressions -- objects with a state of *)
(* their own: source and leftmost-longest flag --, function table) and     *)
(* NProc processes.  A process executes the program MaxRuns times, one     *)
(* execution after the other; EVERY execution has an interpreter of its    *)
(* own, interp[i] (what interp.New / interp.ExecProgram allocate: globals, *)
(* value stack, output buffer, the cache of regular expressions compiled   *)
(* at run time, the random generator with its seed).  The execution        *)
(* interfaces of the real package (ExecProgram, New + Execute, New +       *)
(* ExecuteContext: ApiOf) are one and the same pair of actions here:       *)
(* New(i) allocates the private state, Step(i) executes one instruction.   *)
(* Every action records in `acc` the set of locations it read and wrote.   *)
(* A location is                                                           *)
(*      <<"prog", table, index>>   or   <<"interp", i, part, index>>.      *)
(*                                                                         *)
(* Instructions (the program is straight-line; the rendering as AWK is     *)
(* given next to each):                                                    *)
(*   [op |-> "set",   g, k]   g = consts[k]            a = 7               *)
(*   [op |-> "add",   g, k]   g = g + consts[k]        a = a + 1           *)
(*   [op |-> "match", g, k]   g = ($0 ~ regexes[k])    $0 = a; a = (/^1/ ? 1 : 0)   the COMPILED literal    *)
(*   [op |-> "rlen",  g, k]   g = RLENGTH of match(g, the same source)     match(a, /^1/); a = RLENGTH     *)
(*                            -- compiled at run time into the interpreter's own cache                    *)
(*   [op |-> "call",  g, k]   g = dbl(g)  (k unused)   a = dbl(a)          *)
(*   [op |-> "print", g, k]   out = out ++ <<g>>       print a             *)
(*   [op |-> "rand",  g, k]   out = out ++ <<next random number>>          print int(rand() * 1000000)     *)
(*   [op |-> "srand", g, k]   out = out ++ <<previous seed>>; seed = consts[k]     print srand(7)          *)
(* Instructions that START A COMMAND (through the shell, /bin/sh -c):       *)
(*   [op |-> "system",     g, k]   out = out ++ <<what the command prints>>        system("echo " id)          *)
(*   [op |-> "cmdgetline", g, k]   g = the line the command prints; the stream     ("echo " id) | getline a    *)
(*                            stays open: reading it again is end-of-file, g unchanged                       *)
(*   [op |-> "printcmd",   g, k]   out = out ++ <<what the command prints, g>>     print a | ("echo " id "; read v; echo $v"); close(...)  *)
(*   [op |-> "close",      g, k]   the reader stream of the command is closed      close("echo " id)           *)
(* The COMMAND STRING is private state of the interpreter: interp[i].cmd,  *)
(* different for every process (CmdOf(i); the real executions get it as     *)
(* the variable id of Config.Vars, the command is `echo <id>`, it prints    *)
(* CmdVal(cmd)).  Starting a command takes two steps: the argument vector   *)
(* (shell, "-c", command string) is built, then the process is started with *)
(* it.  The vector is private too (interp[i].argv).                         *)
(* RANGE RULES: a body item [op |-> "range", g |-> lo, k |-> hi] is not an  *)
(* instruction of BEGIN but a pattern-action rule of the program,          *)
(*      NR == lo, NR == hi { print 1000 * j + NR }      (j: its place in   *)
(* the body), applied to the NRec records of the input after BEGIN: Code   *)
(* appends one instruction [op |-> "rec", g |-> j, k |-> n] per record n   *)
(* and rule j.  Whether a rule is between its start and its stop record is *)
(* state of the EXECUTION: interp[i].open, the set of open rules, empty    *)
(* when an execution starts -- also when an earlier execution ended with   *)
(* the range still open (hi beyond the last record).                       *)
(* NUMBER FORMATS: private state of the interpreter as well: interp[i].fmt, *)
(* p = FmtOf(i) fraction digits -- the real executions get OFMT = "%.<p>f"  *)
(* and CONVFMT = "%.<p+1>f" as variables of Config.Vars, different for every *)
(* process.  Two instructions convert the NON-INTEGER number g + 1/4:       *)
(*   [op |-> "oprint", g, k]  out = out ++ <<p, digits>>      print a + 0.25        (OFMT)     *)
(*   [op |-> "conv",   g, k]  out = out ++ <<p + 1, digits>>  print ((a + 0.25) "") (CONVFMT)  *)
(* where <<q, digits>> stands for the numeral with q fraction digits whose  *)
(* digits (the point left out) are FracDigits(q, g): 7.250 is <<3, 7250>>.  *)
(* q >= 2, so the numeral is exact.  Like starting a command, a conversion  *)
(* takes two steps: the format in force is determined, then applied; the    *)
(* SharedShellArgs slip (the determined format is ONE process-level         *)
(* location) makes an execution print with another interpreter's format.    *)
(* Every program ends with  print a; print b  (appended by Code; in END    *)
(* when the program has rules).                                            *)
(*                                                                         *)
(* Random numbers are not computed: the n-th number after seeding with s   *)
(* is the token RandTok(s, n), the seed an execution starts with the token *)
(* Seed0Tok.  Equal tokens stand for equal numbers -- in one execution and *)
(* across all executions of the program --, different tokens for numbers   *)
(* about which nothing is said.                                            *)
(*                                                                         *)
(* Properties (checked by MC_SharedProgram over all interleavings):        *)
(*   Immutable      [][program' = program]_vars                            *)
(*   NoSharedWrite  no step writes a location outside its own interp[i]    *)
(*   NoForeignRead  no step reads another interpreter's state              *)
(*   Equivalent     a finished execution holds the result of Solo          *)
(* Two slips, each the typical way such a property gets broken, show that  *)
(* the properties are not vacuous (TLC refutes them):                      *)
(*   SharedCache = TRUE  "match" memoises its last result inside the       *)
(*        program, and "rlen" reuses the program's compiled literal of the *)
(*        same source, switching it to leftmost-longest when it needs it   *)
(*        (the compiler then leaves the flag off), and the in-range flags  *)
(*        of the range rules are a table of the program (sized by the      *)
(*        compiler): writes into the shared program;                       *)
(*   ReuseInterp = TRUE  New(i) takes over the interpreter left behind by  *)
(*        the execution that finished last (a pool of one) and restores    *)
(*        everything but the random generator: the second execution does   *)
(*        not produce what a single execution produces.                    *)
(***************************************************************************)
EXTENDS Integers, Sequences, FiniteSets, TLC

CONSTANTS NProc, SharedCache, ReuseInterp, SharedShellArgs, MaxRuns

Consts  == <<0, 1, 7, 10>>            \* program.Compiled.Nums
NumRegex == 3                         \* program.Compiled.Regexes: /^1/, /0$/ and /1|10/

\* decimal digits of n >= 0, most significant first
RECURSIVE DigitsOf(_)
DigitsOf(n) == IF n < 10 THEN <<n>> ELSE Append(DigitsOf(n \div 10), n % 10)
Abs(n) == IF n < 0 THEN 0 - n ELSE n
\* the three regular expressions on the decimal spelling of an integer ("-" before the digits of a negative one)
Matches(r, n) ==
  CASE r = 1 -> n >= 0 /\ Head(DigitsOf(n)) = 1                              \* /^1/
    [] r = 2 -> Abs(n) % 10 = 0                                              \* /0$/
    [] r = 3 -> \E j \in 1..Len(DigitsOf(Abs(n))) : DigitsOf(Abs(n))[j] = 1  \* /1|10/
\* RLENGTH after match(n, r): the length of the LEFTMOST-LONGEST match, -1 without a match
MatchLen(r, n) ==
  IF ~Matches(r, n) THEN 0 - 1
  ELSE IF r # 3 THEN 1
  ELSE LET d == DigitsOf(Abs(n))
           j == CHOOSE q \in 1..Len(d) : d[q] = 1 /\ \A p \in 1..(q - 1) : d[p] # 1
       IN IF j < Len(d) /\ d[j + 1] = 0 THEN 2 ELSE 1

\* tokens for random numbers and for the seed an execution starts with; sc = 0: that seed, sc = k: consts[k]
RandTok(sc, n) == 10000 + 100 * sc + n
Seed0Tok == 20000
IsToken(v) == v >= 10000

\* the command string of process i (0: an execution running alone) and what the command `echo <id>` prints
CmdOf(i) == i
CmdVal(c) == 100 + c
\* the number format of process i (fraction digits of its OFMT; its CONVFMT has one more), the operations that
\* convert a non-integer number, and the digits of v + 1/4 written with q >= 2 fraction digits
FmtOf(i) == 2 + (i % 4)
FmtOps == {"oprint", "conv"}
RECURSIVE Pow10(_)
Pow10(n) == IF n = 0 THEN 1 ELSE 10 * Pow10(n - 1)
FracDigits(q, v) == v * Pow10(q) + 25 * Pow10(q - 2)
CmdOps == {"system", "cmdgetline", "printcmd"} \cup FmtOps
\* process-level state outside the program and outside every interpreter: the one argument vector of the slip
NoShell == [args |-> 0]

\* the execution interface process i uses (the model does not distinguish them)
ApiOf(i) == CASE i % 3 = 1 -> "new-execute" [] i % 3 = 2 -> "execprogram" [] OTHER -> "new-executecontext"

Tail2 == <<[op |-> "print", g |-> 1, k |-> 0], [op |-> "print", g |-> 2, k |-> 0]>>
\* range rules: the records of the input, the rules of a body, the code that applies every rule to every record
NRec == 3
IsRule(m) == m.op = "range"
BeginPart(body) == SelectSeq(body, LAMBDA m : ~IsRule(m))
RuleIdx(body) == SelectSeq([j \in 1..Len(body) |-> j], LAMBDA j : IsRule(body[j]))
RecCode(body) == LET ri == RuleIdx(body)
                 IN [q \in 1..(NRec * Len(ri)) |-> [op |-> "rec", g |-> ri[((q - 1) % Len(ri)) + 1], k |-> ((q - 1) \div Len(ri)) + 1]]
RuleVal(j, n) == 1000 * j + n
Code(body) == BeginPart(body) \o RecCode(body) \o Tail2

\* the parser compiles every literal as leftmost-longest (under the SharedCache slip it leaves that to the interpreter)
\* rules: the body (rule j is body[j]); rflags: the in-range table of the SharedCache slip (the set of open rules)
MkProgram(body) == [code |-> Code(body), consts |-> Consts, rules |-> body, rflags |-> {},
                    regexes |-> [r \in 1..NumRegex |-> [src |-> r, longest |-> ~SharedCache]],
                    cache |-> [r \in 1..NumRegex |-> [valid |-> FALSE, arg |-> 0, res |-> 0]]]

\* rc: sources compiled at run time (private cache); sc, nr: seed code and numbers drawn since seeding;
\* cmd: the command string; argv, ph: the argument vector of the command being started (ph = 1: built, not yet started);
\* rd: the reader stream of the command ("closed", or "eof": open and read to its end);
\* open: the range rules that are between their start and their stop record
NewInterp == [status |-> "run", pc |-> 1, g |-> <<0, 0>>, out |-> <<>>, rc |-> {}, sc |-> 0, nr |-> 0,
              cmd |-> CmdOf(0), fmt |-> FmtOf(0), argv |-> 0, ph |-> 0, rd |-> "closed", open |-> {}]
NoInterp  == [status |-> "none", pc |-> 0, g |-> <<0, 0>>, out |-> <<>>, rc |-> {}, sc |-> 0, nr |-> 0,
              cmd |-> CmdOf(0), fmt |-> FmtOf(0), argv |-> 0, ph |-> 0, rd |-> "closed", open |-> {}]

PLoc(table, idx)   == <<"prog", table, idx>>
ILoc(i, part, idx) == <<"interp", i, part, idx>>
ShLoc              == <<"proc", "shellargs", 0>>

\* One instruction that starts no command, of interpreter state `it` (of process i) over program pr:
\* returns [it, pr, reads, writes]
Exec1(pr, it, i) ==
  LET ins == pr.code[it.pc]
      rd0 == {PLoc("code", it.pc), ILoc(i, "pc", 0)}
      nxt(it2) == [it2 EXCEPT !.pc = @ + 1, !.status = IF it.pc = Len(pr.code) THEN "done" ELSE "run"]
      gv  == it.g[ins.g]
  IN CASE ins.op = "set" ->
            [it |-> nxt([it EXCEPT !.g[ins.g] = pr.consts[ins.k]]), pr |-> pr,
             reads |-> rd0 \cup {PLoc("consts", ins.k)}, writes |-> {ILoc(i, "g", ins.g), ILoc(i, "pc", 0)}]
       [] ins.op = "add" ->
            [it |-> nxt([it EXCEPT !.g[ins.g] = gv + pr.consts[ins.k]]), pr |-> pr,
             reads |-> rd0 \cup {PLoc("consts", ins.k), ILoc(i, "g", ins.g)}, writes |-> {ILoc(i, "g", ins.g), ILoc(i, "pc", 0)}]
       [] ins.op = "call" ->
            [it |-> nxt([it EXCEPT !.g[ins.g] = gv + gv]), pr |-> pr,
             reads |-> rd0 \cup {PLoc("funcs", 1), ILoc(i, "g", ins.g)}, writes |-> {ILoc(i, "g", ins.g), ILoc(i, "pc", 0)}]
       [] ins.op = "print" ->
            [it |-> nxt([it EXCEPT !.out = Append(@, gv)]), pr |-> pr,
             reads |-> rd0 \cup {ILoc(i, "g", ins.g)}, writes |-> {ILoc(i, "out", 0), ILoc(i, "pc", 0)}]
       [] ins.op = "rand" ->
            [it |-> nxt([it EXCEPT !.out = Append(@, RandTok(it.sc, it.nr + 1)), !.nr = @ + 1]), pr |-> pr,
             reads |-> rd0 \cup {ILoc(i, "rng", 0)}, writes |-> {ILoc(i, "rng", 0), ILoc(i, "out", 0), ILoc(i, "pc", 0)}]
       [] ins.op = "srand" ->
            [it |-> nxt([it EXCEPT !.out = Append(@, IF it.sc = 0 THEN Seed0Tok ELSE pr.consts[it.sc]), !.sc = ins.k, !.nr = 0]),
             pr |-> pr,
             reads |-> rd0 \cup {PLoc("consts", ins.k), ILoc(i, "rng", 0)},
             writes |-> {ILoc(i, "rng", 0), ILoc(i, "out", 0), ILoc(i, "pc", 0)}]
       [] ins.op = "rec" ->
            \* rule ins.g applied to record ins.k: the start expression is evaluated only outside the range, the stop
            \* expression also for the record that opens it; the action runs for every record of the range
            LET rule    == pr.rules[ins.g]
                openset == IF SharedCache THEN pr.rflags ELSE it.open
                inside  == ins.g \in openset \/ ins.k = rule.g
                stays   == inside /\ ins.k # rule.k
                newset  == IF stays THEN openset \cup {ins.g} ELSE openset \ {ins.g}
                it1     == IF inside THEN [it EXCEPT !.out = Append(@, RuleVal(ins.g, ins.k))] ELSE it
                fl      == IF SharedCache THEN PLoc("rflags", ins.g) ELSE ILoc(i, "open", ins.g)
            IN [it |-> nxt(IF SharedCache THEN it1 ELSE [it1 EXCEPT !.open = newset]),
                pr |-> IF SharedCache THEN [pr EXCEPT !.rflags = newset] ELSE pr,
                reads |-> rd0 \cup {PLoc("rules", ins.g), ILoc(i, "nr", 0), fl},
                writes |-> {fl, ILoc(i, "out", 0), ILoc(i, "pc", 0)}]
       [] ins.op = "rlen" ->
            IF SharedCache
            THEN \* the slip: take the program's literal of the same source and make it leftmost-longest
                 [it |-> nxt([it EXCEPT !.g[ins.g] = MatchLen(ins.k, gv)]),
                  pr |-> [pr EXCEPT !.regexes[ins.k].longest = TRUE],
                  reads |-> rd0 \cup {PLoc("regexes", ins.k), ILoc(i, "g", ins.g)},
                  writes |-> {ILoc(i, "g", ins.g), ILoc(i, "pc", 0), PLoc("regexes", ins.k)}]
            ELSE \* compile the source (a string constant of the program) into the interpreter's own cache
                 [it |-> nxt([it EXCEPT !.g[ins.g] = MatchLen(ins.k, gv), !.rc = @ \cup {ins.k}]), pr |-> pr,
                  reads |-> rd0 \cup {PLoc("strs", ins.k), ILoc(i, "rc", ins.k), ILoc(i, "g", ins.g)},
                  writes |-> {ILoc(i, "rc", ins.k), ILoc(i, "g", ins.g), ILoc(i, "pc", 0)}]
       [] ins.op = "match" ->
            IF SharedCache
            THEN \* as a broken implementation would do it: look the argument up in a cache kept in the program
                 LET c   == pr.cache[ins.k]
                     res == IF c.valid THEN c.res ELSE (IF Matches(ins.k, gv) THEN 1 ELSE 0)
                 IN [it |-> nxt([it EXCEPT !.g[ins.g] = res]),
                     pr |-> [pr EXCEPT !.cache[ins.k] = [valid |-> TRUE, arg |-> gv, res |-> res]],
                     reads |-> rd0 \cup {PLoc("regexes", ins.k), PLoc("cache", ins.k), ILoc(i, "g", ins.g)},
                     writes |-> {ILoc(i, "g", ins.g), ILoc(i, "pc", 0), PLoc("cache", ins.k)}]
            ELSE [it |-> nxt([it EXCEPT !.g[ins.g] = IF Matches(ins.k, gv) THEN 1 ELSE 0]), pr |-> pr,
                  reads |-> rd0 \cup {PLoc("regexes", ins.k), ILoc(i, "g", ins.g)},
                  writes |-> {ILoc(i, "g", ins.g), ILoc(i, "pc", 0)}]

\* One step of interpreter state `it` (of process i) over program pr and process-level state sh -- one instruction,
\* or one of the two steps of an instruction that starts a command:  returns [it, pr, sh, reads, writes]
ExecP(pr, sh, it, i) ==
  LET ins == pr.code[it.pc]
      rd0 == {PLoc("code", it.pc), ILoc(i, "pc", 0)}
      nxt(it2) == [it2 EXCEPT !.pc = @ + 1, !.status = IF it.pc = Len(pr.code) THEN "done" ELSE "run"]
      gv  == it.g[ins.g]
      \* the command string the process is started with: the private vector -- or what the shared location holds NOW
      cs  == IF SharedShellArgs THEN sh.args ELSE it.argv
      arl == IF SharedShellArgs THEN ShLoc ELSE ILoc(i, "argv", 0)
  IN CASE ins.op \in CmdOps /\ it.ph = 0 /\ ~(ins.op = "cmdgetline" /\ it.rd = "eof") ->
            \* step 1: build the argument vector (a conversion: determine the format in force)
            LET src == CASE ins.op = "oprint" -> it.fmt [] ins.op = "conv" -> it.fmt + 1 [] OTHER -> it.cmd
            IN [it |-> [it EXCEPT !.ph = 1, !.argv = IF SharedShellArgs THEN @ ELSE src], pr |-> pr,
                sh |-> IF SharedShellArgs THEN [sh EXCEPT !.args = src] ELSE sh,
                reads |-> rd0 \cup {ILoc(i, IF ins.op \in FmtOps THEN "fmt" ELSE "cmd", 0)}, writes |-> {arl, ILoc(i, "ph", 0)}]
       [] ins.op \in FmtOps ->
            \* step 2: the number g + 1/4 written with the determined format
            [it |-> nxt([it EXCEPT !.out = @ \o <<cs, FracDigits(cs, gv)>>, !.ph = 0]), pr |-> pr, sh |-> sh,
             reads |-> rd0 \cup {arl, ILoc(i, "g", ins.g)}, writes |-> {ILoc(i, "out", 0), ILoc(i, "ph", 0), ILoc(i, "pc", 0)}]
       [] ins.op = "system" ->
            \* step 2: start the process; what it prints goes to the output of the execution
            [it |-> nxt([it EXCEPT !.out = Append(@, CmdVal(cs)), !.ph = 0]), pr |-> pr, sh |-> sh,
             reads |-> rd0 \cup {arl}, writes |-> {ILoc(i, "out", 0), ILoc(i, "ph", 0), ILoc(i, "pc", 0)}]
       [] ins.op = "printcmd" ->
            [it |-> nxt([it EXCEPT !.out = @ \o <<CmdVal(cs), gv>>, !.ph = 0]), pr |-> pr, sh |-> sh,
             reads |-> rd0 \cup {arl, ILoc(i, "g", ins.g)}, writes |-> {ILoc(i, "out", 0), ILoc(i, "ph", 0), ILoc(i, "pc", 0)}]
       [] ins.op = "cmdgetline" ->
            IF it.rd = "eof"
            THEN \* the stream is open and at its end: no command is started, the variable keeps its value
                 [it |-> nxt(it), pr |-> pr, sh |-> sh,
                  reads |-> rd0 \cup {ILoc(i, "cmd", 0), ILoc(i, "rd", 0)}, writes |-> {ILoc(i, "pc", 0)}]
            ELSE [it |-> nxt([it EXCEPT !.g[ins.g] = CmdVal(cs), !.rd = "eof", !.ph = 0]), pr |-> pr, sh |-> sh,
                  reads |-> rd0 \cup {arl, ILoc(i, "rd", 0)},
                  writes |-> {ILoc(i, "g", ins.g), ILoc(i, "rd", 0), ILoc(i, "ph", 0), ILoc(i, "pc", 0)}]
       [] ins.op = "close" ->
            [it |-> nxt([it EXCEPT !.rd = "closed"]), pr |-> pr, sh |-> sh,
             reads |-> rd0 \cup {ILoc(i, "cmd", 0)}, writes |-> {ILoc(i, "rd", 0), ILoc(i, "pc", 0)}]
       [] OTHER -> LET e == Exec1(pr, it, i) IN [it |-> e.it, pr |-> e.pr, sh |-> sh, reads |-> e.reads, writes |-> e.writes]

\* running alone, on a pristine program, in a process of its own; c: the command string of the execution
RECURSIVE SoloRun(_, _, _)
SoloRun(pr, sh, it) == IF it.status = "done" THEN it ELSE LET e == ExecP(pr, sh, it, 0) IN SoloRun(e.pr, e.sh, e.it)
SoloFor(body, c) == SoloRun(MkProgram(body), NoShell, [NewInterp EXCEPT !.cmd = c, !.fmt = FmtOf(c)])
Solo(body) == SoloFor(body, CmdOf(0))

\* the interpreter an execution starts with: a new one -- or, under the ReuseInterp slip, the one the last finished
\* execution left in `spare`, with everything restored but the random generator
StartInterp(spare) ==
  IF ReuseInterp /\ spare.status = "done" THEN [NewInterp EXCEPT !.sc = spare.sc, !.nr = spare.nr] ELSE NewInterp
\* ... of process i: with the command string of that process
StartInterpOf(i, spare) == [StartInterp(spare) EXCEPT !.cmd = CmdOf(i), !.fmt = FmtOf(i)]

\* ---- the properties, as predicates over (program, interp, acc) ----
OwnLoc(loc, i)  == loc[1] = "interp" /\ loc[2] = i
ProgLoc(loc)    == loc[1] = "prog"
NoSharedWriteP(acc) == \A loc \in acc.writes : OwnLoc(loc, acc.p)
NoForeignReadP(acc) == \A loc \in acc.reads : ProgLoc(loc) \/ OwnLoc(loc, acc.p)
\* every finished execution holds what running alone WITH ITS OWN command string gives
EquivalentP(body, its) ==
  \A i \in DOMAIN its : its[i].status = "done" =>
     LET s == SoloFor(body, CmdOf(i)) IN its[i].out = s.out /\ its[i].g = s.g
=============================================================================
