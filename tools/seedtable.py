#!/usr/bin/env python3
"""Writes seeded/RESULTS.md from seeded/*/meta.json, detected.json (written by tools/mutmatrix.sh) and notes.json."""
import glob, json, os
V = os.path.dirname(os.path.dirname(os.path.abspath(__file__)))
notes = json.load(open(os.path.join(V, 'seeded', 'notes.json'))) if os.path.exists(os.path.join(V, 'seeded', 'notes.json')) else {}
rows = []
for d in sorted(glob.glob(os.path.join(V, 'seeded', 'C*-m*'))):
    sid = os.path.basename(d)
    meta = json.load(open(d + '/meta.json'))
    det = json.load(open(d + '/detected.json')) if os.path.exists(d + '/detected.json') else {}
    title = ''
    for line in open(d + '/README.md'):
        line = line.strip()
        if line.startswith('#'):
            title = line.lstrip('# ').strip()
            break
    import re
    title = re.sub(r'^(Mutant|Change|C\d\d seeded change)\s*\d+\s*[-—:–]*\s*', '', title)
    res = {1: 'detected', 0: '**missed**', 2: 'machinery error'}.get(det.get('exit'), 'not run')
    sig = ', '.join('`%s`' % s for s in sorted(set(det.get('violations', [])))[:2])
    n = notes.get(sid, '')
    if meta.get('ported'):
        n = (n + ' ' if n else '') + '(patch re-applied by hand after a later fix in /repo touched the same lines)'
    rows.append(f"| {sid} | {title} | {res} | {sig} | {det.get('repo_head', '')} | {n} |")
with open(os.path.join(V, 'seeded', 'RESULTS.md'), 'w') as f:
    f.write('# Independently seeded changes and the quick tier\n\n'
            'Written by `tools/seedtable.py` from `seeded/*/detected.json` (one run of `tools/mutmatrix.sh quick`: the change applied to a scratch\n'
            'copy of /repo at the commit shown, `./check <property> quick` run against it through `VERIF_REPO`).  "first violation" names the\n'
            'replay file(s) = failure signature(s).  Notes say what had to be added to the specification/harness when a change was missed at first.\n\n'
            '| seed | change | quick tier | first violation(s) | /repo at | note |\n|---|---|---|---|---|---|\n' + '\n'.join(rows) + '\n')
print(len(rows), 'rows')
