#!/bin/bash
# usage: tools/devreplay.sh <Cxx> <tlc-output-or-ndjson> [repo]   -- development aid, not a registered check.
# Builds vreplay (all registrations) against the given repo (default /repo) in a scratch dir, extracts the exported
# cases from a TLC output file (lines starting with "{ are JSON strings) and replays them; prints the summary.
set -uo pipefail
pid=$1; src=$(readlink -f "$2"); repo=${3:-/repo}
S=$(mktemp -d /tmp/devreplay.XXXXXX); trap 'rm -rf "$S"' EXIT
cp -r /verif/harness "$S/harness"
sed -i "s#replace github.com/benhoyt/goawk => .*#replace github.com/benhoyt/goawk => $repo#" "$S/harness/go.mod"
(cd "$S/harness" && GOFLAGS=-mod=mod GOPROXY=off GOSUMDB=off GOTOOLCHAIN=local go build -tags verif -o "$S/vreplay" ./cmd/vreplay) || exit 2
python3 - "$src" "$S/cases.ndjson" <<'PY'
import sys, json
n = 0
with open(sys.argv[2], 'w') as out:
    for line in open(sys.argv[1]):
        line = line.rstrip('\n')
        if line.startswith('"{'):
            line = json.loads(line)
        elif not line.startswith('{'):
            continue
        out.write(line + '\n'); n += 1
print(n, 'cases')
PY
"$S/vreplay" "$pid" replay -in "$S/cases.ndjson" -out "$S/out.json" | tail -3
python3 - "$S/out.json" <<'PY'
import sys, json
o = json.load(open(sys.argv[1]))
print({k: o[k] for k in o if k not in ('failures', 'samples', 'extra')})
for f in o.get('failures', [])[:8]:
    print(f.get('sig') or f.get('signature'), '|', str(f.get('detail') or f.get('what'))[:200])
    print('   expected:', str(f.get('expected'))[:200].replace('\n', '\\n'))
    print('   observed:', str(f.get('observed'))[:200].replace('\n', '\\n'))
PY
