#!/bin/bash
# usage: tools/mutcheck.sh <patch.diff> <tier> <Cxx> [<Cyy> ...]
# Applies a patch to a scratch copy of /repo (never to /repo itself), runs the named checks against it
# through VERIF_REPO, prints their exit codes, removes the copy.
set -uo pipefail
patch=$(readlink -f "$1"); tier=$2; shift 2
S=$(mktemp -d /tmp/mutcheck.XXXXXX)
trap 'rm -rf "$S"' EXIT
git -C /repo archive ${MUT_BASE:-HEAD} | tar -x -C "$S" || exit 2
test -f "$S/go.mod" || { echo "scratch copy failed"; exit 2; }
(cd "$S" && git init -q . && git apply "$patch") || { echo "patch does not apply"; exit 2; }
(cd "$S" && GOFLAGS=-mod=mod GOPROXY=off go build ./... ) || { echo "patched tree does not build"; exit 2; }
cd /verif || exit 2
for id in "$@"; do
  out=$(VERIF_REPO="$S" ./check "$id" "$tier" 2>&1); rc=$?
  echo "== $id $tier on $(basename "$patch" .diff): exit $rc"
  echo "$out" | grep -E "^VIOLATION|MACHINERY" | head -5
  echo "   ($(echo "$out" | grep -c "^KNOWN-FINDING") KNOWN-FINDING lines)"
  # evidence and replay files written by a run against a patched tree are not evidence about /repo
  git -C /verif checkout -q -- "evidence/$id.json" 2>/dev/null || true
done
