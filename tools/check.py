#!/usr/bin/env python3
import importlib, os, sys
sys.path.insert(0, os.path.dirname(os.path.abspath(__file__)))
sys.path.insert(0, os.path.join(os.path.dirname(os.path.abspath(__file__)), 'props'))
import vlib


def main():
    if len(sys.argv) >= 2 and sys.argv[1] == '--setup':
        return vlib.setup()
    if len(sys.argv) < 3:
        print(__doc__ or 'usage: check <Cxx> quick|thorough | --replay <file>')
        return 2
    pid = sys.argv[1].upper()
    if sys.argv[2] == '--replay':
        return vlib.run_replay_file(pid, sys.argv[3])
    tier = sys.argv[2]
    if tier not in ('quick', 'thorough'):
        print('tier must be quick or thorough')
        return 2
    seed = int(os.environ.get('VERIF_SEED', '1'))
    try:
        mod = importlib.import_module(pid.lower())
    except ImportError as e:
        print(f'no check for {pid}: {e}')
        return 2
    return vlib.run_check(pid, tier, seed, mod.run)


if __name__ == '__main__':
    sys.exit(main())
