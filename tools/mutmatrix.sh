#!/bin/bash
# usage: tools/mutmatrix.sh [tier] [Cxx | Cxx-mN ...]
# Runs every stored seeded change (seeded/<Cxx>-m<n>/patch.diff) through the check of its property on a scratch copy of
# /repo (tools/mutcheck.sh) and records the outcome in seeded/<Cxx>-m<n>/detected.json.  Properties run in parallel
# (VERIF_PAR, default 4), the changes of one property one after the other.  Never touches /repo.
cd /verif || exit 2
tier=${1:-quick}; shift
props=${*:-$(ls seeded | sed 's/-m.*//' | sort -u)}
par=${VERIF_PAR:-4}
one() {
  p=$1; dirs="seeded/$p-m*"
  case "$p" in *-m*) dirs="seeded/$p"; p=${p%%-m*};; esac      # a single seed id (C07-m5) instead of a property
  for d in $dirs; do
    [ -f $d/patch.diff ] || continue
    # a change can break a second property too: seeded/<id>/checks lists the properties whose checks are run (default: its own)
    props=$p; [ -f $d/checks ] && props=$(cat $d/checks)
    out=$(VERIF_SKIP_MODEL=1 VERIF_CORES=${VERIF_CORES:-4} tools/mutcheck.sh $d/patch.diff $tier $props 2>&1)
    rc=$(echo "$out" | sed -n 's/^== .*: exit \([0-9]*\)$/\1/p' | sort -n | awk '$1==1{f=1} {l=$1} END{print (f?1:l)}')
    python3 - "$d" "$p" "$tier" "${rc:-2}" <<PY "$out"
import json, sys, subprocess
d, p, tier, rc, out = sys.argv[1], sys.argv[2], sys.argv[3], int(sys.argv[4]), sys.argv[5]
sigs = [l.split('replay=')[1].split('/')[-1][:-5] for l in out.splitlines() if l.startswith('VIOLATION')]
head = subprocess.run(['git', '-C', '/repo', 'rev-parse', '--short', 'HEAD'], capture_output=True, text=True).stdout.strip()
json.dump({'seed': d.split('/')[-1], 'check': ' ; '.join(f'./check {q} {tier}' for q in (open(d + '/checks').read().split() if __import__('os').path.exists(d + '/checks') else [p])), 'exit': rc, 'detected': rc == 1,
           'violations': sigs, 'repo_head': head,
           'note': '' if rc in (0, 1) else out[-400:]}, open(d + '/detected.json', 'w'), indent=1)
print(d, 'exit', rc, sigs[:2])
PY
  done
}
export -f one; export tier
echo $props | tr ' ' '\n' | xargs -P $par -I{} bash -c 'one {}'
