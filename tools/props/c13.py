"""C13 -- output reaches each destination completely, in order, exactly once.

spec/IOStreams.tla (shared with C12) + spec/StdoutShare.tla.  MC_IOStreams with Sandbox = FALSE (delivery
invariants, failing stdout writer in every output mode, a system() child that shows a file the program is
writing, close() of a command that never reads its input), StdoutShare (serialised variant must satisfy NoLostUpdate/AtMostOneInside,
the unserialised variant must violate NoLostUpdate -- the schedule then provoked on the real code through a gate
writer), Gen_IOStreams families "delivery", "failure" and "newline" (the newline output modes raw / crlf / smart x payloads
with newlines in them -- ending with one, with an interior one with and without a final one, with CR LF inside -- written by
print and printf to standard output, files, commands and /dev/stderr: the model states the delivered bytes),
Trace_IOStreams on recorded runs.
"""
import json, os, random
from vlib import MachineryError
import iocommon


NEW_CMDS = ('exit3', 'showf1')


def sample_procs(ctx, src, dst, keep_short, frac, frac_new=None):
    """Process starts dominate the replay time: keep every history without a child process, every history with
    at most `keep_short` actions, and a seeded sample of the longer ones that start processes (frac_new: the
    sampling rate of those that start one of the newer commands, exit3 / showf1)."""
    rnd = random.Random(ctx.seed)
    frac_new = frac if frac_new is None else frac_new
    n = k = 0
    with open(ctx.path(src)) as f, open(ctx.path(dst), 'w') as g:
        for line in f:
            n += 1
            d = json.loads(line)
            st = d['pred']['starts']
            fr = frac_new if any(c in NEW_CMDS for c in st) else frac
            if iocommon.has_nonreader_close(d):
                fr = max(fr, 0.1)       # close() of the command that never reads: few histories, one process each
            if not st or len(d['acts']) <= keep_short or rnd.random() < fr:
                g.write(line)
                k += 1
    ctx.log(f'{src}: {k} of {n} exported histories kept for replay')
    return k, n


def race_instrument(ctx):
    """Thorough tier: the pipe-and-print schedule once more, in a harness built with -race and a bufio.Writer as
    Config.Output.  The race detector is a recording instrument: a report whose two stacks are the interpreter's print
    and os/exec's copier confirms the unserialised schedule of StdoutShare on the real code."""
    try:
        rb = ctx.build(race=True, name='vreplay_race')
    except MachineryError as e:
        ctx.notes.append('race instrument not available (go build -race failed); skipped')
        return
    p = ctx.harness(['C13', 'race'], binary=rb, check=False, timeout=300, env={'GORACE': 'halt_on_error=0'})
    out = p.stdout
    if 'RACE-RUN-DONE' not in out:
        ctx.notes.append('race instrument: scenario did not run; skipped')
        return
    ctx.cov['evaluations'] += 1
    if 'WARNING: DATA RACE' in out and 'os/exec.(*Cmd)' in out and '/interp.' in out:
        first = out[out.index('WARNING: DATA RACE'):][:1800]
        ctx.add_failure('C13/shared-stdout/data-race/bufio-writer',
                        'race detector: the interpreter (print) and os/exec\'s output copier use Config.Output (a bufio.Writer) '
                        'without synchronisation', case=dict(fam='race', scenario='pipe-and-print'),
                        expected='no unsynchronised access to the shared writer', observed=first)
    else:
        ctx.log('race instrument: no report')


def run(ctx):
    q = ctx.quick
    ctx.rule = ('a case is one run: a history of 1-3 (thorough: 4) actions (print/printf to stdout, > and >> files, | cat and '
                '| sh -c "cat; exit 3", | a command that closes its input at once and exits 3, "-", /dev/stdout, /dev/stderr, close, '
                'fflush, system(cat), system(cat f1) -- a child that shows a file the program may hold unflushed output for --, '
                'getline from files/commands, file operand) ending normally, by exit or by a run-time error, exported by TLC from '
                'Gen_IOStreams with the predicted file contents, close() values and the set of allowed standard outputs (a system() '
                'child\'s output lies exactly between the program\'s output before and after the call); or a history of print / '
                'printf / print with two arguments / the implied print of a rule with a pattern and no action (rendered as a main loop over one record per action) to stdout and its aliases, in default, CSV and TSV output mode, with Config.Output '
                'a plain writer or a *bufio.Writer of 3, 16 or 4096 bytes (quick: 9 of the 12 mode x writer combinations; histories of 2 actions, thorough: also of 3 actions for 4 of the combinations), failing at byte k for every k (only "the run fails" is '
                'judged) or never failing (everything must arrive); or a run in newline output mode raw / crlf / smart of one or two '
                '(thorough: three) print / printf statements on one destination (stdout, "-", /dev/stdout, /dev/stderr, > and >> a file, | cat, '
                '| "  cat") whose string argument is k, k LF, k LF K, k LF K LF, k CR LF K, or a block (one string of N copies of k, each history replayed with N = 4096, 65535, 65536, 65537, 131073: around the stream buffer sizes), optionally followed by close / fflush, every '
                'ending for the single statements, with the delivered bytes predicted (crlf: every LF of a written string not already '
                'preceded by CR arrives as CR LF, nothing is lost); or a write-level schedule of StdoutShare; or a random run '
                'recorded from the real interpreter; non-trivial when it writes to a file, a command or an alias of stdout')
    ctx.assumptions += iocommon.ASSUMPTIONS + [
        'cat echoes its input; the order of a running child\'s output relative to the program\'s later writes is left open '
        'until close(): every interleaving that keeps each stream\'s order and the start/close window is accepted',
        'with a failing stdout writer only "the run returns an error" is judged; a run that succeeds although the writer failed is '
        'classified by where the failing write happened: "plain[-csv-output|-tsv-output]" (unbuffered writer), '
        '"<bufio kind>-write-failed-in-print" (the underlying write failed while a print statement was being executed: that '
        'statement must return the error) or "buffered" (the failing write was a flush at fflush() or at the end of the run: the '
        'listed finding F10)',
        'system(cat f1): the model says the child sees every byte the program has written to f1 so far (system() flushes every open '
        'output stream before it starts the child) and that the child\'s output precedes everything the program writes afterwards',
        'close() of a command that never reads its input must wait for it and return its exit status (3); what was written to it is '
        'discarded; stderr and the error outcome of such runs are not judged; nothing is said about the implicit close at the end',
        'histories that start processes are sampled (a process start costs ~100 ms here): all with <= 2 actions plus a seeded 3% (quick) / 5% (thorough) of the 3-action ones (1.2% / 3% of those that start the command that never reads or the file-showing system() child, but 10% of those that close() the former), 3% (0.6%) of the 4-action ones, 30% of the random walks; histories without a child process are replayed exhaustively',
        'newline family: every history is replayed in the quick tier (about a quarter start one `cat`); the thorough tier adds all pairs '
        '(every payload shape second, all three modes, every ending) and histories of three statements on one destination, of which a '
        'seeded 25% are replayed (5% of those that start a process)',
        'gate writer: the first writer is parked for up to 2.5 s; a second writer that needs longer to show up is missed '
        '(missed detection only, never an alarm)',
    ]
    ctx.build()
    # 1. model
    skip_model = bool(os.environ.get('VERIF_SKIP_MODEL'))   # development aid for mutant runs: the model does not depend on the code
    if skip_model:
        ctx.notes.append('model runs skipped (VERIF_SKIP_MODEL)')
    else:
        mc = ctx.cfg('MC_IOStreams', constants={'Depth': 2 if q else 3, 'Sandbox': 'FALSE', 'FailMax': 1 if q else 3, 'MaxRuns': 1,
                                                'Modes': '{"default", "csv"}' if q else '{"default", "csv", "tsv"}',
                                                'NLs': '{"smart", "crlf"}', 'Rich': 0})
        ctx.tlc('MC_IOStreams', mc, timeout=1500, heap='8g')
        if not q:
            # every payload shape to every kind of destination, in all three newline output modes, histories of two actions
            mc1 = ctx.cfg('MC_IOStreams', name='MC_IOStreams_allshapes',
                          constants={'Depth': 2, 'Sandbox': 'FALSE', 'FailMax': 0, 'MaxRuns': 1, 'Modes': '{"default"}',
                                     'NLs': '{"smart", "raw", "crlf"}', 'Rich': 1})
            ctx.tlc('MC_IOStreams', mc1, timeout=1500, heap='8g')
    ctx.tlc('StdoutShare', 'StdoutShare', timeout=300, capture='share.ndjson', label='StdoutShare(serialised)')
    if not skip_model:
        unser = ctx.cfg('StdoutShare', name='StdoutShare_unser', constants={'Serialised': 'FALSE'}, drop=['INVARIANTS'],
                        add='INVARIANTS NoLostUpdate')
        r = ctx.tlc('StdoutShare', unser, timeout=300, allow_fail=True, label='StdoutShare(unserialised)')
        log = open(r['log']).read()
        if 'Invariant NoLostUpdate is violated' not in log:
            raise MachineryError('StdoutShare: the unserialised variant does not exhibit the lost update; the model does not discriminate')
        ctx.notes.append('StdoutShare with Serialised = FALSE violates NoLostUpdate as intended (candidate schedule: both writers '
                         'inside Write at once); it is only a candidate until the gate writer reproduces it on the real code')
    # de-duplicate scenario lines (ASSUME is evaluated by both runs only once each; keep distinct)
    seen, lines = set(), []
    for l in open(ctx.path('share.ndjson')):
        if l not in seen:
            seen.add(l)
            lines.append(l)
    open(ctx.path('share.ndjson'), 'w').writelines(lines)
    # 2. spec -> code
    gen = ctx.cfg('Gen_IOStreams', name='Gen_delivery', constants={'Family': '"delivery"', 'Depth': 3, 'Rich': 1 if q else 2, 'Runs': 1})
    ctx.tlc('Gen_IOStreams', gen, capture='delivery_all.ndjson', timeout=900)
    sample_procs(ctx, 'delivery_all.ndjson', 'delivery.ndjson', 3, 0.03 if q else 0.05, 0.012 if q else 0.03)
    if not q:
        gen4 = ctx.cfg('Gen_IOStreams', name='Gen_delivery4', constants={'Family': '"delivery"', 'Depth': 4, 'Rich': 0, 'Runs': 1})
        ctx.tlc('Gen_IOStreams', gen4, capture='delivery4_all.ndjson', timeout=1500, heap='8g')
        sample_procs(ctx, 'delivery4_all.ndjson', 'delivery4.ndjson', 0, 0.03, 0.006)
        sim = ctx.cfg('Gen_IOStreams', name='Gen_delivery_sim', constants={'Family': '"delivery"', 'Depth': 8, 'Rich': 2, 'Runs': 1})
        ctx.tlc('Gen_IOStreams', sim, capture='delivery_sim_all.ndjson', simulate=400, depth=10, workers=1, timeout=600)
        sample_procs(ctx, 'delivery_sim_all.ndjson', 'delivery_sim.ndjson', 0, 0.3)
    ctx.cov['exhaustive'] = True
    sd = iocommon.replay(ctx, 'delivery.ndjson', 'delivery', iocommon.corrupt, 2000)
    # the newer parts of the model must be present among the replayed histories, and bound
    nnew = iocommon.split_cases(ctx, 'delivery.ndjson', 'delivery_new.ndjson',
                                lambda c: iocommon.has_sys_child(c) or iocommon.has_nonreader_close(c))
    nsys = iocommon.split_cases(ctx, 'delivery.ndjson', 'delivery_sys.ndjson', iocommon.has_sys_child)
    nclose = iocommon.split_cases(ctx, 'delivery.ndjson', 'delivery_nrclose.ndjson', iocommon.has_nonreader_close)
    if nsys < 20 or nclose < 3:
        raise MachineryError(f'delivery: only {nsys} histories with a system() child showing a file and {nclose} closing a '
                             f'command that never reads were kept for replay')
    ctx.log(f'delivery.ndjson: {nsys} histories with a system() child that shows f1, {nclose} with close() of a command that never reads')
    if all(sig in iocommon.known_sigs(ctx) for sig in sd['sig_counts']):
        ctx.selftest(ctx.path('delivery_new.ndjson'), ctx.pid, iocommon.corrupt_new_delivery, 'delivery-system-child-and-nonreader')
    if not q:
        iocommon.replay(ctx, 'delivery4.ndjson', 'delivery-depth4', iocommon.corrupt, 2000)
        iocommon.replay(ctx, 'delivery_sim.ndjson', 'delivery-walks', iocommon.corrupt, 200)
    # newline output modes x payload shapes
    nl = ctx.cfg('Gen_IOStreams', name='Gen_newline', constants={'Family': '"newline"', 'Depth': 2 if q else 3, 'Rich': 1 if q else 2, 'Runs': 1})
    ctx.tlc('Gen_IOStreams', nl, capture='newline_all.ndjson', timeout=900)
    if q:
        os.rename(ctx.path('newline_all.ndjson'), ctx.path('newline.ndjson'))
    else:
        # histories of one or two statements: all; of three: a seeded 25% (5% of those that start a process)
        rnd = random.Random(ctx.seed + 17)
        nk = iocommon.split_cases(ctx, 'newline_all.ndjson', 'newline.ndjson',
                                  lambda c: len(c['acts']) <= 3 or rnd.random() < (0.05 if c['pred']['starts'] else 0.25))
        ctx.log(f'newline_all.ndjson: {nk} exported histories kept for replay')
    nblock = iocommon.split_cases(ctx, 'newline.ndjson', 'newline_block.ndjson', lambda c: iocommon.has_block(c) and len(c['acts']) > 2)
    if nblock < 100:
        raise MachineryError(f'newline: only {nblock} histories write a block payload (one string as large as a stream buffer) next to other output')
    ctx.log(f'newline.ndjson: {nblock} histories of two statements with a block payload')
    ncrlf = iocommon.split_cases(ctx, 'newline.ndjson', 'newline_dim.ndjson', iocommon.has_newline_dim)
    ncmd = iocommon.split_cases(ctx, 'newline.ndjson', 'newline_cmd.ndjson',
                                lambda c: c['cfg']['nlmode'] == 'crlf' and c['pred']['starts'] and c['pred']['stdoutJudged'])
    if ncrlf < 500 or ncmd < 50:
        raise MachineryError(f'newline: only {ncrlf} histories with a newline-carrying payload or CRLF mode, {ncmd} in CRLF mode through a command')
    sn = iocommon.replay(ctx, 'newline.ndjson', 'newline-modes', iocommon.corrupt_newline, 1000)
    if all(sig in iocommon.known_sigs(ctx) for sig in sn['sig_counts']):
        ctx.selftest(ctx.path('newline_dim.ndjson'), ctx.pid, iocommon.corrupt_newline, 'newline-modes-crlf-and-shapes', k=24)
        ctx.selftest(ctx.path('newline_block.ndjson'), ctx.pid, iocommon.corrupt_newline, 'block-payloads', k=24)
    fail = ctx.cfg('Gen_IOStreams', name='Gen_failure', constants={'Family': '"failure"', 'Depth': 2, 'Rich': 1 if q else 2, 'Runs': 1})
    ctx.tlc('Gen_IOStreams', fail, capture='failure.ndjson', timeout=900)
    if not q:
        # three actions: the plain and the 4096-byte writer in default mode, the plain and the 3-byte writer in CSV mode
        fail3 = ctx.cfg('Gen_IOStreams', name='Gen_failure3', constants={'Family': '"failure"', 'Depth': 3, 'Rich': 0, 'Runs': 1})
        ctx.tlc('Gen_IOStreams', fail3, capture='failure.ndjson', timeout=1500, heap='8g')
    sf = iocommon.replay(ctx, 'failure.ndjson', 'stdout-failure', iocommon.corrupt_failure, 200)
    ncsv = iocommon.split_cases(ctx, 'failure.ndjson', 'failure_csv.ndjson', lambda c: c['cfg']['omode'] != 'default')
    if ncsv < 200:
        raise MachineryError(f'stdout-failure: only {ncsv} histories in CSV / TSV output mode')
    nimp = iocommon.split_cases(ctx, 'failure.ndjson', 'failure_implied.ndjson', iocommon.has_implied)
    nimpb = iocommon.split_cases(ctx, 'failure.ndjson', 'failure_implied_buffered.ndjson',
                                 lambda c: iocommon.has_implied(c) and c['cfg']['wkind'] != 'plain' and c['pred'].get('onlyErr'))
    if nimp < 200 or nimpb < 100:
        raise MachineryError(f'stdout-failure: only {nimp} histories with the implied print of a pattern-only rule ({nimpb} on a failing buffered writer)')
    ctx.log(f'failure.ndjson: {nimp} histories with the implied print of a rule without an action, {nimpb} of them on a failing buffered writer')
    if all(sig in iocommon.known_sigs(ctx) for sig in sf['sig_counts']):
        ctx.selftest(ctx.path('failure_csv.ndjson'), ctx.pid, iocommon.corrupt_failure, 'stdout-failure-csv-tsv')
        ctx.selftest(ctx.path('failure_implied.ndjson'), ctx.pid, iocommon.corrupt_failure, 'stdout-failure-implied-print')
    iocommon.replay(ctx, 'share.ndjson', 'shared-stdout', iocommon.corrupt_share, 3)
    if not q:
        race_instrument(ctx)
    # 3. code -> spec
    iocommon.traces(ctx, 'C13', 60 if q else 400)
