"""C19 -- parsing is deterministic; a parsed Program is immutable and shareable.

(a) determinism: the algorithmic layer of spec/Resolver.tla (MC_Resolver: DeterministicVerdict holds on every path
    through ChooseOrder; DeterministicError holds for sorted map iteration and is refuted for Go's map order --
    the candidate the replay then looks for); Gen_Resolver programs are parsed 50 times each.  Errors that the parser
    COLLECTS before it reports one (Resolver.tla section 4: the table of unused comma lists, walked in any order;
    CollectDet holds for the lexicographic order on positions and is refuted for `line smaller or column smaller`):
    sources with up to three independent errors of several kinds on a grid of lines x places (ResolverGen family
    "collect": every way in which line order and column order agree or disagree) are parsed 200 times each.
    HISTORIES: spec/ParseHistory.tla -- ParseProgram is a function of the source alone; the context a parser keeps
    while it walks a source (inside an action, loop depth, inside a function, pending `cmd | getline`, unclaimed comma
    lists) is state of ONE parse.  MC_ParseHistory: HistoryIndependent over all histories of up to four (thorough: eight)
    parses; refuted when a recycled parser keeps context fields (Survives # {}).  Gen_ParseHistory exports histories
    (a rejected source failing at every kind of place, then every statement kind in every context; random walks of 5
    sources); the replayer parses them in that order in one process, three rounds: accept/reject as specified, and
    verdict, error text and position, disassembly and compiled tables equal to those of the FIRST parse of the same
    text in the process; a deviation is confirmed in a new process; a panic of ParseProgram is a violation.
(b) sharing: spec/SharedProgram.tla (MC_SharedProgram: Immutable, NoSharedWrite, NoForeignRead, Equivalent,
    RegexesAsCompiled over all interleavings of processes that execute the program once or twice, every execution
    with an interpreter of its own; instructions include the compiled regex literal, the same source compiled at run
    time, rand and srand; two slips -- state kept in the shared program, an interpreter taken over from the previous
    execution without its random generator being reset -- are refuted); Gen_SharedProgram interleavings are imposed on
    real executions (ExecProgram, New+Execute, New+ExecuteContext) one VM instruction at a time;
    Trace_SharedProgram validates recorded sequential and concurrent executions through every interface (digest of
    the Program, state of its compiled regexes included, before/after every execution; result = result of a single
    execution); the recording of the fixed menu is repeated under the race detector (thorough: also random programs).
    COMMANDS: instructions that start a command (system, cmd | getline, print | cmd, close) with a command string
    that is private state of the interpreter (a variable of Config.Vars, different for every execution); starting a
    command takes two steps (argument vector built, process started); the slip SharedShellArgs (the vector is ONE
    process-level location) is refuted.  Gen_SharedProgram family "shell": one Program, NG executions one after the
    other and then NG goroutines x 2-3 executions at the same time, each with its own id; every output must be what
    the specification predicts for ITS id; the family is replayed a second time under the race detector, and the
    recorded menu contains two such sources.
    NUMBER FORMATS: instructions oprint / conv convert the non-integer number a + 1/4 through OFMT / CONVFMT, which are
    private state of the interpreter (interp[i].fmt; the real executions get them as Config.Vars, a different non-default
    pair each); a conversion takes two steps (format determined, applied); under SharedShellArgs (the determined format
    is ONE process-level location) an execution prints with another's format (refuted).  Gen_SharedProgram family
    "formats": 4 executions one after the other, then 4 goroutines x 25 executions at the same time; replayed also under
    the race detector; the recorded menu has three such sources.
    RANGE RULES: body items "range" are pattern-action rules NR == lo, NR == hi applied to three records after BEGIN;
    the in-range state is private state of the execution (interp[i].open); under the SharedCache slip it is a table of
    the program and a later execution starts inside the range (refuted).  Gen_SharedProgram with Rules = TRUE: two
    processes x two executions over bodies of range rules, executions that end inside a range included.
"""
import copy, glob, json, os, random, re, threading
from vlib import MachineryError


def corrupt(case, rnd):
    c = copy.deepcopy(case)
    if c.get('fam') == 'shared':
        out = c['expect']['out']
        # tokens (values >= 10000: random numbers, the initial seed) may be any number: corrupt a plain value
        plain = [i for i, v in enumerate(out) if v < 10000]
        out[rnd.choice(plain)] += 1
        return c
    if c.get('fam') == 'formats':
        # one execution's prediction: another number of fraction digits, or other digits
        e = rnd.choice(c['expect'])
        j = rnd.randrange(len(e['out']))
        e['out'][j] = e['out'][j] + 1
        return c
    if c.get('fam') == 'shell':
        # the prediction of one execution: a value another command string would give, or a plain value off by one
        e = rnd.choice(c['expect'])
        j = rnd.randrange(len(e['out']))
        e['out'][j] = e['out'][j] + 1
        return c
    if c.get('fam') == 'history':
        s = rnd.choice(c['hist'])
        s['v'] = 'reject' if s['v'] == 'accept' else 'accept'
        return c
    if c.get('fam') == 'collect' and c['verdict'] == 'reject' and rnd.random() < 0.5:
        c['distinct'] = 2            # "repeated parses report two different errors"
        return c
    c['verdict'] = 'reject' if c['verdict'] == 'accept' else 'accept'
    return c


def corrupt_event(ev, rnd):
    e = copy.deepcopy(ev)
    if e.get('op') == 'exec':
        if rnd.random() < 0.5:
            e['after'] = e['after'][:-1] + ('0' if e['after'][-1] != '0' else '1')
        else:
            e['result'] = e['result'] + 'z'
        return e
    if e.get('op') == 'parse' and 'src' in e:
        if rnd.random() < 0.5:
            e['v'] = 'reject' if e['v'] == 'accept' else 'accept'
        else:
            e['same'] = False
        return e
    return None


RES = dict(NP1=1, NP2=1, NP3=9, NG=1, MaxMainCalls=1, AllowRev='FALSE', MinArgs=1, NFm=3, NPf=3, FrLen='FALSE',
           CLines=3, MaxSites=3)
KINDS3 = '{"comma", "type", "undef"}'
KINDS4 = '{"comma", "type", "undef", "args"}'


def res(**kw):
    d = dict(RES)
    d.update(kw)
    return d


def expect_refuted(ctx, module, cfg, what, **kw):
    """A TLC run that must END with the named invariant violated (the model's own demonstration)."""
    r = ctx.tlc(module, cfg, allow_fail=True, **kw)
    log = open(r['log']).read()
    m = re.search(r'Invariant (\w+) is violated', log)
    if r['rc'] == 124:
        raise MachineryError(f'TLC timed out on {module}/{cfg}')
    if not m or m.group(1) not in what:
        tail = log[-2000:]
        raise MachineryError(f'{module}/{cfg}: expected TLC to refute {what}; it did not:\n{tail}')
    ctx.log(f'{module}/{cfg}: {m.group(1)} refuted by TLC, as expected')
    ctx.cov.setdefault('model_refutations', []).append({'cfg': cfg, 'invariant': m.group(1)})


def race_reports(prefix):
    """Parse the race detector's log files.  For every report: (text, writers) where writers lists, for each
    WRITE access of the report, the first frame of its stack that lies in the goawk module, tagged
    'goawk:<function>' or 'harness:<function>'."""
    out = []
    for path in glob.glob(prefix + '.*'):
        txt = open(path, errors='replace').read()
        for block in txt.split('==================')[1:]:
            if 'DATA RACE' not in block:
                continue
            writers = []
            for sec in re.split(r'\n\s*\n', block.replace('WARNING: DATA RACE', '')):
                head = sec.strip().split('\n', 1)[0]
                if not re.match(r'(Previous )?[Ww]rite at ', head):
                    continue
                frames = re.findall(r'^\s+(\S+)\(\)\s*$', sec, flags=re.M)
                mod = [f for f in frames if f.startswith('github.com/benhoyt/goawk/')]
                if not mod:
                    writers.append('other:' + (frames[0] if frames else '?'))
                elif '/verifharness/' in mod[0]:
                    writers.append('harness:' + mod[0])
                else:
                    writers.append('goawk:' + re.sub(r'^github.com/benhoyt/goawk/', '', mod[0]))
            out.append((block.strip()[:3000], writers))
    return out


def run(ctx):
    q = ctx.quick
    os.environ['_JAVA_OPTIONS'] = f'-XX:ParallelGCThreads={max(2, min(ctx.cores, 8))}'
    ctx.rule = ('a case is (a) one abstract program exported by TLC from Gen_Resolver (usage universe and programs with '
                'several independent type errors over 3-6 functions), rendered and parsed 50 times: verdict, error text and '
                'position, disassembly and compiled tables must be identical (non-trivial when the as-built model has more '
                'than one body order for it); or one source with up to 3 independent errors (unused comma lists, which the '
                'parser collects in a table before it reports one; type conflicts; undefined functions) on a grid of 3 '
                'lines x 3 places, parsed 200 times (non-trivial with >= 2 errors); (b) one complete interleaving of 2-3 '
                'processes, each executing one shared program once or twice (every execution with an interpreter of its '
                'own, process i through interface ApiOf(i): New+Execute, ExecProgram, New+ExecuteContext) '
                'exported from Gen_SharedProgram and imposed on the real executions one VM instruction at a time '
                '(non-trivial with >= 2 executions and a non-empty body); or one recorded trace: a source parsed 50 times, '
                'then executed 9 times in a row and from 8 goroutines over one Program, cycling through the three interfaces; '
                '(c) one HISTORY of parses exported from Gen_ParseHistory: 2 (pairs: a rejected source that fails at one '
                'of the places -- in an action, a loop body of each kind, nested loops, a function body, BEGIN, END, the '
                'pattern, after the | of a getline, inside / after a parenthesised comma list, at top level, in the resolver '
                '-- followed by an unbroken source of every statement kind in every context) or 5 (random walks) abstract '
                'sources, rendered and parsed in that order in one process, three rounds (non-trivial when a source whose '
                'verdict depends on the parser context follows a rejected one); (d) one program over the instructions that '
                'start commands, executed by 3-4 interpreters each with a command string of its own, one after the other '
                'and concurrently (2-3 executions per goroutine), replayed also under the race detector; (e) one program of '
                '1-2 instructions among which a conversion of a non-integer number (print through OFMT, concatenation through '
                'CONVFMT), executed by 4 interpreters each with number formats of its own, one after the other and concurrently '
                '(25 executions per goroutine), also under the race detector; one program with 1-2 range rules (closing before '
                'the end of the input, at the opening record, or never) executed twice by each of 2 processes under an imposed '
                'interleaving')
    ctx.assumptions += [
        'the compiled program is observed through Program.Disassemble and the exported tables of Program.Compiled '
        '(Begin, Actions, End, Functions, Nums, Strs, Regexes)',
        'immutability is observed through a structural digest of everything reachable from *parser.Program by reflection '
        '(unexported fields included), taken before and after every execution; a *regexp.Regexp contributes what the regexp '
        'API shows of it (String, NumSubexp, SubexpNames, LiteralPrefix, FindString on probe words over the letters of its '
        'source -- a|ab against "ab" tells leftmost-longest from leftmost-first) and its own scalar fields (the flag that '
        'Longest() sets among them), not the matcher program, which is a function of the source',
        'imposed interleavings switch between executions at VM-instruction boundaries only (verif step hook); finer '
        'interleavings are left to the concurrent recording and to the race detector',
        'the SharedProgram model abstracts the instruction set to set/add/match (compiled literal)/rlen (same source '
        'compiled at run time)/call/print/rand/srand over two globals; random numbers and the seed an execution starts '
        'with are tokens: the same token must be the same number in every execution of a case (a single execution on a '
        'Program of its own included), nothing is said about different tokens',
        'number formats: OFMT = "%.<p>f", CONVFMT = "%.<p+1>f" with p in 2..5, applied to a + 0.25 (a an integer): at least '
        'two fraction digits, so the numeral is exact and no rounding rule is involved; the prediction is written as '
        '(fraction digits, digits without the point) and the output lines of that form are rewritten the same way before '
        'the comparison; formats that need a default precision added (%g) and exponent forms are only in the recorded menu',
        'range rules: NR == lo, NR == hi { print ... } over three input records, lo/hi such that the range closes before the '
        'end, at the record that opens it, or never (the execution ends inside the range); the semantics of a range rule '
        '(start expression evaluated outside the range only, stop expression also for the opening record) is the AWK '
        'language\'s and is checked first on a single execution with a Program of its own; the recorded menu adds ranges '
        'left open by the end of the input and by exit, two rules side by side, and a start expression with a side effect',
        'for sources with several errors only determinism is judged (one verdict, one message and position in 200 parses); '
        'WHICH of the errors is reported is not stated by the property and not compared',
        'Config.Funcs: documented is that the map given to ParseProgram is the one given to the execution; the recorded '
        'source "natives-variant" replaces an ENTRY of that one map (same name and type) between two sequential executions '
        'and expects every execution to call the function that is in the map when it starts',
        'executions on ONE Interpreter object repeated with Execute are not part of this property (the statement gives '
        'every execution its own interpreter; reuse is C14)',
        'parse histories: the specification gives accept/reject per source (compared) and an error CLASS (exported for '
        'information, not compared: the statement demands the same message and position every time, not a particular '
        'one); message, position, disassembly and compiled tables are compared with the first parse of the same text '
        'in the replay process, and -- on a deviation -- with a parse of the text alone in a new process, which also '
        'decides whether the history of the case itself or other parses of the process are named as the cause; '
        'histories of different cases run concurrently in one process (the property says that must not matter)',
        'parse histories cover the parser context of statements (next/nextfile/break/continue/return, getline forms, '
        'comma lists); sources are small (one statement of interest, at most two nested loops); parser state that no '
        'modelled statement reads is observed only through the comparison with the first parse',
        'commands: the command string is `echo <id>` (plus `read v; echo $v` for print | cmd), run by /bin/sh with an '
        'empty environment; the executions get Output/Error writers that are safe for concurrent use, because os/exec '
        'copies a running command\'s output into them from its own goroutine while the interpreter writes (sharing inside '
        'ONE execution is C13\'s subject); print | cmd is always followed by close(cmd), so that the order of the output is '
        'specified; a result that differs without showing another execution\'s id counts only if it differs in 3 runs of '
        'the case, and a case whose output names the expired Cmd.WaitDelay (child output lost on a starved machine) is '
        'skipped; cases that start processes run one at a time',
        'a race reported by the detector is attributed to goawk by the first goawk frame of a writing access; reports whose '
        'writers are all outside goawk are a harness defect (exit 2), never a verdict',
    ]
    ctx.build()
    w4 = min(4, ctx.cores)
    # the race-instrumented harness is built while TLC runs
    race = {}

    def build_race():
        try:
            race['bin'] = ctx.build(race=True, name='vreplay_race')
        except MachineryError as e:
            race['err'] = e
    th = threading.Thread(target=build_race)
    th.start()
    skip_model = bool(os.environ.get('VERIF_SKIP_MODEL'))   # development aid for runs against changed code
    if skip_model:
        ctx.notes.append('model runs skipped (VERIF_SKIP_MODEL)')
    # ---- 1. models ----
    if not skip_model:
        # (a) determinism of the inference on every path through ChooseOrder
        inv_det = 'INVARIANTS InPrecondition ExactInv SoundInv PassBoundInv OrdersOK RunAgrees DeterministicVerdict'
        for nm, consts in (('multi', res(Family='"multi"', NFm=3, MapOrder='"any"')),
                           ('usage', res(Family='"usage"', MapOrder='"any"'))):
            if nm == 'usage' and q:
                continue         # C16 checks the usage universe; thorough repeats it here with the determinism invariants
            c = ctx.cfg('MC_Resolver', name=f'MC_Resolver_det_{nm}', constants=consts, drop=['INVARIANTS'], add=inv_det)
            ctx.tlc('MC_Resolver', c, timeout=1500, heap='8g')
        # message and position: deterministic when map iteration is sorted (the proposed patch) ...
        c = ctx.cfg('MC_Resolver', name='MC_Resolver_sorted', constants=res(Family='"multi"', NFm=3, MapOrder='"sorted"'),
                    drop=['INVARIANTS'], add='INVARIANTS ExactInv DeterministicVerdict DeterministicError')
        ctx.tlc('MC_Resolver', c, timeout=1500)
        # ... and NOT as built: TLC exhibits two paths with different first errors (a candidate, confirmed or not by replay)
        c = ctx.cfg('MC_Resolver', name='MC_Resolver_asbuilt', constants=res(Family='"multi"', NFm=3, MapOrder='"any"'),
                    drop=['INVARIANTS'], add='INVARIANTS DeterministicError')
        expect_refuted(ctx, 'MC_Resolver', c, ('DeterministicError',), timeout=900)
        # collected errors: one report whatever the order in which the parser's table is walked, for a total order on
        # positions -- and not for `line smaller or column smaller`.  (quick: the same property is asserted for every
        # exported source by Gen_Resolver, and the slip's reports are counted there; see below)
        if not q:
            col = res(Family='"collect"', CKinds=KINDS4, CLines=4)
            c = ctx.cfg('MC_Resolver', name='MC_Resolver_collect', constants=dict(col, CollectRel='"lex"'),
                        drop=['INVARIANTS'], add='INVARIANTS CollectDet')
            ctx.tlc('MC_Resolver', c, timeout=1500, heap='8g')
            c = ctx.cfg('MC_Resolver', name='MC_Resolver_collect_slip', constants=dict(col, CollectRel='"either"'),
                        drop=['INVARIANTS'], add='INVARIANTS CollectDet')
            expect_refuted(ctx, 'MC_Resolver', c, ('CollectDet',), timeout=900)
        # (b) sharing
        sp = dict(NProc=2, MaxLen=2, MaxRuns=2, SharedCache='FALSE', ReuseInterp='FALSE')
        # two processes, each executing the program twice (one execution after the other, each with its own interpreter)
        c = ctx.cfg('MC_SharedProgram', name='MC_SharedProgram_ok', constants=sp)
        ctx.tlc('MC_SharedProgram', c, timeout=1500, heap='8g')
        if not q:
            c = ctx.cfg('MC_SharedProgram', name='MC_SharedProgram_p3', constants=dict(sp, NProc=3, MaxRuns=1))
            ctx.tlc('MC_SharedProgram', c, timeout=1500, heap='8g')
            c = ctx.cfg('MC_SharedProgram', name='MC_SharedProgram_l3', constants=dict(sp, MaxLen=3, MaxRuns=1))
            ctx.tlc('MC_SharedProgram', c, timeout=1500, heap='8g')
        # the slips are refuted: state kept in the shared program (memo, regex object switched to leftmost-longest) ...
        c = ctx.cfg('MC_SharedProgram', name='MC_SharedProgram_cache', constants=dict(sp, MaxRuns=1, SharedCache='TRUE'),
                    drop=['INVARIANTS'], add='INVARIANTS NoSharedWrite NoForeignRead Equivalent')
        expect_refuted(ctx, 'MC_SharedProgram', c, ('NoSharedWrite', 'Equivalent', 'NoForeignRead'), timeout=900)
        # ... and an interpreter taken over from the previous execution with its random generator as it was left
        c = ctx.cfg('MC_SharedProgram', name='MC_SharedProgram_reuse', constants=dict(sp, MaxRuns=2, MaxLen=1, ReuseInterp='TRUE'),
                    drop=['INVARIANTS'], add='INVARIANTS Equivalent')
        expect_refuted(ctx, 'MC_SharedProgram', c, ('Equivalent',), timeout=900)
        # range rules: whether a rule is between its start and its stop record is state of the execution -- executions
        # that end inside a range included, two executions per process ...
        c = ctx.cfg('MC_SharedProgram', name='MC_SharedProgram_rules', constants=dict(sp, Extra='"rules"', MaxLen=1 if q else 2))
        ctx.tlc('MC_SharedProgram', c, timeout=1500, heap='8g')
        # ... and the slip: the in-range flags are a table of the shared program (a later execution starts inside the range)
        c = ctx.cfg('MC_SharedProgram', name='MC_SharedProgram_rules_slip', constants=dict(sp, Extra='"rules"', MaxLen=1, SharedCache='TRUE'),
                    drop=['INVARIANTS', 'PROPERTIES'], add='INVARIANTS Equivalent')
        expect_refuted(ctx, 'MC_SharedProgram', c, ('Equivalent',), timeout=900)
        # (c) histories of parses: the verdict is a function of the source alone ...
        ph = dict(MaxHist=4 if q else 8, Rich='TRUE', Survives='{}')
        c = ctx.cfg('MC_ParseHistory', name='MC_ParseHistory_ok', constants=ph)
        ctx.tlc('MC_ParseHistory', c, timeout=1500)
        # ... and not for a recycled parser that keeps its context fields (all of them; thorough: each one alone; that
        # every single field has a refuting history of two parses is also an ASSUME of the module)
        slips = ['{"inAction", "loopDepth", "inFunc", "pending", "multi"}']
        if not q:
            slips += ['{"%s"}' % f for f in ('inAction', 'loopDepth', 'inFunc', 'pending', 'multi')]
        for k, sv in enumerate(slips):
            c = ctx.cfg('MC_ParseHistory', name=f'MC_ParseHistory_pooled{k}', constants=dict(ph, MaxHist=2, Survives=sv),
                        drop=['INVARIANTS'], add='INVARIANTS HistoryIndependent')
            expect_refuted(ctx, 'MC_ParseHistory', c, ('HistoryIndependent',), timeout=900)
        # (d) programs that start commands, every process with a command string of its own ...
        sh = dict(NProc=2, MaxLen=2, MaxRuns=1, SharedCache='FALSE', ReuseInterp='FALSE', SharedShellArgs='FALSE', Cmds='TRUE')
        c = ctx.cfg('MC_SharedProgram', name='MC_SharedProgram_shell', constants=sh)
        ctx.tlc('MC_SharedProgram', c, timeout=1500, heap='8g')
        if not q:
            c = ctx.cfg('MC_SharedProgram', name='MC_SharedProgram_shell3', constants=dict(sh, NProc=3, MaxLen=1))
            ctx.tlc('MC_SharedProgram', c, timeout=1500, heap='8g')
            c = ctx.cfg('MC_SharedProgram', name='MC_SharedProgram_shell_r2', constants=dict(sh, MaxRuns=2, MaxLen=1))
            ctx.tlc('MC_SharedProgram', c, timeout=1500, heap='8g')
        # ... and the slip: the argument vector of a started command is one process-level location.  Another
        # interpreter's command is run (Equivalent); thorough: the write itself is also exhibited (NoSharedWrite)
        c = ctx.cfg('MC_SharedProgram', name='MC_SharedProgram_shellargs', constants=dict(sh, SharedShellArgs='TRUE'),
                    drop=['INVARIANTS'], add='INVARIANTS Equivalent')
        expect_refuted(ctx, 'MC_SharedProgram', c, ('Equivalent',), timeout=900)
        if not q:
            c = ctx.cfg('MC_SharedProgram', name='MC_SharedProgram_shellargs_w', constants=dict(sh, SharedShellArgs='TRUE'),
                        drop=['INVARIANTS'], add='INVARIANTS NoSharedWrite NoForeignRead')
            expect_refuted(ctx, 'MC_SharedProgram', c, ('NoSharedWrite', 'NoForeignRead'), timeout=900)
        # (e) conversions of a non-integer number, every process with number formats of its own ...
        fm = dict(sh, Cmds='FALSE', Extra='"formats"')
        c = ctx.cfg('MC_SharedProgram', name='MC_SharedProgram_formats', constants=fm)
        ctx.tlc('MC_SharedProgram', c, timeout=1500, heap='8g')
        # ... and the slip: the determined format is one process-level location (an execution prints with another
        # interpreter's format)
        c = ctx.cfg('MC_SharedProgram', name='MC_SharedProgram_formats_slip', constants=dict(fm, SharedShellArgs='TRUE'),
                    drop=['INVARIANTS'], add='INVARIANTS Equivalent')
        expect_refuted(ctx, 'MC_SharedProgram', c, ('Equivalent',), timeout=900)
    # ---- 2. spec -> code ----
    g = ctx.cfg('Gen_Resolver', name='Gen_Resolver_multi3', constants=res(Family='"multi"', NFm=3))
    ctx.tlc('Gen_Resolver', g, capture='cases.ndjson', timeout=900)
    g = ctx.cfg('Gen_Resolver', name='Gen_Resolver_multi6', constants=res(Family='"multi"', NFm=6))
    ctx.tlc('Gen_Resolver', g, capture='cases.ndjson', simulate=(250 if q else 1000), depth=12, workers=w4, timeout=1500)
    g = ctx.cfg('Gen_Resolver', name='Gen_Resolver_usage', constants=res(Family='"usage"', NG=1 if q else 2))
    ctx.tlc('Gen_Resolver', g, capture='cases.ndjson', timeout=1500, heap='8g')
    # sources with several collected errors, line order and column order agreeing and disagreeing
    g = ctx.cfg('Gen_Resolver', name='Gen_Resolver_collect',
                constants=res(Family='"collect"', CKinds=KINDS3 if q else KINDS4, CLines=3 if q else 4))
    ctx.tlc('Gen_Resolver', g, capture='cases.ndjson', timeout=1500, heap='8g')
    # the exported "collect" cases carry the model's own count of reports over all walks of the parser's table: 1 for
    # the lexicographic order (asserted in Gen_Resolver), and > 1 somewhere for the slip (the property is not vacuous)
    ncol = nslip = 0
    for line in open(ctx.path('cases.ndjson')):
        if '"fam":"collect"' in line:
            cc = json.loads(line)
            ncol += 1
            nslip += cc.get('slipReports', 0) > 1
            if cc.get('walks', 0) >= 1 and cc.get('reports') != 1:
                raise MachineryError(f'model defect: collected errors with {cc.get("reports")} reports: {line[:300]}')
    ctx.cov['collect_sources'] = ncol
    ctx.cov['collect_sources_where_the_slip_is_order_dependent'] = nslip
    if nslip == 0:
        raise MachineryError('no exported source distinguishes the lexicographic order from the slip: the collect universe is too small')
    if not q:
        big = res(Family='"usage"', NP1=2, NP2=2, NP3=1, NG=2, MaxMainCalls=2, AllowRev='TRUE', MinArgs=0)
        g = ctx.cfg('Gen_Resolver', name='Gen_Resolver_big', constants=big)
        ctx.tlc('Gen_Resolver', g, capture='cases.ndjson', simulate=10000, depth=40, workers=w4, timeout=1500)
    sp = dict(NProc=2, MaxLen=2, MaxRuns=1, SharedCache='FALSE', ReuseInterp='FALSE', Rich='FALSE')
    g = ctx.cfg('Gen_SharedProgram', name='Gen_SharedProgram_2', constants=sp)
    ctx.tlc('Gen_SharedProgram', g, capture='cases.ndjson', timeout=1500, heap='8g')
    # three processes (one per execution interface), two executions each, richer instruction menu
    g = ctx.cfg('Gen_SharedProgram', name='Gen_SharedProgram_sim', constants=dict(sp, NProc=3, MaxLen=3, MaxRuns=2, Rich='TRUE'))
    ctx.tlc('Gen_SharedProgram', g, capture='cases.ndjson', simulate=(500 if q else 20000), depth=80, workers=w4, timeout=1500)
    # programs with range rules (executions that end inside a range included): two processes, two executions each
    g = ctx.cfg('Gen_SharedProgram', name='Gen_SharedProgram_rules', constants=dict(sp, MaxLen=2, MaxRuns=2, Extra='"rules"'))
    ctx.tlc('Gen_SharedProgram', g, capture='cases.ndjson', simulate=(250 if q else 5000), depth=80, workers=1, timeout=1500)
    # histories of parses: every failing place x every statement kind in every context, and random walks
    g = ctx.cfg('Gen_ParseHistory', name='Gen_ParseHistory_pairs', constants=dict(Fam='"pairs"', Rich='FALSE' if q else 'TRUE'))
    ctx.tlc('Gen_ParseHistory', g, capture='cases.ndjson', workers=w4, timeout=1500)
    if not q:   # (quick: random histories come from the recorded direction, Trace_ParseHistory, below)
        g = ctx.cfg('Gen_ParseHistory', name='Gen_ParseHistory_walk', constants=dict(Fam='"walk"', HistLen=5))
        ctx.tlc('Gen_ParseHistory', g, capture='cases.ndjson', simulate=20000, depth=8, workers=1, timeout=1500)
    # programs that start commands, for free-running concurrent executions with a command string each: every body of
    # one or two instructions; quick replays the bodies of one instruction and a seeded sample of those of two (every
    # case starts some tens of processes)
    shg = dict(sp, Fam='"shell"', NG=3 if q else 4)
    g = ctx.cfg('Gen_SharedProgram', name='Gen_SharedProgram_shell', constants=shg)
    ctx.tlc('Gen_SharedProgram', g, capture='cases_shell_all.ndjson', workers=1, timeout=900)
    allsh = sorted(set(open(ctx.path('cases_shell_all.ndjson'))))      # (TLC may print an exported line twice)
    if q:
        one = [x for x in allsh if len(json.loads(x)['body']) == 1]
        two = [x for x in allsh if len(json.loads(x)['body']) == 2]
        random.Random(ctx.seed).shuffle(two)
        allsh = one + two[:10]
    open(ctx.path('cases_shell.ndjson'), 'w').writelines(allsh)
    # programs that convert non-integer numbers, for free-running concurrent executions with number formats each: every
    # body of one or two instructions
    g = ctx.cfg('Gen_SharedProgram', name='Gen_SharedProgram_formats', constants=dict(sp, Fam='"formats"', NG=4))
    ctx.tlc('Gen_SharedProgram', g, capture='cases_formats_all.ndjson', workers=1, timeout=900)
    open(ctx.path('cases_formats.ndjson'), 'w').writelines(sorted(set(open(ctx.path('cases_formats_all.ndjson')))))
    ctx.cov['exhaustive'] = True
    ctx.replay('cases.ndjson', label='gen-c19', min_cases=1000, corrupt=corrupt)
    ctx.replay('cases_formats.ndjson', label='gen-c19-formats', min_cases=8, corrupt=corrupt)
    ctx.replay('cases_shell.ndjson', label='gen-c19-shell', min_cases=4, selftest=False)
    ctx.selftest(ctx.path('cases_shell.ndjson'), 'C19', corrupt, 'gen-c19-shell', k=4)     # (every case starts processes)
    # the binding self-test again on the new families alone: sources with several collected errors; processes that
    # execute the program twice through the three interfaces
    for label, key in (('gen-c19-collect', '"fam":"collect"'), ('gen-c19-runs2', '"runs":2'), ('gen-c19-history', '"fam":"history"'),
                       ('gen-c19-rules', '"op":"range"')):
        with open(ctx.path(f'cases_{label}.ndjson'), 'w') as f:
            for line in open(ctx.path('cases.ndjson')):
                if key in line:
                    f.write(line)
        ctx.selftest(ctx.path(f'cases_{label}.ndjson'), 'C19', corrupt, label)
    # ---- 3. code -> spec ----
    ntr = 40 if q else 600
    ctx.harness(['C19', 'record', '-seed', str(ctx.seed), '-n', str(ntr), '-out', ctx.path('trace.ndjson')])
    rejects = ctx.validate_traces('Trace_SharedProgram', 'Trace_SharedProgram', 'trace.ndjson', label='trace-shared',
                                  corrupt_event=corrupt_event, timeout=1500)
    for r in rejects:
        ev = r['trace'][r['pos']]
        info = r['info'] or {}
        if ev.get('op') == 'parses':
            kind = ev.get('varies') or 'varies'
            if kind.startswith('error-varies'):
                kind = 'error-varies/' + ('body-order' if info.get('modelErrors', 0) > 1 else 'unexplained')
            case = None
            if ev.get('hasprog'):
                rej = any(s.split(' ', 1)[1].startswith('parse error') for s in ev.get('samples', []))
                case = dict(fam='recorded', prog=ev['prog'], verdict='reject' if rej else 'accept', types=[], out=[],
                            norders=2, errs=[{'kind': 'none'}] * max(1, info.get('modelErrors', 0)))
            ctx.add_failure(f'C19/parse/{kind}', f'recorded: {ev["n"]} parses of source "{ev.get("name")}" gave {ev["distinct"]} outcomes',
                            case=case, expected='one outcome', observed=ev.get('samples'), program=ev.get('src'))
        else:
            what = 'program-modified' if (ev.get('before') != info.get('expected', {}).get('program')
                                          or ev.get('after') != info.get('expected', {}).get('program')) else 'result-differs'
            par = next((e for e in r['trace'] if e.get('op') == 'parse'), {})
            ctx.add_failure(f'C19/shared/{what}/recorded-{ev.get("phase")}-{ev.get("api")}',
                            f'recorded execution rejected by Trace_SharedProgram at event {r["line"]} (source "{par.get("name")}", '
                            f'execution {ev.get("proc")}, {ev.get("phase")}, through {ev.get("api")}, Funcs variant {ev.get("variant")})',
                            case=None, expected=info.get('expected'),
                            observed={k: ev.get(k) for k in ('api', 'variant', 'before', 'after', 'result')}, program=par.get('src'))
    # histories of parses recorded from one process (deeper loop nests than the exported ones), validated with the
    # operators of ParseHistory.tla
    nh = 150 if q else 3000
    ctx.harness(['C19', 'record-history', '-seed', str(ctx.seed), '-n', str(nh), '-out', ctx.path('trace_hist.ndjson')])
    rejects = ctx.validate_traces('Trace_ParseHistory', 'Trace_ParseHistory', 'trace_hist.ndjson', label='trace-history',
                                  corrupt_event=corrupt_event, timeout=1500)
    for r in rejects:
        ev = r['trace'][r['pos']]
        exp = (r['info'] or {}).get('expected', {})
        if ev.get('v') == 'panic':
            sig = f'C19/parse-history/panic/recorded-{ev.get("probe")}{ev.get("after")}'
        elif ev.get('v') != exp.get('v'):
            sig = f'C19/parse-history/verdict/recorded-spec-{exp.get("v")}/{ev.get("probe")}{ev.get("after")}'
        else:
            sig = f'C19/parse-history/outcome-varies/recorded-{ev.get("probe")}{ev.get("after")}'
        ctx.add_failure(sig, f'recorded history rejected by Trace_ParseHistory at event {r["line"]}: ParseProgram gave '
                        f'"{ev.get("outcome")}" (first parse of the same text in the process: "{ev.get("first")}")',
                        case=None, expected=exp, observed={k: ev.get(k) for k in ('v', 'same', 'outcome', 'first')},
                        program=''.join(e.get('text', '') for e in r['trace'][:r['pos'] + 1] if e.get('ev') == 'step'))
    # ---- 4. the recording again under the race detector (an instrument, not an oracle): quick = the fixed menu ----
    th.join()
    if 'err' in race:
        raise race['err']
    nrace = 0 if q else 150
    prefix = ctx.path('race')
    ctx.harness(['C19', 'record', '-seed', str(ctx.seed + 100), '-n', str(nrace), '-out', ctx.path('trace_race.ndjson')],
                binary=race['bin'], env={'GORACE': f'log_path={prefix} halt_on_error=0 exitcode=0'}, timeout=3000)
    # ... and the programs that start commands, every execution with its own command string
    # ... and the programs that convert non-integer numbers, every execution with its own number formats
    for fam in ('shell', 'formats'):
        rout = ctx.path(f'summary_race_{fam}.json')
        ctx.harness(['C19', 'replay', '-in', ctx.path(f'cases_{fam}.ndjson'), '-out', rout], binary=race['bin'],
                    env={'GORACE': f'log_path={prefix} halt_on_error=0 exitcode=0'}, timeout=3000)
        rs = json.load(open(rout))
        if rs['sig_counts'].get('HARNESS-PANIC'):
            raise MachineryError('race build: harness panicked: ' + [x for x in rs['failures'] if x['sig'] == 'HARNESS-PANIC'][0]['what'][:2000])
        if rs['n'] < 4:
            raise MachineryError(f'race build: only {rs["n"]} {fam} cases replayed')
        if rs['skipped']:
            ctx.notes.append(f'race build: {rs["skipped"]} of {rs["n"]} {fam} cases skipped (command output lost by a starved machine)')
        ctx.cov['evaluations'] += rs['n']
        ctx.cov[f'race_detector_{fam}_cases'] = rs['n'] - rs['skipped']
        for f in rs['failures']:
            ctx.failures.append(f)
        for k, v in rs['sig_counts'].items():
            ctx.sig_counts[k] = ctx.sig_counts.get(k, 0) + v
        ctx.log(f"race build, {fam} family: {rs['n']} behaviours replayed, {rs['skipped']} skipped, failing signatures: {rs['sig_counts'] or 'none'}")
    reps = race_reports(prefix)
    nrec = sum(1 for line in open(ctx.path('trace_race.ndjson')) if '"op":"parse"' in line)
    ctx.cov['race_reports'] = len(reps)
    ctx.cov['race_detector_traces'] = nrec
    ctx.cov['evaluations'] += nrec
    for text, writers in reps:
        goawk = [w for w in writers if w.startswith('goawk:')]
        if not goawk:
            raise MachineryError('the race detector reported a race whose writing access is not in goawk code '
                                 f'({writers}); harness defect, not a verdict:\n' + text[:1500])
        ctx.add_failure(f'C19/race/{goawk[0][6:]}', 'data race: goawk code writes memory shared between executions '
                        'that run over one Program (race detector)', case=None,
                        expected='no unsynchronised access to shared memory', observed=text)
    ctx.log(f'race detector: {len(reps)} report(s) over {nrec} recorded traces')
