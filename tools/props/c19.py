"""C19 -- parsing is deterministic; a parsed Program is immutable and shareable.

(a) determinism: the algorithmic layer of spec/Resolver.tla (MC_Resolver: DeterministicVerdict holds on every path
    through ChooseOrder; DeterministicError holds for sorted map iteration and is refuted for Go's map order --
    the candidate the replay then looks for); Gen_Resolver programs are parsed 50 times each.  Errors that the parser
    COLLECTS before it reports one (Resolver.tla section 4: the table of unused comma lists, walked in any order;
    CollectDet holds for the lexicographic order on positions and is refuted for `line smaller or column smaller`):
    sources with up to three independent errors of several kinds on a grid of lines x places (ResolverGen family
    "collect": every way in which line order and column order agree or disagree) are parsed 200 times each.
(b) sharing: spec/SharedProgram.tla (MC_SharedProgram: Immutable, NoSharedWrite, NoForeignRead, Equivalent,
    RegexesAsCompiled over all interleavings of processes that execute the program once or twice, every execution
    with an interpreter of its own; instructions include the compiled regex literal, the same source compiled at run
    time, rand and srand; two slips -- state kept in the shared program, an interpreter taken over from the previous
    execution without its random generator being reset -- are refuted); Gen_SharedProgram interleavings are imposed on
    real executions (ExecProgram, New+Execute, New+ExecuteContext) one VM instruction at a time;
    Trace_SharedProgram validates recorded sequential and concurrent executions through every interface (digest of
    the Program, state of its compiled regexes included, before/after every execution; result = result of a single
    execution); the recording of the fixed menu is repeated under the race detector (thorough: also random programs).
"""
import copy, glob, json, os, re, threading
from vlib import MachineryError


def corrupt(case, rnd):
    c = copy.deepcopy(case)
    if c.get('fam') == 'shared':
        out = c['expect']['out']
        # tokens (values >= 10000: random numbers, the initial seed) may be any number: corrupt a plain value
        plain = [i for i, v in enumerate(out) if v < 10000]
        out[rnd.choice(plain)] += 1
        return c
    if c.get('fam') == 'collect' and c['verdict'] == 'reject' and rnd.random() < 0.5:
        c['distinct'] = 2            # "repeated parses report two different errors"
        return c
    c['verdict'] = 'reject' if c['verdict'] == 'accept' else 'accept'
    return c


def corrupt_event(ev, rnd):
    e = copy.deepcopy(ev)
    if e.get('op') == 'exec':
        if rnd.random() < 0.5:
            e['after'] = e['after'][:-1] + ('0' if e['after'][-1] != '0' else '1')
        else:
            e['result'] = e['result'] + 'z'
        return e
    return None


RES = dict(NP1=1, NP2=1, NP3=9, NG=1, MaxMainCalls=1, AllowRev='FALSE', MinArgs=1, NFm=3, NPf=3, FrLen='FALSE',
           CLines=3, MaxSites=3)
KINDS3 = '{"comma", "type", "undef"}'
KINDS4 = '{"comma", "type", "undef", "args"}'


def res(**kw):
    d = dict(RES)
    d.update(kw)
    return d


def expect_refuted(ctx, module, cfg, what, **kw):
    """A TLC run that must END with the named invariant violated (the model's own demonstration)."""
    r = ctx.tlc(module, cfg, allow_fail=True, **kw)
    log = open(r['log']).read()
    m = re.search(r'Invariant (\w+) is violated', log)
    if r['rc'] == 124:
        raise MachineryError(f'TLC timed out on {module}/{cfg}')
    if not m or m.group(1) not in what:
        tail = log[-2000:]
        raise MachineryError(f'{module}/{cfg}: expected TLC to refute {what}; it did not:\n{tail}')
    ctx.log(f'{module}/{cfg}: {m.group(1)} refuted by TLC, as expected')
    ctx.cov.setdefault('model_refutations', []).append({'cfg': cfg, 'invariant': m.group(1)})


def race_reports(prefix):
    """Parse the race detector's log files.  For every report: (text, writers) where writers lists, for each
    WRITE access of the report, the first frame of its stack that lies in the goawk module, tagged
    'goawk:<function>' or 'harness:<function>'."""
    out = []
    for path in glob.glob(prefix + '.*'):
        txt = open(path, errors='replace').read()
        for block in txt.split('==================')[1:]:
            if 'DATA RACE' not in block:
                continue
            writers = []
            for sec in re.split(r'\n\s*\n', block.replace('WARNING: DATA RACE', '')):
                head = sec.strip().split('\n', 1)[0]
                if not re.match(r'(Previous )?[Ww]rite at ', head):
                    continue
                frames = re.findall(r'^\s+(\S+)\(\)\s*$', sec, flags=re.M)
                mod = [f for f in frames if f.startswith('github.com/benhoyt/goawk/')]
                if not mod:
                    writers.append('other:' + (frames[0] if frames else '?'))
                elif '/verifharness/' in mod[0]:
                    writers.append('harness:' + mod[0])
                else:
                    writers.append('goawk:' + re.sub(r'^github.com/benhoyt/goawk/', '', mod[0]))
            out.append((block.strip()[:3000], writers))
    return out


def run(ctx):
    q = ctx.quick
    os.environ['_JAVA_OPTIONS'] = f'-XX:ParallelGCThreads={max(2, min(ctx.cores, 8))}'
    ctx.rule = ('a case is (a) one abstract program exported by TLC from Gen_Resolver (usage universe and programs with '
                'several independent type errors over 3-6 functions), rendered and parsed 50 times: verdict, error text and '
                'position, disassembly and compiled tables must be identical (non-trivial when the as-built model has more '
                'than one body order for it); or one source with up to 3 independent errors (unused comma lists, which the '
                'parser collects in a table before it reports one; type conflicts; undefined functions) on a grid of 3 '
                'lines x 3 places, parsed 200 times (non-trivial with >= 2 errors); (b) one complete interleaving of 2-3 '
                'processes, each executing one shared program once or twice (every execution with an interpreter of its '
                'own, process i through interface ApiOf(i): New+Execute, ExecProgram, New+ExecuteContext) '
                'exported from Gen_SharedProgram and imposed on the real executions one VM instruction at a time '
                '(non-trivial with >= 2 executions and a non-empty body); or one recorded trace: a source parsed 50 times, '
                'then executed 9 times in a row and from 8 goroutines over one Program, cycling through the three interfaces')
    ctx.assumptions += [
        'the compiled program is observed through Program.Disassemble and the exported tables of Program.Compiled '
        '(Begin, Actions, End, Functions, Nums, Strs, Regexes)',
        'immutability is observed through a structural digest of everything reachable from *parser.Program by reflection '
        '(unexported fields included), taken before and after every execution; a *regexp.Regexp contributes what the regexp '
        'API shows of it (String, NumSubexp, SubexpNames, LiteralPrefix, FindString on probe words over the letters of its '
        'source -- a|ab against "ab" tells leftmost-longest from leftmost-first) and its own scalar fields (the flag that '
        'Longest() sets among them), not the matcher program, which is a function of the source',
        'imposed interleavings switch between executions at VM-instruction boundaries only (verif step hook); finer '
        'interleavings are left to the concurrent recording and to the race detector',
        'the SharedProgram model abstracts the instruction set to set/add/match (compiled literal)/rlen (same source '
        'compiled at run time)/call/print/rand/srand over two globals; random numbers and the seed an execution starts '
        'with are tokens: the same token must be the same number in every execution of a case (a single execution on a '
        'Program of its own included), nothing is said about different tokens',
        'for sources with several errors only determinism is judged (one verdict, one message and position in 200 parses); '
        'WHICH of the errors is reported is not stated by the property and not compared',
        'Config.Funcs: documented is that the map given to ParseProgram is the one given to the execution; the recorded '
        'source "natives-variant" replaces an ENTRY of that one map (same name and type) between two sequential executions '
        'and expects every execution to call the function that is in the map when it starts',
        'executions on ONE Interpreter object repeated with Execute are not part of this property (the statement gives '
        'every execution its own interpreter; reuse is C14)',
    ]
    ctx.build()
    w4 = min(4, ctx.cores)
    # the race-instrumented harness is built while TLC runs
    race = {}

    def build_race():
        try:
            race['bin'] = ctx.build(race=True, name='vreplay_race')
        except MachineryError as e:
            race['err'] = e
    th = threading.Thread(target=build_race)
    th.start()
    skip_model = bool(os.environ.get('VERIF_SKIP_MODEL'))   # development aid for runs against changed code
    if skip_model:
        ctx.notes.append('model runs skipped (VERIF_SKIP_MODEL)')
    # ---- 1. models ----
    if not skip_model:
        # (a) determinism of the inference on every path through ChooseOrder
        inv_det = 'INVARIANTS InPrecondition ExactInv SoundInv PassBoundInv OrdersOK RunAgrees DeterministicVerdict'
        for nm, consts in (('multi', res(Family='"multi"', NFm=3, MapOrder='"any"')),
                           ('usage', res(Family='"usage"', MapOrder='"any"'))):
            if nm == 'usage' and q:
                continue         # C16 checks the usage universe; thorough repeats it here with the determinism invariants
            c = ctx.cfg('MC_Resolver', name=f'MC_Resolver_det_{nm}', constants=consts, drop=['INVARIANTS'], add=inv_det)
            ctx.tlc('MC_Resolver', c, timeout=1500, heap='8g')
        # message and position: deterministic when map iteration is sorted (the proposed patch) ...
        c = ctx.cfg('MC_Resolver', name='MC_Resolver_sorted', constants=res(Family='"multi"', NFm=3, MapOrder='"sorted"'),
                    drop=['INVARIANTS'], add='INVARIANTS ExactInv DeterministicVerdict DeterministicError')
        ctx.tlc('MC_Resolver', c, timeout=1500)
        # ... and NOT as built: TLC exhibits two paths with different first errors (a candidate, confirmed or not by replay)
        c = ctx.cfg('MC_Resolver', name='MC_Resolver_asbuilt', constants=res(Family='"multi"', NFm=3, MapOrder='"any"'),
                    drop=['INVARIANTS'], add='INVARIANTS DeterministicError')
        expect_refuted(ctx, 'MC_Resolver', c, ('DeterministicError',), timeout=900)
        # collected errors: one report whatever the order in which the parser's table is walked, for a total order on
        # positions -- and not for `line smaller or column smaller`.  (quick: the same property is asserted for every
        # exported source by Gen_Resolver, and the slip's reports are counted there; see below)
        if not q:
            col = res(Family='"collect"', CKinds=KINDS4, CLines=4)
            c = ctx.cfg('MC_Resolver', name='MC_Resolver_collect', constants=dict(col, CollectRel='"lex"'),
                        drop=['INVARIANTS'], add='INVARIANTS CollectDet')
            ctx.tlc('MC_Resolver', c, timeout=1500, heap='8g')
            c = ctx.cfg('MC_Resolver', name='MC_Resolver_collect_slip', constants=dict(col, CollectRel='"either"'),
                        drop=['INVARIANTS'], add='INVARIANTS CollectDet')
            expect_refuted(ctx, 'MC_Resolver', c, ('CollectDet',), timeout=900)
        # (b) sharing
        sp = dict(NProc=2, MaxLen=2, MaxRuns=2, SharedCache='FALSE', ReuseInterp='FALSE')
        # two processes, each executing the program twice (one execution after the other, each with its own interpreter)
        c = ctx.cfg('MC_SharedProgram', name='MC_SharedProgram_ok', constants=sp)
        ctx.tlc('MC_SharedProgram', c, timeout=1500, heap='8g')
        if not q:
            c = ctx.cfg('MC_SharedProgram', name='MC_SharedProgram_p3', constants=dict(sp, NProc=3, MaxRuns=1))
            ctx.tlc('MC_SharedProgram', c, timeout=1500, heap='8g')
            c = ctx.cfg('MC_SharedProgram', name='MC_SharedProgram_l3', constants=dict(sp, MaxLen=3, MaxRuns=1))
            ctx.tlc('MC_SharedProgram', c, timeout=1500, heap='8g')
        # the slips are refuted: state kept in the shared program (memo, regex object switched to leftmost-longest) ...
        c = ctx.cfg('MC_SharedProgram', name='MC_SharedProgram_cache', constants=dict(sp, MaxRuns=1, SharedCache='TRUE'),
                    drop=['INVARIANTS'], add='INVARIANTS NoSharedWrite NoForeignRead Equivalent')
        expect_refuted(ctx, 'MC_SharedProgram', c, ('NoSharedWrite', 'Equivalent', 'NoForeignRead'), timeout=900)
        # ... and an interpreter taken over from the previous execution with its random generator as it was left
        c = ctx.cfg('MC_SharedProgram', name='MC_SharedProgram_reuse', constants=dict(sp, MaxRuns=2, MaxLen=1, ReuseInterp='TRUE'),
                    drop=['INVARIANTS'], add='INVARIANTS Equivalent')
        expect_refuted(ctx, 'MC_SharedProgram', c, ('Equivalent',), timeout=900)
    # ---- 2. spec -> code ----
    g = ctx.cfg('Gen_Resolver', name='Gen_Resolver_multi3', constants=res(Family='"multi"', NFm=3))
    ctx.tlc('Gen_Resolver', g, capture='cases.ndjson', timeout=900)
    g = ctx.cfg('Gen_Resolver', name='Gen_Resolver_multi6', constants=res(Family='"multi"', NFm=6))
    ctx.tlc('Gen_Resolver', g, capture='cases.ndjson', simulate=(250 if q else 1000), depth=12, workers=w4, timeout=1500)
    g = ctx.cfg('Gen_Resolver', name='Gen_Resolver_usage', constants=res(Family='"usage"', NG=1 if q else 2))
    ctx.tlc('Gen_Resolver', g, capture='cases.ndjson', timeout=1500, heap='8g')
    # sources with several collected errors, line order and column order agreeing and disagreeing
    g = ctx.cfg('Gen_Resolver', name='Gen_Resolver_collect',
                constants=res(Family='"collect"', CKinds=KINDS3 if q else KINDS4, CLines=3 if q else 4))
    ctx.tlc('Gen_Resolver', g, capture='cases.ndjson', timeout=1500, heap='8g')
    # the exported "collect" cases carry the model's own count of reports over all walks of the parser's table: 1 for
    # the lexicographic order (asserted in Gen_Resolver), and > 1 somewhere for the slip (the property is not vacuous)
    ncol = nslip = 0
    for line in open(ctx.path('cases.ndjson')):
        if '"fam":"collect"' in line:
            cc = json.loads(line)
            ncol += 1
            nslip += cc.get('slipReports', 0) > 1
            if cc.get('walks', 0) >= 1 and cc.get('reports') != 1:
                raise MachineryError(f'model defect: collected errors with {cc.get("reports")} reports: {line[:300]}')
    ctx.cov['collect_sources'] = ncol
    ctx.cov['collect_sources_where_the_slip_is_order_dependent'] = nslip
    if nslip == 0:
        raise MachineryError('no exported source distinguishes the lexicographic order from the slip: the collect universe is too small')
    if not q:
        big = res(Family='"usage"', NP1=2, NP2=2, NP3=1, NG=2, MaxMainCalls=2, AllowRev='TRUE', MinArgs=0)
        g = ctx.cfg('Gen_Resolver', name='Gen_Resolver_big', constants=big)
        ctx.tlc('Gen_Resolver', g, capture='cases.ndjson', simulate=10000, depth=40, workers=w4, timeout=1500)
    sp = dict(NProc=2, MaxLen=2, MaxRuns=1, SharedCache='FALSE', ReuseInterp='FALSE', Rich='FALSE')
    g = ctx.cfg('Gen_SharedProgram', name='Gen_SharedProgram_2', constants=sp)
    ctx.tlc('Gen_SharedProgram', g, capture='cases.ndjson', timeout=1500, heap='8g')
    # three processes (one per execution interface), two executions each, richer instruction menu
    g = ctx.cfg('Gen_SharedProgram', name='Gen_SharedProgram_sim', constants=dict(sp, NProc=3, MaxLen=3, MaxRuns=2, Rich='TRUE'))
    ctx.tlc('Gen_SharedProgram', g, capture='cases.ndjson', simulate=(500 if q else 20000), depth=80, workers=w4, timeout=1500)
    ctx.cov['exhaustive'] = True
    ctx.replay('cases.ndjson', label='gen-c19', min_cases=1000, corrupt=corrupt)
    # the binding self-test again on the new families alone: sources with several collected errors; processes that
    # execute the program twice through the three interfaces
    for label, key in (('gen-c19-collect', '"fam":"collect"'), ('gen-c19-runs2', '"runs":2')):
        with open(ctx.path(f'cases_{label}.ndjson'), 'w') as f:
            for line in open(ctx.path('cases.ndjson')):
                if key in line:
                    f.write(line)
        ctx.selftest(ctx.path(f'cases_{label}.ndjson'), 'C19', corrupt, label)
    # ---- 3. code -> spec ----
    ntr = 40 if q else 600
    ctx.harness(['C19', 'record', '-seed', str(ctx.seed), '-n', str(ntr), '-out', ctx.path('trace.ndjson')])
    rejects = ctx.validate_traces('Trace_SharedProgram', 'Trace_SharedProgram', 'trace.ndjson', label='trace-shared',
                                  corrupt_event=corrupt_event, timeout=1500)
    for r in rejects:
        ev = r['trace'][r['pos']]
        info = r['info'] or {}
        if ev.get('op') == 'parses':
            kind = ev.get('varies') or 'varies'
            if kind.startswith('error-varies'):
                kind = 'error-varies/' + ('body-order' if info.get('modelErrors', 0) > 1 else 'unexplained')
            case = None
            if ev.get('hasprog'):
                rej = any(s.split(' ', 1)[1].startswith('parse error') for s in ev.get('samples', []))
                case = dict(fam='recorded', prog=ev['prog'], verdict='reject' if rej else 'accept', types=[], out=[],
                            norders=2, errs=[{'kind': 'none'}] * max(1, info.get('modelErrors', 0)))
            ctx.add_failure(f'C19/parse/{kind}', f'recorded: {ev["n"]} parses of source "{ev.get("name")}" gave {ev["distinct"]} outcomes',
                            case=case, expected='one outcome', observed=ev.get('samples'), program=ev.get('src'))
        else:
            what = 'program-modified' if (ev.get('before') != info.get('expected', {}).get('program')
                                          or ev.get('after') != info.get('expected', {}).get('program')) else 'result-differs'
            par = next((e for e in r['trace'] if e.get('op') == 'parse'), {})
            ctx.add_failure(f'C19/shared/{what}/recorded-{ev.get("phase")}-{ev.get("api")}',
                            f'recorded execution rejected by Trace_SharedProgram at event {r["line"]} (source "{par.get("name")}", '
                            f'execution {ev.get("proc")}, {ev.get("phase")}, through {ev.get("api")}, Funcs variant {ev.get("variant")})',
                            case=None, expected=info.get('expected'),
                            observed={k: ev.get(k) for k in ('api', 'variant', 'before', 'after', 'result')}, program=par.get('src'))
    # ---- 4. the recording again under the race detector (an instrument, not an oracle): quick = the fixed menu ----
    th.join()
    if 'err' in race:
        raise race['err']
    nrace = 0 if q else 150
    prefix = ctx.path('race')
    ctx.harness(['C19', 'record', '-seed', str(ctx.seed + 100), '-n', str(nrace), '-out', ctx.path('trace_race.ndjson')],
                binary=race['bin'], env={'GORACE': f'log_path={prefix} halt_on_error=0 exitcode=0'}, timeout=3000)
    reps = race_reports(prefix)
    nrec = sum(1 for line in open(ctx.path('trace_race.ndjson')) if '"op":"parse"' in line)
    ctx.cov['race_reports'] = len(reps)
    ctx.cov['race_detector_traces'] = nrec
    ctx.cov['evaluations'] += nrec
    for text, writers in reps:
        goawk = [w for w in writers if w.startswith('goawk:')]
        if not goawk:
            raise MachineryError('the race detector reported a race whose writing access is not in goawk code '
                                 f'({writers}); harness defect, not a verdict:\n' + text[:1500])
        ctx.add_failure(f'C19/race/{goawk[0][6:]}', 'data race: goawk code writes memory shared between executions '
                        'that run over one Program (race detector)', case=None,
                        expected='no unsynchronised access to shared memory', observed=text)
    ctx.log(f'race detector: {len(reps)} report(s) over {nrec} recorded traces')
