"""C19 -- parsing is deterministic; a parsed Program is immutable and shareable.

(a) determinism: the algorithmic layer of spec/Resolver.tla (MC_Resolver: DeterministicVerdict holds on every path
    through ChooseOrder; DeterministicError holds for sorted map iteration and is refuted for Go's map order --
    the candidate the replay then looks for); Gen_Resolver programs are parsed 50 times each.
(b) sharing: spec/SharedProgram.tla (MC_SharedProgram: Immutable, NoSharedWrite, NoForeignRead, Equivalent over all
    interleavings); Gen_SharedProgram interleavings are imposed on real interpreters one VM instruction at a time;
    Trace_SharedProgram validates recorded sequential and concurrent executions (digest of the Program before/after
    every Execute, result = result of running alone); thorough: the same recording under the race detector.
"""
import copy, glob, os, re
from vlib import MachineryError


def corrupt(case, rnd):
    c = copy.deepcopy(case)
    if c.get('fam') == 'shared':
        c['expect']['out'][rnd.randrange(len(c['expect']['out']))] += 1
        return c
    c['verdict'] = 'reject' if c['verdict'] == 'accept' else 'accept'
    return c


def corrupt_event(ev, rnd):
    e = copy.deepcopy(ev)
    if e.get('op') == 'exec':
        if rnd.random() < 0.5:
            e['after'] = e['after'][:-1] + ('0' if e['after'][-1] != '0' else '1')
        else:
            e['result'] = e['result'] + 'z'
        return e
    return None


RES = dict(NP1=1, NP2=1, NP3=9, NG=1, MaxMainCalls=1, AllowRev='FALSE', MinArgs=1, NFm=3)


def res(**kw):
    d = dict(RES)
    d.update(kw)
    return d


def expect_refuted(ctx, module, cfg, what, **kw):
    """A TLC run that must END with the named invariant violated (the model's own demonstration)."""
    r = ctx.tlc(module, cfg, allow_fail=True, **kw)
    log = open(r['log']).read()
    m = re.search(r'Invariant (\w+) is violated', log)
    if r['rc'] == 124:
        raise MachineryError(f'TLC timed out on {module}/{cfg}')
    if not m or m.group(1) not in what:
        tail = log[-2000:]
        raise MachineryError(f'{module}/{cfg}: expected TLC to refute {what}; it did not:\n{tail}')
    ctx.log(f'{module}/{cfg}: {m.group(1)} refuted by TLC, as expected')
    ctx.cov.setdefault('model_refutations', []).append({'cfg': cfg, 'invariant': m.group(1)})


def race_reports(prefix):
    """Parse the race detector's log files.  For every report: (text, writers) where writers lists, for each
    WRITE access of the report, the first frame of its stack that lies in the goawk module, tagged
    'goawk:<function>' or 'harness:<function>'."""
    out = []
    for path in glob.glob(prefix + '.*'):
        txt = open(path, errors='replace').read()
        for block in txt.split('==================')[1:]:
            if 'DATA RACE' not in block:
                continue
            writers = []
            for sec in re.split(r'\n\s*\n', block.replace('WARNING: DATA RACE', '')):
                head = sec.strip().split('\n', 1)[0]
                if not re.match(r'(Previous )?[Ww]rite at ', head):
                    continue
                frames = re.findall(r'^\s+(\S+)\(\)\s*$', sec, flags=re.M)
                mod = [f for f in frames if f.startswith('github.com/benhoyt/goawk/')]
                if not mod:
                    writers.append('other:' + (frames[0] if frames else '?'))
                elif '/verifharness/' in mod[0]:
                    writers.append('harness:' + mod[0])
                else:
                    writers.append('goawk:' + re.sub(r'^github.com/benhoyt/goawk/', '', mod[0]))
            out.append((block.strip()[:3000], writers))
    return out


def run(ctx):
    q = ctx.quick
    os.environ['_JAVA_OPTIONS'] = f'-XX:ParallelGCThreads={max(2, min(ctx.cores, 8))}'
    ctx.rule = ('a case is (a) one abstract program exported by TLC from Gen_Resolver (usage universe and programs with '
                'several independent type errors over 3-6 functions), rendered and parsed 50 times: verdict, error text and '
                'position, disassembly and compiled tables must be identical (non-trivial when the as-built model has more '
                'than one body order for it); (b) one complete interleaving of 2-3 interpreters over one shared program '
                'exported from Gen_SharedProgram and imposed on the real interpreters one VM instruction at a time '
                '(non-trivial with >= 2 interpreters and a non-empty body); or one recorded trace: a source parsed 50 times, '
                'then executed by 8 interpreters over one Program sequentially and from 8 goroutines')
    ctx.assumptions += [
        'the compiled program is observed through Program.Disassemble and the exported tables of Program.Compiled '
        '(Begin, Actions, End, Functions, Nums, Strs, Regexes)',
        'immutability is observed through a structural digest of everything reachable from *parser.Program by reflection '
        '(unexported fields included; a *regexp.Regexp is represented by its source), taken before and after every Execute',
        'imposed interleavings switch between interpreters at VM-instruction boundaries only (verif step hook); finer '
        'interleavings are left to the concurrent recording and, in the thorough tier, to the race detector',
        'the SharedProgram model abstracts the instruction set to set/add/match/call/print over two globals',
    ]
    ctx.build()
    w4 = min(4, ctx.cores)
    # ---- 1. models ----
    # (a) determinism of the inference on every path through ChooseOrder
    inv_det = 'INVARIANTS InPrecondition ExactInv SoundInv PassBoundInv OrdersOK RunAgrees DeterministicVerdict'
    for nm, consts in (('multi', res(Family='"multi"', NFm=3, MapOrder='"any"')),
                       ('usage', res(Family='"usage"', MapOrder='"any"'))):
        if nm == 'usage' and q:
            continue         # C16 checks the usage universe; thorough repeats it here with the determinism invariants
        c = ctx.cfg('MC_Resolver', name=f'MC_Resolver_det_{nm}', constants=consts, drop=['INVARIANTS'], add=inv_det)
        ctx.tlc('MC_Resolver', c, timeout=1500, heap='8g')
    # message and position: deterministic when map iteration is sorted (the proposed patch) ...
    c = ctx.cfg('MC_Resolver', name='MC_Resolver_sorted', constants=res(Family='"multi"', NFm=3, MapOrder='"sorted"'),
                drop=['INVARIANTS'], add='INVARIANTS ExactInv DeterministicVerdict DeterministicError')
    ctx.tlc('MC_Resolver', c, timeout=1500)
    # ... and NOT as built: TLC exhibits two paths with different first errors (a candidate, confirmed or not by replay)
    c = ctx.cfg('MC_Resolver', name='MC_Resolver_asbuilt', constants=res(Family='"multi"', NFm=3, MapOrder='"any"'),
                drop=['INVARIANTS'], add='INVARIANTS DeterministicError')
    expect_refuted(ctx, 'MC_Resolver', c, ('DeterministicError',), timeout=900)
    # (b) sharing
    c = ctx.cfg('MC_SharedProgram', name='MC_SharedProgram_ok', constants=dict(NProc=2 if q else 3, MaxLen=2, SharedCache='FALSE'))
    ctx.tlc('MC_SharedProgram', c, timeout=1500, heap='8g')
    if not q:
        c = ctx.cfg('MC_SharedProgram', name='MC_SharedProgram_l3', constants=dict(NProc=2, MaxLen=3, SharedCache='FALSE'))
        ctx.tlc('MC_SharedProgram', c, timeout=1500, heap='8g')
    c = ctx.cfg('MC_SharedProgram', name='MC_SharedProgram_cache', constants=dict(NProc=2, MaxLen=2, SharedCache='TRUE'))
    expect_refuted(ctx, 'MC_SharedProgram', c, ('NoSharedWrite', 'Equivalent', 'NoForeignRead'), timeout=900)
    # ---- 2. spec -> code ----
    g = ctx.cfg('Gen_Resolver', name='Gen_Resolver_multi3', constants=res(Family='"multi"', NFm=3))
    ctx.tlc('Gen_Resolver', g, capture='cases.ndjson', timeout=900)
    g = ctx.cfg('Gen_Resolver', name='Gen_Resolver_multi6', constants=res(Family='"multi"', NFm=6))
    ctx.tlc('Gen_Resolver', g, capture='cases.ndjson', simulate=(250 if q else 1000), depth=12, workers=w4, timeout=1500)
    g = ctx.cfg('Gen_Resolver', name='Gen_Resolver_usage', constants=res(Family='"usage"', NG=1 if q else 2))
    ctx.tlc('Gen_Resolver', g, capture='cases.ndjson', timeout=1500, heap='8g')
    if not q:
        big = res(Family='"usage"', NP1=2, NP2=2, NP3=1, NG=2, MaxMainCalls=2, AllowRev='TRUE', MinArgs=0)
        g = ctx.cfg('Gen_Resolver', name='Gen_Resolver_big', constants=big)
        ctx.tlc('Gen_Resolver', g, capture='cases.ndjson', simulate=10000, depth=40, workers=w4, timeout=1500)
    g = ctx.cfg('Gen_SharedProgram', name='Gen_SharedProgram_2', constants=dict(NProc=2, MaxLen=2, SharedCache='FALSE', Rich='FALSE'))
    ctx.tlc('Gen_SharedProgram', g, capture='cases.ndjson', timeout=1500, heap='8g')
    g = ctx.cfg('Gen_SharedProgram', name='Gen_SharedProgram_sim', constants=dict(NProc=3, MaxLen=3, SharedCache='FALSE', Rich='TRUE'))
    ctx.tlc('Gen_SharedProgram', g, capture='cases.ndjson', simulate=(500 if q else 20000), depth=40, workers=w4, timeout=1500)
    ctx.cov['exhaustive'] = True
    ctx.replay('cases.ndjson', label='gen-c19', min_cases=1000, corrupt=corrupt)
    # ---- 3. code -> spec ----
    ntr = 40 if q else 600
    ctx.harness(['C19', 'record', '-seed', str(ctx.seed), '-n', str(ntr), '-out', ctx.path('trace.ndjson')])
    rejects = ctx.validate_traces('Trace_SharedProgram', 'Trace_SharedProgram', 'trace.ndjson', label='trace-shared',
                                  corrupt_event=corrupt_event, timeout=1500)
    for r in rejects:
        ev = r['trace'][r['pos']]
        info = r['info'] or {}
        if ev.get('op') == 'parses':
            kind = ev.get('varies') or 'varies'
            if kind.startswith('error-varies'):
                kind = 'error-varies/' + ('body-order' if info.get('modelErrors', 0) > 1 else 'unexplained')
            case = None
            if ev.get('hasprog'):
                rej = any(s.split(' ', 1)[1].startswith('parse error') for s in ev.get('samples', []))
                case = dict(fam='recorded', prog=ev['prog'], verdict='reject' if rej else 'accept', types=[], out=[],
                            norders=2, errs=[{'kind': 'none'}] * max(1, info.get('modelErrors', 0)))
            ctx.add_failure(f'C19/parse/{kind}', f'recorded: {ev["n"]} parses of source "{ev.get("name")}" gave {ev["distinct"]} outcomes',
                            case=case, expected='one outcome', observed=ev.get('samples'), program=ev.get('src'))
        else:
            what = 'program-modified' if (ev.get('before') != info.get('expected', {}).get('program')
                                          or ev.get('after') != info.get('expected', {}).get('program')) else 'result-differs'
            src = next((e.get('src') for e in r['trace'] if e.get('op') == 'parse'), None)
            ctx.add_failure(f'C19/shared/{what}/recorded-{ev.get("phase")}',
                            f'recorded execution rejected by Trace_SharedProgram at event {r["line"]} (interpreter {ev.get("proc")}, {ev.get("phase")})',
                            case=None, expected=info.get('expected'), observed={k: ev.get(k) for k in ('before', 'after', 'result')},
                            program=src)
    # ---- 4. thorough: the recording again under the race detector (an instrument, not an oracle) ----
    if not q:
        rb = ctx.build(race=True, name='vreplay_race')
        prefix = ctx.path('race')
        ctx.harness(['C19', 'record', '-seed', str(ctx.seed + 100), '-n', '150', '-out', ctx.path('trace_race.ndjson')],
                    binary=rb, env={'GORACE': f'log_path={prefix} halt_on_error=0 exitcode=0'}, timeout=3000)
        reps = race_reports(prefix)
        ctx.cov['race_reports'] = len(reps)
        ctx.cov['evaluations'] += 150
        for text, writers in reps:
            goawk = [w for w in writers if w.startswith('goawk:')]
            if not goawk:
                raise MachineryError('the race detector reported a race whose writing access is not in goawk code '
                                     f'({writers}); harness defect, not a verdict:\n' + text[:1500])
            ctx.add_failure(f'C19/race/{goawk[0][6:]}', 'data race: goawk code writes memory shared between interpreters '
                            'that run over one Program (race detector)', case=None,
                            expected='no unsynchronised access to shared memory', observed=text)
        ctx.log(f'race detector: {len(reps)} report(s) over 150 recorded traces')
