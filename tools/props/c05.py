"""C05 -- number/string conversion and comparison typing follow the AWK value model.

spec/Values.tla (value tags, the whole-string numeric test and the numeric-prefix automaton as two separate
routines, comparison, truth, number->string through CONVFMT/OFMT on exact decimals), ValuesCases.tla (families),
MC_Values (consistency of the two routines over all strings; laws of the six operators over all pairs),
Gen_Values (exported predictions replayed by probe programs), Trace_Values (observations recorded from the real
interpreter on longer random strings, validated by TLC).
"""
import copy
from vlib import MachineryError


def corrupt(case, rnd):
    c = copy.deepcopy(case)
    if c['fam'] == 's':
        preds = [c['main']] + c['alts']
        if any(p['sn']['not'] < 0 for p in preds):
            return None
        for p in preds:
            p['sn']['not'] = 1 - p['sn']['not']
        return c
    if c['fam'] == 'p':
        preds = [c['main']] + c['alts']
        if any(p['ops'][2] < 0 for p in preds):
            return None
        for p in preds:
            p['ops'][2] = 1 - p['ops'][2]
            p['ops'][3] = 1 - p['ops'][3]
        return c
    if c['fam'] == 'v':
        if any(x < 0 for x in c['prt']):
            return None
        c['prt'] = c['prt'] + [48]
        return c
    if c['fam'] == 'c':
        # the harness checks the law on the string itself: corrupt the string into one that is not a number at all,
        # for which v == v+0 cannot hold as a numeric comparison
        c['s'] = c['s'] + [120]
        return c
    return None


CF_TEXTS = ['%.6g', '%.1g', '%.1f', '%.2e', '%.10g', '%.0f']    # spec/ValuesCases.tla CFs


def corrupt_event(ev, rnd):
    e = copy.deepcopy(ev)
    if 'obs' not in e:
        return None
    e['obs']['not'] = 1 - e['obs']['not']
    return e


def trace_selftest(ctx, module, events, rejected_lines, label, corrupt_ev):
    """Binding demonstration for the trace direction (vlib only runs its own when nothing was rejected)."""
    import json, random
    rnd = random.Random(ctx.seed)
    cand = [i for i, e in enumerate(events) if e.get('ev') == 'step' and (i + 1) not in rejected_lines]
    rnd.shuffle(cand)
    for i in cand[:50]:
        ev2 = corrupt_ev(events[i], rnd)
        if ev2 is None:
            continue
        lo = i
        while lo > 0 and events[lo].get('ev') != 'reset':
            lo -= 1
        hi = i + 1
        while hi < len(events) and events[hi].get('ev') != 'reset':
            hi += 1
        bad = ctx.path(f'bad_{label}.ndjson')
        with open(bad, 'w') as f:
            for j in range(lo, hi):
                f.write(json.dumps(ev2 if j == i else events[j], separators=(',', ':')) + '\n')
        rej = ctx._run_trace(module, module, bad, label + '-selftest', 600, False)
        if not any(r['reject'] == i - lo + 1 for r in rej):
            raise MachineryError(f'{label}: binding self-test failed: corrupted event {i + 1} was accepted')
        ctx.cov.setdefault('selftest', []).append({'label': label, 'corrupted_event': i + 1, 'rejected': True})
        ctx.log(f'{label}: binding self-test ok (corrupted event {i + 1} rejected)')
        return
    raise MachineryError(f'{label}: self-test could not corrupt any event')


def gate(ctx, label):
    bad = {k: v for k, v in ctx.sig_counts.items() if k.startswith('SPEC-GATE')}
    if bad:
        f = [x for x in ctx.failures if x['sig'].startswith('SPEC-GATE')][0]
        raise MachineryError(f'{label}: the specification disagrees with the independent reference (a defect of the '
                             f'SPECIFICATION, not a verdict on the code): {bad}; first: {f["what"]}')


def run(ctx):
    q = ctx.quick
    ctx.rule = ('a case is (s) one string over the 18-symbol numeric alphabet {0 1 9 . e E + - space tab x a n i f p NBSP _} '
                'probed in 12 provenances with ==, <, > against 8 comparators, !v, v+0, v "" and print v; (p) one ordered '
                'pair of the 78-value set (null / numbers / string constants / input strings) under the six operators in '
                'expression, branch and loop position; (v) one number converted through CONVFMT and OFMT; all exported by '
                'TLC from Gen_Values with the predicted observables. Distinct by content; non-trivial when the string '
                'looks numeric in some dialect or has a non-zero numeric prefix / the pair mixes tags or involves input '
                'text / the number is non-integral or beyond 9 digits')
    ctx.assumptions += [
        'numbers of the specification are exact decimals of at most 15 significant digits, a table of integers that are '
        'exactly float64 values (2^53-1, 2^53, 2^53+2, 2^62, 2^63-1024, 2^63, 2^64) and +-inf/nan; everything else '
        '(magnitudes within 10 decades of the float64 limits, rounding ties on inexact values) is Unmodelled and not judged',
        'on the forms POSIX leaves open (0x.. hexadecimal, inf/nan spellings, non-ASCII blanks) the real code must agree '
        'with one of the 2^3 self-consistent dialects of the specification: only the consistency between the whole-string '
        'test and the prefix conversion is judged there',
        'string comparison is bytewise (POSIX locale); the textual form of non-finite numbers is not judged',
        'sanity gate: the specification\'s LooksNumeric / PrefixValue / number formatting are compared with a regexp+strconv '
        'reference on every exported case; a disagreement stops the check with exit 2',
    ]
    ctx.build()
    # 1. the model: consistency of the two routines, operator laws
    mc = ctx.cfg('MC_Values', constants={'MaxLen': 3 if q else 4})
    ctx.tlc('MC_Values', mc, timeout=1500, heap='8g')
    # 2. spec -> code
    if q:
        gen = ctx.cfg('Gen_Values', constants={'MaxLen': 4, 'FullLen': 3, 'NStrata': 18, 'Stratum': ctx.seed % 18})
    else:
        gen = ctx.cfg('Gen_Values', constants={'MaxLen': 5, 'FullLen': 4, 'NStrata': 12, 'Stratum': ctx.seed % 12})
    ctx.tlc('Gen_Values', gen, capture='cases.ndjson', timeout=3000, heap='8g')
    ctx.cov['exhaustive'] = True
    ctx.replay('cases.ndjson', label='gen-values', min_cases=5000, corrupt=corrupt)
    gate(ctx, 'gen-values')
    # 3. code -> spec: observations recorded from the real interpreter on longer random strings, validated by TLC
    ntr = 150 if q else 1500
    ctx.harness(['C05', 'record', '-seed', str(ctx.seed), '-n', str(ntr), '-out', ctx.path('trace.ndjson')])
    rejects = ctx.validate_traces('Trace_Values', 'Trace_Values', 'trace.ndjson', label='trace-values', timeout=1500,
                                  corrupt_event=corrupt_event)
    names = {'sn': 'strnum', 'st': 'str', 'nm': 'num'}
    if rejects:
        import json
        events = [json.loads(x) for x in open(ctx.path('trace.ndjson')) if x.strip()]
        trace_selftest(ctx, 'Trace_Values', events, {r['line'] for r in rejects}, 'trace-values', corrupt_event)
    for r in rejects:
        ev = r['trace'][r['pos']]
        info = r['info']
        case = dict(fam='t', s=ev['s'], cls=info['cls'], cf=list(CF_TEXTS[ev['cfi'] - 1].encode()),
                    of=list(CF_TEXTS[ev['ofi'] - 1].encode()), expected=info['expected'])
        case['class'] = ev['class']
        ctx.add_failure(f"C05/{names[ev['class']]}/recorded/{info['cls']}",
                        f"observation recorded from the real interpreter for {bytes(ev['s'])!r} ({', '.join(ev['provs'])}) is not "
                        f"explained by any consistent dialect of the specification",
                        case=case, expected=info['expected'], observed=ev['obs'])
