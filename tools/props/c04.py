"""C04 -- expressions group by the POSIX AWK precedence and associativity table.

spec/Grammar.tla: the table as data, expression trees, the printers MinParen / FullParen and a strict
operator-precedence parser written from the table alone as a shift/reduce machine.
MC_Grammar: TLC explores the machine on both printed texts of every enumerated tree x context and checks
Parse(MinParen(t, ctx), ctx) = t and Parse(FullParen(t), ctx) = t.
Gen_Grammar: every tree (<= MaxOps operators, derivation by derivation) x context is exported with both texts
and the S-expression the table prescribes; the real parser must produce that tree from both texts.
Trace_Grammar: expressions the real parser/printer produced from a corpus are validated by the spec's parser.
"""
import copy, json, os

ALL_PRODS = ['name', 'num', 'str', 're', 'grp', 'field', 'idx', 'call', 'u-', 'u+', 'u!', 'in', 'pget', 'pgetv', 'fget',
             'fgetv', 'post++', 'post--', 'pre++', 'pre--', 'get', 'getv', '||', '&&', '~', '!~', '<', '<=', '!=', '==', '>',
             '>=', 'cat', '+', '-', '*', '/', '%', '^', '=', '+=', '?:', 'lfield', 'lidx']
MORE_ASG = ['-=', '*=', '/=', '%=', '^=']
# the productions whose spellings can fuse into other tokens when they meet
SIGN_PRODS = ['name', 'num', 'field', 'u-', 'u+', 'u!', 'pre++', 'pre--', 'post++', 'post--', '^', '-', '+']


def tla_set(xs):
    return '{' + ', '.join('"' + x + '"' for x in xs) + '}'


def corrupt(case, rnd):
    """Corrupt the predicted tree: regroup by renaming the first operand in the expected S-expression."""
    c = copy.deepcopy(case)
    sx = c.get('sx')
    if not sx:
        return None
    for old in (' a', ' 1', ' "a"', ' /a/', '(get _', '(get tgt'):
        if old in sx:
            c['sx'] = sx.replace(old, old + 'q', 1)
            return c
    c['sx'] = sx + 'q'
    return c


def corrupt_event(ev, rnd):
    """Corrupt the recorded observation of one event (the real tree / the real value)."""
    e = copy.deepcopy(ev)
    if e.get('ev') != 'step':
        return None
    if e.get('kind') == 'expr':
        e['sx'] = e['sx'] + 'q'
    else:
        e['val'] = e['val'] + [122]
    return e


def run(ctx):
    q = ctx.quick
    ctx.rule = ('a case is one expression tree (derivation over the operators = += ?: || && in ~ !~ < <= != == > >= '
                'concatenation + - * / % unary + - ! ^ pre/post ++ -- $ grouping, array index, builtin call, and the getline '
                'forms) in one of the contexts statement / print argument / print argument followed by > dest or by | cmd / pattern / '
                'if-condition, exported by TLC from Gen_Grammar with the minimally and the fully parenthesised text; '
                'distinct by content; non-trivial when the tree has at least two operators')
    ctx.assumptions += [
        'the judged language is the STRICT one: a text is judged only when the POSIX table alone determines its tree; forms '
        'that awks accept through yacc shift preferences ($-1, a !b, a ++b, a ? b : c = d, !x = y, 1 && x = 1, $$i++, '
        'a < b | getline, x = "c" | getline, unparenthesised relational operators and getline in a print argument (also inside '
        'a subscript there: print B[a > b]), '
        'getline < non-primary) are never generated unparenthesised',
        'operands are names, numbers 1-9, short strings and regexes, arr[i], length(e); getline targets are plain names',
        'both texts are parsed inside one minimal program per context; other statement-level contexts are not covered',
    ]
    ctx.build()
    prods = tla_set(ALL_PRODS)
    # 1. the model: the shift/reduce machine returns the printed tree on both printed texts
    if q:
        mc = ctx.cfg('MC_Grammar', constants={'MaxOps': 2, 'MaxOdd': 0, 'Prods': prods, 'Ctxs': '{"stmt", "printgt", "cond"}'})
    else:
        mc = ctx.cfg('MC_Grammar', constants={'MaxOps': 2, 'MaxOdd': 1, 'Prods': tla_set(ALL_PRODS + MORE_ASG)})
    ctx.tlc('MC_Grammar', mc, timeout=1500, heap='8g')
    # 2. spec -> code
    if q:
        gen = ctx.cfg('Gen_Grammar', constants={'MaxOps': 2, 'MaxOdd': 1, 'Prods': prods, 'OddCtxs': '{"stmt", "printgt"}'})
        ctx.tlc('Gen_Grammar', gen, capture='cases.ndjson', timeout=600)
        ctx.cov['exhaustive'] = True
        mincases = 25000
    else:
        gen = ctx.cfg('Gen_Grammar', constants={'MaxOps': 2, 'MaxOdd': 2, 'Prods': tla_set(ALL_PRODS + MORE_ASG)})
        ctx.tlc('Gen_Grammar', gen, capture='cases.ndjson', timeout=1500, heap='8g')
        gen3 = ctx.cfg('Gen_Grammar', name='Gen_Grammar_3', constants={'MaxOps': 3, 'MaxOdd': 0, 'MinLen': 6, 'Prods': prods,
                                                                       'Ctxs': '{"stmt", "printgt", "printpipe", "cond"}'})
        ctx.tlc('Gen_Grammar', gen3, capture='cases.ndjson', timeout=2400, heap='10g')
        sim = ctx.cfg('Gen_Grammar', name='Gen_Grammar_sim', constants={'MaxOps': 6, 'MaxOdd': 3, 'Prods': tla_set(ALL_PRODS + MORE_ASG)})
        ctx.tlc('Gen_Grammar', sim, capture='cases.ndjson', simulate=12000, depth=30, workers=4, timeout=900)
        ctx.cov['exhaustive'] = True
        mincases = 300000
    gsign = ctx.cfg('Gen_Grammar', name='Gen_Grammar_sign', constants={
        'MaxOps': 3 if q else 4, 'MaxOdd': 0, 'Prods': tla_set(SIGN_PRODS), 'Ctxs': '{"stmt", "print", "cond"}', 'OddCtxs': '{"stmt"}'})
    ctx.tlc('Gen_Grammar', gsign, capture='cases.ndjson', timeout=1500, heap='8g')
    # a unary operator directly after ^ * / % + -: outside the strict parser's language, but the table (unary binds looser than ^,
    # tighter than * / % + -) still prescribes the tree; Gen_GrammarExtra checks each prescribed tree with the spec's parser
    gx = ctx.cfg('Gen_GrammarExtra', constants={'Ctxs': '{"stmt", "print", "pat", "cond"}'})
    ctx.tlc('Gen_GrammarExtra', gx, capture='cases.ndjson', timeout=600)
    ctx.replay('cases.ndjson', label='gen-grammar', min_cases=mincases, corrupt=corrupt)
    # 3. code -> spec: expressions of the corpus as parsed and printed by the real code, validated by the spec's parser
    trace_direction(ctx, 'C04')


def trace_direction(ctx, pid, literals=False):
    """Shared by C04 and C20 (code -> spec).  Records (tokens of the text the real printer emits, real tree) for the
    statement-level expressions of the corpus and, for C20, (printed literal, value) pairs; Trace_Grammar reads them
    with the specification's parser / lexical rules.  The binding self-test is planted in the same log: corrupted
    copies of recorded events, each a trace of its own, must be rejected."""
    import glob, random
    from vlib import MachineryError
    n = 1500 if ctx.quick else 100000
    env = {'VERIF_REPO_DIR': os.environ.get('VERIF_REPO', '/repo')}
    ctx.harness(['C04', 'record', '-seed', str(ctx.seed), '-n', str(n), '-out', ctx.path('trace_expr.ndjson')], env=env)
    events = [json.loads(x) for x in open(ctx.path('trace_expr.ndjson')) if x.strip()]
    if literals:
        ctx.harness(['C20', 'record', '-seed', str(ctx.seed), '-n', str(600 if ctx.quick else 6000), '-out',
                     ctx.path('trace_lit.ndjson')], env=env)
        events += [json.loads(x) for x in open(ctx.path('trace_lit.ndjson')) if x.strip()]
    nreal = len(events)
    rnd = random.Random(ctx.seed)
    steps = [e for e in events if e.get('ev') == 'step']
    planted = {}
    for e in rnd.sample(steps, min(16, len(steps))):
        events.append({'ev': 'reset'})
        events.append(corrupt_event(e, rnd))
        planted[len(events)] = e          # 1-based line of the planted event
    with open(ctx.path('trace.ndjson'), 'w') as f:
        for e in events:
            f.write(json.dumps(e, separators=(',', ':')) + '\n')
    rejects = ctx.validate_traces('Trace_Grammar', 'Trace_Grammar', 'trace.ndjson', label='trace-grammar',
                                  selftest=False, timeout=1200)
    unjudged, judged = set(), 0
    for cap in glob.glob(ctx.path('rejects_trace-grammar_*.ndjson')):
        for line in open(cap):
            o = json.loads(line)
            if 'unjudged' in o:
                unjudged.add(o['unjudged'])
            if 'judged' in o:
                judged = o['judged']
    planted_judged = [k for k in planted if k not in unjudged]
    planted_rejected = [r for r in rejects if r['line'] in planted]
    real_rejects = [r for r in rejects if r['line'] <= nreal]
    judged -= len(planted_judged)
    ctx.cov['traces_validated_against_impl'] -= len(planted) - len(planted_rejected)
    ctx.cov['evaluations'] -= len(planted)
    ctx.cov['trace_events_judged'] = judged
    ctx.cov['trace_events_outside_judged_language'] = len([k for k in unjudged if k <= nreal])
    ctx.log(f'trace-grammar: {judged} recorded events judged by the specification, '
            f'{ctx.cov["trace_events_outside_judged_language"]} outside the judged language, {len(real_rejects)} rejected')
    if judged < 100:
        raise MachineryError(f'trace-grammar: only {judged} recorded events were judged')
    if not planted_judged:
        raise MachineryError('trace-grammar: self-test could not corrupt any judged event')
    if len(planted_rejected) != len(planted_judged):
        raise MachineryError(f'trace-grammar: binding self-test failed: {len(planted_judged)} corrupted observations, '
                             f'only {len(planted_rejected)} rejected')
    ctx.cov.setdefault('selftest', []).append({'label': 'trace-grammar', 'corrupted': len(planted_judged),
                                               'rejected': len(planted_rejected)})
    ctx.log(f'trace-grammar: binding self-test ok ({len(planted_rejected)}/{len(planted_judged)} corrupted observations rejected)')
    # a reject is only a candidate: the replayer must reproduce the disagreement on the real code
    if real_rejects:
        cf = ctx.path('tracecheck.ndjson')
        with open(cf, 'w') as f:
            for r in real_rejects:
                ev = r['trace'][r['pos']]
                if ev.get('kind') == 'expr':
                    case = dict(fam='tracecheck', ctx=ev['ctx'], toks=ev['toks'], sx=ev['sx'], spec=r['info'].get('sx'),
                                src=ev.get('src'), printed=ev.get('printed'), rsx=ev.get('rsx'))
                else:
                    case = dict(fam='littrace', kind=ev['kind'], lit=ev['lit'], val=ev['val'], spec=r['info'].get('val'),
                                src=ev.get('src'))
                f.write(json.dumps(case, separators=(',', ':')) + '\n')
        out = ctx.path('tracecheck.json')
        ctx.harness([pid, 'replay', '-in', cf, '-out', out, '-maxfail', '5'])
        s = json.load(open(out))
        for f in s['failures']:
            ctx.failures.append(f)
        for k, v in s['sig_counts'].items():
            ctx.sig_counts[k] = ctx.sig_counts.get(k, 0) + v
        ctx.notes.append(f'{len(real_rejects)} recorded events rejected by Trace_Grammar; '
                         f'{sum(s["sig_counts"].values())} of them reproduced on the real code as {pid} failures '
                         f'(the others concern the sibling property or the lexer)')
