"""C04 -- expressions group by the POSIX AWK precedence and associativity table.

spec/Grammar.tla: the table as data, expression trees, the printers MinParen / FullParen and a strict
operator-precedence parser written from the table alone as a shift/reduce machine.
MC_Grammar: TLC explores the machine on both printed texts of every enumerated tree x context and checks
Parse(MinParen(t, ctx), ctx) = t and Parse(FullParen(t), ctx) = t.
Gen_Grammar: every tree (<= MaxOps operators, derivation by derivation) x context is exported with both texts
and the S-expression the table prescribes; the real parser must produce that tree from both texts.
Trace_Grammar: expressions the real parser/printer produced from a corpus are validated by the spec's parser.
"""
import copy, json, os

ALL_PRODS = ['name', 'num', 'str', 're', 'grp', 'field', 'idx', 'call', 'u-', 'u+', 'u!', 'in', 'pget', 'pgetv', 'fget',
             'fgetv', 'post++', 'post--', 'pre++', 'pre--', 'get', 'getv', '||', '&&', '~', '!~', '<', '<=', '!=', '==', '>',
             '>=', 'cat', '+', '-', '*', '/', '%', '^', '=', '+=', '?:', 'lfield', 'lidx']
MORE_ASG = ['-=', '*=', '/=', '%=', '^=']


def tla_set(xs):
    return '{' + ', '.join('"' + x + '"' for x in xs) + '}'


def corrupt(case, rnd):
    """Corrupt the predicted tree: regroup by renaming the first operand in the expected S-expression."""
    c = copy.deepcopy(case)
    sx = c.get('sx')
    if not sx:
        return None
    for old in (' a', ' 1', ' "a"', ' /a/', '(get _', '(get tgt'):
        if old in sx:
            c['sx'] = sx.replace(old, old + 'q', 1)
            return c
    c['sx'] = sx + 'q'
    return c


def corrupt_event(ev, rnd):
    e = copy.deepcopy(ev)
    if e.get('ev') != 'step':
        return None
    e['sx'] = e['sx'] + 'q'
    return e


def run(ctx):
    q = ctx.quick
    ctx.rule = ('a case is one expression tree (derivation over the operators = += ?: || && in ~ !~ < <= != == > >= '
                'concatenation + - * / % unary + - ! ^ pre/post ++ -- $ grouping, array index, builtin call, and the getline '
                'forms) in one of the contexts statement / print argument / print argument followed by > dest / pattern / '
                'if-condition, exported by TLC from Gen_Grammar with the minimally and the fully parenthesised text; '
                'distinct by content; non-trivial when the tree has at least two operators')
    ctx.assumptions += [
        'the judged language is the STRICT one: a text is judged only when the POSIX table alone determines its tree; forms '
        'that awks accept through yacc shift preferences (2 ^ -x, $-1, a !b, a ++b, a ? b : c = d, !x = y, 1 && x = 1, $$i++, '
        'a < b | getline, x = "c" | getline, unparenthesised relational operators and getline in a print argument, '
        'getline < non-primary) are never generated unparenthesised',
        'operands are names, numbers 1-9, short strings and regexes, arr[i], length(e); getline targets are plain names',
        'both texts are parsed inside one minimal program per context; other statement-level contexts are not covered',
    ]
    ctx.build()
    prods = tla_set(ALL_PRODS)
    # 1. the model: the shift/reduce machine returns the printed tree on both printed texts
    if q:
        mc = ctx.cfg('MC_Grammar', constants={'MaxOps': 2, 'MaxOdd': 0, 'Prods': prods})
    else:
        mc = ctx.cfg('MC_Grammar', constants={'MaxOps': 2, 'MaxOdd': 1, 'Prods': tla_set(ALL_PRODS + MORE_ASG)})
    ctx.tlc('MC_Grammar', mc, timeout=1500, heap='8g')
    # 2. spec -> code
    if q:
        gen = ctx.cfg('Gen_Grammar', constants={'MaxOps': 2, 'MaxOdd': 1, 'Prods': prods})
        ctx.tlc('Gen_Grammar', gen, capture='cases.ndjson', timeout=600)
        ctx.cov['exhaustive'] = True
        mincases = 50000
    else:
        gen = ctx.cfg('Gen_Grammar', constants={'MaxOps': 2, 'MaxOdd': 3, 'Prods': tla_set(ALL_PRODS + MORE_ASG)})
        ctx.tlc('Gen_Grammar', gen, capture='cases.ndjson', timeout=1500, heap='8g')
        gen3 = ctx.cfg('Gen_Grammar', name='Gen_Grammar_3', constants={'MaxOps': 3, 'MaxOdd': 0, 'MinLen': 6, 'Prods': prods})
        ctx.tlc('Gen_Grammar', gen3, capture='cases.ndjson', timeout=2400, heap='10g')
        sim = ctx.cfg('Gen_Grammar', name='Gen_Grammar_sim', constants={'MaxOps': 6, 'MaxOdd': 3, 'Prods': tla_set(ALL_PRODS + MORE_ASG)})
        ctx.tlc('Gen_Grammar', sim, capture='cases.ndjson', simulate=12000, depth=30, workers=4, timeout=900)
        ctx.cov['exhaustive'] = True
        mincases = 300000
    ctx.replay('cases.ndjson', label='gen-grammar', min_cases=mincases, corrupt=corrupt)
    # 3. code -> spec: expressions of the corpus as parsed and printed by the real code, validated by the spec's parser
    trace_direction(ctx, 'C04')


def trace_direction(ctx, pid):
    """Shared by C04 and C20: record (tokens of the text the real printer emits, real tree) for the statement-level
    expressions of the corpus and let the specification's parser read them (Trace_Grammar)."""
    import glob
    from vlib import MachineryError
    n = 1500 if ctx.quick else 100000
    ctx.harness(['C04', 'record', '-seed', str(ctx.seed), '-n', str(n), '-out', ctx.path('trace.ndjson')],
                env={'VERIF_REPO_DIR': os.environ.get('VERIF_REPO', '/repo')})
    rejects = ctx.validate_traces('Trace_Grammar', 'Trace_Grammar', 'trace.ndjson', label='trace-grammar',
                                  selftest=False, timeout=1200)
    events = [json.loads(x) for x in open(ctx.path('trace.ndjson')) if x.strip()]
    unjudged, judged = set(), 0
    for cap in glob.glob(ctx.path('rejects_trace-grammar_*.ndjson')):
        for line in open(cap):
            o = json.loads(line)
            if 'unjudged' in o:
                unjudged.add(o['unjudged'])
            if 'judged' in o:
                judged = o['judged']
    ctx.cov['trace_expressions_judged'] = judged
    ctx.cov['trace_expressions_outside_strict_language'] = len(unjudged)
    ctx.log(f'trace-grammar: {judged} recorded expressions inside the strict language judged, {len(unjudged)} outside it')
    if judged < 100:
        raise MachineryError(f'trace-grammar: only {judged} recorded expressions were judged')
    # binding self-test: corrupt the recorded tree of one judged expression; TLC must reject exactly there
    rejected_lines = {r['line'] for r in rejects}
    rnd = __import__('random').Random(ctx.seed)
    cand = [i for i, e in enumerate(events) if e.get('ev') == 'step' and (i + 1) not in unjudged and (i + 1) not in rejected_lines]
    # events after a rejected one in the same trace were skipped by TLC: keep to traces without rejects
    bad_traces = set()
    for r in rejects:
        bad_traces.add(id(r['trace']))
    rnd.shuffle(cand)
    done = False
    for i in cand[:20]:
        lo = i
        while lo > 0 and events[lo].get('ev') != 'reset':
            lo -= 1
        hi = i
        while hi < len(events) and events[hi].get('ev') != 'reset':
            hi += 1
        if any((j + 1) in rejected_lines for j in range(lo, hi)):
            continue
        ev2 = corrupt_event(events[i], rnd)
        bad = ctx.path('bad_trace-grammar.ndjson')
        with open(bad, 'w') as f:
            for j, e in enumerate(events):
                f.write(json.dumps(ev2 if j == i else e, separators=(',', ':')) + '\n')
        rej = ctx._run_trace('Trace_Grammar', 'Trace_Grammar', bad, 'trace-grammar-selftest', 1200, False)
        if not any(r['reject'] == i + 1 for r in rej):
            raise MachineryError(f'trace-grammar: binding self-test failed: corrupted event {i + 1} was accepted')
        ctx.cov.setdefault('selftest', []).append({'label': 'trace-grammar', 'corrupted_event': i + 1, 'rejected': True})
        ctx.log(f'trace-grammar: binding self-test ok (corrupted event {i + 1} rejected)')
        done = True
        break
    if not done:
        raise MachineryError('trace-grammar: self-test could not corrupt any event')
    # a reject is only a candidate: the replayer must reproduce the disagreement on the real code
    if rejects:
        cf = ctx.path('tracecheck.ndjson')
        with open(cf, 'w') as f:
            for r in rejects:
                ev = r['trace'][r['pos']]
                case = dict(fam='tracecheck', ctx=ev['ctx'], toks=ev['toks'], sx=ev['sx'], spec=r['info'].get('sx'),
                            src=ev.get('src'), printed=ev.get('printed'), rsx=ev.get('rsx'))
                f.write(json.dumps(case, separators=(',', ':')) + '\n')
        out = ctx.path('tracecheck.json')
        ctx.harness([pid, 'replay', '-in', cf, '-out', out, '-maxfail', '5'])
        s = json.load(open(out))
        for f in s['failures']:
            ctx.failures.append(f)
        for k, v in s['sig_counts'].items():
            ctx.sig_counts[k] = ctx.sig_counts.get(k, 0) + v
        ctx.notes.append(f'{len(rejects)} recorded expressions rejected by Trace_Grammar; '
                         f'{sum(s["sig_counts"].values())} of them reproduced on the real code as {pid} failures '
                         f'(the others concern the sibling property)')
