"""C06 -- $0, the fields and NF stay mutually consistent under every update.

spec/Record.tla + RecordMachine.tla; MC_Record (lazy record refines abstract record),
Gen_Record (all histories of <= Depth operations, exported with predicted state after each step),
Trace_Record (long random histories recorded from the real interpreter, validated by TLC).
"""
from vlib import MachineryError


def trace_to_case(rej):
    """Turn a rejected recorded trace into a Gen_Record-format history (for the replay file)."""
    steps = []
    for i, ev in enumerate(rej['trace'][:rej['pos'] + 1]):
        if ev.get('ev') not in ('step', 'error'):
            continue
        if i < rej['pos']:
            obs = ev['obs']
            st = dict(act=ev['act'], obs=dict(nf=int(bytes(obs['nf']).decode() or 0), line=obs['line'], fields=obs['fields']),
                      read=ev.get('read', []), err=False)
        else:
            exp = rej['info']['expected']
            if not isinstance(exp.get('obs'), dict):
                raise MachineryError('trace driver produced an operation outside the specified domain: ' + str(ev['act']))
            o = exp['obs']
            st = dict(act=ev['act'], obs=dict(nf=int(bytes(o['nf']).decode()), line=o['line'], fields=o['fields']),
                      read=exp.get('read', []), err=bool(exp.get('err')))
        steps.append(st)
    return dict(fam='record', steps=steps)


def corrupt(case, rnd):
    """Corrupt the predicted $0 after the last non-failing step."""
    import copy
    c = copy.deepcopy(case)
    ok = [st for st in c['steps'] if not st['err']]
    if not ok:
        return None
    ok[-1]['obs']['line'] = ok[-1]['obs']['line'] + [122]
    return c


def corrupt_event(ev, rnd):
    import copy
    e = copy.deepcopy(ev)
    if 'obs' not in e:
        return None
    e['obs']['line'] = e['obs']['line'] + [122]
    return e


def run(ctx):
    q = ctx.quick
    ctx.rule = ('a case is one history of record operations (read/assign $0, assign $k and NF incl. fractional, string, '
                'negative and beyond-limit spellings, change FS/OFS/OUTPUTMODE, read $k/NF, $k++, $k += d, sub/gsub on $k and $0, getline $k) exported by TLC from '
                'Gen_Record, or one 10-40 step random history recorded from the real interpreter; distinct by content; '
                'non-trivial when it contains both a record-setting and a record-modifying operation')
    ctx.assumptions += [
        'byte alphabet {a b x blank tab newline , : ; " 1 2}; FS menu of 5-16 separators (space, literal characters, '
        'small regexes rendered by the specification itself)',
        'CSV output mode is predicted with encoding/csv\'s quoting rule (Csv.tla NeedsQuotes)',
        'a negative field index that designates no existing field, and FS="" are outside the statement and not generated',
    ]
    ctx.build()
    # 1. model: the lazy record refines the abstract one (exhaustive to Depth)
    mc = ctx.cfg('MC_Record', constants={'Depth': 4})
    ctx.tlc('MC_Record', mc, timeout=2400, heap='8g')
    # ... and with $k += d, sub/gsub on a field and getline $k in the menu (quick: one step shallower, the menu is twice as large)
    mc2 = ctx.cfg('MC_Record', name='MC_Record_sub', constants={'Depth': 3, 'WithSub': 'TRUE'})
    ctx.tlc('MC_Record', mc2, timeout=3000, heap='8g')
    if not q:
        # deeper histories by random walks over the full menu (exhaustive depth 4 with the full menu is 6 million states,
        # depth 5 ~10^8: not worth the wall time next to the walks)
        mc3 = ctx.cfg('MC_Record', name='MC_Record_walks', constants={'Depth': 9, 'WithSub': 'TRUE', 'MaxNF': 8})
        ctx.tlc('MC_Record', mc3, simulate=20000, depth=10, workers=4, timeout=1500)
    # 2. spec -> code: exported histories replayed on the real interpreter
    if q:
        gen = ctx.cfg('Gen_Record', constants={'Depth': 3, 'Rich': 'FALSE'})
        ctx.tlc('Gen_Record', gen, capture='cases.ndjson', timeout=900)
        ctx.cov['exhaustive'] = True
    else:
        # (the rich menu has ~400 operation instances: exhaustive depth 3 would be 13 million histories; it is sampled by the walks below)
        gen = ctx.cfg('Gen_Record', constants={'Depth': 3, 'Rich': 'FALSE'})
        ctx.tlc('Gen_Record', gen, capture='cases.ndjson', timeout=1500, heap='8g')
        sim = ctx.cfg('Gen_Record', name='Gen_Record_sim', constants={'Depth': 8, 'Rich': 'TRUE', 'MaxNF': 8})
        ctx.tlc('Gen_Record', sim, capture='cases.ndjson', simulate=12000, depth=9, workers=1, timeout=1500)
        ctx.cov['exhaustive'] = True
    ctx.replay('cases.ndjson', label='gen-record', min_cases=1000, corrupt=corrupt)
    # 3. code -> spec: recorded traces validated by TLC
    ntr = 300 if q else 3000
    ctx.harness(['C06', 'record', '-seed', str(ctx.seed), '-n', str(ntr), '-out', ctx.path('trace.ndjson')])
    rejects = ctx.validate_traces('Trace_Record', 'Trace_Record', 'trace.ndjson', label='trace-record', corrupt_event=corrupt_event)
    for r in rejects:
        ev = r['trace'][r['pos']]
        case = trace_to_case(r)
        act = ev['act']
        ctx.add_failure(f"C06/{act['op']}/trace/recorded", f"recorded trace rejected by Trace_Record at event {r['line']}",
                        case=case, expected=r['info'].get('expected'), observed=ev.get('obs'))
