"""C03 -- parsing is total; errors carry a position inside the source; every token position the lexer
reports is the true line and column of the token's first byte.

spec/Lexer.tla (byte-level lexer transducer + the position bookkeeping machine next()/unread());
MC_Lexer (the lexer in micro-steps over all short sources: tracked position == TruePos(offset) in every
intermediate state, delivered positions are true, position-validity laws);
Gen_Lexer (all short byte strings, token soups with every separator class, corpus-derived sources chosen by
the harness -- each with the predicted token starts/positions and the table of existing positions), replayed
on lexer.Scan/ScanRegex (C03), parser.ParseProgram (C03PARSE) and the built goawk binary (C03CLI);
Trace_Lexer (token/parse observations recorded from the real code on the repository's AWK corpus, the
sources embedded in its Go tests and mutated windows of both, validated by TLC).
"""
import copy, json, os, random, shutil
from vlib import MachineryError

MAX_LEX_LEN = 6000     # Lexer!MaxLexLen
ALPHA14 = '{97, 101, 49, 46, 43, 32, 13, 10, 92, 34, 47, 35, 61, 195}'
# quick model check at length 4: without '#', '='
ALPHA12 = '{97, 101, 49, 46, 43, 32, 13, 10, 92, 34, 47, 195}'
# thorough model check at length 5: without '#', '=', non-ASCII
ALPHA11 = '{97, 101, 49, 46, 43, 32, 13, 10, 92, 34, 47}'
# random byte strings: also x u (escapes), E - 9 0 tab ' & * NUL ( ) { } ; and more non-ASCII bytes
ALPHA_RICH = ('{97, 101, 69, 120, 117, 49, 57, 48, 46, 43, 45, 32, 9, 13, 10, 92, 34, 39, 47, 35, 61, 38, 42, 0, '
              '40, 41, 123, 125, 59, 195, 169, 255}')


def iset(a, b):
    return '{' + ', '.join(str(i) for i in range(a, b + 1)) + '}'


def true_pos(src, k):
    line, col = 1, 1
    for b in src[:k]:
        if b == 10:
            line, col = line + 1, 1
        elif b != 13:
            col += 1
    return line, col


def corrupt_lex(case, rnd):
    """Move the predicted position of the first token one column to the right."""
    c = copy.deepcopy(case)
    if not c.get('toks') or c['toks'][0]['k'] == 'illegal':
        return None
    c['toks'][0]['col'] += 1
    return c


def rejected_for_sure(case):
    """The parser certainly rejects this source: the Scan() stream ends in ILLEGAL and there is no slash (after a
    slash the parser reads a regex with ScanRegex, so its token stream is not the one predicted for rx = FALSE)."""
    t = case.get('toks') or [{}]
    return (not case.get('rx')) and t[-1].get('k') == 'illegal' and 47 not in case['src'] and 0 not in case['src']


def corrupt_parse(case, rnd):
    """Shrink the table of existing positions so that the error position of a rejected source is outside it."""
    if not rejected_for_sure(case):
        return None
    c = copy.deepcopy(case)
    for row in c['lt']:
        row['w'] = -1
    return c


def corrupt_cli(case, rnd):
    """No position exists any more, and every 'line' of the program text is the whole text (which the tool
    never shows, as it contains a newline)."""
    if not rejected_for_sure(case) or case['toks'][-1].get('why') != 'char':
        return None
    c = copy.deepcopy(case)
    n = len(case['src']) + (1 if case['cliadd'] else 0)
    for row in c['clt']:
        row['w'], row['lo'], row['hi'] = -1, 0, n
    return c


def corrupt_event(ev, rnd):
    e = copy.deepcopy(ev)
    k = e.get('k', '')
    if k in ('parse-ok', 'parse-other-error', 'parse-panic', 'lex-panic'):
        return None
    if k in ('parse-error', 'illegal'):
        e['line'] += 1000000
    else:
        e['col'] += 1
    return e


def sample_cli(ctx, cases_file, out_file, n, nspecial):
    """Cases in which an un-read steps over a line end (up to nspecial), cases whose source ends in a
    backslash (up to nspecial/2), and a seeded random sample of n of the rest."""
    rnd = random.Random(ctx.seed * 7919 + 1)
    special, esc, rest = [], [], []
    seen = 0
    with open(ctx.path(cases_file)) as f:
        for line in f:
            if '"rx":true' in line:
                continue
            seen += 1
            if '"uc":"lf"' in line or '"uc":"cr"' in line:
                if len(special) < nspecial:
                    special.append(line)
                elif rnd.random() < 0.02:
                    special[rnd.randrange(nspecial)] = line
            elif '92],"rx"' in line:
                if len(esc) < nspecial // 2:
                    esc.append(line)
            elif len(rest) < n:
                rest.append(line)
            else:
                j = rnd.randrange(seen)
                if j < n:
                    rest[j] = line
    with open(ctx.path(out_file), 'w') as f:
        f.writelines(special + esc + rest)
    return len(special) + len(esc) + len(rest)


def run(ctx):
    q = ctx.quick
    ctx.rule = ('a case is one source text with the token stream Lexer.tla predicts for it (kind class, start offset, '
                'true line:column of the first byte) and the table of positions that exist in it: every byte string '
                'over 14 byte classes up to length 4 (quick) / 5 (thorough), token soups of up to 2 / 3 tokens with each '
                'separator class between them, random longer strings and soups (thorough), corpus windows with one mutation; '
                'plus sources recorded from the real lexer/parser. Distinct by content; non-trivial when some token '
                'position differs from (1, offset+1) (line ends, CR, continuation, un-read) or the parser reports an error')
    ctx.assumptions += [
        'token KINDS are compared by class only and only to align the two streams; a source on which the real lexer and '
        'Lexer.tla disagree about the tokenisation itself (class or number of tokens) is counted as not judged',
        'for ILLEGAL tokens and ParseErrors only the existence of the reported position in the source is judged, not '
        'which byte it designates',
        'the command line tool is run with -d (parse and print only) on sources the parser rejects; required: no Go '
        'panic trace, a reported position that exists in the program text (source plus the newline the tool appends), '
        'the offending line followed by a caret line; the exit status is not judged',
        'sources longer than 1.5 KB are only covered by the recorded traces (whole corpus programs up to 12 KB, a few '
        'synthetic sources of 8-32 KiB for the parser); the 32 KiB bound itself is not approached systematically',
    ]
    ctx.build()
    goawk = ctx.build_goawk()
    os.environ['C03_GOAWK'] = goawk

    # ---- 1. the model: position bookkeeping stays in step, delivered positions are true ----
    mc = ctx.cfg('MC_Lexer', constants={'MaxLen': 4, 'MaxLenFree': 3 if q else 4, 'Alpha': ALPHA12 if q else ALPHA14})
    ctx.tlc('MC_Lexer', mc, timeout=1500)
    if not q:
        mc5 = ctx.cfg('MC_Lexer', name='MC_Lexer_len5', constants={'MaxLen': 5, 'MaxLenFree': 2, 'Alpha': ALPHA11})
        ctx.tlc('MC_Lexer', mc5, timeout=2400, heap='10g')
        # the invariant must bite: with unread() as found in the pinned tree TLC has to find a violation
        ab = ctx.cfg('MC_Lexer', name='MC_Lexer_asbuilt', constants={'MaxLen': 3, 'MaxLenFree': 0, 'AsBuilt': 'TRUE', 'Alpha': '{49, 101, 43, 13, 10}'})
        res = ctx.tlc('MC_Lexer', ab, timeout=600, allow_fail=True, label='MC_Lexer(as-built unread, violation expected)')
        log = open(res['log']).read()
        if res['ok'] or 'Invariant PosInStepInv is violated' not in log:
            raise MachineryError('PosInStepInv does not reject the as-built unread(): the model invariant is vacuous')
        ctx.cov['states'] -= res['distinct']
        ctx.cov['transitions'] -= res['generated']
    ctx.cov['exhaustive'] = True

    # ---- 2. spec -> code ----
    nfile = 300 if q else 4000
    ctx.harness(['C03', 'corpus', '-seed', str(ctx.seed), '-n', str(nfile), '-out', os.path.join(ctx.specdir, 'srcs.ndjson')])
    if q:
        gen = ctx.cfg('Gen_Lexer', constants={'MaxBytes': 4, 'MaxToks': 2})
        ctx.tlc('Gen_Lexer', gen, capture='cases.ndjson', timeout=900)
    else:
        gen = ctx.cfg('Gen_Lexer', constants={'MaxBytes': 5, 'MaxToks': 3, 'SepSet': '{1, 3, 5}'})
        ctx.tlc('Gen_Lexer', gen, capture='cases.ndjson', timeout=2400, heap='10g')
        g2 = ctx.cfg('Gen_Lexer', name='Gen_Lexer_soup2', constants={'Fams': '{"soup"}', 'MaxToks': 2, 'TokSet': iset(1, 50)})
        ctx.tlc('Gen_Lexer', g2, capture='cases.ndjson', timeout=1500)
        s1 = ctx.cfg('Gen_Lexer', name='Gen_Lexer_simbytes', constants={'Fams': '{"bytes"}', 'Sim': 'TRUE', 'Targets': iset(6, 24),
                                                                         'Alpha': ALPHA_RICH})
        ctx.tlc('Gen_Lexer', s1, capture='cases.ndjson', simulate=15000, depth=28, workers=4, timeout=1200)
        s2 = ctx.cfg('Gen_Lexer', name='Gen_Lexer_simsoup', constants={'Fams': '{"soup"}', 'Sim': 'TRUE', 'Targets': iset(3, 12),
                                                                        'TokSet': iset(1, 50)})
        ctx.tlc('Gen_Lexer', s2, capture='cases.ndjson', simulate=15000, depth=16, workers=4, timeout=1200)
    ctx.replay('cases.ndjson', label='lexer', prop='C03', corrupt=corrupt_lex, min_cases=20000)
    ctx.replay('cases.ndjson', label='parser', prop='C03PARSE', corrupt=corrupt_parse, min_cases=20000, count_traces=False)
    ncli = sample_cli(ctx, 'cases.ndjson', 'cli_cases.ndjson', 250 if q else 3000, 60 if q else 300)
    ctx.replay('cli_cases.ndjson', label='cli', prop='C03CLI', corrupt=corrupt_cli, min_cases=min(ncli, 200), count_traces=False)

    # ---- 3. code -> spec ----
    ntr = 120 if q else 4000
    ctx.harness(['C03', 'record', '-seed', str(ctx.seed), '-n', str(ntr), '-out', ctx.path('trace.ndjson')])
    rejects = ctx.validate_traces('Trace_Lexer', 'Trace_Lexer', 'trace.ndjson', label='trace-lexer', timeout=2400,
                                  corrupt_event=corrupt_event)
    unjudged = [r for r in rejects if (r['info'] or {}).get('kind') == 'tokenisation']
    judged = [r for r in rejects if (r['info'] or {}).get('kind') != 'tokenisation']
    if unjudged:
        ctx.notes.append(f'{len(unjudged)} recorded trace(s) on which the real lexer and Lexer.tla tokenise differently: not judged')
        ctx.cov['unjudged_tokenisation'] = len(unjudged)
        if len(unjudged) * 5 > ntr:
            raise MachineryError('the real lexer and Lexer.tla disagree about the tokenisation of more than a fifth of the '
                                 'recorded sources: the specification is out of date')
    if judged:
        # turn every rejected trace into a case of the spec -> code direction (prediction by Gen_Lexer, family
        # "file") and let the replayers name the mechanism; a reject that does not reproduce there is a machinery fault
        with open(os.path.join(ctx.specdir, 'srcs.ndjson'), 'w') as f:
            for r in judged:
                srcev = [e for e in r['trace'] if e.get('ev') == 'src'][0]
                src, rx = srcev['src'], bool(srcev['rx'])
                info = r['info'] or {}
                if len(src) > MAX_LEX_LEN:
                    exp = info.get('expected')
                    if info.get('kind') in ('position', 'illegal-position') and isinstance(exp, dict):
                        # any byte string is a source: examine the part of it that ends shortly after the token
                        hi = min(len(src), exp['s'] + 64)
                        src = src[max(0, hi - MAX_LEX_LEN):hi]
                    else:
                        rx = False      # parser only (no token prediction is exported for long sources)
                f.write(json.dumps({'src': src, 'rx': rx}) + '\n')
        gr = ctx.cfg('Gen_Lexer', name='Gen_Lexer_rejects', constants={'Fams': '{"file"}'})
        ctx.tlc('Gen_Lexer', gr, capture='reject_cases.ndjson', timeout=1500, heap='10g')
        before = len(ctx.failures)
        ctx.replay('reject_cases.ndjson', label='trace-rejects-lexer', prop='C03', selftest=False, count_traces=False)
        ctx.replay('reject_cases.ndjson', label='trace-rejects-parser', prop='C03PARSE', selftest=False, count_traces=False)
        if len(ctx.failures) == before:
            kinds = sorted({(r['info'] or {}).get('kind', '?') for r in judged})
            raise MachineryError(f'{len(judged)} recorded trace(s) rejected by Trace_Lexer ({kinds}) did not reproduce in the replay')
        ctx.log(f'{len(judged)} rejected recorded trace(s) re-examined through Gen_Lexer/replay')
