"""C09 -- printf and sprintf format like C printf; print uses OFMT.

spec/Printf.tla (format scanner as a state machine; the C conversions d i o x X u c s e E f g G on the exact decimal
numbers of Values.tla; argument consumption incl. '*'; errors), PrintfCases.tla (families), MC_Printf (totality,
scanner round trip, width/justification and conversion laws), Gen_Printf (exported predictions replayed through
printf and sprintf).  The specification's predictions are first compared with the C library (harness/c09/cgate.c,
compiled here): a disagreement is a defect of the specification and stops the check with exit 2.
"""
import copy, json, os, subprocess
from vlib import MachineryError


def corrupt(case, rnd):
    c = copy.deepcopy(case)
    if c.get('err'):
        c['err'] = False
        c['out'] = [91, 93]
        return c
    if not c.get('out'):
        c['out'] = [122]
        return c
    out = list(c['out'])
    i = rnd.randrange(len(out))
    out[i] = 122 if out[i] != 122 else 121
    c['out'] = out
    return c


def run(ctx):
    q = ctx.quick
    ctx.rule = ('a case is one directive %[flags][width][.precision]conversion (32 flag sets x widths {none, 1, 7, *=6, *=-6} x '
                'precisions {none, ".", .0, .2, .10, .*=3, .*=-1} x d i o x X u c s e E f g G) applied to one of 8-16 arguments of its '
                'class (integers to the int64 limits, fractions, rounding ties, numeric/non-numeric/empty/multi-byte strings; '
                's and c also in chars mode), one of 31 multi-directive / erroneous formats, or one print under an OFMT; '
                'exported by TLC from Gen_Printf with the predicted bytes or error, run through printf and sprintf. '
                'Distinct by content; non-trivial when the directive has a flag, width or precision (or is multi-directive / print of a fraction)')
    ctx.assumptions += [
        'numbers are exact decimals (Values.tla); results the specification cannot know exactly (more than 15 significant digits of '
        'an inexact value, decimal ties on inexact values, inf/nan spellings, integer conversions beyond int64) are not exported',
        'flag combinations the C standard leaves undefined (0 or # with s/c, # with d/i/u) are judged by glibc\'s behaviour '
        '(blank padding, flag ignored), which every C-based awk shows',
        '%c with a precision, %c of an empty string or of a code outside 0-255 (bytes) / the BMP (chars), %5%, length modifiers, '
        '%n are not generated; in chars mode a non-ASCII %s with width/precision is not judged (C counts bytes, AWK characters); '
        'in bytes mode widths and precisions count bytes as in C',
        'sanity gate: every single-directive prediction is compared with glibc printf on the argument as the specification '
        'converted it; a disagreement stops the check with exit 2',
    ]
    ctx.build()
    # the C sanity gate binary
    src = ctx.path('cgate.c')
    ctx.harness(['C09', 'cgate-source', src])
    cg = ctx.path('cgate')
    p = subprocess.run(['clang', '-O1', '-w', '-o', cg, src], stdout=subprocess.PIPE, stderr=subprocess.STDOUT, text=True)
    if p.returncode != 0:
        raise MachineryError('cannot compile cgate.c:\n' + p.stdout[-2000:])
    # 1. the model
    ctx.tlc('MC_Printf', ctx.cfg('MC_Printf', constants={'McFull': 'FALSE' if q else 'TRUE'}), timeout=1500, heap='8g')
    # 2. spec -> code
    ns = 8 if q else 1
    gen = ctx.cfg('Gen_Printf', constants={'NStrata': ns, 'Stratum': ctx.seed % ns})
    ctx.tlc('Gen_Printf', gen, capture='cases.ndjson', timeout=3000, heap='8g')
    ctx.cov['exhaustive'] = not q
    # 2a. sanity gate: specification vs the C library
    gout = ctx.path('gate.json')
    ctx.harness(['C09', 'gate', '-in', ctx.path('cases.ndjson'), '-cgate', cg, '-out', gout, '-filtered', ctx.path('gated.ndjson')])
    g = json.load(open(gout))
    ctx.cov['c_gate'] = {k: g[k] for k in ('cases', 'gated', 'mismatches', 'glibc_quirk_skipped')}
    # Known: glibc drops the zeros of %#g when rounding carries into the next power of ten, e.g. printf("%#G", 999999.5)
    # gives 1.E+06 where the C standard requires 1.00000E+06; such cases are trusted to neither side and not replayed.
    if g['mismatches']:
        raise MachineryError('the specification disagrees with the C library (a defect of the SPECIFICATION, not a verdict '
                             'on the code): ' + json.dumps(g['first'][:5]))
    if g['glibc_quirk_skipped']:
        ctx.notes.append(f"{g['glibc_quirk_skipped']} %#g case(s) not replayed: glibc and the C standard (the specification) disagree")
    if g['gated'] < g['cases'] // 2:
        raise MachineryError(f"C gate covered only {g['gated']} of {g['cases']} cases")
    # 2b. replay on the real code
    ctx.replay('gated.ndjson', label='gen-printf', min_cases=5000, corrupt=corrupt)
