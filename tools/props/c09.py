"""C09 -- printf and sprintf format like C printf; print uses OFMT.

spec/Printf.tla (format scanner as a state machine; the C conversions d i o x X u c s e E f g G on the exact decimal
numbers of Values.tla applied to arguments of every KIND of the value model -- number, string constant, text from input
(strnum), uninitialised --; argument consumption incl. '*'; errors; print lines under an OFMT text in the default, CSV and
TSV output modes), PrintfCases.tla (families), MC_Printf (totality, scanner round trip, width/justification, conversion,
argument-kind and print laws), Gen_Printf (exported predictions replayed through printf and sprintf, runs of several calls
in one interpreter, print lines), Trace_Printf (recorded runs).  The specification's predictions are first compared with
the C library (harness/c09/cgate.c, compiled here): a disagreement is a defect of the specification and stops the check
with exit 2.
"""
import copy, json, os, subprocess
from vlib import MachineryError


def corrupt(case, rnd):
    c = copy.deepcopy(case)
    if c.get('fam') == 'q':
        # a run: corrupt the prediction of one of its calls
        i = rnd.randrange(len(c['calls']))
        c['calls'][i] = corrupt(dict(c['calls'][i], fam='k'), rnd)
        return c
    c.pop('alts', None)          # the corrupted prediction must not be excused by another dialect
    if c.get('err'):
        c['err'] = False
        c['out'] = [91, 93]
        return c
    if not c.get('out'):
        c['out'] = [122]
        return c
    out = list(c['out'])
    i = rnd.randrange(len(out))
    out[i] = 122 if out[i] != 122 else 121
    c['out'] = out
    return c


def corrupt_event(ev, rnd):
    e = copy.deepcopy(ev)
    if e.get('ev') not in ('step', 'print') or e.get('err'):
        return None
    e['out'] = e['out'] + [122]
    return e


def canon(x):
    return json.dumps(x, sort_keys=True, separators=(',', ':'))


def trace_selftest(ctx, module, events, rejected_lines, label, corrupt_ev, only='step'):
    """Binding demonstration for the trace direction (vlib only runs its own when nothing was rejected)."""
    rnd = __import__('random').Random(ctx.seed)
    cand = [i for i, e in enumerate(events) if e.get('ev') == 'step' and (i + 1) not in rejected_lines]
    rnd.shuffle(cand)
    # one sprintf call and one print statement
    prints = [i for i, e in enumerate(events) if e.get('ev') == 'print' and (i + 1) not in rejected_lines]
    rnd.shuffle(prints)
    if only == 'print':
        cand = prints
    for i in cand[:50]:
        ev2 = corrupt_ev(events[i], rnd)
        if ev2 is None:
            continue
        # a short log: the events of the enclosing trace only
        lo = i
        while lo > 0 and events[lo].get('ev') != 'reset':
            lo -= 1
        hi = i + 1
        while hi < len(events) and events[hi].get('ev') != 'reset':
            hi += 1
        bad = ctx.path(f'bad_{label}.ndjson')
        with open(bad, 'w') as f:
            for j in range(lo, hi):
                f.write(json.dumps(ev2 if j == i else events[j], separators=(',', ':')) + '\n')
        rej = ctx._run_trace(module, module, bad, label + '-selftest', 600, False)
        if not any(r['reject'] == i - lo + 1 for r in rej):
            raise MachineryError(f'{label}: binding self-test failed: corrupted event {i + 1} was accepted')
        ctx.cov.setdefault('selftest', []).append({'label': label, 'corrupted_event': i + 1, 'rejected': True})
        ctx.log(f'{label}: binding self-test ok (corrupted event {i + 1} rejected)')
        return
    raise MachineryError(f'{label}: self-test could not corrupt any event')


def run(ctx):
    q = ctx.quick
    ctx.rule = ('a case is (d) one directive %[flags][width][.precision]conversion (32 flag sets x widths {none, 1, 7, *=6, *=-6} x '
                'precisions {none, ".", .0, .2, .10, .*=3, .*=-1} x d i o x X u c s e E f g G) applied to one of 8-16 constant arguments of '
                'its class (integers to the int64 limits, fractions, rounding ties, numeric/non-numeric/empty/multi-byte strings; '
                's and c also in chars mode); (k) one directive of a smaller grid (quick: 4 flag sets x 3 widths x 3 precisions; thorough: '
                'a quarter of the full grid) applied to each of 15 texts FROM INPUT (numeric-looking, blank-padded, exponent form, '
                'hex / inf / NBSP-padded = open forms, numeric prefix only, non-numeric, multi-byte, empty), to the string constants and '
                'numbers of the same spelling and to an unset variable -- every input text is really read from input, once as a getline '
                'variable, a field, a split() element and a Config.Vars (-v) variable; (m) one of 31 multi-directive / erroneous formats; '
                '(q) a run of 3-5 calls in ONE interpreter: one format on arguments of different kinds, or two formats that differ only '
                'in the conversion letter (c/s, u/d, i/d, u/i, x/X, e/E, g/f in both orders, 5 shapes); (p) one print line: 50 argument lists '
                '(non-integral, integral, huge numbers; strings incl. ones CSV must quote; input texts; unset) x 11 OFMT texts (incl. %g/%G '
                'without precision, text around the directive, leading blanks) x 3 CONVFMT texts x output mode default (2 OFS) / CSV / TSV, '
                'the mode selected through Config.OutputMode and through OUTPUTMODE; (v) %s of a number under a CONVFMT text. '
                'Exported by TLC from Gen_Printf with the predicted bytes or error, run through printf and sprintf. '
                'Distinct by content; non-trivial when the directive has a flag, width or precision, the argument is input text, the '
                'format is multi-directive, the case is a run, or a non-integral number is printed')
    ctx.assumptions += [
        'numbers are exact decimals (Values.tla); results the specification cannot know exactly (more than 15 significant digits of '
        'an inexact value, decimal ties on inexact values, inf/nan spellings, integer conversions beyond int64) are not exported',
        'flag combinations the C standard leaves undefined (0 or # with s/c, # with d/i/u) are judged by glibc\'s behaviour '
        '(blank padding, flag ignored), which every C-based awk shows',
        '%c with a precision, %c of an empty string / of an unset variable or of a code outside 0-255 (bytes) / the BMP (chars), %5%, '
        'length modifiers, %n are not generated; in chars mode a non-ASCII %s with width/precision is not judged (C counts bytes, AWK '
        'characters); in bytes mode widths and precisions count bytes as in C',
        'argument kinds: text from input that looks numeric (Values.WholeParse) is a number, any other input text a string; on the '
        'forms POSIX leaves open (0x.., inf/nan, NBSP blanks -- in input text and in string constants) the result of ANY dialect of '
        'Values.tla is accepted (case field alts), and a case with an alternative the specification cannot predict is not exported',
        'print: OFMT / CONVFMT texts are restricted to literal text around exactly one floating-point directive without * (anything '
        'else is undefined in POSIX); CSV / TSV quoting is Csv.tla (RFC 4180 as encoding/csv writes it); ORS is not varied and TAB / '
        'newline never occur in printed texts; the spelling of inf / nan is not judged; print > file and print | cmd are not exercised',
        'sanity gate: every single-directive prediction is compared with glibc printf on the argument as the specification '
        'converted it; a disagreement stops the check with exit 2',
    ]
    ctx.build()
    # the C sanity gate binary
    src = ctx.path('cgate.c')
    ctx.harness(['C09', 'cgate-source', src])
    cg = ctx.path('cgate')
    p = subprocess.run(['clang', '-O1', '-w', '-o', cg, src], stdout=subprocess.PIPE, stderr=subprocess.STDOUT, text=True)
    if p.returncode != 0:
        raise MachineryError('cannot compile cgate.c:\n' + p.stdout[-2000:])
    # 1. the model
    if os.environ.get('VERIF_SKIP_MODEL'):      # development aid for runs on seeded changes: the model does not depend on the code
        ctx.notes.append('model run skipped (VERIF_SKIP_MODEL)')
    else:
        ctx.tlc('MC_Printf', ctx.cfg('MC_Printf', constants={'McFull': 'FALSE' if q else 'TRUE'}), timeout=1500, heap='8g')
    # 2. spec -> code
    ns = 8 if q else 1
    # family k: the small grid in full (quick), a quarter of the full grid (thorough)
    ks = 1 if q else 4
    gen = ctx.cfg('Gen_Printf', constants={'NStrata': ns, 'Stratum': ctx.seed % ns, 'KFull': 'FALSE' if q else 'TRUE',
                                           'KStrata': ks, 'KStratum': ctx.seed % ks})
    ctx.tlc('Gen_Printf', gen, capture='cases.ndjson', timeout=3000, heap='8g')
    ctx.cov['exhaustive'] = not q
    # 2a. sanity gate: specification vs the C library
    gout = ctx.path('gate.json')
    ctx.harness(['C09', 'gate', '-in', ctx.path('cases.ndjson'), '-cgate', cg, '-out', gout, '-filtered', ctx.path('gated.ndjson')])
    g = json.load(open(gout))
    ctx.cov['c_gate'] = {k: g[k] for k in ('cases', 'gated', 'mismatches', 'glibc_quirk_skipped')}
    # Known: glibc drops the zeros of %#g when rounding carries into the next power of ten, e.g. printf("%#G", 999999.5)
    # gives 1.E+06 where the C standard requires 1.00000E+06; such cases are trusted to neither side and not replayed.
    if g['mismatches']:
        raise MachineryError('the specification disagrees with the C library (a defect of the SPECIFICATION, not a verdict '
                             'on the code): ' + json.dumps(g['first'][:5]))
    if g['glibc_quirk_skipped']:
        ctx.notes.append(f"{g['glibc_quirk_skipped']} %#g case(s) not replayed: glibc and the C standard (the specification) disagree")
    if g['gated'] < g['cases'] // 2:
        raise MachineryError(f"C gate covered only {g['gated']} of {g['cases']} cases")
    # 2b. replay on the real code
    ctx.replay('gated.ndjson', label='gen-printf', min_cases=5000, corrupt=corrupt)
    # the binding self-test once more per new family (the common one samples all families together)
    fams = {}
    for line in open(ctx.path('gated.ndjson')):
        fm = json.loads(line).get('fam')
        if fm in ('k', 'q', 'p', 'v') and len(fams.setdefault(fm, [])) < 300:
            fams[fm].append(line)
    for fm in ('k', 'q', 'p', 'v'):
        if not fams.get(fm):
            raise MachineryError(f'Gen_Printf exported no case of family {fm}')
        ff = ctx.path(f'family_{fm}.ndjson')
        open(ff, 'w').writelines(fams[fm])
        ctx.selftest(ff, 'C09', corrupt, f'gen-printf-{fm}', k=6)
    # 3. code -> spec: runs of sprintf calls and print statements recorded in one interpreter each (format cache, output
    # modes), validated by TLC
    ntr = 30 if q else 300
    ctx.harness(['C09', 'record', '-seed', str(ctx.seed), '-n', str(ntr), '-out', ctx.path('trace.ndjson')])
    rejects = ctx.validate_traces('Trace_Printf', 'Trace_Printf', 'trace.ndjson', label='trace-printf', timeout=2400,
                                  corrupt_event=corrupt_event)
    events = [json.loads(x) for x in open(ctx.path('trace.ndjson')) if x.strip()]
    rejected_lines = {r['line'] for r in rejects}
    trace_selftest(ctx, 'Trace_Printf', events, rejected_lines, 'trace-printf', corrupt_event, only='step')
    trace_selftest(ctx, 'Trace_Printf', events, rejected_lines, 'trace-printf-print', corrupt_event, only='print')
    if rejects:
        # classify: a rejected call that also disagrees when made alone in a fresh interpreter is an ordinary
        # formatting deviation (same signatures as the replay direction); one that agrees alone depends on the
        # calls before it, i.e. on the memoised format translation
        rj = ctx.path('rejected_calls.ndjson')
        with open(rj, 'w') as f:
            for r in rejects:
                f.write(canon(r['info']) + '\n')
        out = ctx.path('rejected_calls.json')
        ctx.harness(['C09', 'replay', '-in', rj, '-out', out, '-maxfail', '10000000'])
        s = json.load(open(out))
        alone = set()
        for fl in s['failures']:
            alone.add(canon(fl['case']))
            ctx.failures.append(fl)
            ctx.sig_counts[fl['sig']] = ctx.sig_counts.get(fl['sig'], 0) + 1
        for r in rejects:
            if canon(r['info']) in alone:
                continue
            if r['info'].get('fam') == 'p':
                ctx.add_failure('C09/print/sequence-dependent',
                                f"statement {r['trace'][r['pos']].get('k')} of a recorded run: the printed line differs from the "
                                f"specification although the same print alone in a fresh interpreter agrees",
                                case=r['info'], expected=r['info']['out'], observed=dict(line=r['trace'][r['pos']].get('out'),
                                                                                         run=r['trace'][:r['pos'] + 1]))
                continue
            calls = []
            for e in r['trace'][:r['pos']]:
                if e.get('ev') == 'step':
                    calls.append(dict(fmt=e['fmt'], args=e['args'], err=e['err'], out=e['out'], cf=e.get('cf', [])))
            calls.append(dict(r['info'], fam='k'))
            ctx.add_failure('C09/format-cache/sequence-dependent',
                            f"call {r['trace'][r['pos']].get('k')} of a recorded run: sprintf result differs from the specification "
                            f"although the same call alone in a fresh interpreter agrees",
                            case=dict(fam='q', chars=r['info']['chars'], calls=calls), expected=r['info']['out'],
                            observed=r['trace'][r['pos']].get('out'))
