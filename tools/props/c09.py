"""C09 -- printf and sprintf format like C printf; print uses OFMT.

spec/Printf.tla (format scanner as a state machine; the C conversions d i o x X u c s e E f g G on the exact decimal
numbers of Values.tla; argument consumption incl. '*'; errors), PrintfCases.tla (families), MC_Printf (totality,
scanner round trip, width/justification and conversion laws), Gen_Printf (exported predictions replayed through
printf and sprintf).  The specification's predictions are first compared with the C library (harness/c09/cgate.c,
compiled here): a disagreement is a defect of the specification and stops the check with exit 2.
"""
import copy, json, os, subprocess
from vlib import MachineryError


def corrupt(case, rnd):
    c = copy.deepcopy(case)
    if c.get('err'):
        c['err'] = False
        c['out'] = [91, 93]
        return c
    if not c.get('out'):
        c['out'] = [122]
        return c
    out = list(c['out'])
    i = rnd.randrange(len(out))
    out[i] = 122 if out[i] != 122 else 121
    c['out'] = out
    return c


def corrupt_event(ev, rnd):
    e = copy.deepcopy(ev)
    if e.get('ev') != 'step' or e.get('err'):
        return None
    e['out'] = e['out'] + [122]
    return e


def canon(x):
    return json.dumps(x, sort_keys=True, separators=(',', ':'))


def trace_selftest(ctx, module, events, rejected_lines, label, corrupt_ev):
    """Binding demonstration for the trace direction (vlib only runs its own when nothing was rejected)."""
    rnd = __import__('random').Random(ctx.seed)
    cand = [i for i, e in enumerate(events) if e.get('ev') == 'step' and (i + 1) not in rejected_lines]
    rnd.shuffle(cand)
    for i in cand[:50]:
        ev2 = corrupt_ev(events[i], rnd)
        if ev2 is None:
            continue
        # a short log: the events of the enclosing trace only
        lo = i
        while lo > 0 and events[lo].get('ev') != 'reset':
            lo -= 1
        hi = i + 1
        while hi < len(events) and events[hi].get('ev') != 'reset':
            hi += 1
        bad = ctx.path(f'bad_{label}.ndjson')
        with open(bad, 'w') as f:
            for j in range(lo, hi):
                f.write(json.dumps(ev2 if j == i else events[j], separators=(',', ':')) + '\n')
        rej = ctx._run_trace(module, module, bad, label + '-selftest', 600, False)
        if not any(r['reject'] == i - lo + 1 for r in rej):
            raise MachineryError(f'{label}: binding self-test failed: corrupted event {i + 1} was accepted')
        ctx.cov.setdefault('selftest', []).append({'label': label, 'corrupted_event': i + 1, 'rejected': True})
        ctx.log(f'{label}: binding self-test ok (corrupted event {i + 1} rejected)')
        return
    raise MachineryError(f'{label}: self-test could not corrupt any event')


def run(ctx):
    q = ctx.quick
    ctx.rule = ('a case is one directive %[flags][width][.precision]conversion (32 flag sets x widths {none, 1, 7, *=6, *=-6} x '
                'precisions {none, ".", .0, .2, .10, .*=3, .*=-1} x d i o x X u c s e E f g G) applied to one of 8-16 arguments of its '
                'class (integers to the int64 limits, fractions, rounding ties, numeric/non-numeric/empty/multi-byte strings; '
                's and c also in chars mode), one of 31 multi-directive / erroneous formats, or one print under an OFMT; '
                'exported by TLC from Gen_Printf with the predicted bytes or error, run through printf and sprintf. '
                'Distinct by content; non-trivial when the directive has a flag, width or precision (or is multi-directive / print of a fraction)')
    ctx.assumptions += [
        'numbers are exact decimals (Values.tla); results the specification cannot know exactly (more than 15 significant digits of '
        'an inexact value, decimal ties on inexact values, inf/nan spellings, integer conversions beyond int64) are not exported',
        'flag combinations the C standard leaves undefined (0 or # with s/c, # with d/i/u) are judged by glibc\'s behaviour '
        '(blank padding, flag ignored), which every C-based awk shows',
        '%c with a precision, %c of an empty string or of a code outside 0-255 (bytes) / the BMP (chars), %5%, length modifiers, '
        '%n are not generated; in chars mode a non-ASCII %s with width/precision is not judged (C counts bytes, AWK characters); '
        'in bytes mode widths and precisions count bytes as in C',
        'sanity gate: every single-directive prediction is compared with glibc printf on the argument as the specification '
        'converted it; a disagreement stops the check with exit 2',
    ]
    ctx.build()
    # the C sanity gate binary
    src = ctx.path('cgate.c')
    ctx.harness(['C09', 'cgate-source', src])
    cg = ctx.path('cgate')
    p = subprocess.run(['clang', '-O1', '-w', '-o', cg, src], stdout=subprocess.PIPE, stderr=subprocess.STDOUT, text=True)
    if p.returncode != 0:
        raise MachineryError('cannot compile cgate.c:\n' + p.stdout[-2000:])
    # 1. the model
    ctx.tlc('MC_Printf', ctx.cfg('MC_Printf', constants={'McFull': 'FALSE' if q else 'TRUE'}), timeout=1500, heap='8g')
    # 2. spec -> code
    ns = 8 if q else 1
    gen = ctx.cfg('Gen_Printf', constants={'NStrata': ns, 'Stratum': ctx.seed % ns})
    ctx.tlc('Gen_Printf', gen, capture='cases.ndjson', timeout=3000, heap='8g')
    ctx.cov['exhaustive'] = not q
    # 2a. sanity gate: specification vs the C library
    gout = ctx.path('gate.json')
    ctx.harness(['C09', 'gate', '-in', ctx.path('cases.ndjson'), '-cgate', cg, '-out', gout, '-filtered', ctx.path('gated.ndjson')])
    g = json.load(open(gout))
    ctx.cov['c_gate'] = {k: g[k] for k in ('cases', 'gated', 'mismatches', 'glibc_quirk_skipped')}
    # Known: glibc drops the zeros of %#g when rounding carries into the next power of ten, e.g. printf("%#G", 999999.5)
    # gives 1.E+06 where the C standard requires 1.00000E+06; such cases are trusted to neither side and not replayed.
    if g['mismatches']:
        raise MachineryError('the specification disagrees with the C library (a defect of the SPECIFICATION, not a verdict '
                             'on the code): ' + json.dumps(g['first'][:5]))
    if g['glibc_quirk_skipped']:
        ctx.notes.append(f"{g['glibc_quirk_skipped']} %#g case(s) not replayed: glibc and the C standard (the specification) disagree")
    if g['gated'] < g['cases'] // 2:
        raise MachineryError(f"C gate covered only {g['gated']} of {g['cases']} cases")
    # 2b. replay on the real code
    ctx.replay('gated.ndjson', label='gen-printf', min_cases=5000, corrupt=corrupt)
    # 3. code -> spec: sequences of sprintf calls recorded in one interpreter each (format cache), validated by TLC
    ntr = 30 if q else 300
    ctx.harness(['C09', 'record', '-seed', str(ctx.seed), '-n', str(ntr), '-out', ctx.path('trace.ndjson')])
    rejects = ctx.validate_traces('Trace_Printf', 'Trace_Printf', 'trace.ndjson', label='trace-printf', timeout=2400,
                                  corrupt_event=corrupt_event)
    events = [json.loads(x) for x in open(ctx.path('trace.ndjson')) if x.strip()]
    if rejects:
        trace_selftest(ctx, 'Trace_Printf', events, {r['line'] for r in rejects}, 'trace-printf', corrupt_event)
        # classify: a rejected call that also disagrees when made alone in a fresh interpreter is an ordinary
        # formatting deviation (same signatures as the replay direction); one that agrees alone depends on the
        # calls before it, i.e. on the memoised format translation
        rj = ctx.path('rejected_calls.ndjson')
        with open(rj, 'w') as f:
            for r in rejects:
                f.write(canon(r['info']) + '\n')
        out = ctx.path('rejected_calls.json')
        ctx.harness(['C09', 'replay', '-in', rj, '-out', out, '-maxfail', '10000000'])
        s = json.load(open(out))
        alone = set()
        for fl in s['failures']:
            alone.add(canon(fl['case']))
            ctx.failures.append(fl)
            ctx.sig_counts[fl['sig']] = ctx.sig_counts.get(fl['sig'], 0) + 1
        for r in rejects:
            if canon(r['info']) in alone:
                continue
            calls = []
            for e in r['trace'][:r['pos']]:
                if e.get('ev') == 'step':
                    calls.append(dict(fmt=e['fmt'], args=e['args'], err=e['err'], out=e['out']))
            calls.append(dict(fmt=r['info']['fmt'], args=r['info']['args'], err=r['info']['err'], out=r['info']['out']))
            ctx.add_failure('C09/format-cache/sequence-dependent',
                            f"call {r['trace'][r['pos']].get('k')} of a recorded run: sprintf result differs from the specification "
                            f"although the same call alone in a fresh interpreter agrees",
                            case=dict(fam='q', chars=r['info']['chars'], calls=calls), expected=r['info']['out'],
                            observed=r['trace'][r['pos']].get('out'))
