"""C14 -- a reused Interpreter behaves like a fresh one.

spec/Reuse.tla (state groups vars / per-run / rand; Run = transcription of the 16-mode AWK program in
harness/c14/program.go; ExecSpec = the statement, ExecCode(Clears) = newexecute.go), MC_Reuse (ExecCode refines
ExecSpec; fresh-after-reset; only vars carry over -- to a fixpoint), Gen_Reuse (all histories of <= MaxRuns runs with
reset variants, exported with the predicted output), Trace_Reuse (random longer histories recorded from one real
Interpreter, every run validated by TLC).
"""
import copy
from vlib import MachineryError

ALL_KINDS = ('{"plain", "setglob", "setfs", "csvhdr", "setmodes", "openout", "exit3", "errfunc", "errforin", "cancel", '
             '"rand", "srand5", "midfile", "match", "p_io", "p_func"}')
ALL_CFGS = '{"c0", "c1", "c2"}'
CORE = ["scanner", "ins", "outs", "sp", "record", "match", "status", "hdr", "argc"]

GROUPS = {}
for g, ks in {'globals': 'g ak', 'specials': 'FS RS OFS ORS CONVFMT OFMT SUBSEP cv ss',
              'record': 'NR FNR NF line FILENAME rec endNR', 'match': 'RSTART RLENGTH rstart', 'inputmode': 'INPUTMODE',
              'outputmode': 'OUTPUTMODE', 'rand': 'rand', 'outstreams': 'wclose wline',
              'instreams': 'midret mid rret rline', 'header': 'x', 'frames': 'fact forin boom loop sum'}.items():
    for k in ks.split():
        GROUPS[k] = g
GROUPS[''] = 'outputmode'


def tla_set(names):
    return '{' + ', '.join('"%s"' % n for n in names) + '}'


def corrupt(case, rnd):
    """Corrupt the prediction for the last run: a compared chunk value, or the exit status."""
    if any(r['kind'] == 'p_io' for r in case['runs'][:-1]):
        return None   # may be skipped by the replayer (a known finding can make an earlier run deviate): not a usable sample
    c = copy.deepcopy(case)
    eq = [ch for ch in c['out'] if ch['cmp'] == 'eq']
    if not eq or rnd.random() < 0.25:
        c['runs'][-1]['status'] += 1
    else:
        ch = rnd.choice(eq)
        ch['v'] = ch['v'] + [122]
    return c


def corrupt_event(ev, rnd):
    if ev.get('op') != 'run':
        return None
    e = copy.deepcopy(ev)
    if rnd.random() < 0.3:
        e['status'] += 1
    else:
        e['out'][rnd.randrange(3)]['v'].append(122)
    return e


def trace_failure(rej):
    """Signature + Gen_Reuse-format case for a recorded history that Trace_Reuse rejected."""
    runs, vr = [], set()
    for ev in rej['trace'][:rej['pos'] + 1]:
        if ev.get('op') == 'resetvars':
            vr.add('vars')
        elif ev.get('op') == 'resetrand':
            vr.add('rand')
        elif ev.get('op') == 'run':
            v = 'both' if len(vr) == 2 else (vr.pop() if vr else 'none')
            runs.append(dict(vr=v, kind=ev['kind'], cfg=ev['cfg'], status=ev['status'], err=ev['err']))
            vr = set()
    ev = rej['trace'][rej['pos']]
    exp = rej['info']['expected']
    runs[-1]['status'], runs[-1]['err'] = exp['status'], exp['err']
    case = dict(fam='reuse', runs=runs, out=exp['out'])
    cls = 'after-ResetVars' if runs[-1]['vr'] in ('vars', 'both') else 'no-ResetVars'
    eo, go = exp['out'], ev['out']
    grp = None
    for i in range(max(len(eo), len(go))):
        if i >= len(eo):
            grp = GROUPS.get(go[i]['k'], 'other')
        elif i >= len(go) or eo[i]['k'] != go[i]['k']:
            grp = GROUPS.get(go[i]['k'] if i < len(go) else eo[i]['k'], 'other')
        elif (eo[i]['cmp'] == 'eq' and eo[i]['v'] != go[i]['v']) or (eo[i]['cmp'] == 'fresh' and not ev['randfresh']):
            grp = GROUPS.get(eo[i]['k'], 'other')
        if grp:
            break
    if grp:
        d = 'wrong-value' if grp in ('globals', 'specials', 'rand') else 'carried-over'
        sig = f'C14/{grp}/{d}/{cls}'
    elif ev['err'] != exp['err']:
        sig = f"C14/error/{ev['err']}-instead-of-{exp['err']}/{cls}"
    else:
        sig = f'C14/status/carried-over/{cls}'
    if len(runs) == 1:
        sig = sig.replace('C14/', 'C14-FRESH-MODEL/', 1)
    return sig, case


def gate_fresh_model(ctx):
    """A disagreement in the FIRST run of a history is not about reuse (the interpreter is new): the model of the
    probe program is wrong, or the code has a defect another property owns.  Never a C14 verdict."""
    bad = [f for f in ctx.failures if f['sig'].startswith('C14-FRESH-MODEL')]
    if bad:
        f = bad[0]
        raise MachineryError(f"the specification mispredicts a run on a NEW interpreter ({f['sig']}: {f.get('what')}; "
                             f"expected {str(f.get('expected'))[:300]} observed {str(f.get('observed'))[:300]})")


def run(ctx):
    q = ctx.quick
    ctx.rule = ('a case is one history of Execute/ExecuteContext calls on ONE interp.New(program) -- each run one of 16 '
                'kinds (plain, sets globals/array, sets FS RS OFS ORS CONVFMT OFMT SUBSEP, CSV header, sets INPUTMODE/'
                'OUTPUTMODE, leaves an output stream open, exit 3, error in a function in a loop, error in for-in, '
                'cancelled mid-function, rand(), srand(5), getline<file to mid-file, match(), I/O probe, function probe) '
                'x 3 configurations (zero Config / Vars FS + OutputMode + file operand + ExecuteContext / InputMode csv '
                'header), with ResetVars/ResetRand variants -- exported by TLC from Gen_Reuse with the predicted output, '
                'status and error class, or one 5-12 operation random history recorded from the real interpreter; '
                'distinct by content; non-trivial when the judged run executes on an interpreter that already ran')
    ctx.assumptions += [
        'one AWK program with 16 modes (an Interpreter is tied to one program); every mode prints a fingerprint of all '
        'state visible in BEGIN (globals, array element, FS..SUBSEP, CONVFMT/OFMT effects, NR FNR NF $0 FILENAME RSTART '
        'RLENGTH INPUTMODE OUTPUTMODE, rand(), a print line) before doing what its kind says',
        'rand(): the statement fixes it only after ResetRand (equal to the first rand() of a new interpreter); when the '
        'generator was used and not reset the value is not judged',
        'the arrays FIELDS, ARGV and ENVIRON (program-visible arrays that Execute fills) are not observed: the statement '
        'lets arrays carry over without ResetVars and does not say whether these are "header names"/"configuration"',
        'error texts are not compared, only the class none / error / context.Canceled; text written to Config.Error is '
        'not compared',
        'a disagreement in the first run of a history (new interpreter) is reported as a machinery error, not as a verdict',
    ]
    ctx.build()
    # 1. model: the code-level reset discipline refines the statement (fixpoint over reachable states)
    mc = ctx.cfg('MC_Reuse', constants={'MaxDraws': 1} if q else {'MaxDraws': 2, 'JudgeKinds': '{"plain", "p_io", "p_func", "csvhdr", "midfile", "exit3", "openout"}'})
    ctx.tlc('MC_Reuse', mc, timeout=1500, heap='4g')
    if not q:
        # The model must be able to fail, and must agree with the code on which clears of resetCore matter:
        # without clearing the header names (the code as built: finding F11), the exit status or the output
        # streams TLC violates an invariant; clearing the stack pointer is redundant (nested calls restore it).
        verdicts = {}
        for f in ('hdr', 'status', 'outs', 'sp'):
            c = ctx.cfg('MC_Reuse', name=f'MC_Reuse_no_{f}', constants={'Clears': tla_set([x for x in CORE if x != f]), 'MaxDraws': 1})
            r = ctx.tlc('MC_Reuse', c, timeout=900, heap='4g', allow_fail=True, label=f'MC_Reuse without clearing {f}')
            if r['rc'] == 124:
                raise MachineryError('TLC timed out on the load-bearing analysis')
            verdicts[f] = not r['ok']
        ctx.notes.append('resetCore clears in the model: without "hdr" (the code as built, finding F11), "status" or "outs" TLC '
                         'violates an invariant; without "sp" it does not (redundant): ' + str(verdicts))
        if not (verdicts['hdr'] and verdicts['status'] and verdicts['outs']) or verdicts['sp']:
            raise MachineryError('model lost its teeth (or gained false ones): ' + str(verdicts))
    # 2. spec -> code
    if q:
        gen = ctx.cfg('Gen_Reuse', constants={'MaxRuns': 3})
        ctx.tlc('Gen_Reuse', gen, capture='cases.ndjson', timeout=900, heap='4g')
    else:
        gen = ctx.cfg('Gen_Reuse', constants={'MaxRuns': 3, 'LastCfgs': ALL_CFGS,
                                               'LastKinds': '{"plain", "p_io", "p_func", "csvhdr", "midfile", "setglob"}'})
        ctx.tlc('Gen_Reuse', gen, capture='cases.ndjson', timeout=2400, heap='8g')
        sim = ctx.cfg('Gen_Reuse', name='Gen_Reuse_sim', constants={'MaxRuns': 6, 'LastKinds': ALL_KINDS, 'LastCfgs': ALL_CFGS,
                                                                     'ResetsAnywhere': 'TRUE'})
        # in simulation mode TLC evaluates (and so exports) every successor of every state on a walk: one walk of
        # 6 runs yields ~800 histories (each prefix of the walk extended by every possible next run)
        ctx.tlc('Gen_Reuse', sim, capture='cases.ndjson', simulate=40, depth=7, workers=1, timeout=900)
    ctx.cov['exhaustive'] = True
    ctx.replay('cases.ndjson', label='gen-reuse', min_cases=1000, corrupt=corrupt)
    gate_fresh_model(ctx)
    # 3. code -> spec
    ntr = 100 if q else 1000
    ctx.harness(['C14', 'record', '-seed', str(ctx.seed), '-n', str(ntr), '-out', ctx.path('trace.ndjson')])
    rejects = ctx.validate_traces('Trace_Reuse', 'Trace_Reuse', 'trace.ndjson', label='trace-reuse', timeout=1500,
                                  corrupt_event=corrupt_event, selftest=False)
    for r in rejects:
        sig, case = trace_failure(r)
        ev = r['trace'][r['pos']]
        ctx.add_failure(sig, f"recorded history rejected by Trace_Reuse at event {r['line']} (run mode {ev['kind']}, config {ev['cfg']})",
                        case=case, expected=r['info'].get('expected'), observed=dict(status=ev['status'], err=ev['err'], out=ev['out']))
    gate_fresh_model(ctx)
    trace_selftest(ctx)


def trace_selftest(ctx):
    """Binding demonstration for the trace direction (validate_traces skips its own when known findings reject
    traces): corrupt one recorded run of a trace that was accepted, TLC must reject exactly that event."""
    import json, random
    events = [json.loads(x) for x in open(ctx.path('trace.ndjson')) if x.strip()]
    rnd = random.Random(ctx.seed)
    # keep a short log: the first 3 traces
    cut, n = len(events), 0
    for i, e in enumerate(events):
        if e.get('ev') == 'reset':
            n += 1
            if n == 4:
                cut = i
                break
    events = events[:cut]
    runs = [i for i, e in enumerate(events) if e.get('op') == 'run' and i <= 3]
    if not runs:
        raise MachineryError('trace self-test: no run event near the start of the log')
    i = runs[0]
    events[i] = corrupt_event(events[i], rnd)
    with open(ctx.path('bad_trace.ndjson'), 'w') as f:
        for e in events:
            f.write(json.dumps(e, separators=(',', ':')) + '\n')
    rej = ctx._run_trace('Trace_Reuse', 'Trace_Reuse', ctx.path('bad_trace.ndjson'), 'trace-reuse-selftest', 600, False)
    if not any(r['reject'] == i + 1 for r in rej):
        raise MachineryError(f'trace-reuse: binding self-test failed: corrupted event {i + 1} was accepted')
    ctx.cov.setdefault('selftest', []).append({'label': 'trace-reuse', 'corrupted_event': i + 1, 'rejected': True})
    ctx.log(f'trace-reuse: binding self-test ok (corrupted event {i + 1} rejected)')
