"""C14 -- a reused Interpreter behaves like a fresh one.

spec/Reuse.tla (state groups vars / per-run / rand; Run = transcription of the 43-mode AWK program in
harness/c14/program.go; ExecSpec = the statement, ExecCode(Clears) = newexecute.go), MC_Reuse (ExecCode refines
ExecSpec; fresh-after-reset; only vars carry over -- to a fixpoint), Gen_Reuse (all histories of <= MaxRuns runs with
reset variants, exported with the predicted output; ten families: the 16 original kinds; standard input through
every reading path with an input of its own per run; exit N outside END followed by a failing END; Execute /
ExecuteContext with contexts that are done after the call returned; the range pattern opened and the run ended in
every way; rand / srand in every order with every reset variant before any run; per-run Args / Argv0 / Environ and
programs that write ARGV / ENVIRON; Chars and the sandbox flags switched per run; printf / sprintf %c with the same
format strings under Chars / CONVFMT that differ per run; runs aborted deep inside nested calls followed by probes that
nest up to the limit of 1000 calls), Trace_Reuse (random longer
histories recorded from one real Interpreter, every run validated by TLC; rejected histories are re-run through the
replayer).
"""
import copy, json, os
from vlib import MachineryError

ALL_KINDS = ('{"plain", "setglob", "setfs", "csvhdr", "setmodes", "openout", "exit3", "errfunc", "errforin", "cancel", '
             '"rand", "srand5", "midfile", "match", "p_io", "p_func", "gl_plain", "gl_dash", "gl_dashvar", '
             '"exit_enderr", "exitbegin", "exit_endcancel", "sys", "pipe", "nr_plain", "sr_first", "sr_only", "sr_time", '
             '"av_write", "av_del", "rg_close", "rg_eof", "rg_exit", "rg_err", "rg_cancel", "rg_next", "rg_nextfile", "rg_getline", '
             '"fmtc", "dp_ok", "dp_err", "dp_exit", "dp_cancel"}')
OLD_KINDS = ('{"plain", "setglob", "setfs", "csvhdr", "setmodes", "openout", "exit3", "errfunc", "errforin", "cancel", '
             '"rand", "srand5", "midfile", "match", "p_io", "p_func"}')
ALL_CFGS = '{"c0", "c1", "c2", "c3", "c4", "c5", "c6", "c7", "c8", "c9", "c10", "c11"}'
CORE = ["scanner", "ins", "outs", "sp", "record", "match", "status", "hdr", "argc", "dash", "ctx", "range", "depth"]
FAMS = ('reuse', 'stdin', 'exit', 'ctx', 'range', 'rand', 'args', 'flags', 'fmt', 'depth')
# The quick model run: 16 kinds that between them touch every component of the per-run state, and the three
# configurations that differ in what they set (c3 / c4 differ from c0 only in how the call is made; c1 already is an
# ExecuteContext whose context is done after the call).
MC_QUICK = {'MaxDraws': 1, 'McTags': '{1}', 'McCfgs': '{"c0", "c1", "c2"}',
            'McKinds': '{"plain", "setglob", "setfs", "csvhdr", "openout", "exit3", "errfunc", "cancel", "midfile", "p_io", '
                       '"p_func", "gl_dash", "gl_dashvar", "exit_enderr", "exit_endcancel", "sys"}',
            'JudgeKinds': '{"plain", "p_io", "gl_dash"}', 'JudgeCfgs': '{"c0", "c1"}'}
# The second quick model run: the kinds of state the second extension added (the range pattern, the generator seeded
# and drawn from in different orders, ARGV / ENVIRON written and deleted, sandbox flags), with the configurations that
# differ in Args / Environ / flags.
MC_QUICK_NEW = {'MaxDraws': 2, 'McTags': '{1}', 'McCfgs': '{"c0", "c1", "c5", "c7"}',
                'McKinds': '{"plain", "exit3", "rg_close", "rg_exit", "rg_eof", "rg_err", "rg_cancel", "rg_getline", "sr_first", '
                           '"sr_only", "nr_plain", "srand5", "av_write", "av_del", "sys", "midfile"}',
                'JudgeKinds': '{"plain", "sr_first", "av_del"}', 'JudgeCfgs': '{"c0", "c5"}'}
# The third quick model run: formatted output under Chars / CONVFMT / output mode that differ from run to run, and
# runs aborted inside nested calls (400 deep, at the limit, beyond it) followed by probes that nest up to the limit.
MC_QUICK_R3 = {'MaxDraws': 1, 'McTags': '{1}', 'McCfgs': '{"c0", "c6", "c8", "c10", "c11"}',
               'McKinds': '{"plain", "setfs", "fmtc", "errfunc", "dp_ok", "dp_err", "dp_exit", "dp_cancel"}',
               'JudgeKinds': '{"plain", "fmtc", "dp_ok"}', 'JudgeCfgs': '{"c0", "c6", "c10"}'}
OLD24_KINDS = ('{"plain", "setglob", "setfs", "csvhdr", "setmodes", "openout", "exit3", "errfunc", "errforin", "cancel", '
               '"rand", "srand5", "midfile", "match", "p_io", "p_func", "gl_plain", "gl_dash", "gl_dashvar", '
               '"exit_enderr", "exitbegin", "exit_endcancel", "sys", "pipe"}')
MC_THOROUGH = {'MaxDraws': 1, 'McTags': '{1}', 'McCfgs': '{"c0", "c1", "c2", "c3"}', 'McKinds': OLD24_KINDS,
               'JudgeKinds': '{"plain", "p_io", "p_func", "csvhdr", "midfile", "gl_dash", "gl_dashvar", "sys"}',
               'JudgeCfgs': '{"c0", "c1", "c2"}'}
# a second thorough model run: the new kinds only, every configuration, two different inputs per configuration
MC_THOROUGH_NEW = {'MaxDraws': 1, 'McTags': '{1, 2}', 'McCfgs': '{"c0", "c1", "c3", "c4"}',
                   'McKinds': '{"plain", "p_func", "errfunc", "cancel", "gl_plain", "gl_dash", "gl_dashvar", "exit_enderr", '
                              '"exitbegin", "exit_endcancel", "sys", "pipe"}',
                   'JudgeKinds': '{"plain", "p_func", "gl_dash", "gl_dashvar", "sys", "pipe"}', 'JudgeCfgs': '{"c0", "c1", "c4"}'}
# two more thorough model runs for the kinds of the second extension: (a) the range pattern and the generator, two
# different inputs per configuration; (b) ARGV / ENVIRON / FIELDS and the per-run flags, every configuration that
# differs in Args / Environ / flags
MC_THOROUGH_R2A = {'MaxDraws': 3, 'McTags': '{1, 2}', 'McCfgs': '{"c0", "c1", "c2"}',
                   'McKinds': '{"plain", "exit3", "rand", "srand5", "nr_plain", "sr_first", "sr_only", "sr_time", "rg_close", "rg_eof", '
                              '"rg_exit", "rg_err", "rg_cancel", "rg_next", "rg_nextfile", "rg_getline"}',
                   'JudgeKinds': '{"plain", "sr_first", "srand5", "rg_close"}', 'JudgeCfgs': '{"c0", "c1", "c2"}'}
MC_THOROUGH_R2B = {'MaxDraws': 1, 'McTags': '{1}', 'McCfgs': '{"c0", "c1", "c5", "c6", "c7"}',
                   'McKinds': '{"plain", "setglob", "exit3", "csvhdr", "av_write", "av_del", "sys", "midfile", "p_io", "openout"}',
                   'JudgeKinds': '{"plain", "av_del", "p_io", "sys"}', 'JudgeCfgs': '{"c0", "c5", "c6", "c7"}'}
COMMAND_KINDS = ('sys', 'pipe')

GROUPS = {}
for g, ks in {'globals': 'g ak', 'specials': 'FS RS OFS ORS CONVFMT OFMT SUBSEP cv ss',
              'record': 'NR FNR NF line FILENAME rec endNR', 'match': 'RSTART RLENGTH rstart', 'inputmode': 'INPUTMODE',
              'outputmode': 'OUTPUTMODE pl', 'rand': 'rand rnd sr', 'outstreams': 'wclose wline', 'rt': 'RT',
              'range': 'rg nx rgl', 'argv': 'ARGC argvc argv argvx argvw', 'environ': 'env envw', 'fields-array': 'FIELDS',
              'chars-flag': 'chars', 'format': 'pf fc',
              'instreams': 'midret mid rret rline', 'header': 'x', 'frames': 'fact forin boom loop sum',
              'stdin': 'gl gd gvr gv', 'command': 'sysrc pipe'}.items():
    for k in ks.split():
        GROUPS[k] = g
GROUPS[''] = 'outputmode'


def tla_set(names):
    return '{' + ', '.join('"%s"' % n for n in names) + '}'


def corrupt(case, rnd):
    """Corrupt the prediction for the last run: a compared chunk value, or the exit status."""
    if any(r['kind'] == 'p_io' for r in case['runs'][:-1]):
        return None   # may be skipped by the replayer (a known finding can make an earlier run deviate): not a usable sample
    c = copy.deepcopy(case)
    eq = [ch for ch in c['out'] if ch['cmp'] in ('eq', 'rnd')]
    if not eq or rnd.random() < 0.25:
        c['runs'][-1]['status'] += 1
    else:
        ch = rnd.choice(eq)
        # (a draw is named "seed:idx": one more digit names another draw, or none)
        ch['v'] = ch['v'] + [57 if ch['cmp'] == 'rnd' else 122]
    return c


def corrupt_event(ev, rnd):
    if ev.get('op') != 'run':
        return None
    e = copy.deepcopy(ev)
    if rnd.random() < 0.3 or len(e['out']) < 3:
        e['status'] += 1
    else:
        e['out'][rnd.randrange(3)]['v'].append(122)
    return e


def selftest(ctx, cases, label, k, lenient):
    """Binding demonstration (as Ctx.selftest): corrupted predictions must be rejected by the replay.  When the replay
    of the uncorrupted cases has already found disagreements (lenient), the code does not follow the specification and
    a corrupted history may end in "a run before the last deviates" (skipped) instead: then every corrupted case must
    be rejected or skipped, at least one rejected -- a self-test must not turn a violation into a machinery error."""
    import random
    rnd = random.Random(ctx.seed)
    lines = []
    with open(cases) as f:
        for i, line in enumerate(f):
            if len(lines) < 400:
                lines.append(line)
            elif rnd.random() < 0.01:
                lines[rnd.randrange(len(lines))] = line
            if i > 200000:
                break
    rnd.shuffle(lines)
    bad = []
    for line in lines:
        c = corrupt(json.loads(line), rnd)
        if c is not None:
            bad.append(c)
        if len(bad) >= k:
            break
    if not bad:
        raise MachineryError(f'{label}: self-test could not corrupt any case')
    bf = ctx.path(f'selftest_{label}.ndjson')
    with open(bf, 'w') as f:
        for c in bad:
            f.write(json.dumps(c, separators=(',', ':')) + '\n')
    out = ctx.path(f'selftest_{label}.json')
    ctx.harness(['C14', 'replay', '-in', bf, '-out', out, '-maxfail', '1000'])
    s = json.load(open(out))
    nfail, nskip = sum(s['sig_counts'].values()), s['skipped']
    ctx.cov.setdefault('selftest', []).append({'label': label, 'corrupted': len(bad), 'rejected': nfail, 'skipped': nskip})
    if s['sig_counts'].get('HARNESS-PANIC'):
        raise MachineryError(f'{label}: harness panicked in the self-test')
    if (nfail < len(bad) and not lenient) or nfail + nskip < len(bad) or nfail == 0:
        raise MachineryError(f'{label}: binding self-test failed: {len(bad)} corrupted predictions, only {nfail} rejected ({nskip} skipped)')
    ctx.log(f'{label}: binding self-test ok ({nfail}/{len(bad)} corrupted predictions rejected' + (f', {nskip} skipped)' if nskip else ')'))


def trace_case(rej):
    """Gen_Reuse-format case for a recorded history that Trace_Reuse rejected: the history up to the rejected run,
    with the specification's prediction for that run."""
    runs, vr = [], set()
    for ev in rej['trace'][:rej['pos'] + 1]:
        if ev.get('op') == 'resetvars':
            vr.add('vars')
        elif ev.get('op') == 'resetrand':
            vr.add('rand')
        elif ev.get('op') == 'run':
            v = 'both' if len(vr) == 2 else (vr.pop() if vr else 'none')
            runs.append(dict(vr=v, kind=ev['kind'], cfg=ev['cfg'], tag=ev['tag'], status=ev['status'], err=ev['err']))
            vr = set()
    exp = rej['info']['expected']
    runs[-1]['status'], runs[-1]['err'] = exp['status'], exp['err']
    return dict(fam='trace', runs=runs, out=exp['out'])


def judge_rejects(ctx, rejects):
    """A history the specification rejects is re-run through the replayer (the same comparison, the same
    signatures as the spec -> code direction): only what is reproduced there is a verdict."""
    if not rejects:
        return
    cases = []
    for r in rejects:
        ev = r['trace'][r['pos']]
        if 'expected' not in (r.get('info') or {}):
            raise MachineryError(f"trace-reuse: the recorder wrote an event the specification does not know at line {r['line']}: "
                                 f"kind={ev.get('kind')} cfg={ev.get('cfg')} tag={ev.get('tag')}")
        cases.append(trace_case(r))
    with open(ctx.path('trace_cases.ndjson'), 'w') as f:
        for c in cases:
            f.write(json.dumps(c, separators=(',', ':')) + '\n')
    out = ctx.path('summary_trace-rejects.json')
    ctx.harness(['C14', 'replay', '-in', ctx.path('trace_cases.ndjson'), '-out', out, '-maxfail', '1000'])
    s = json.load(open(out))
    if s['sig_counts'].get('HARNESS-PANIC'):
        raise MachineryError('trace-reuse: harness panicked re-running a rejected history')
    for f in s['failures']:
        f['what'] = 'recorded history rejected by Trace_Reuse, reproduced: ' + str(f.get('what'))
        ctx.failures.append(f)
    for k, v in s['sig_counts'].items():
        ctx.sig_counts[k] = ctx.sig_counts.get(k, 0) + v
    nrep = sum(s['sig_counts'].values())
    ctx.log(f'trace-reuse: {len(rejects)} rejected histories re-run through the replayer: {nrep} reproduced')
    if nrep < len(cases):
        # a deterministic history that is rejected once and accepted the next time: only a child process (fork failure
        # under load) excuses that
        loose = [c for c in cases if not any(r['kind'] in COMMAND_KINDS for r in c['runs'])]
        ctx.notes.append(f'{len(cases) - nrep} rejected recorded histories were not reproduced by the replayer')
        if nrep == 0 and loose:
            raise MachineryError(f'trace-reuse: {len(cases)} recorded histories were rejected by the specification but none is '
                                 f'reproduced by the replayer (first: {json.dumps(loose[0])[:600]})')


def gate_fresh_model(ctx):
    """A disagreement in the FIRST run of a history is not about reuse (the interpreter is new): the model of the
    probe program is wrong, or the code has a defect another property owns.  Never a C14 verdict."""
    bad = [f for f in ctx.failures if f['sig'].startswith('C14-FRESH-MODEL')]
    if bad:
        f = bad[0]
        raise MachineryError(f"the specification mispredicts a run on a NEW interpreter ({f['sig']}: {f.get('what')}; "
                             f"expected {str(f.get('expected'))[:300]} observed {str(f.get('observed'))[:300]})")


def run(ctx):
    q = ctx.quick
    ctx.rule = ('a case is one history of Execute/ExecuteContext calls on ONE interp.New(program) -- each run one of 43 '
                'kinds (plain, sets globals/array, sets FS RS OFS ORS CONVFMT OFMT SUBSEP, CSV header, sets INPUTMODE/'
                'OUTPUTMODE, leaves an output stream open, exit 3, error in a function in a loop, error in for-in, '
                'cancelled mid-function, rand() x3, rand() srand(5) rand(), getline<file to mid-file, match(), I/O probe, '
                'function probe; reads all standard input with plain getline / with getline < "-", reads one record with '
                'getline var < "-" leaving the scanner mid-stream; exit 4 in a rule or exit 6 in BEGIN followed by a run-time '
                'error in END, exit 5 followed by a cancellation in END; system("exit 3"), "echo hi" | getline; never rand(), '
                'srand(7) before the first rand(), srand(9) only, srand() from the clock; writes ARGV[5] and ENVIRON["token"], '
                'deletes ARGV[2] and ENVIRON["home"]; opens the range pattern and closes it / leaves it open to the end of '
                'input / nextfile / getline in the body / next / exit 3 / run-time error / cancellation inside the range; %c through a format string built at run time; '
                'Vars-depth nested calls of a user function ending in return / division by zero / exit 3 / cancellation at the '
                'bottom) x 12 configurations (zero Config + Execute / Vars FS + OutputMode + file operand + ExecuteContext whose context is '
                'cancelled when the call has returned / InputMode csv header / ExecuteContext whose context expires when the '
                'call has returned / ExecuteContext(Background) / Argv0 + three assignment operands + Environ home lang / one '
                'operand + Environ user + Chars / NoExec NoFileWrites NoFileReads NoArgVars / Vars depth = 400, 700, 1000, 1001), every run with a standard input '
                'of its own, with ResetVars/ResetRand variants -- exported by TLC from Gen_Reuse (families reuse, stdin, exit, '
                'ctx, range, rand, args, flags, fmt, depth) with the predicted output, status and error class, or one 5-12 operation '
                'random history recorded from the real interpreter; distinct by content; non-trivial when the judged run '
                'executes on an interpreter that already ran')
    ctx.assumptions += [
        'one AWK program with 43 modes (an Interpreter is tied to one program); every mode prints a fingerprint of all '
        'state visible in BEGIN (globals, array element, FS..SUBSEP, CONVFMT/OFMT effects, NR FNR NF $0 FILENAME RSTART '
        'RLENGTH RT INPUTMODE OUTPUTMODE, length of a two-byte character, ARGC, ARGV below ARGC, ARGV and ENVIRON and '
        'FIELDS enumerated completely with for-in in key order, ARGV[ARGC], ARGV[ARGC+1], rand(), a print line) before '
        'doing what its kind says',
        'rand(): every value the program draws is compared with the draw of a NEW interpreter (interp.ExecProgram) that the '
        'specification names by seed and position -- as documented for Execute and ResetRand the sequence continues from '
        'run to run, restarts as on a new interpreter after ResetRand and with the given seed after srand(n); srand() '
        'returns the previous seed; after srand() without argument (time of day) nothing about rand()/srand() is judged '
        'until the next srand(n) or ResetRand; the comparison "same run on a new interpreter" is not made for that kind',
        'ARGV and ENVIRON are arrays: after ResetVars they hold exactly what the run\'s own Config assigns (judged by a '
        'complete enumeration, by ARGV[ARGC..ARGC+1], and by enumerating again after the program wrote or deleted '
        'elements). WITHOUT ResetVars the statement does not say whether elements of an earlier run that the new Config '
        'does not assign survive (arrays carry over; configuration does not): the complete enumerations are then judged '
        'only when no such element exists, the elements below ARGC always. FIELDS and RT: judged to be empty in BEGIN '
        'unless a run since the last ResetVars read a CSV header / read the main input (whether they are "header names" / '
        '"record state" or variables the statement does not say)',
        'range pattern: one range rule, started only by the rg_* kinds and evaluated by every kind; whether it is open '
        'belongs to one pass over the input',
        'Config.Chars, NoExec, NoFileWrites, NoFileReads, NoArgVars are switched on and off between runs (c6, c7); a '
        '`var=value` operand that names a program variable (c5: g=G5) must be carried out in the run after a NoArgVars run. '
        'NOT varied between runs: NewlineOutput, ShellCommand, OpenFile, Error, CSV separators/comment characters '
        '(setExecuteConfig assigns each of them unconditionally)',
        'formatted output: every run formats with printf and sprintf using format strings that are the same text in every '
        'run (%c of 233, of 65, of strings starting with a two- and a three-byte character; %s of 0.1234567; %d of 3.9), the kind '
        'fmtc with a format string concatenated at run time; what %c yields follows Config.Chars of the run that executes it '
        '(as documented for Config.Chars: printf %c counts chars instead of bytes), %s of a number its CONVFMT. %c of numbers '
        'above 255 without Chars is not generated (the byte conversion is not specified)',
        'nested calls: a NEW interpreter allows 1000 nested calls of user-defined functions and reports the call that '
        'would be one more as a run-time error (constant CallLimit of the model, checked against the code by the first run of '
        'every history); calls a run was aborted in (run-time error, exit, cancellation at the bottom of a recursion 400 / 700 / '
        '1000 deep, runaway recursion stopped at the limit) are not pending in later runs: a probe nests 3 / 700 / 1000 calls '
        'successfully and fails at 1001 whatever came before. The recorder never starts a history with exit executed 1000 '
        'calls deep (the END block that follows calls a function; a deviation there would be one of a new interpreter)',
        'error texts are not compared, only the class none / error / context.Canceled / context.DeadlineExceeded; text '
        'written to Config.Error is not compared',
        'a disagreement in the first run of a history (new interpreter) is reported as a machinery error, not as a verdict',
        'standard input: every run is handed its own reader (its last record names the run); a run reads it through one '
        'path, or through a second one only after the first reached the end -- what a second scanner sees of input that '
        'another scanner has buffered but not handed out is not modelled and not generated',
        'contexts: a run is governed by the context of its own call only; a context "cancelled after the call" is '
        'context.WithTimeout(1h) + cancel() on return, one "expired after the call" is a Context implementation whose '
        'Done channel the harness closes on return and whose Err() is then DeadlineExceeded; runs that cancel themselves '
        'are always given a context of their own',
        'commands (system("exit 3"), "echo hi" | getline) are started in END, after the main loop has consumed the '
        'standard input a child would inherit; a history that starts commands counts as failing only if it fails three '
        'times in a row (a fork can fail under load), and a rejected recorded history only if the replayer reproduces it',
        'exit N followed by a failing END: the status the failing call itself returns is 0 with the error (what a new '
        'interpreter returns); N must not show in any later run',
    ]
    ctx.build()
    # 1. model: the code-level reset discipline refines the statement (fixpoint over reachable states)
    if os.environ.get('VERIF_SKIP_MODEL'):      # development aid for runs against changed trees: the model does not depend on the code
        ctx.notes.append('model run skipped (VERIF_SKIP_MODEL)')
    else:
        mc = ctx.cfg('MC_Reuse', constants=MC_QUICK if q else MC_THOROUGH)
        ctx.tlc('MC_Reuse', mc, timeout=2400, heap='4g')
        if q:
            mc2 = ctx.cfg('MC_Reuse', name='MC_Reuse_quick_new', constants=MC_QUICK_NEW)
            ctx.tlc('MC_Reuse', mc2, timeout=2400, heap='4g')
            mc3 = ctx.cfg('MC_Reuse', name='MC_Reuse_quick_r3', constants=MC_QUICK_R3)
            ctx.tlc('MC_Reuse', mc3, timeout=2400, heap='4g')
        if not q:
            mc2 = ctx.cfg('MC_Reuse', name='MC_Reuse_new', constants=MC_THOROUGH_NEW)
            ctx.tlc('MC_Reuse', mc2, timeout=2400, heap='4g')
            for nm, consts in (('r2a', MC_THOROUGH_R2A), ('r2b', MC_THOROUGH_R2B), ('r3', MC_QUICK_R3)):
                mc3 = ctx.cfg('MC_Reuse', name=f'MC_Reuse_{nm}', constants=consts)
                ctx.tlc('MC_Reuse', mc3, timeout=2400, heap='4g')
            # The model must be able to fail, and must agree with the code on which clears of resetCore matter:
            # without clearing the header names (finding F11, since fixed), the exit status, the output streams, the
            # scanners map (getline < "-"), the context of an earlier call or the flags of the range patterns (a local of
            # execActions) TLC violates an invariant; clearing the stack pointer is redundant (nested calls restore it).
            verdicts = {}
            for f in ('hdr', 'status', 'outs', 'dash', 'ctx', 'range', 'depth', 'sp'):
                base = MC_QUICK_NEW if f == 'range' else MC_QUICK_R3 if f == 'depth' else MC_QUICK
                c = ctx.cfg('MC_Reuse', name=f'MC_Reuse_no_{f}', constants=dict(base, Clears=tla_set([x for x in CORE if x != f])))
                r = ctx.tlc('MC_Reuse', c, timeout=900, heap='4g', allow_fail=True, label=f'MC_Reuse without clearing {f}')
                if r['rc'] == 124:
                    raise MachineryError('TLC timed out on the load-bearing analysis')
                verdicts[f] = not r['ok']
            ctx.notes.append('resetCore clears in the model: without "hdr", "status", "outs", "dash" (the scanners map), "ctx" '
                             '(switching context checking off), "range" (range flags new for every pass over the input) or "depth" '
                             '(calls an aborted run was in are not pending in the next) TLC violates an invariant; without "sp" it does not (redundant): ' + str(verdicts))
            if not all(verdicts[f] for f in ('hdr', 'status', 'outs', 'dash', 'ctx', 'range', 'depth')) or verdicts['sp']:
                raise MachineryError('model lost its teeth (or gained false ones): ' + str(verdicts))
    # 2. spec -> code
    if q:
        gen = ctx.cfg('Gen_Reuse', constants={'MaxRuns': 3})
        ctx.tlc('Gen_Reuse', gen, capture='cases.ndjson', timeout=900, heap='4g')
    else:
        gen = ctx.cfg('Gen_Reuse', constants={'MaxRuns': 3, 'LastCfgs': '{"c0", "c1", "c2"}', 'Deep': 'TRUE',
                                               'LastKinds': '{"plain", "p_io", "p_func", "csvhdr", "midfile", "setglob"}'})
        ctx.tlc('Gen_Reuse', gen, capture='cases.ndjson', timeout=3000, heap='8g')
        sim = ctx.cfg('Gen_Reuse', name='Gen_Reuse_sim', constants={'Fams': '{"reuse"}', 'MaxRuns': 6, 'RunKinds': ALL_KINDS, 'RunCfgs': ALL_CFGS,
                                                                     'LastKinds': ALL_KINDS, 'LastCfgs': ALL_CFGS, 'ResetsAnywhere': 'TRUE'})
        # in simulation mode TLC evaluates (and so exports) every successor of every state on a walk: one walk of
        # 6 runs yields ~12000 histories (each prefix of the walk extended by every possible next run: 43 kinds x 12
        # configurations x 4 reset variants)
        ctx.tlc('Gen_Reuse', sim, capture='cases.ndjson', simulate=6, depth=7, workers=1, timeout=1800)
    ctx.cov['exhaustive'] = True
    ctx.replay('cases.ndjson', label='gen-reuse', min_cases=1000, selftest=False)
    gate_fresh_model(ctx)
    lenient = bool(ctx.failures)
    selftest(ctx, ctx.path('cases.ndjson'), 'gen-reuse', 12, lenient)
    fams = {}
    for line in open(ctx.path('cases.ndjson')):
        k = json.loads(line)['fam']
        fams[k] = fams.get(k, 0) + 1
    ctx.cov['families'] = fams
    if not all(fams.get(k) for k in FAMS):
        raise MachineryError(f'Gen_Reuse exported no case for some family: {fams}')
    # the binding demonstration once more for each new family alone
    for fam in FAMS[1:]:
        ff = ctx.path(f'cases_{fam}.ndjson')
        with open(ff, 'w') as f:
            for line in open(ctx.path('cases.ndjson')):
                if json.loads(line)['fam'] == fam:
                    f.write(line)
        selftest(ctx, ff, f'gen-reuse-{fam}', 8, lenient)
    # 3. code -> spec
    ntr = 100 if q else 1000
    ctx.harness(['C14', 'record', '-seed', str(ctx.seed), '-n', str(ntr), '-out', ctx.path('trace.ndjson')])
    rejects = ctx.validate_traces('Trace_Reuse', 'Trace_Reuse', 'trace.ndjson', label='trace-reuse', timeout=1500,
                                  corrupt_event=corrupt_event, selftest=False)
    judge_rejects(ctx, rejects)
    gate_fresh_model(ctx)
    trace_selftest(ctx)


def trace_selftest(ctx):
    """Binding demonstration for the trace direction (validate_traces skips its own when known findings reject
    traces): corrupt one recorded run of a trace that was accepted, TLC must reject exactly that event."""
    import json, random
    events = [json.loads(x) for x in open(ctx.path('trace.ndjson')) if x.strip()]
    rnd = random.Random(ctx.seed)
    # keep a short log: the first 3 traces
    cut, n = len(events), 0
    for i, e in enumerate(events):
        if e.get('ev') == 'reset':
            n += 1
            if n == 4:
                cut = i
                break
    events = events[:cut]
    runs = [i for i, e in enumerate(events) if e.get('op') == 'run' and i <= 3]
    if not runs:
        raise MachineryError('trace self-test: no run event near the start of the log')
    i = runs[0]
    events[i] = corrupt_event(events[i], rnd)
    with open(ctx.path('bad_trace.ndjson'), 'w') as f:
        for e in events:
            f.write(json.dumps(e, separators=(',', ':')) + '\n')
    rej = ctx._run_trace('Trace_Reuse', 'Trace_Reuse', ctx.path('bad_trace.ndjson'), 'trace-reuse-selftest', 600, False)
    if not any(r['reject'] == i + 1 for r in rej):
        raise MachineryError(f'trace-reuse: binding self-test failed: corrupted event {i + 1} was accepted')
    ctx.cov.setdefault('selftest', []).append({'label': 'trace-reuse', 'corrupted_event': i + 1, 'rejected': True})
    ctx.log(f'trace-reuse: binding self-test ok (corrupted event {i + 1} rejected)')
