"""C01 -- compiled execution preserves the meaning of the parsed program.

spec/AwkSem.tla is a reference big-step semantics over the syntax tree; Gen_AwkSem.tla enumerates program
families that each cross one compiler mechanism completely, together with spellings the reference semantics
proves equivalent (TLC asserts the equivalence on the model for every case); the harness renders every
spelling, runs it through the real parser + compiler + VM and compares stdout, exit status and error outcome
with the single prediction.  Trace_AwkSem validates programs produced by a seeded random generator and run
on the real interpreter.
"""
import copy, json
from vlib import MachineryError

FAMILIES = ['assign', 'cond', 'loop', 'concat', 'call', 'const', 'pattern', 'flow', 'misc', 'fracconst', "builtins2", "valuetype", "multidim"]


def corrupt(case, rnd):
    c = copy.deepcopy(case)
    c['expect']['out'] = c['expect']['out'] + [122]
    return c


def corrupt_event(ev, rnd):
    e = copy.deepcopy(ev)
    if 'obs' not in e:
        return None
    e['obs']['out'] = e['obs']['out'] + [122]
    return e


def corrupt_vm_event(ev, rnd):
    e = copy.deepcopy(ev)
    if 'expect' not in e:
        return None
    e['expect']['out'] = e['expect']['out'] + [122]
    return e


def run(ctx):
    q = ctx.quick
    ctx.rule = ('a case is one AWK program (plus 0-9 spellings the reference semantics proves equivalent, each run too) from '
                'the families assign (7 lvalue kinds x 11 operations x 5 expression positions x initial values), cond (6 '
                'comparisons x 11x11 operand kinds x 10 control-flow spellings), loop, flow (loop nests x jump statements x '
                'positions x contexts), concat (all groupings of 2-5 operands), call, const, pattern, misc (sub/gsub on every target '
                'kind, delete, exit/return forms, bare regexes, printf, builtins), multidim (subscript lists x SUBSEP values x operand kinds, each also spelled as the concatenation it stands for); or one random program '
                'recorded from the real interpreter; distinct by content; every case is non-trivial (it executes the '
                'mechanism named in its "mech" field)')
    ctx.assumptions += [
        'numbers are integers of magnitude <= 30000; programs whose evaluation leaves that domain (inexact division, '
        'overflow, numeric-looking strings that are not plain integers) are not exported',
        'in an assignment the right-hand side is evaluated before the index of the lvalue (AWK leaves the order open; '
        'GoAWK uses this order in every spelling)',
        'for-in bodies only count, so that the iteration order is not observable',
        'comparisons on fields the program itself assigned are not generated (their typing is C05 territory)',
    ]
    ctx.build()
    fams = FAMILIES
    # TLC evaluates every case with the reference semantics, asserts the equivalence of spellings (model sanity)
    # and exports the prediction
    cfg = ctx.cfg('Gen_AwkSem', constants={'Families': '{' + ', '.join('"%s"' % f for f in fams) + '}'})
    ctx.tlc('Gen_AwkSem', cfg, capture='cases.ndjson', timeout=1500, heap='8g')
    ctx.cov['exhaustive'] = True
    ctx.replay('cases.ndjson', label='gen-awksem', min_cases=5000, corrupt=corrupt)
    # code -> spec: random programs run on the real interpreter, validated by the reference semantics in TLC
    ntr = 400 if q else 4000
    ctx.harness(['C01', 'record', '-seed', str(ctx.seed), '-n', str(ntr), '-out', ctx.path('trace.ndjson')])
    rejects = ctx.validate_traces('Trace_AwkSem', 'Trace_AwkSem', 'trace.ndjson', label='trace-awksem',
                                  corrupt_event=corrupt_event, timeout=1500, parallel=ctx.cores)
    for r in rejects:
        ev = r['trace'][r['pos']]
        exp = r['info'].get('expected')
        case = dict(fam='random', mech='random/' + ev.get('shape', 'program'), prog=ev['prog'], variants=[],
                    input=ev['input'], expect=exp)
        ctx.add_failure('C01/random/' + ev.get('shape', 'program'),
                        f"program recorded from the real interpreter rejected by Trace_AwkSem at event {r['line']}",
                        case=case, expected=exp, observed=ev.get('obs'))
    # translation validation of the real compiler inside TLC: the byte code the real compiler emitted for the
    # generated programs (a sample in the quick tier) and for the recorded random programs is run on the VM
    # specification (VM.tla) and must give the reference outcome.  A rejection localises a disagreement already
    # reported above to the compiler (VM.tla agrees with the real VM on the code, the code is wrong); a rejection
    # WITHOUT a disagreement of the real run means VM.tla is out of date: exit 2, never a violation.
    stride = 30 if q else 3
    ctx.harness(['C01', 'vmdump', '-in', ctx.path('cases.ndjson'), '-stride', str(stride), '-out', ctx.path('vm1.ndjson')])
    ctx.harness(['C01', 'vmdump', '-in', ctx.path('trace.ndjson'), '-limit', str(150 if q else 1500), '-out', ctx.path('vm2.ndjson')])
    with open(ctx.path('vmcases.ndjson'), 'w') as f:
        f.write(open(ctx.path('vm1.ndjson')).read())
        f.write(open(ctx.path('vm2.ndjson')).read())
    vmrej = ctx.validate_traces('MC_VM', 'MC_VM', 'vmcases.ndjson', label='mc-vm', corrupt_event=corrupt_vm_event, timeout=3000, parallel=ctx.cores)
    ctx.cov['vm_translation_validation'] = {'rejected': len(vmrej)}
    if vmrej and not ctx.failures:
        ev = vmrej[0]['trace'][vmrej[0]['pos']]
        raise MachineryError('VM.tla, run on the real compiler\'s code, disagrees with the reference outcome for ' + ev.get('name', '?') +
                             ' although the real run agrees: the VM specification is out of date (not a verdict on the code)')
    if vmrej:
        ctx.notes.append('the disagreement is reproduced by VM.tla on the real compiler\'s byte code for: ' +
                         ', '.join(sorted({x['trace'][x['pos']].get('name', '?') for x in vmrej})[:10]) +
                         ' -- the emitted code (compiler), not the real VM, is at fault there')
