"""C01 -- compiled execution preserves the meaning of the parsed program.

spec/AwkSem.tla is a reference big-step semantics over the syntax tree; Gen_AwkSem.tla enumerates program
families that each cross one compiler mechanism completely, together with spellings the reference semantics
proves equivalent (TLC asserts the equivalence on the model for every case); the harness renders every
spelling, runs it through the real parser + compiler + VM and compares stdout, exit status and error outcome
with the single prediction.  Trace_AwkSem validates programs produced by a seeded random generator and run
on the real interpreter.
"""
import copy, json
from vlib import MachineryError

FAMILIES = ['assign', 'cond', 'loop', 'concat', 'call', 'const', 'pattern', 'flow', 'misc']


def corrupt(case, rnd):
    c = copy.deepcopy(case)
    c['expect']['out'] = c['expect']['out'] + [122]
    return c


def corrupt_event(ev, rnd):
    e = copy.deepcopy(ev)
    if 'obs' not in e:
        return None
    e['obs']['out'] = e['obs']['out'] + [122]
    return e


def run(ctx):
    q = ctx.quick
    ctx.rule = ('a case is one AWK program (plus 0-9 spellings the reference semantics proves equivalent, each run too) from '
                'the families assign (7 lvalue kinds x 11 operations x 5 expression positions x initial values), cond (6 '
                'comparisons x 11x11 operand kinds x 10 control-flow spellings), loop, flow (loop nests x jump statements x '
                'positions x contexts), concat (all groupings of 2-5 operands), call, const, pattern, misc (sub/gsub on every target '
                'kind, delete, exit/return forms, bare regexes, printf, builtins); or one random program '
                'recorded from the real interpreter; distinct by content; every case is non-trivial (it executes the '
                'mechanism named in its "mech" field)')
    ctx.assumptions += [
        'numbers are integers of magnitude <= 30000; programs whose evaluation leaves that domain (inexact division, '
        'overflow, numeric-looking strings that are not plain integers) are not exported',
        'in an assignment the right-hand side is evaluated before the index of the lvalue (AWK leaves the order open; '
        'GoAWK uses this order in every spelling)',
        'for-in bodies only count, so that the iteration order is not observable',
        'comparisons on fields the program itself assigned are not generated (their typing is C05 territory)',
    ]
    ctx.build()
    fams = FAMILIES
    # TLC evaluates every case with the reference semantics, asserts the equivalence of spellings (model sanity)
    # and exports the prediction
    cfg = ctx.cfg('Gen_AwkSem', constants={'Families': '{' + ', '.join('"%s"' % f for f in fams) + '}'})
    ctx.tlc('Gen_AwkSem', cfg, capture='cases.ndjson', timeout=1500, heap='8g')
    ctx.cov['exhaustive'] = True
    ctx.replay('cases.ndjson', label='gen-awksem', min_cases=5000, corrupt=corrupt)
    # code -> spec: random programs run on the real interpreter, validated by the reference semantics in TLC
    ntr = 400 if q else 4000
    ctx.harness(['C01', 'record', '-seed', str(ctx.seed), '-n', str(ntr), '-out', ctx.path('trace.ndjson')])
    rejects = ctx.validate_traces('Trace_AwkSem', 'Trace_AwkSem', 'trace.ndjson', label='trace-awksem',
                                  corrupt_event=corrupt_event, timeout=1500)
    for r in rejects:
        ev = r['trace'][r['pos']]
        exp = r['info'].get('expected')
        case = dict(fam='random', mech='random/' + ev.get('shape', 'program'), prog=ev['prog'], variants=[],
                    input=ev['input'], expect=exp)
        ctx.add_failure('C01/random/' + ev.get('shape', 'program'),
                        f"program recorded from the real interpreter rejected by Trace_AwkSem at event {r['line']}",
                        case=case, expected=exp, observed=ev.get('obs'))
