"""C16 -- scalar/array typing is sound, exact and independent of declaration order.

spec/Resolver.tla (declarative typing; the multi-pass inference of internal/resolver as a state machine over
every body order Go's map iteration and the topological walk can yield; run-time model of accepted programs),
spec/ResolverGen.tla (program universes), MC_Resolver (Exact / Sound / PassBound / order independence),
Gen_Resolver (programs exported with verdict, types, indexes and predicted output; family "frames": one function of
3-4 parameters called -- from the main body twice, and recursively -- with fewer arguments than parameters, the
omitted ones being every mix of scalars and local arrays),
Trace_Resolver (resolutions of richer random programs recorded from the real parser, validated by TLC).
"""
import copy, os
from vlib import MachineryError


def corrupt(case, rnd):
    """Corrupt the prediction: bump a predicted output value of an accepted program, or flip the verdict."""
    c = copy.deepcopy(case)
    if c['verdict'] == 'accept' and c['out'] and rnd.random() < 0.5:
        c['out'][rnd.randrange(len(c['out']))]['n'] += 1
        return c
    if c['verdict'] == 'accept':
        c['verdict'], c['out'] = 'reject', []
    else:
        c['verdict'] = 'accept'
    return c


def corrupt_event(ev, rnd):
    e = copy.deepcopy(ev)
    if e.get('verdict') == 'accept' and e.get('out'):
        e['out'][rnd.randrange(len(e['out']))]['n'] += 1
        return e
    if e.get('verdict') == 'reject':
        return None          # an accept event needs types and output: corrupt accepted ones only
    return None


USAGE = dict(NP1=1, NP2=1, NP3=9, NG=2, MaxMainCalls=1, AllowRev='FALSE', MinArgs=1, NFm=3, NPf=3, FrLen='FALSE',
             Family='"usage"')


def consts(**kw):
    d = dict(USAGE)
    d.update(kw)
    return d


def run(ctx):
    q = ctx.quick
    os.environ['_JAVA_OPTIONS'] = f'-XX:ParallelGCThreads={max(2, min(ctx.cores, 8))}'
    ctx.rule = ('a case is one abstract program (functions with parameters, a main body over globals; statements: scalar '
                'use, array use, length(v), call with variable/constant arguments, possibly fewer than parameters, incl. '
                'recursion; family "frames": a function of 3-4 parameters called twice from the main body and recursively with '
                'fewer arguments than parameters, every mix of omitted scalars and omitted local arrays) '
                'exported by TLC from Gen_Resolver with the declarative verdict, types and predicted output, and '
                'rendered in every definition order (functions permuted, BEGIN first/last) and under three naming schemes '
                '(plain, name order reversed, parameters shadowing globals), each parsed 4-16 times; or one resolution of a '
                'random richer program recorded from the real parser; distinct by content; non-trivial when a variable is '
                'passed as an argument or a constant is passed (the propagation mechanism is exercised) or a call leaves '
                'parameters without argument (the callee frame is exercised)')
    ctx.assumptions += [
        'programs inside the statement\'s precondition only (calls name defined functions, no more arguments than '
        'parameters, no name used both as function and variable)',
        'a scalar use is rendered as v = v "x", sub(/$/, "x", v) or v = sprintf("%sx", v); an array use as '
        'v[length(v)] = 1, optionally preceded by an `in` test, a delete or a for-in over v (the form is a function of the '
        'statement\'s place); length(v) carries no evidence; split(), getline targets and native-function arguments are '
        'not generated',
        'calls made inside functions are guarded by a depth limit of 2 in the generated text and in the run-time model',
        'run-time model of accepted programs: values are counters (a scalar is a string of that many characters, an array '
        'has that many elements); the constant passed as argument number j is a string of j characters; a parameter '
        'without argument is uninitialised (scalar) or a fresh empty array on every call, recursive calls and the second '
        'of two identical calls included; arrays are shared with the caller, scalars are copied',
        'error messages and positions are not compared here (C19 compares them across repeated parses)',
    ]
    ctx.build()
    big = consts(NP1=2, NP2=2, NP3=1, NG=2, MaxMainCalls=2, AllowRev='TRUE', MinArgs=0)
    frames = consts(Family='"frames"', NPf=3, FrLen='FALSE' if q else 'TRUE')
    if os.environ.get('VERIF_SKIP_MODEL'):      # development aid for runs against changed code: the model does not depend on the code
        ctx.notes.append('model run skipped (VERIF_SKIP_MODEL)')
    else:
        # 1. the model: every program of the universe x every body order
        mc = ctx.cfg('MC_Resolver', name='MC_Resolver_ex',
                     constants=consts(NG=1 if q else 2, MapOrder='"any"'))
        ctx.tlc('MC_Resolver', mc, timeout=1500, heap='8g')
        if not q:   # two parameters, fewer arguments than parameters, both functions calling either
            mc2 = ctx.cfg('MC_Resolver', name='MC_Resolver_mid', constants=consts(NP1=2, NP2=1, NG=1, MapOrder='"any"'))
            ctx.tlc('MC_Resolver', mc2, timeout=3000, heap='10g')
        mcs = ctx.cfg('MC_Resolver', name='MC_Resolver_sim', constants=dict(big, MapOrder='"any"'))
        ctx.tlc('MC_Resolver', mcs, simulate=(400 if q else 5000), depth=400, workers=min(4, ctx.cores), timeout=1500)
        # the inference on the programs of the "frames" family (three/four parameters, recursion with fewer arguments)
        mcf = ctx.cfg('MC_Resolver', name='MC_Resolver_frames', constants=dict(frames, MapOrder='"any"'))
        ctx.tlc('MC_Resolver', mcf, simulate=(150 if q else 3000), depth=400, workers=min(4, ctx.cores), timeout=1500)
    # 2. spec -> code
    gen = ctx.cfg('Gen_Resolver', name='Gen_Resolver_ex', constants=consts())
    ctx.tlc('Gen_Resolver', gen, capture='cases.ndjson', timeout=1500, heap='8g')
    gsim = ctx.cfg('Gen_Resolver', name='Gen_Resolver_sim', constants=big)
    ctx.tlc('Gen_Resolver', gsim, capture='cases.ndjson', simulate=(600 if q else 15000), depth=40,
            workers=min(4, ctx.cores), timeout=1500)
    # calls with fewer arguments than parameters, every mix of omitted scalars and omitted local arrays, recursion
    gfr = ctx.cfg('Gen_Resolver', name='Gen_Resolver_frames', constants=frames)
    ctx.tlc('Gen_Resolver', gfr, capture='cases.ndjson', timeout=3000, heap='8g')
    if not q:
        mid = consts(NP1=2, NP2=1, NG=1, MinArgs=1)
        g2 = ctx.cfg('Gen_Resolver', name='Gen_Resolver_mid', constants=mid)
        ctx.tlc('Gen_Resolver', g2, capture='cases.ndjson', timeout=3000, heap='8g')
        gf4 = ctx.cfg('Gen_Resolver', name='Gen_Resolver_frames4', constants=dict(frames, NPf=4))
        ctx.tlc('Gen_Resolver', gf4, capture='cases.ndjson', simulate=5000, depth=20, workers=min(4, ctx.cores), timeout=1500)
    ctx.cov['exhaustive'] = True
    ctx.replay('cases.ndjson', label='gen-resolver', min_cases=1000, corrupt=corrupt)
    # the binding self-test again on the new family alone: accepted programs whose calls leave parameters out
    with open(ctx.path('cases_frames.ndjson'), 'w') as f:
        for line in open(ctx.path('cases.ndjson')):
            if '"fam":"frames"' in line and '"omitted":["' in line:
                f.write(line)
    ctx.selftest(ctx.path('cases_frames.ndjson'), 'C16', corrupt, 'gen-resolver-frames')
    nfr = sum(1 for line in open(ctx.path('cases.ndjson')) if '"fam":"frames"' in line and '"omitted":["' in line)
    ctx.cov['frames_cases_with_omitted_parameters'] = nfr
    if nfr < 100:
        raise MachineryError(f'only {nfr} accepted programs of the "frames" family were exported')
    # 3. code -> spec
    ntr = 150 if q else 1500
    ctx.harness(['C16', 'record', '-seed', str(ctx.seed), '-n', str(ntr), '-out', ctx.path('trace.ndjson')])
    rejects = ctx.validate_traces('Trace_Resolver', 'Trace_Resolver', 'trace.ndjson', label='trace-resolver',
                                  corrupt_event=corrupt_event, timeout=1500)
    for r in rejects:
        ev = r['trace'][r['pos']]
        exp = (r['info'] or {}).get('expected', {})
        what = 'verdict' if ev.get('verdict') != exp.get('verdict') else \
               ('types' if ev.get('types') != exp.get('types') else ('run' if ev.get('run') != exp.get('run') else 'output'))
        case = dict(fam='recorded', prog=ev['prog'], verdict=exp.get('verdict'), types=exp.get('types') or [],
                    out=exp.get('out') or [], norders=2, errs=[])
        ctx.add_failure(f'C16/trace/{what}/recorded', f'recorded resolution rejected by Trace_Resolver at event {r["line"]}',
                        case=case, expected=exp, observed={k: ev.get(k) for k in ('verdict', 'types', 'run', 'out', 'msg')},
                        program=ev.get('src'))
