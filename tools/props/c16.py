"""C16 -- scalar/array typing is sound, exact and independent of declaration order.

spec/Resolver.tla (declarative typing; the multi-pass inference of internal/resolver as a state machine over
every body order Go's map iteration and the topological walk can yield; run-time model of accepted programs),
spec/ResolverGen.tla (program universes), MC_Resolver (Exact / Sound / PassBound / order independence),
Gen_Resolver (programs exported with verdict, types, indexes and predicted output; family "frames": one function of
3-4 parameters called -- from the main body twice, and recursively -- with fewer arguments than parameters, the
omitted ones being every mix of scalars and local arrays; family "forms": the FORM of an argument of a call or of
length() -- bare variable x, parenthesised (x), expression x "", element x[length(x)], constant -- meeting a parameter
that is a scalar, an array, unused or only passed on: only the bare variable shares the parameter's type, every
other form is a scalar value, a use of the variable it names, and makes the parameter a scalar),
Trace_Resolver (resolutions of richer random programs recorded from the real parser, validated by TLC).
"""
import copy, os
from vlib import MachineryError


def corrupt(case, rnd):
    """Corrupt the prediction: bump a predicted output value of an accepted program, or flip the verdict."""
    c = copy.deepcopy(case)
    if c['verdict'] == 'accept' and c['out'] and rnd.random() < 0.5:
        c['out'][rnd.randrange(len(c['out']))]['n'] += 1
        return c
    if c['verdict'] == 'accept':
        c['verdict'], c['out'] = 'reject', []
    else:
        c['verdict'] = 'accept'
    return c


def corrupt_forms(case, rnd):
    """Corrupt what the specification predicts about argument forms: the verdict of a program (an expression passed to
    an array parameter / naming a variable of the other type is to be rejected, anything else accepted), or the value
    printed for length(expression) or printed after an expression was evaluated (the element it created)."""
    c = copy.deepcopy(case)
    if c['verdict'] == 'accept' and c['out'] and rnd.random() < 0.6:
        def body(f):
            return c['prog']['main'] if f == 0 else c['prog']['funcs'][f - 1]['body']
        own = [k for k, o in enumerate(c['out'])
               if o['k'] == 'len' and body(o['f'])[o['i'] - 1]['v'].get('fm', 'v') != 'v']
        k = rnd.choice(own) if own and rnd.random() < 0.7 else len(c['out']) - 1
        c['out'][k]['n'] += 1
        return c
    return corrupt(case, rnd)


def has_forms(line):
    """an exported case (one ndjson line) with an argument of a call or of length() that is an expression form"""
    return '"fm":"p"' in line or '"fm":"e"' in line or '"fm":"x"' in line


def form_class(prog):
    """The argument class of a program with expression arguments (the same names as harness/c16 formClass): the first
    of paren, expr, elem -- as argument of a call before as operand of length() -- that occurs; '' when none does."""
    seen = set()
    for body in [prog.get('main', [])] + [f.get('body', []) for f in prog.get('funcs', [])]:
        for st in body:
            if st.get('k') == 'len' and st.get('v', {}).get('sc') != 'C':
                seen.add('length-' + st['v'].get('fm', 'v'))
            for a in st.get('args', []) or []:
                if a.get('sc') != 'C':
                    seen.add('arg-' + a.get('fm', 'v'))
    for fm, name in (('p', 'paren'), ('e', 'expr'), ('x', 'elem')):
        for place in ('arg-', 'length-'):
            if place + fm in seen:
                return place + name
    return ''


def corrupt_event(ev, rnd):
    e = copy.deepcopy(ev)
    if e.get('verdict') == 'accept' and e.get('out'):
        e['out'][rnd.randrange(len(e['out']))]['n'] += 1
        return e
    if e.get('verdict') == 'reject':
        return None          # an accept event needs types and output: corrupt accepted ones only
    return None


USAGE = dict(NP1=1, NP2=1, NP3=9, NG=2, MaxMainCalls=1, AllowRev='FALSE', MinArgs=1, NFm=3, NPf=3, FrLen='FALSE',
             Forms='{}', FxWide='FALSE', Family='"usage"')


def consts(**kw):
    d = dict(USAGE)
    d.update(kw)
    return d


def run(ctx):
    q = ctx.quick
    os.environ['_JAVA_OPTIONS'] = f'-XX:ParallelGCThreads={max(2, min(ctx.cores, 8))}'
    ctx.rule = ('a case is one abstract program (functions with parameters, a main body over globals; statements: scalar '
                'use, array use, length(v), call with variable/constant arguments, possibly fewer than parameters, incl. '
                'recursion; family "frames": a function of 3-4 parameters called twice from the main body and recursively with '
                'fewer arguments than parameters, every mix of omitted scalars and omitted local arrays; family "forms": two '
                'one-parameter functions and one global, every argument of a call and of length() in each of the forms bare '
                'variable / (x) / x "" / x[length(x)] / constant against a parameter that is scalar, array, unused or passed '
                'on in any form) '
                'exported by TLC from Gen_Resolver with the declarative verdict, types and predicted output, and '
                'rendered in every definition order (functions permuted, BEGIN first/last) and under three naming schemes '
                '(plain, name order reversed, parameters shadowing globals), each parsed 4-16 times; or one resolution of a '
                'random richer program recorded from the real parser; distinct by content; non-trivial when a variable is '
                'passed as an argument or a constant or an expression is passed or length() is taken of an expression (the '
                'propagation mechanism is exercised) or a call leaves parameters without argument (the callee frame is '
                'exercised)')
    ctx.assumptions += [
        'programs inside the statement\'s precondition only (calls name defined functions, no more arguments than '
        'parameters, no name used both as function and variable)',
        'a scalar use is rendered as v = v "x", sub(/$/, "x", v) or v = sprintf("%sx", v); an array use as '
        'v[length(v)] = 1, optionally preceded by an `in` test, a delete or a for-in over v (the form is a function of the '
        'statement\'s place); length(v) carries no evidence; split(), getline targets and native-function arguments are '
        'not generated',
        'argument forms: only a bare variable name is `a variable passed as an argument` that shares the type of the '
        'parameter, and only length(x) of a bare variable carries no evidence; (x), ((x)), x "", "" x are scalar uses of '
        'x and x[length(x)] is an array use of x; a parameter that receives any of them (or a constant) is a scalar. '
        'Other expression shapes (arithmetic, function results, assignments, ++/--, getline, (x) as assignment target) '
        'are not generated',
        'run-time model of the forms: (x) and x "" pass a copy of the value of x; x[length(x)] names an element x does '
        'not have (its elements are numbered 0..n-1): the reference creates it (POSIX: any reference to a nonexistent '
        'element creates it), so x has one element more, for every sharer of x, and the value passed is the empty '
        'string; the constant operand of length() has one character',
        'calls made inside functions are guarded by a depth limit of 2 in the generated text and in the run-time model',
        'run-time model of accepted programs: values are counters (a scalar is a string of that many characters, an array '
        'has that many elements); the constant passed as argument number j is a string of j characters; a parameter '
        'without argument is uninitialised (scalar) or a fresh empty array on every call, recursive calls and the second '
        'of two identical calls included; arrays are shared with the caller, scalars are copied',
        'error messages and positions are not compared here (C19 compares them across repeated parses)',
    ]
    ctx.build()
    big = consts(NP1=2, NP2=2, NP3=1, NG=2, MaxMainCalls=2, AllowRev='TRUE', MinArgs=0)
    frames = consts(Family='"frames"', NPf=3, FrLen='FALSE' if q else 'TRUE')
    # argument forms: quick = f1 -> f2, main -> f1 (13.6k programs); thorough = also recursion in f1, main -> f2 and
    # every body reversed (91k programs)
    forms = consts(Family='"forms"') if q else consts(Family='"forms"', FxWide='TRUE', AllowRev='TRUE')
    ALLFORMS = '{"p", "e", "x"}'
    if os.environ.get('VERIF_SKIP_MODEL'):      # development aid for runs against changed code: the model does not depend on the code
        ctx.notes.append('model run skipped (VERIF_SKIP_MODEL)')
    else:
        # 1. the model: every program of the universe x every body order
        mc = ctx.cfg('MC_Resolver', name='MC_Resolver_ex',
                     constants=consts(NG=1 if q else 2, MapOrder='"any"'))
        ctx.tlc('MC_Resolver', mc, timeout=1500, heap='8g')
        if not q:   # two parameters, fewer arguments than parameters, both functions calling either
            mc2 = ctx.cfg('MC_Resolver', name='MC_Resolver_mid', constants=consts(NP1=2, NP2=1, NG=1, MapOrder='"any"'))
            ctx.tlc('MC_Resolver', mc2, timeout=3000, heap='10g')
        mcs = ctx.cfg('MC_Resolver', name='MC_Resolver_sim', constants=dict(big, MapOrder='"any"'))
        ctx.tlc('MC_Resolver', mcs, simulate=(400 if q else 5000), depth=400, workers=min(4, ctx.cores), timeout=1500)
        # the inference on the programs of the "frames" family (three/four parameters, recursion with fewer arguments)
        mcf = ctx.cfg('MC_Resolver', name='MC_Resolver_frames', constants=dict(frames, MapOrder='"any"'))
        ctx.tlc('MC_Resolver', mcf, simulate=(150 if q else 3000), depth=400, workers=min(4, ctx.cores), timeout=1500)
        # the inference on every program of the "forms" family, and on sampled programs of the big universe whose
        # arguments take every form
        mcx = ctx.cfg('MC_Resolver', name='MC_Resolver_forms', constants=dict(forms, MapOrder='"any"'))
        ctx.tlc('MC_Resolver', mcx, timeout=3000, heap='8g')
        mcsx = ctx.cfg('MC_Resolver', name='MC_Resolver_simforms', constants=dict(big, MapOrder='"any"', Forms=ALLFORMS))
        ctx.tlc('MC_Resolver', mcsx, simulate=(150 if q else 3000), depth=400, workers=min(4, ctx.cores), timeout=1500)
    # 2. spec -> code
    gen = ctx.cfg('Gen_Resolver', name='Gen_Resolver_ex', constants=consts())
    ctx.tlc('Gen_Resolver', gen, capture='cases.ndjson', timeout=1500, heap='8g')
    gsim = ctx.cfg('Gen_Resolver', name='Gen_Resolver_sim', constants=big)
    ctx.tlc('Gen_Resolver', gsim, capture='cases.ndjson', simulate=(600 if q else 15000), depth=40,
            workers=min(4, ctx.cores), timeout=1500)
    # calls with fewer arguments than parameters, every mix of omitted scalars and omitted local arrays, recursion
    gfr = ctx.cfg('Gen_Resolver', name='Gen_Resolver_frames', constants=frames)
    ctx.tlc('Gen_Resolver', gfr, capture='cases.ndjson', timeout=3000, heap='8g')
    # the forms of an argument of a call / of length() at every kind of place, and inside the big universe
    gfx = ctx.cfg('Gen_Resolver', name='Gen_Resolver_forms', constants=forms)
    ctx.tlc('Gen_Resolver', gfx, capture='cases.ndjson', timeout=3000, heap='8g')
    gsx = ctx.cfg('Gen_Resolver', name='Gen_Resolver_simforms', constants=dict(big, Forms=ALLFORMS))
    ctx.tlc('Gen_Resolver', gsx, capture='cases.ndjson', simulate=(250 if q else 8000), depth=40,
            workers=min(4, ctx.cores), timeout=1500)
    if not q:
        mid = consts(NP1=2, NP2=1, NG=1, MinArgs=1)
        g2 = ctx.cfg('Gen_Resolver', name='Gen_Resolver_mid', constants=mid)
        ctx.tlc('Gen_Resolver', g2, capture='cases.ndjson', timeout=3000, heap='8g')
        gf4 = ctx.cfg('Gen_Resolver', name='Gen_Resolver_frames4', constants=dict(frames, NPf=4))
        ctx.tlc('Gen_Resolver', gf4, capture='cases.ndjson', simulate=5000, depth=20, workers=min(4, ctx.cores), timeout=1500)
    ctx.cov['exhaustive'] = True
    ctx.replay('cases.ndjson', label='gen-resolver', min_cases=1000, corrupt=corrupt)
    # the binding self-test again on the new family alone: accepted programs whose calls leave parameters out
    with open(ctx.path('cases_frames.ndjson'), 'w') as f:
        for line in open(ctx.path('cases.ndjson')):
            if '"fam":"frames"' in line and '"omitted":["' in line:
                f.write(line)
    ctx.selftest(ctx.path('cases_frames.ndjson'), 'C16', corrupt, 'gen-resolver-frames')
    nfr = sum(1 for line in open(ctx.path('cases.ndjson')) if '"fam":"frames"' in line and '"omitted":["' in line)
    ctx.cov['frames_cases_with_omitted_parameters'] = nfr
    if nfr < 100:
        raise MachineryError(f'only {nfr} accepted programs of the "frames" family were exported')
    # ... and on the argument forms alone: programs in which an argument of a call or of length() is an expression
    nfx = nrej = 0
    with open(ctx.path('cases_forms.ndjson'), 'w') as f:
        for line in open(ctx.path('cases.ndjson')):
            if has_forms(line):
                f.write(line)
                nfx += 1
                nrej += '"verdict":"reject"' in line
    ctx.selftest(ctx.path('cases_forms.ndjson'), 'C16', corrupt_forms, 'gen-resolver-forms')
    ctx.cov['cases_with_expression_arguments'] = nfx
    ctx.cov['cases_with_expression_arguments_rejected'] = nrej
    if nfx < 1000 or nrej < 100 or nfx - nrej < 100:
        raise MachineryError(f'only {nfx} programs with expression arguments were exported ({nrej} of them to be rejected)')
    # 3. code -> spec
    ntr = 150 if q else 1500
    ctx.harness(['C16', 'record', '-seed', str(ctx.seed), '-n', str(ntr), '-out', ctx.path('trace.ndjson')])
    rejects = ctx.validate_traces('Trace_Resolver', 'Trace_Resolver', 'trace.ndjson', label='trace-resolver',
                                  corrupt_event=corrupt_event, timeout=1500)
    for r in rejects:
        ev = r['trace'][r['pos']]
        exp = (r['info'] or {}).get('expected', {})
        what = 'verdict' if ev.get('verdict') != exp.get('verdict') else \
               ('types' if ev.get('types') != exp.get('types') else ('run' if ev.get('run') != exp.get('run') else 'output'))
        case = dict(fam='recorded', prog=ev['prog'], verdict=exp.get('verdict'), types=exp.get('types') or [],
                    out=exp.get('out') or [], norders=2, errs=[])
        fc = form_class(ev['prog'])
        ctx.add_failure(f'C16/trace/{what}/recorded' + ('-' + fc if fc else ''),
                        f'recorded resolution rejected by Trace_Resolver at event {r["line"]}',
                        case=case, expected=exp, observed={k: ev.get(k) for k in ('verdict', 'types', 'run', 'out', 'msg')},
                        program=ev.get('src'))
