"""C07 -- record reading is lossless and independent of how the input bytes arrive.

spec/RecordReader.tla: Records(input, RS) (reference, whole input) and the chunked reader with the
*intended* splitter.  MC_RecordReader: TLC explores every delivery schedule of every input up to MaxLen
and checks ChunkIndependence / PrefixSafe / the statement's equations (Laws).  Gen_RecordReader exports
(input, RS, Records); harness/c07 delivers each input to the real interpreter under every composition
of its length through a chunking Stdin reader (also behind a ~64 KiB first record).  Trace_RecordReader
validates the real interleaving of Read calls and records recorded from longer random runs.
"""
import copy


def corrupt(case, rnd):
    if not case.get('judge'):
        return None
    c = copy.deepcopy(case)
    if c['recs']:
        k = rnd.randrange(len(c['recs']))
        c['recs'][k]['rec'] = c['recs'][k]['rec'] + [113]
    else:
        c['recs'] = [dict(rec=[113], rt=[])]
    return c


def corrupt_event(ev, rnd):
    if ev.get('ev') != 'step':
        return None
    e = copy.deepcopy(ev)
    e['rec'] = e['rec'] + [113]
    return e


def split_traces(ctx, src, pred, fa, fb):
    """Partition a recorded log by a predicate on each trace's start event."""
    import json
    cur, outs = [], {False: open(ctx.path(fa), 'w'), True: open(ctx.path(fb), 'w')}

    def flush():
        if cur:
            st = [json.loads(x) for x in cur if '"start"' in x]
            f = outs[bool(st and pred(st[0]))]
            f.writelines(cur)
    for line in open(ctx.path(src)):
        if '"ev":"reset"' in line:
            flush()
            cur = []
        cur.append(line)
    flush()
    for f in outs.values():
        f.close()


def run(ctx):
    q = ctx.quick
    ctx.rule = ('a case is one (input bytes, RS) pair exported by TLC from Gen_RecordReader with the records the specification '
                'predicts; it is replayed under every composition of the input length (all 2^(n-1) chunkings, n <= 8; longer '
                'inputs: whole, 1-byte, every single split, 8 random), a hash-selected share also behind a 65536-j byte first '
                'record; distinct by content; non-trivial when the input has >= 2 bytes and >= 1 record.  Plus recorded traces '
                '(6-36 byte inputs, random schedules) validated by TLC.')
    ctx.assumptions += [
        'RS menu: newline, one byte (a, 0xFF), "", one multi-byte character (e-acute), regexes ab+ a|ab b*a \\n+ ab [ab]a '
        '(thorough and the random walks add aab|b, abbb|b, x|\\r?\\n, ";"; paragraph mode with CR also in quick); alphabets of 3-4 bytes chosen per RS',
        'RT is compared with the specification only for a regular-expression RS (the matched text, empty after an unterminated '
        'last record); in the other modes RT is only required to be the same under every delivery schedule',
        'paragraph mode with carriage returns in the input: records compared across schedules only (the statement does not say '
        'how CR is treated there); regexes that can match the empty string and anchors are not generated',
        'the 64 KiB placement relies on the prefix law Records(zz.. + input) = first record lengthened, checked by TLC for a '
        '2-byte filler and extrapolated to 65536-j bytes',
        'inputs built from blocks (a run of 9-14 equal bytes is one block) for a+b, ab+c, \\n-+\\n, ab+, "" and "\\n": separators and '
        'records far longer than the pattern text; reduced schedule set (whole, 1-byte, every single split, 8 random)',
        'RS assigned while reading: only from a regular-expression RS (ab, ab+, [ab]a, x|\\n) to "\\n", one character or another regex, '
        'in the action of record 1 or 2, alphabets without CR; an assignment while a newline/one-byte/paragraph splitter is active '
        '(which the implementation applies from the next input on) is not generated',
        'one input stream (stdin)',
    ]
    import os
    ctx.build()
    # 1. model: every schedule, intended splitter == Records; the statement's equations
    mc = ctx.cfg('MC_RecordReader', constants={'MaxLen': 5 if q else 7, 'Rich': 'FALSE' if q else 'TRUE'})
    if os.environ.get('VERIF_SKIP_MODEL'):      # development aid for mutant runs: the model does not depend on the code
        ctx.notes.append('model run skipped (VERIF_SKIP_MODEL)')
    else:
        ctx.tlc('MC_RecordReader', mc, timeout=1500, heap='8g')
    ctx.cov['exhaustive'] = True
    # 2. spec -> code
    gen = ctx.cfg('Gen_RecordReader', constants={'MaxLen': 6 if q else 8, 'EmitMin': 0, 'Sel': '"base"'})
    ctx.tlc('Gen_RecordReader', gen, capture='cases.ndjson', timeout=1500, heap='8g')
    if not q:
        gen2 = ctx.cfg('Gen_RecordReader', name='Gen_RecordReader_extra', constants={'MaxLen': 6, 'EmitMin': 0, 'Sel': '"extra"'})
        ctx.tlc('Gen_RecordReader', gen2, capture='cases.ndjson', timeout=1500, heap='8g')
    # paragraph mode with carriage returns (records compared across schedules), separators much longer than the pattern
    # text (inputs built from blocks), and RS assigned while the input is being read
    gcr = ctx.cfg('Gen_RecordReader', name='Gen_RecordReader_paracr', constants={'MaxLen': 7 if q else 9, 'EmitMin': 0, 'Sel': '"para-cr"'})
    ctx.tlc('Gen_RecordReader', gcr, capture='cases.ndjson', timeout=1500, heap='8g')
    glong = ctx.cfg('Gen_RecordReader', name='Gen_RecordReader_long', constants={'MaxLen': 4 if q else 5, 'EmitMin': 0, 'Sel': '"long"'})
    ctx.tlc('Gen_RecordReader', glong, capture='cases.ndjson', timeout=1500, heap='8g')
    swc = {'MaxLen': 5 if q else 7, 'Afters': '{1, 2}'}
    if not os.environ.get('VERIF_SKIP_MODEL'):
        ctx.tlc('MC_RecordReaderSwitch', ctx.cfg('MC_RecordReaderSwitch', constants=swc), timeout=1500, heap='8g')
    ctx.tlc('Gen_RecordReaderSwitch', ctx.cfg('Gen_RecordReaderSwitch', constants=swc), capture='cases.ndjson', timeout=1500, heap='8g')
    # longer inputs from random walks (reduced schedule set)
    sim = ctx.cfg('Gen_RecordReader', name='Gen_RecordReader_sim',
                  constants={'MaxLen': 20 if q else 40, 'EmitMin': 18 if q else 30, 'Sel': '"all"'})
    ctx.tlc('Gen_RecordReader', sim, capture='cases.ndjson', simulate=100 if q else 200, depth=22 if q else 42, workers=1, timeout=900)
    os.environ['C07_EDGEMOD'] = '40' if q else '25'
    os.environ['VERIF_WORKERS'] = str(ctx.cores)
    ctx.replay('cases.ndjson', label='gen-recordreader', min_cases=1000, corrupt=corrupt)
    # 3. code -> spec
    ntr = 150 if q else 2000
    ctx.harness(['C07', 'record', '-seed', str(ctx.seed), '-n', str(ntr), '-out', ctx.path('trace.ndjson')])
    # traces of the RS entry with a listed finding (a match that could start earlier) are validated apart, so that the rest
    # is expected to be accepted completely and the binding self-test of the trace direction always runs
    growing = {'abbb|b'}
    split_traces(ctx, 'trace.ndjson', lambda st: st['name'] in growing, 'trace_a.ndjson', 'trace_b.ndjson')
    rejects = ctx.validate_traces('Trace_RecordReader', 'Trace_RecordReader', 'trace_a.ndjson', label='trace-recordreader',
                                  corrupt_event=corrupt_event, selftest=True)
    if os.path.getsize(ctx.path('trace_b.ndjson')) > 0:
        rejects += ctx.validate_traces('Trace_RecordReader', 'Trace_RecordReader', 'trace_b.ndjson', label='trace-recordreader-growing',
                                       selftest=False)
    for r in rejects:
        info = r['info']
        start = [e for e in r['trace'] if e.get('ev') == 'start'][0]
        # the rejected run as a Gen_RecordReader-format case (replayable with ./check C07 --replay): the whole
        # Records(input, RS) of the specification and the recorded delivery schedule
        case = dict(fam='rr', name=info['name'], kind=info['kind'], cls=info['cls'], rstext=start['rstext'], input=start['input'],
                    recs=info['all'], judge=True, judgert=info['kind'] == 're', prefixok=False,
                    sched=[e['n'] for e in r['trace'] if e.get('ev') == 'read'])
        ctx.add_failure(f"C07/{info['cls']}/{info['what']}/chunked",
                        f"recorded run rejected by Trace_RecordReader at event {r['line']}: {info['what']} "
                        f"(RS entry {info['name']}, {info['delivered']} bytes delivered)",
                        case=case, expected=info.get('expected'), observed=r['trace'][r['pos']])
