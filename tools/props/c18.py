"""C18 -- coverage instrumentation is transparent and its counts are exact.

spec/Cover.tla labels every statement, defines the block partition and takes each block's count from the ghost
counters of the reference semantics (AwkSem counts how often each labelled statement began). Gen_Cover exports
programs (control flow, calls, patterns, misc families of C01 plus coverage-specific shapes) with predicted
output, status and profile; TLC checks on the model that the blocks partition the statements and that labelling
is transparent.  The harness runs each program through the goawk CLI built from the tree under test: without
coverage, with -covermode count and with -covermode set, from 1-3 -f files, and parses the written profile.
"""
import copy


def corrupt(case, rnd):
    c = copy.deepcopy(case)
    if c['expect']['err'] or not c['profile']:
        return None
    b = c['profile'][rnd.randrange(len(c['profile']))]
    b['count'] = b['count'] + 1 if b['count'] > 0 else 1
    return c


def run(ctx):
    q = ctx.quick
    ctx.rule = ('a case is one labelled AWK program run three times through the CLI (no coverage / count / set) from 1-3 source '
                'files; families flow, call, pattern (sampled), misc, loop and coverage-specific shapes (empty bodies, else-if '
                'chains, statements after control flow, early exits from blocks); non-trivial when the profile has more than one block')
    ctx.assumptions += [
        'blocks are matched by the source line their first statement starts on (the harness writes one statement per line); exact '
        'columns are not compared, only that the range lies inside the file and start < end',
        'the profile of a run that ends with a run-time error is not judged',
        'a case whose coverage-free run already differs from the reference semantics is skipped (that is C01\'s verdict)',
    ]
    ctx.build()
    goawk = ctx.build_goawk()
    fams = ['call', 'loop', 'misc', 'concat', 'const'] if q else ['call', 'loop', 'misc', 'flow', 'pattern', 'concat', 'const']
    cfg = ctx.cfg('Gen_Cover', constants={'Families': '{' + ', '.join('"%s"' % f for f in fams) + '}'})
    ctx.tlc('Gen_Cover', cfg, capture='cases.ndjson', timeout=2400, heap='8g')
    ctx.cov['exhaustive'] = True
    import os
    os.environ['VERIF_GOAWK'] = goawk
    ctx.replay('cases.ndjson', label='gen-cover', min_cases=300, corrupt=corrupt)
