"""C20 -- the printed form of a program is a faithful AWK program.

spec/Grammar.tla (expression trees, MinParen/FullParen/Loose printers, strict parser), GrammarProg.tla (statement and
program forms as derivations, the specification's own program printer) and GrammarLit.tla (how string and regex
literals are read, and a printer for them).
In TLC: Parse(MinParen(t)) = t / Parse(FullParen(t)) = t for every exported tree, ReadStr(SpellStr(v)) = v and
ReadRe(SpellRe(v)) = v for every exported literal (asserted inside the Gen_ modules; MC_Grammar and MC_GrammarLit in
the thorough tier).
spec -> code: every exported program is parsed by the real parser (p1), printed by the real printer (s1), parsed
again (p2) and printed again (s2): p2 must exist, its tree must be the one the specification predicts for the
source (numeric literals to six digits), and s2 = s1.  The same on the corpus (testdata + sources in the Go tests).
code -> spec: expressions and literals as printed by the real printer are read by the specification (Trace_Grammar).
"""
import copy, json, os
from vlib import MachineryError
import c04 as c04mod


def corrupt(case, rnd):
    """Corrupt the prediction `rt` (what the printed text must denote when parsed again)."""
    c = copy.deepcopy(case)
    rt = c.get('rt')
    if rt is None:
        return None
    if isinstance(rt, list):
        c['rt'] = rt + [122]
        return c
    for old in (' a', ' 1', ' "s"', ' /r/', '(get _'):
        if old in rt:
            c['rt'] = rt.replace(old, old + 'q', 1)
            return c
    c['rt'] = rt + 'q'
    return c


def check_printer_unambiguous(ctx, files):
    """Sanity gate on the SPECIFICATION's own printers: within the exported set, one source text never stands for two
    different trees (otherwise Parse(Print(t)) = t could not hold for any parser).  A failure is a model defect."""
    seen = {}
    n = 0
    for fn in files:
        for line in open(ctx.path(fn)):
            c = json.loads(line)
            if c.get('fam') == 'expr':
                keys = [((c['ctx'], ' '.join(c['min'])), c['sx']), ((c['ctx'], ' '.join(c['full'])), c['sx'])]
            elif c.get('fam') in ('prog', 'shape'):
                keys = [(('prog', ' '.join(c['toks'])), c['sx'])]
            elif c.get('fam') in ('str', 're'):
                keys = [((c['fam'], tuple(c['lit'])), tuple(c['val']))]
            else:
                continue
            for k, v in keys:
                n += 1
                if seen.setdefault(k, v) != v:
                    raise MachineryError(f'the specification prints two different trees as the same text {k}: {seen[k]} / {v}')
    ctx.log(f'specification printers: {n} exported texts, no text stands for two trees')
    ctx.cov['spec_printer_texts_checked_unambiguous'] = n


def run(ctx):
    q = ctx.quick
    ctx.rule = ('a case is one program exported by TLC: an expression tree of Grammar.tla in one of five contexts (minimal, '
                'full and no-parentheses text), a statement-form derivation of GrammarProg.tla with expressions from a '
                'rotating menu, a program shape, or a string / regex / numeric literal; or one program of the corpus; '
                'distinct by content; non-trivial when it has >= 2 operators / statement productions, or a literal with a '
                'byte that needs escaping')
    ctx.assumptions += [
        'a source the real parser rejects, or reads differently from the specification, is not judged here (that is C03/C04 '
        'matter); such cases are counted as skipped and bounded (< 10 % of expression cases, < 3 % of the others)',
        'numeric literals are compared after %.6g formatting, as the statement says; comments and layout are not preserved by design',
        'string literals: every byte singly, bytes followed by hex digits/letters, a menu of valid and invalid multi-byte '
        'sequences; regex literals: sequences of <= 2-3 units among a \\/ \\\\ \\. [\\/] = blank " . [a\\/] \\" b*',
        'an empty else branch and an absent one, an empty statement list and an absent one are the same tree',
    ]
    ctx.extra_props = ['C04']      # the expression recorder of C04 is used for the trace direction
    ctx.build()
    env = {'VERIF_REPO_DIR': os.environ.get('VERIF_REPO', '/repo')}
    prods = c04mod.tla_set(c04mod.ALL_PRODS)
    # 1. the model
    if not q:
        mc = ctx.cfg('MC_Grammar', constants={'MaxOps': 2, 'MaxOdd': 0, 'Prods': prods})
        ctx.tlc('MC_Grammar', mc, timeout=1500, heap='8g')
        ctx.tlc('MC_GrammarLit', ctx.cfg('MC_GrammarLit', constants={'Pairs': 'TRUE', 'ReLen': 3}), timeout=900)
    # 2. spec -> code
    if q:
        gen = ctx.cfg('Gen_Grammar', constants={'MaxOps': 2, 'MaxOdd': 1, 'Prods': prods, 'OddCtxs': '{"stmt"}'})
        ctx.tlc('Gen_Grammar', gen, capture='cases_expr.ndjson', timeout=600)
        genp = ctx.cfg('Gen_GrammarProg', constants={'MaxS': 2, 'Shifts': '{0, 7, 13, 22, 31}', 'Pairs': 'FALSE', 'ReLen': 2})
        ctx.tlc('Gen_GrammarProg', genp, capture='cases_prog.ndjson', timeout=600)
    else:
        gen = ctx.cfg('Gen_Grammar', constants={'MaxOps': 2, 'MaxOdd': 2, 'Prods': c04mod.tla_set(c04mod.ALL_PRODS + c04mod.MORE_ASG)})
        ctx.tlc('Gen_Grammar', gen, capture='cases_expr.ndjson', timeout=1500, heap='8g')
        gen3 = ctx.cfg('Gen_Grammar', name='Gen_Grammar_3', constants={'MaxOps': 3, 'MaxOdd': 0, 'MinLen': 6, 'Prods': prods,
                                                                       'Ctxs': '{"stmt", "printgt"}', 'OddCtxs': '{"stmt"}'})
        ctx.tlc('Gen_Grammar', gen3, capture='cases_expr.ndjson', timeout=2400, heap='10g')
        genp = ctx.cfg('Gen_GrammarProg', constants={'MaxS': 3, 'Shifts': '{0, 3, 7, 11, 13, 17, 22, 26, 31, 35}', 'Pairs': 'TRUE', 'ReLen': 3})
        ctx.tlc('Gen_GrammarProg', genp, capture='cases_prog.ndjson', timeout=2400, heap='8g')
    # sign adjacency: every tree of <= 3 (thorough: 4) operators over the productions whose spellings can fuse into other tokens
    # when printed next to each other (unary + - !, pre/post ++ --, binary + - and ^, $): - --x ^ 2, x - -y, a++ + ++b ...
    gsign = ctx.cfg('Gen_Grammar', name='Gen_Grammar_sign', constants={
        'MaxOps': 3 if q else 4, 'MaxOdd': 0, 'Prods': c04mod.tla_set(c04mod.SIGN_PRODS), 'Ctxs': '{"stmt", "print"}', 'OddCtxs': '{"stmt"}'})
    ctx.tlc('Gen_Grammar', gsign, capture='cases_expr.ndjson', timeout=1500, heap='8g')
    ctx.cov['exhaustive'] = True
    check_printer_unambiguous(ctx, ['cases_expr.ndjson', 'cases_prog.ndjson'])
    s1 = ctx.replay('cases_expr.ndjson', label='gen-expr', min_cases=5000, corrupt=corrupt)
    if s1['skipped'] > s1['n'] // 10:
        raise MachineryError(f'gen-expr: {s1["skipped"]} of {s1["n"]} expression cases were not judged (source read differently)')
    s2 = ctx.replay('cases_prog.ndjson', label='gen-prog', min_cases=3000, corrupt=corrupt)
    if s2['skipped'] > s2['n'] * 3 // 100:
        raise MachineryError(f'gen-prog: {s2["skipped"]} of {s2["n"]} statement/literal cases were not judged (source read differently)')
    # the corpus: programs of the repository, round trip on the real code alone
    ctx.harness(['C20', 'corpus', '-out', ctx.path('cases_corpus.ndjson')], env=env)
    ctx.replay('cases_corpus.ndjson', label='corpus', min_cases=300, selftest=False, count_traces=False)
    # 3. code -> spec
    c04mod.trace_direction(ctx, 'C20', literals=True)
