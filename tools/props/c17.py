"""C17 -- Go functions exposed to AWK convert arguments and results as documented.

spec/Native.tla (conversion tables ToGoCf / FromGo over the documented kinds -- string kinds receive the string form
under the CONVFMT in force, AwkText where the spelling is not pinned down --, zero-fill, variadic spread, results,
ValidSig, the Funcs table with name-ordered indexes and an AWK function shadowing one entry (Dispatch,
DispatchAgrees), OutcomeFull), spec/NativeMachine.tla (Parse -> Setup -> OtherCalls -> Call -> Convert ->
Return/Abort), MC_Native (machine = OutcomeFull, never stuck, totality, round trip, zero-fill, variadic spread,
DispatchRight, StringKindsAgree), Gen_Native ((signature, arguments, CONVFMT, shadowed name) cases with the predicted
outcome), Trace_Native (multi-function tables and multi-call programs recorded from the real interpreter, validated
by TLC with the same operators).
"""
import copy, json, os


def corrupt(case, rnd):
    """Make the predicted observation wrong in a compared place."""
    c = copy.deepcopy(case)
    o = c['outcome']
    if o['o'] in ('ok', 'abort'):
        pick = rnd.random()
        if pick < 0.2 and o.get('ran'):           # which Go functions ran
            i = rnd.randrange(len(o['ran']))
            o['ran'][i] = 'zz' if o['ran'][i] != 'zz' else 'aa'
            return c
        if pick < 0.3 and o.get('dlines'):        # what the other functions returned
            o['dlines'][rnd.randrange(len(o['dlines']))] += 'z'
            return c
        known = [p for p in o.get('recv', []) if p['ok']]
        if known:
            p = rnd.choice(known)
            v = p['val']
            if v['k'] == 'b':
                v['b'] = not v['b']
            elif v['k'] == 'i':
                v['n'] += 1
            elif v['k'] == 'f':
                v['h'] += 1
            elif v['k'] == 'awk':                  # "the program's own (arg \"\")": name a text that it is not
                p['val'] = {'k': 's', 's': 'not-the-awk-text'}
            else:
                v['s'] += 'z'
            return c
        if o['o'] == 'ok' and o['printed']['ok']:
            if o['printed'].get('awk'):
                o['printed'] = {'ok': True, 'val': 'not-the-awk-text'}
            else:
                o['printed']['val'] += 'z'
            return c
        o['o'] = 'abort' if o['o'] == 'ok' else 'ok'
        if o['o'] == 'ok':
            o['printed'] = {'ok': False, 'val': {'k': 'none'}}
        return c
    if o['o'] == 'parse-error':
        c['outcome'] = {'o': 'setup-error'}
    elif o['o'] == 'setup-error':
        c['outcome'] = {'o': 'parse-error'}
    else:
        c['outcome'] = {'o': 'setup-error'}
    return c


def corrupt_event(ev, rnd):
    e = copy.deepcopy(ev)
    if e.get('o') == 'ok':
        e['printed'] = e['printed'] + 'z'
        # only events whose printed text is specified can be corrupted this way: echo of a wild value to a numeric
        # kind is not
        if any(a in ('huge', 'nan', 'inf', 'neginf') for a in e.get('args', [])):
            return None
        return e
    return None


def run(ctx):
    q = ctx.quick
    os.environ['_JAVA_OPTIONS'] = f'-XX:ParallelGCThreads={max(2, min(ctx.cores, 8))}'
    ctx.rule = ('a case is one (signature, argument list, CONVFMT setting, shadowed table entry) tuple exported by TLC from '
                'Gen_Native with the predicted outcome: '
                'every kind as single parameter, plain and variadic, with every argument list of 0-2 menu values; every '
                'result kind and error mode; 12 invalid shapes and 7 keyword-like names; string / []byte parameters (one, '
                'or both receiving the same value) x every menu value x 3 CONVFMT settings; the Funcs table {aa, fn, mm, zz} '
                'with an AWK function shadowing none / the first / a middle / the last name while the program calls the '
                'other Go functions and fn; random signatures of 0-3 '
                'parameters with 0..n+2 arguments, any CONVFMT and shadow (-simulate); or one recorded run over a table of '
                '2-5 recording functions (one possibly shadowed by an AWK function, CONVFMT possibly changed) '
                'making 3-6 calls; distinct by content; non-trivial when a conversion, a zero-fill, a rejection or an abort '
                'is exercised')
    ctx.assumptions += [
        'argument menu: 3, -3, 2.5, 300, 1000000, 0, "abc", "12", "0", "", numeric strings 12 and 0 from input, an unset '
        'variable, 1e30, NaN, +inf and -inf; for out-of-range / non-finite conversions to NUMERIC kinds only "no panic" is '
        'judged (Native!Unspecified)',
        'string kinds: a string arrives as it is, an integral number as an integer, 2.5 through the CONVFMT in force '
        '(%.6g by default, %.2f, %.3e); for nan, inf, -inf and 1e30 the spelling is not pinned down by the statement: the '
        'prediction is Native!AwkText, "the text the program\'s own (arg \"\") gives", read from the same run -- so a '
        'string and a []byte parameter must receive the same text as the AWK conversion, whatever its spelling',
        'dispatch: documented is that AWK functions take precedence over Funcs entries of the same name; judged are the '
        'calls of the OTHER entries (which Go function ran, what it returned) and that a call of the shadowed name reaches '
        'the AWK function',
        'numbers are modelled in halves (TLC has no reals); strings are compared by equality only',
        'rejections are compared as a class (parse error / set-up error), never by message; the aborting error is '
        'compared by identity (==) with the value the function returned',
        'a non-function value or nil in Funcs is outside the statement ("functions of any other shape") and not generated: '
        'observed by hand, a non-function value that the program calls makes the PARSER panic in reflect '
        '(resolve.go:474 typ.NumIn()), and nil makes checkNativeFunc dereference a nil reflect.Type at set-up',
    ]
    ctx.build()
    if os.environ.get('VERIF_SKIP_MODEL'):      # development aid for runs against changed code: the model does not depend on the code
        ctx.notes.append('model run skipped (VERIF_SKIP_MODEL)')
    else:
        mc = ctx.cfg('MC_Native', constants=dict(MaxArgs=1 if q else 2))
        ctx.tlc('MC_Native', mc, timeout=1500, heap='8g')
    g = ctx.cfg('Gen_Native', name='Gen_Native_small', constants=dict(Family='"small"'))   # args + results + invalid + strform + dispatch
    ctx.tlc('Gen_Native', g, capture='cases.ndjson', timeout=1500, heap='8g')
    g = ctx.cfg('Gen_Native', name='Gen_Native_wide', constants=dict(Family='"wide"'))
    ctx.tlc('Gen_Native', g, capture='cases.ndjson', simulate=(2500 if q else 40000), depth=20, workers=min(4, ctx.cores),
            timeout=1500)
    ctx.cov['exhaustive'] = True
    ctx.replay('cases.ndjson', label='gen-native', min_cases=1000, corrupt=corrupt)
    # the binding self-test again on the new dimensions alone: CONVFMT changed / an entry of the table shadowed
    for label, key in (('gen-native-convfmt', '"cf":"%.6g"'), ('gen-native-shadow', '"shadow":"none"')):
        with open(ctx.path(f'cases_{label}.ndjson'), 'w') as f:
            for line in open(ctx.path('cases.ndjson')):
                if key not in line and '"called":true' in line:
                    f.write(line)
        ctx.selftest(ctx.path(f'cases_{label}.ndjson'), 'C17', corrupt, label)
    ntr = 300 if q else 5000
    ctx.harness(['C17', 'record', '-seed', str(ctx.seed), '-n', str(ntr), '-out', ctx.path('trace.ndjson')])
    rejects = ctx.validate_traces('Trace_Native', 'Trace_Native', 'trace.ndjson', label='trace-native',
                                  corrupt_event=corrupt_event, timeout=1500)
    for r in rejects:
        ev = r['trace'][r['pos']]
        exp = (r['info'] or {}).get('expected', {})
        if ev.get('o') == 'panic':
            sig = 'C17/panic/recorded'
        elif ev.get('o') != exp.get('o'):
            sig = f"C17/outcome/spec-{exp.get('o')}-real-{ev.get('o')}/recorded"
        elif ev.get('got') != ev['sig']['name']:
            sig = 'C17/dispatch/wrong-function/recorded' + ('-shadowed' if ev.get('shadow', 'none') != 'none' else '')
        else:
            sig = 'C17/convert/recorded' + ('-convfmt-changed' if ev.get('cf', '%.6g') != '%.6g' else '')
        case = dict(fam='native', sig=ev['sig'], args=ev['args'], called=True, shadow='none', cf=ev.get('cf', '%.6g'),
                    outcome=exp if exp.get('o') in ('ok', 'abort') else {'o': exp.get('o')})
        ctx.add_failure(sig, f'recorded call rejected by Trace_Native at event {r["line"]}', case=case, expected=exp,
                        observed={k: ev.get(k) for k in ('o', 'got', 'recv', 'printed', 'own', 'panic', 'awk', 'shadow', 'cf')}, program=ev.get('src'))
