"""C17 -- Go functions exposed to AWK convert arguments and results as documented.

spec/Native.tla (conversion tables ToGo / FromGo over the documented kinds, zero-fill, variadic spread, results,
ValidSig, Outcome), spec/NativeMachine.tla (Parse -> Setup -> Call -> Convert -> Return/Abort), MC_Native
(machine = Outcome, never stuck, totality, round trip, zero-fill, variadic spread), Gen_Native ((signature, arguments)
cases with the predicted outcome), Trace_Native (multi-function tables and multi-call programs recorded from the
real interpreter, validated by TLC with the same operators).
"""
import copy, json, os


def corrupt(case, rnd):
    """Make the predicted observation wrong in a compared place."""
    c = copy.deepcopy(case)
    o = c['outcome']
    if o['o'] in ('ok', 'abort'):
        known = [p for p in o.get('recv', []) if p['ok']]
        if known:
            p = rnd.choice(known)
            v = p['val']
            if v['k'] == 'b':
                v['b'] = not v['b']
            elif v['k'] == 'i':
                v['n'] += 1
            elif v['k'] == 'f':
                v['h'] += 1
            else:
                v['s'] += 'z'
            return c
        if o['o'] == 'ok' and o['printed']['ok']:
            o['printed']['val'] += 'z'
            return c
        o['o'] = 'abort' if o['o'] == 'ok' else 'ok'
        if o['o'] == 'ok':
            o['printed'] = {'ok': False, 'val': {'k': 'none'}}
        return c
    if o['o'] == 'parse-error':
        c['outcome'] = {'o': 'setup-error'}
    elif o['o'] == 'setup-error':
        c['outcome'] = {'o': 'parse-error'}
    else:
        c['outcome'] = {'o': 'setup-error'}
    return c


def corrupt_event(ev, rnd):
    e = copy.deepcopy(ev)
    if e.get('o') == 'ok':
        e['printed'] = e['printed'] + 'z'
        # only events whose printed text is specified can be corrupted this way: echo of a wild value is not
        if any(a in ('huge', 'nan') for a in e.get('args', [])):
            return None
        return e
    return None


def run(ctx):
    q = ctx.quick
    os.environ['_JAVA_OPTIONS'] = f'-XX:ParallelGCThreads={max(2, min(ctx.cores, 8))}'
    ctx.rule = ('a case is one (signature, argument list) pair exported by TLC from Gen_Native with the predicted outcome: '
                'every kind as single parameter, plain and variadic, with every argument list of 0-2 menu values; every '
                'result kind and error mode; 12 invalid shapes and 7 keyword-like names; random signatures of 0-3 '
                'parameters with 0..n+2 arguments (-simulate); or one recorded run over a table of 2-5 recording functions '
                'making 3-6 calls; distinct by content; non-trivial when a conversion, a zero-fill, a rejection or an abort '
                'is exercised')
    ctx.assumptions += [
        'argument menu: 3, -3, 2.5, 300, 0, "abc", "12", "0", "", numeric strings 12 and 0 from input, an unset variable, '
        '1e30 and NaN; for out-of-range / non-finite conversions only "no panic" is judged (Native!Unspecified)',
        'numbers are modelled in halves (TLC has no reals); strings are compared by equality only',
        'rejections are compared as a class (parse error / set-up error), never by message; the aborting error is '
        'compared by identity (==) with the value the function returned',
        'a non-function value or nil in Funcs is outside the statement ("functions of any other shape") and not generated: '
        'observed by hand, a non-function value that the program calls makes the PARSER panic in reflect '
        '(resolve.go:474 typ.NumIn()), and nil makes checkNativeFunc dereference a nil reflect.Type at set-up',
    ]
    ctx.build()
    mc = ctx.cfg('MC_Native', constants=dict(MaxArgs=1 if q else 2))
    ctx.tlc('MC_Native', mc, timeout=1500, heap='8g')
    g = ctx.cfg('Gen_Native', name='Gen_Native_small', constants=dict(Family='"small"'))   # args + results + invalid
    ctx.tlc('Gen_Native', g, capture='cases.ndjson', timeout=1500, heap='8g')
    g = ctx.cfg('Gen_Native', name='Gen_Native_wide', constants=dict(Family='"wide"'))
    ctx.tlc('Gen_Native', g, capture='cases.ndjson', simulate=(2500 if q else 40000), depth=20, workers=min(4, ctx.cores),
            timeout=1500)
    ctx.cov['exhaustive'] = True
    ctx.replay('cases.ndjson', label='gen-native', min_cases=1000, corrupt=corrupt)
    ntr = 300 if q else 5000
    ctx.harness(['C17', 'record', '-seed', str(ctx.seed), '-n', str(ntr), '-out', ctx.path('trace.ndjson')])
    rejects = ctx.validate_traces('Trace_Native', 'Trace_Native', 'trace.ndjson', label='trace-native',
                                  corrupt_event=corrupt_event, timeout=1500)
    for r in rejects:
        ev = r['trace'][r['pos']]
        exp = (r['info'] or {}).get('expected', {})
        if ev.get('o') == 'panic':
            sig = 'C17/panic/recorded'
        elif ev.get('o') != exp.get('o'):
            sig = f"C17/outcome/spec-{exp.get('o')}-real-{ev.get('o')}/recorded"
        elif ev.get('got') != ev['sig']['name']:
            sig = 'C17/dispatch/wrong-function/recorded'
        else:
            sig = 'C17/convert/recorded'
        case = dict(fam='native', sig=ev['sig'], args=ev['args'], called=True,
                    outcome=exp if exp.get('o') in ('ok', 'abort') else {'o': exp.get('o')})
        ctx.add_failure(sig, f'recorded call rejected by Trace_Native at event {r["line"]}', case=case, expected=exp,
                        observed={k: ev.get(k) for k in ('o', 'got', 'recv', 'printed', 'own', 'panic')}, program=ev.get('src'))
