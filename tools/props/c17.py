"""C17 -- Go functions exposed to AWK convert arguments and results as documented.

spec/Native.tla (conversion tables ToGoCf / FromGo over the documented kinds -- string kinds receive the string form
under the CONVFMT in force, AwkText where the spelling is not pinned down --, zero-fill, variadic spread, results,
ValidSig, the Funcs table with name-ordered indexes and an AWK function shadowing one entry (Dispatch,
DispatchAgrees), OutcomeFull), spec/NativeMachine.tla (Parse -> Setup -> OtherCalls -> Call -> Convert ->
Return/Abort), MC_Native (machine = OutcomeFull, never stuck, totality, round trip, zero-fill, variadic spread,
DispatchRight, StringKindsAgree; ShapeRule / RejectedNeverCalled for signatures built from parts -- parameter and
result types outside the documented kinds, second results that merely implement error --; ExtTableRight for results
at the extreme values of every numeric kind, with exact decimal digits), spec/NativeSession.tla + MC_NativeSession
(histories of Execute calls on ONE Interpreter: the set-up verdict is a function of the Funcs value given to the call;
the variant that allocates the table before checking is refuted by TLC), Gen_Native ((signature, arguments, CONVFMT, shadowed name) cases with the predicted
outcome), Trace_Native (multi-function tables and multi-call programs recorded from the real interpreter, validated
by TLC with the same operators).  spec/NativeProgram.tla + MC_NativeProgram: calls inside whole programs -- the call
written in every syntactic position (an error aborts the run there; refuted when the error of a range pattern's stop
expression is dropped) and results that are kept while the Go function reuses its memory (a result is a value; refuted
when the AWK value aliases the Go slice); exported as families "position" and "keep", recorded as events pos / keep.
"""
import copy, json, os, re
from vlib import MachineryError


def corrupt(case, rnd):
    """Make the predicted observation wrong in a compared place."""
    c = copy.deepcopy(case)
    if c.get('fam') == 'position':
        # the run goes on where it must abort (or the reverse); or the END marker / the call count is another
        o = c['outcome']
        pick = rnd.random()
        if pick < 0.4:
            o['o'] = 'ok' if o['o'] == 'abort' else 'abort'
        elif pick < 0.7:
            o['endmark'] = not o['endmark']
        elif pick < 0.85 or not o['afterJudged']:
            o['calls'] += 1
        else:
            o['after'] = not o['after']
        return c
    if c.get('fam') == 'keep':
        # one kept result is another text (e.g. what a LATER call returned), or one result more / less
        kept = c['outcome']['kept']
        j = rnd.randrange(len(kept))
        other = [k for k in kept if k['val'] != kept[j]['val']]
        if c['hold'] != 'subscript' and other and rnd.random() < 0.6:
            kept[j]['val'] = rnd.choice(other)['val']
        elif c['hold'] == 'subscript' and rnd.random() < 0.6:
            kept[j]['key'] += '0'
        else:
            kept[j]['val'] += 'z'
        return c
    if c.get('fam') == 'session':
        # one Execute call of the history: a rejected set-up predicted as a run, or a corrected run's prediction changed
        j = rnd.randrange(len(c['runs']))
        r = c['outcomes'][j]
        if c['runs'][j] == 'bad':
            r['outcome'] = {'o': 'not-called' if not c['called'] else 'other-error'}
        else:
            r['orsetup'] = False
            sub = corrupt(dict(fam='native', outcome=r['outcome']), rnd)
            r['outcome'] = sub['outcome']
        return c
    o = c['outcome']
    if o['o'] == 'ok' and o.get('num'):            # an extreme result: another sign, another magnitude, another digit
        n = o['num']
        pick = rnd.random()
        if pick < 0.4:
            n['neg'] = not n['neg']
        elif pick < 0.7 or not (n['int'] and n['exact']):
            n['e10'] += 1 if rnd.random() < 0.5 else -1
        else:
            d = n['digits']
            i = rnd.randrange(len(d))
            n['digits'] = d[:i] + str((int(d[i]) + 1) % 10 if i or d[i] != '9' else 8) + d[i + 1:]
        return c
    if o['o'] in ('ok', 'abort'):
        pick = rnd.random()
        if pick < 0.2 and o.get('ran'):           # which Go functions ran
            i = rnd.randrange(len(o['ran']))
            o['ran'][i] = 'zz' if o['ran'][i] != 'zz' else 'aa'
            return c
        if pick < 0.3 and o.get('dlines'):        # what the other functions returned
            o['dlines'][rnd.randrange(len(o['dlines']))] += 'z'
            return c
        known = [p for p in o.get('recv', []) if p['ok']]
        if known:
            p = rnd.choice(known)
            v = p['val']
            if v['k'] == 'b':
                v['b'] = not v['b']
            elif v['k'] == 'i':
                v['n'] += 1
            elif v['k'] == 'f':
                v['h'] += 1
            elif v['k'] == 'awk':                  # "the program's own (arg \"\")": name a text that it is not
                p['val'] = {'k': 's', 's': 'not-the-awk-text'}
            else:
                v['s'] += 'z'
            return c
        if o['o'] == 'ok' and o['printed']['ok']:
            if o['printed'].get('awk'):
                o['printed'] = {'ok': True, 'val': 'not-the-awk-text'}
            else:
                o['printed']['val'] += 'z'
            return c
        o['o'] = 'abort' if o['o'] == 'ok' else 'ok'
        if o['o'] == 'ok':
            o['printed'] = {'ok': False, 'val': {'k': 'none'}}
        return c
    if o['o'] == 'parse-error':
        c['outcome'] = {'o': 'setup-error'}
    elif o['o'] == 'setup-error':
        c['outcome'] = {'o': 'parse-error'}
    else:
        c['outcome'] = {'o': 'setup-error'}
    return c


def corrupt_event(ev, rnd):
    e = copy.deepcopy(ev)
    if e.get('op') == 'pos':                         # the run went on after the error / the END marker was (not) printed
        if rnd.random() < 0.5:
            e['endmark'] = not e['endmark']
        else:
            e['o'] = 'ok' if e['o'] == 'abort' else 'abort'
            e['own'] = True
        return e
    if e.get('op') == 'keep':                        # a kept result printed as something else
        if not e['kept']:
            return None
        e['kept'][rnd.randrange(len(e['kept']))]['val'] += '#'
        return e
    if e.get('o') == 'ok' and e.get('sig', {}).get('res') == 'ext':
        e['xnum']['neg'] = not e['xnum']['neg']     # an extreme result: the printed text is not pinned down, the number is
        return e
    if e.get('o') == 'ok':
        e['printed'] = e['printed'] + 'z'
        # only events whose printed text is specified can be corrupted this way: echo of a wild value to a numeric
        # kind is not
        if any(a in ('huge', 'nan', 'inf', 'neginf') for a in e.get('args', [])):
            return None
        return e
    return None


def expect_refuted(ctx, module, cfg, what, **kw):
    """A TLC run that must END with one of the named invariants violated (the model's own demonstration)."""
    r = ctx.tlc(module, cfg, allow_fail=True, **kw)
    log = open(r['log']).read()
    m = re.search(r'Invariant (\w+) is violated', log)
    if r['rc'] == 124:
        raise MachineryError(f'TLC timed out on {module}/{cfg}')
    if not m or m.group(1) not in what:
        raise MachineryError(f'{module}/{cfg}: expected TLC to refute {what}; it did not:\n{log[-2000:]}')
    ctx.log(f'{module}/{cfg}: {m.group(1)} refuted by TLC, as expected')
    ctx.cov.setdefault('model_refutations', []).append({'cfg': cfg, 'invariant': m.group(1)})


def run(ctx):
    q = ctx.quick
    os.environ['_JAVA_OPTIONS'] = f'-XX:ParallelGCThreads={max(2, min(ctx.cores, 8))}'
    ctx.rule = ('a case is one (signature, argument list, CONVFMT setting, shadowed table entry) tuple exported by TLC from '
                'Gen_Native with the predicted outcome: '
                'every kind as single parameter, plain and variadic, with every argument list of 0-2 menu values; every '
                'result kind and error mode; 12 invalid shapes and 7 keyword-like names; signatures built from parts (every '
                'parameter kind incl. struct / map / chan / complex / func / []int / []string / pointer / interface / array, alone, '
                'variadic, or beside a documented one; 1-3 results over every first result type x second result of type error / '
                'named int, pointer or struct type implementing error / int / string) called with 0..n+1 arguments or not called; '
                'results at the extreme values of every numeric kind (minimum, maximum, -1, 2^63, 2^63+-1, 2^53+1, +-MaxFloat, '
                '+-smallest denormal); histories of 2-3 (thorough: 4) Execute calls on one Interpreter that begin with a '
                'rejected set-up and go on with the same Funcs or the corrected function; string / []byte parameters (one, '
                'or both receiving the same value) x every menu value x 3 CONVFMT settings; the Funcs table {aa, fn, mm, zz} '
                'with an AWK function shadowing none / the first / a middle / the last name while the program calls the '
                'other Go functions and fn; random signatures of 0-3 '
                'parameters with 0..n+2 arguments, any CONVFMT and shadow (-simulate); or one recorded run over a table of '
                '2-5 recording functions (one possibly shadowed by an AWK function, CONVFMT possibly changed) '
                'making 3-6 calls; the one call of a program written in each of 13 syntactic positions (BEGIN, action, pattern, '
                'start and stop expression of a range pattern, function body, END, file name of a getline, condition, subscript, '
                'argument of a builtin / an AWK function / printf) x no / one parameter x 5 result kinds x every error mode; 2-3 '
                '(recorded: 2-5) calls of fn(string) []byte / string whose results are kept in variables / array elements / fields '
                '/ as array subscripts while the Go function returns fresh memory, overwrites one buffer, or wipes what it '
                'returned before; distinct by content; non-trivial when a conversion, a zero-fill, a rejection or an abort '
                'is exercised')
    ctx.assumptions += [
        'argument menu: 3, -3, 2.5, 300, 1000000, 0, "abc", "12", "0", "", numeric strings 12 and 0 from input, an unset '
        'variable, 1e30, NaN, +inf and -inf; for out-of-range / non-finite conversions to NUMERIC kinds only "no panic" is '
        'judged (Native!Unspecified)',
        'string kinds: a string arrives as it is, an integral number as an integer, 2.5 through the CONVFMT in force '
        '(%.6g by default, %.2f, %.3e); for nan, inf, -inf and 1e30 the spelling is not pinned down by the statement: the '
        'prediction is Native!AwkText, "the text the program\'s own (arg \"\") gives", read from the same run -- so a '
        'string and a []byte parameter must receive the same text as the AWK conversion, whatever its spelling',
        'dispatch: documented is that AWK functions take precedence over Funcs entries of the same name; judged are the '
        'calls of the OTHER entries (which Go function ran, what it returned) and that a call of the shadowed name reaches '
        'the AWK function',
        'numbers are modelled in halves (TLC has no reals); strings are compared by equality only',
        'extreme results: int and uint are 64 bits wide (the platform of the check); the specification gives the mathematical '
        'value as decimal digits (digit-sequence arithmetic), the program prints the result with printf "%.0f %e" and the '
        'NUMBER is judged: sign and decimal exponent always, every digit where a float64 holds the value exactly (powers of '
        'two, values of at most 53 significant bits, MaxFloat32/64); how `print` spells such numbers is not judged',
        'shapes: the documented rule is read strictly -- the second result must be the type error; a concrete type that '
        'implements error (named int, pointer, struct) is "any other shape" and must be rejected at set-up; named types whose '
        'underlying kind is documented (type myint int) and uintptr are not generated (the documentation is silent); '
        'accepted shapes are called and must not panic',
        'sessions: the program is parsed once with the Funcs of the first call; every Execute call whose Funcs holds an '
        'invalid function must return a set-up error (no output, no function called, no panic) however many calls were '
        'rejected before; a call with the CORRECTED function (same name, same number of parameters) after rejected ones must '
        'behave like the first Execute of a fresh interpreter OR still be rejected (the documentation says Funcs must not '
        'change between calls, so holding on to the first verdict is not judged wrong) -- running with a half-built table is '
        'neither; calls given the same Funcs are given the same map; an invalid Funcs AFTER an accepted one is outside the '
        'documented use and not generated',
        'rejections are compared as a class (parse error / set-up error), never by message; the aborting error is '
        'compared by identity (==) with the value the function returned',
        'call positions: the input is one record, the call is evaluated once; judged are the outcome class, the identity of '
        'the error Execute returns, the number of calls, that the END marker (END { print "E:end" }, the last thing a '
        'complete run does) is printed exactly when there is no error, and that the statement written after the call ran '
        'or not -- except for the stop expression of a range pattern, whose order relative to the action of the same record '
        'is not stated; print/getline forms that create files or start commands are not generated (the getline reads a '
        'file that does not exist)',
        'kept results: "returns the converted result" is read as: the AWK value is the string form of the bytes the '
        'function returned when it returned -- a value; what the function later does with that memory (reuse, wiping) must '
        'not show in AWK variables, array elements, fields or array subscripts; a Go function that modifies its []byte '
        'ARGUMENT is not generated',
        'a non-function value or nil in Funcs is outside the statement ("functions of any other shape") and not generated: '
        'observed by hand, a non-function value that the program calls makes the PARSER panic in reflect '
        '(resolve.go:474 typ.NumIn()), and nil makes checkNativeFunc dereference a nil reflect.Type at set-up',
    ]
    ctx.build()
    if os.environ.get('VERIF_SKIP_MODEL'):      # development aid for runs against changed code: the model does not depend on the code
        ctx.notes.append('model run skipped (VERIF_SKIP_MODEL)')
    else:
        mc = ctx.cfg('MC_Native', constants=dict(MaxArgs=1 if q else 2))
        ctx.tlc('MC_Native', mc, timeout=1500, heap='8g')
        # histories of Execute calls on one interpreter: the set-up verdict is a function of the Funcs given to the call;
        # refuted for the variant that allocates the table before checking the signatures
        ms = ctx.cfg('MC_NativeSession', constants=dict(MaxRuns=4 if q else 6))
        ctx.tlc('MC_NativeSession', ms, timeout=900, workers=min(2, ctx.cores))
        bad = ctx.cfg('MC_NativeSession', name='MC_NativeSession_slip', constants=dict(Slip='"alloc-before-check"', MaxRuns=3))
        expect_refuted(ctx, 'MC_NativeSession', bad, ('EveryBadRunRejected', 'NeverRunsOnPartialTable', 'VerdictIsFunctionOfFuncs',
                                                      'FixedRunLikeFresh'), timeout=900, workers=1)
        # calls inside whole programs: an error aborts the run in every position; kept results never change ...
        mp = ctx.cfg('MC_NativeProgram', constants=dict(MaxCalls=3 if q else 4))
        ctx.tlc('MC_NativeProgram', mp, timeout=900, workers=min(2, ctx.cores))
        # ... refuted when the error of a call in the stop expression of a range pattern is not looked at, and when the
        # AWK value shares the memory of the Go result
        bad = ctx.cfg('MC_NativeProgram', name='MC_NativeProgram_drop', constants=dict(DropIn='{"range-stop"}', MaxCalls=2))
        expect_refuted(ctx, 'MC_NativeProgram', bad, ('AbortsEverywhere', 'PosMachineIsOutcome'), timeout=900, workers=1)
        bad = ctx.cfg('MC_NativeProgram', name='MC_NativeProgram_alias', constants=dict(Alias='TRUE', MaxCalls=2))
        expect_refuted(ctx, 'MC_NativeProgram', bad, ('ResultsAreValues', 'KeepMachineIsOutcome'), timeout=900, workers=1)
    g = ctx.cfg('Gen_Native', name='Gen_Native_small', constants=dict(Family='"small"'))   # args + results + invalid + strform + dispatch
    ctx.tlc('Gen_Native', g, capture='cases.ndjson', timeout=1500, heap='8g')
    if not q:   # every pair of parameter kinds, every result shape behind a valid / an invalid parameter, longer histories
        g = ctx.cfg('Gen_Native', name='Gen_Native_extra', constants=dict(Family='"extra"'))
        ctx.tlc('Gen_Native', g, capture='cases.ndjson', timeout=1500, heap='8g')
    g = ctx.cfg('Gen_Native', name='Gen_Native_wide', constants=dict(Family='"wide"'))
    ctx.tlc('Gen_Native', g, capture='cases.ndjson', simulate=(2500 if q else 40000), depth=20, workers=min(4, ctx.cores),
            timeout=1500)
    ctx.cov['exhaustive'] = True
    ctx.replay('cases.ndjson', label='gen-native', min_cases=1000, corrupt=corrupt)
    # the binding self-test again on the new dimensions alone: CONVFMT changed / an entry of the table shadowed
    for label, key in (('gen-native-convfmt', '"cf":"%.6g"'), ('gen-native-shadow', '"shadow":"none"')):
        with open(ctx.path(f'cases_{label}.ndjson'), 'w') as f:
            for line in open(ctx.path('cases.ndjson')):
                if key not in line and '"called":true' in line and '"fam":"native"' in line:
                    f.write(line)
        ctx.selftest(ctx.path(f'cases_{label}.ndjson'), 'C17', corrupt, label)
    # ... and on the families of the second extension: extreme results, shapes built from parts, sessions
    # ... and of the third: calls inside whole programs (positions, kept results)
    for label, key, least in (('gen-native-extreme', '"res":"ext"', 100), ('gen-native-shapes', '"shape":"gen"', 1000),
                              ('gen-native-session', '"fam":"session"', 300), ('gen-native-position', '"fam":"position"', 300),
                              ('gen-native-keep', '"fam":"keep"', 1000)):
        n = 0
        with open(ctx.path(f'cases_{label}.ndjson'), 'w') as f:
            for line in open(ctx.path('cases.ndjson')):
                if key in line and (key.startswith('"fam"') or '"fam":"native"' in line):
                    f.write(line)
                    n += 1
        ctx.cov[label.replace('gen-native-', '') + '_cases'] = n
        if n < least:
            raise MachineryError(f'only {n} cases of the family {label} were exported')
        ctx.selftest(ctx.path(f'cases_{label}.ndjson'), 'C17', corrupt, label)
    ntr = 300 if q else 5000
    ctx.harness(['C17', 'record', '-seed', str(ctx.seed), '-n', str(ntr), '-out', ctx.path('trace.ndjson')])
    rejects = ctx.validate_traces('Trace_Native', 'Trace_Native', 'trace.ndjson', label='trace-native',
                                  corrupt_event=corrupt_event, timeout=1500)
    for r in rejects:
        ev = r['trace'][r['pos']]
        exp = (r['info'] or {}).get('expected', {})
        if ev.get('op') in ('pos', 'keep'):
            if ev['op'] == 'pos':
                sig = f"C17/position/recorded/{'panic' if ev.get('o') == 'panic' else 'spec-' + str(exp.get('o')) + '-real-' + str(ev.get('o'))}/{ev.get('pos')}"
                case = dict(fam='position', sig=ev['sig'], args=ev['args'], pos=ev['pos'], outcome=exp)
            else:
                sig = f"C17/keep/recorded/{'panic' if ev.get('o') == 'panic' else 'result-changed-after-return'}/{ev.get('rk')}-{ev.get('policy')}/{ev.get('hold')}"
                case = dict(fam='keep', rk=ev['rk'], policy=ev['policy'], hold=ev['hold'], args=ev['args'], outcome=exp)
            ctx.add_failure(sig, f'recorded program rejected by Trace_Native at event {r["line"]}', case=case, expected=exp,
                            observed={k: ev.get(k) for k in ('o', 'calls', 'after', 'endmark', 'own', 'kept', 'panic', 'err')}, program=ev.get('src'))
            continue
        if ev.get('o') == 'panic':
            sig = 'C17/panic/recorded'
        elif ev.get('o') != exp.get('o'):
            sig = f"C17/outcome/spec-{exp.get('o')}-real-{ev.get('o')}/recorded"
        elif ev['sig'].get('res') == 'ext' and ev.get('got') == ev['sig']['name']:
            sig = f"C17/convert/result-extreme/{ev['sig'].get('rk')}/{ev['sig'].get('xv')}/recorded"
        elif ev.get('got') != ev['sig']['name']:
            sig = 'C17/dispatch/wrong-function/recorded' + ('-shadowed' if ev.get('shadow', 'none') != 'none' else '')
        else:
            sig = 'C17/convert/recorded' + ('-convfmt-changed' if ev.get('cf', '%.6g') != '%.6g' else '')
        case = dict(fam='native', sig=ev['sig'], args=ev['args'], called=True, shadow='none', cf=ev.get('cf', '%.6g'),
                    outcome=exp if exp.get('o') in ('ok', 'abort') else {'o': exp.get('o')})
        ctx.add_failure(sig, f'recorded call rejected by Trace_Native at event {r["line"]}', case=case, expected=exp,
                        observed={k: ev.get(k) for k in ('o', 'got', 'recv', 'printed', 'own', 'panic', 'awk', 'shadow', 'cf', 'xnum')}, program=ev.get('src'))
