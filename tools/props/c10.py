"""C10 -- string, regex and int() builtins obey their defining equations.

spec/Builtins.tla (+ BuiltinsMenu.tla); MC_Builtins (the equations of the statement as invariants of a
byte-mode and a character-mode machine running the same calls), Gen_Builtins (all histories of 1-2 calls
from every subject, exported with the predicted observables), Trace_Builtins (random call histories on
longer subjects recorded from the real interpreter, validated by TLC with the same operators).
"""
import copy, json, os
from vlib import MachineryError

RANK = {'huge': 9, 'inf': 8, 'big': 7, 'bigh': 7, 'neg-huge': 6, 'neg-inf': 6, 'neg-big': 6, 'neg-bigh': 6, 'var': 5, 'fractional': 4, 'below-1': 3, 'negative': 3,
        'integer': 1, 'none': 0}


def num_class(x, below1):
    """Mirror of numClass in harness/c10/c10.go (signatures of trace rejects must equal those of replays)."""
    if x is None:
        return 'none'
    k, v = x['k'], x['v']
    if k == 'fin':
        if v % 2:
            return 'fractional'
        if below1 and v < 2:
            return 'below-1'
        return 'negative' if v < 0 else 'integer'
    if k in ('rstart', 'rlength'):
        return 'var'
    if k == 'none':
        return 'none'
    return ('neg-' + k) if v < 0 else k


def arg_class(act):
    op = act['op']
    if op == 'substr':
        cm, cn = num_class(act.get('m'), True), num_class(act.get('n'), False)
        if RANK[cm] >= RANK[cn]:
            if cm == 'below-1' and cn != 'none':
                return 'start-below-1-with-length'
            return 'start-' + cm
        return 'length-' + cn
    if op == 'int':
        return num_class(act.get('x'), False)
    return 'recorded'


def what_differs(exp, obs):
    if obs is None or not isinstance(exp, dict):
        return 'error'
    for k, name in (('ret', 'ret'), ('rstart', 'rstart'), ('rlength', 'rlength'), ('t', 'target')):
        if k in ('rstart', 'rlength') and obs.get(k) == -99:
            continue        # not printed before the first match()
        if exp.get(k) != obs.get(k):
            return name
    return 'array'


def corrupt(case, rnd):
    """Corrupt a prediction that IS compared: the returned value or the target of the last judged step."""
    c = copy.deepcopy(case)
    judged = []
    for st in c['steps']:
        if st['open']:
            break
        judged.append(st)
    if not judged:
        return None
    st = judged[-1]
    if st['act']['op'] == 'int':
        return None        # the prediction is source text of a number; corrupting it makes a different program
    if st['act']['op'] == 'split' and not (case['s'] if len(judged) == 1 else judged[-2]['obs']['t']):
        return None        # number of pieces of the empty string: left open
    if rnd.random() < 0.5 or st['act']['op'] not in ('sub', 'gsub'):
        st['obs']['ret'] = st['obs']['ret'] + [122]
    else:
        st['obs']['t'] = st['obs']['t'] + [122]
    return c


def corrupt_event(ev, rnd):
    e = copy.deepcopy(ev)
    if 'obs' not in e:
        return None
    e['obs']['t'] = e['obs']['t'] + [122]
    return e


def trace_to_case(rej):
    """A Gen_Builtins-format history reproducing a rejected recorded trace up to the rejected call (the calls
    before it with what was observed, the rejected one with what the specification expects)."""
    tr = [e for e in rej['trace'][:rej['pos'] + 1]]
    info = rej['info'] or {}
    if not tr or 's0' not in info:
        return None
    last = len(tr) - 1
    steps = []
    for i, ev in enumerate(tr):
        a = ev['act']
        act = dict(op=a['op'])
        for k in ('m', 'n', 'x', 'pat', 'repl', 's'):
            if k in a:
                act[k] = a[k]
        if a['op'] in ('match', 'sub', 'gsub'):
            act['re'] = a['text']
        if a['op'] == 'split':
            act['sepk'], act['sep'] = a['sep']['k'], a['text']
        if i < last:
            o = ev['obs']
        else:
            o = info['expected']
        obs = dict(ret=o['ret'], rstart=o['rstart'], rlength=o['rlength'], t=o['t'], arr=o['arr'])
        steps.append(dict(act=act, obs=obs, open=False, ms=None, chg=True))
    return dict(fam='builtins-trace', mode=info['mode'], s=info['s0'], steps=steps)


def run(ctx):
    q = ctx.quick
    ctx.rule = ('a case is one history of 1-2 builtin calls (substr with positions/lengths from integers, halves, '
                '+-1e15(+0.5), +-1e30, +-inf and RSTART/RLENGTH; index; match; split; sub/gsub with replacement strings '
                'over & \\& text; length; int) on one subject over {a, b, e-acute, byte FF} in byte or character mode, '
                'exported by TLC from Gen_Builtins with the predicted return value, RSTART, RLENGTH, target and array '
                'after every call; or one 4-12 call random history on a subject of up to 12 characters recorded from '
                'the real interpreter; distinct by content; non-trivial when a call finds/replaces a match, clamps or '
                'truncates a position, meets a multi-byte character or invalid byte, or splits into several pieces')
    ctx.assumptions += [
        'regular expressions are matched on UTF-8 characters in both modes (what GoAWK documents); in byte mode a '
        'call whose matches would differ if bytes were matched (an empty match inside a multi-byte character) is '
        'exported but not judged',
        'substr follows the statement: start truncated and TAKEN AS 1 if smaller (not POSIX window arithmetic), '
        'length truncated; NaN positions/lengths, int(inf), int(nan) are not pinned down by the statement and not generated',
        'replacement strings with a backslash that is not part of \\& (\\\\, \\x, trailing \\) are left open by the '
        'statement (awks disagree): exported, not judged',
        'index(s, "") and split(s, a, "") are not generated; the NUMBER of pieces of split("") is not judged; regex '
        'separators are limited to regexes that match no empty string (extra coverage beyond the statement)',
        'RSTART/RLENGTH are compared only after the first match() of a history',
        "the specification's regex matches are compared with Go's regexp (Longest) on every exported case; a "
        'disagreement skips the case (spec sanity gate), it is never a verdict',
    ]
    ctx.build()
    gate_file = ctx.path('gate.ndjson')
    os.environ['C10_GATE_FILE'] = gate_file

    # 1. model: the equations of the statement hold on the specification (every single call of the full menu on
    #    every subject of <= MaxLen characters; histories of two calls from the reduced menu on <= MaxLen2)
    mc = ctx.cfg('MC_Builtins', constants={'MaxLen': 2 if q else 4, 'MaxLen2': 2 if q else 3, 'Rich': 'TRUE', 'Depth': 2})
    ctx.tlc('MC_Builtins', mc, timeout=1800, heap='8g')

    # 2. spec -> code: the same histories, exported with the predicted observables and replayed
    gen = ctx.cfg('Gen_Builtins', constants={'MaxLen': 3 if q else 4, 'MaxLen2': 2 if q else 3, 'Rich': 'TRUE', 'Depth': 2})
    ctx.tlc('Gen_Builtins', gen, capture='cases.ndjson', timeout=2400, heap='8g')
    if not q:
        gen3 = ctx.cfg('Gen_Builtins', name='Gen_Builtins_l5', constants={'MaxLen': 5, 'MaxLen2': 0, 'Rich': 'FALSE', 'Depth': 1})
        ctx.tlc('Gen_Builtins', gen3, capture='cases.ndjson', timeout=2400, heap='8g')
    ctx.cov['exhaustive'] = True
    ctx.replay('cases.ndjson', label='gen-builtins', min_cases=10000, corrupt=corrupt)
    ngate = sum(1 for _ in open(gate_file)) if os.path.exists(gate_file) else 0
    ctx.cov['spec_gate_disagreements'] = ngate
    if ngate:
        ctx.notes.append(f'{ngate} exported cases skipped: the specification\'s regex matches differ from Go regexp (spec defect)')
        ctx.log(f'SPEC GATE: {ngate} cases skipped (specification and Go regexp disagree); first: '
                + open(gate_file).readline()[:300])
        if ngate > ctx.cov['evaluations'] // 100:
            raise MachineryError(f'spec sanity gate: {ngate} disagreements between Regex/Builtins.tla and Go regexp')

    # 3. code -> spec: random histories on subjects of up to 12 characters, validated by TLC.  Two logs: one whose
    #    numeric arguments stay inside the int64 range (so that every trace is followed to its end even while the
    #    overflow findings are present), one with the full numeric classes.
    ncore, nfull = (200, 80) if q else (2500, 800)
    ctx.harness(['C10', 'recordcore', '-seed', str(ctx.seed), '-n', str(ncore), '-out', ctx.path('trace_core.ndjson')])
    ctx.harness(['C10', 'record', '-seed', str(ctx.seed + 7919), '-n', str(nfull), '-out', ctx.path('trace_full.ndjson')])
    rejects = ctx.validate_traces('Trace_Builtins', 'Trace_Builtins', 'trace_core.ndjson', label='trace-builtins-core',
                                  corrupt_event=corrupt_event, timeout=1500)
    rejects += ctx.validate_traces('Trace_Builtins', 'Trace_Builtins', 'trace_full.ndjson', label='trace-builtins-full',
                                   corrupt_event=corrupt_event, timeout=1500)
    for r in rejects:
        ev = r['trace'][r['pos']]
        act = ev['act']
        info = r['info'] or {}
        if not info.get('indomain', True):
            raise MachineryError('trace driver produced a call outside the specified domain: ' + json.dumps(act)[:300])
        sig = f"C10/{act['op']}/{what_differs(info.get('expected'), ev.get('obs'))}/{arg_class(act)}"
        ctx.add_failure(sig, f"[{info.get('mode')}] recorded trace rejected by Trace_Builtins at event {r['line']} "
                             f"({act['op']} on {bytes(info.get('before', []))!r})",
                        case=trace_to_case(r), expected=info.get('expected'), observed=ev.get('obs'))
