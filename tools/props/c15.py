"""C15 -- cancellation stops execution promptly and is otherwise invisible.

spec/Cancel.tla (shared poll counter, stack of execution contexts, blocked-in-child states, delivered output;
lock-step context-free machine), MC_Cancel (since <= CheckEvery, ends with the context's error or by itself, right
error identity, everything printed is delivered, an uncancelled context is invisible, cancelled ~> returned),
Gen_Cancel (every situation in which the context can become done, exported with what the rest of the run must
satisfy), Trace_Cancel (random deeper scenarios recorded through the instruction hook, checked against the same
property operators with the bound of the real code).
"""
import copy, json
from vlib import MachineryError


def corrupt(case, rnd):
    """Corrupt the specification's demand so that the real (correct) run must be rejected."""
    c = copy.deepcopy(case)
    if c.get('fam') == 'cancel':
        if c['waiting'] == 'none' and c['started'] and c['opsclass'] != 'before-poll' and rnd.random() < 0.4:
            c['expect']['maxsince'] = 0            # nothing may run after the cancellation: the real run does run on
            return c
        if rnd.random() < 0.5 and c['started']:
            c['expect']['mindelivered'] += 2       # more output than was printed
            return c
        c['expect']['errid'] = 'deadline' if c['expect']['errid'] == 'cancel' else 'cancel'
        return c
    if c.get('fam') == 'nocancel':
        c['expect']['same'] = False                # the demand that ExecuteContext equals Execute
        return c
    return None


def corrupt_event(ev, rnd):
    e = copy.deepcopy(ev)
    if e.get('op') == 'end':
        if e['result'] == 'ctxerr':
            e['errid'] = 'deadline' if e['errid'] == 'cancel' else 'cancel'
        else:
            e['same'] = False
        return e
    return None


def dedupe(path):
    seen, out = set(), []
    for line in open(path):
        if line not in seen:
            seen.add(line)
            out.append(line)
    with open(path, 'w') as f:
        f.writelines(out)
    return len(out)


def run(ctx):
    q = ctx.quick
    ctx.rule = ('a case is one situation in which the context becomes done -- nesting of execution contexts (BEGIN / '
                'pattern / action / END, then function bodies and for-in bodies), blocked in system() / cmd|getline / '
                'close of an output pipe, position of the poll counter (just after a poll, middle, just before), pending '
                'output, cancelled vs deadline, before the first instruction -- exported by TLC from Gen_Cancel and '
                'rendered to an AWK program of that shape whose Go function vcancel() makes the context done at the chosen '
                'instruction; or one uncancelled ExecuteContext program state (must equal Execute); or one of 24 ordinary '
                'programs; or one random deeper scenario recorded through the instruction hook; distinct by content; all '
                'are non-trivial (each exercises the poll or the never-cancelled path)')
    ctx.assumptions += [
        '"about a thousand further interpreter steps" is taken as one poll interval of the code (1000 dispatched VM '
        'instructions, counted by the verif hook after vcancel() returned) plus a slack of 32 (so that e.g. an interval of 1024 would pass); where inside the interval the '
        'code polls is not demanded',
        'a deadline is delivered deterministically by a context.Context implementation whose Done channel the harness '
        'closes and whose Err() is DeadlineExceeded; real context.WithTimeout contexts are used in the recorded traces',
        'programs that block in a child are built around BEGIN/END (a child inherits Config.Stdin and would race with the '
        'record loop); the context is made done from another goroutine 40 ms after the script announced the wait; a wait is '
        'reported only if the call has not returned 60 s later, twice; the latency itself is not judged',
        'after a killed child the bound is applied to calls of a Go function in the loop body (each at least one instruction)',
        'error texts are not compared; only nil / context.Canceled / context.DeadlineExceeded / other',
        'long single instructions (a huge regex match, a big sort) are outside the statement, which counts interpreter steps',
    ]
    ctx.build()
    # 1. the model
    mc = ctx.cfg('MC_Cancel', constants=dict(MaxDepth=2, MaxPrint=1, MaxRecords=1) if q else dict(MaxDepth=3, MaxPrint=2, MaxRecords=2))
    ctx.tlc('MC_Cancel', mc, timeout=1500, heap='6g')
    if not q:
        # the model must be able to fail: each of the three design decisions removed violates an invariant
        for const, inv in (('SharedCounter', 'Prompt'), ('PreferCtxErr', 'EndsRight'), ('FlushOnCtxErr', 'Delivered')):
            c = ctx.cfg('MC_Cancel', name=f'MC_Cancel_no_{const}', constants={const: 'FALSE', 'MaxDepth': 2, 'MaxPrint': 1, 'MaxRecords': 1},
                        drop=['PROPERTIES'])
            r = ctx.tlc('MC_Cancel', c, timeout=900, heap='4g', allow_fail=True, label=f'MC_Cancel with {const}=FALSE')
            log = open(r['log']).read()
            if r['ok'] or f'Invariant {inv} is violated' not in log:
                raise MachineryError(f'model lost its teeth: {const}=FALSE no longer violates {inv}')
        ctx.notes.append('model sanity: a per-execute poll counter violates Prompt, reporting the secondary error violates '
                         'EndsRight, not flushing on the context error violates Delivered (TLC counterexamples found)')
    # 2. spec -> code
    gen = ctx.cfg('Gen_Cancel', constants=dict(MaxDepth=3 if q else 4))
    ctx.tlc('Gen_Cancel', gen, capture='cases.ndjson', timeout=900, heap='4g')
    n = dedupe(ctx.path('cases.ndjson'))
    with open(ctx.path('cases.ndjson'), 'a') as f:
        for i in range(24):
            f.write(json.dumps(dict(fam='ordinary', i=i), separators=(',', ':')) + '\n')
    ctx.log(f'{n} distinct scenarios + 24 ordinary programs')
    ctx.cov['exhaustive'] = True
    ctx.replay('cases.ndjson', label='gen-cancel', min_cases=300, corrupt=corrupt)
    bad = [f for f in ctx.failures if f['sig'].startswith('C15-MODEL')]
    if bad:
        raise MachineryError(f"scenario binding broken: {bad[0]['sig']}: {bad[0].get('what')}")
    # 3. code -> spec
    ntr = 150 if q else 1500
    ctx.harness(['C15', 'record', '-seed', str(ctx.seed), '-n', str(ntr), '-out', ctx.path('trace.ndjson')])
    rejects = ctx.validate_traces('Trace_Cancel', 'Trace_Cancel', 'trace.ndjson', label='trace-cancel', timeout=1200,
                                  corrupt_event=corrupt_event)
    for r in rejects:
        v = [k for k, b in sorted(r['info'].get('violated', {}).items()) if b]
        ctx.add_failure(f"C15/trace/{'+'.join(v) or 'unexplained'}/recorded",
                        f"recorded run rejected by Trace_Cancel at event {r['line']}: violates {v} "
                        f"(since={r['info'].get('since')}, bound={r['info'].get('bound')})",
                        case=dict(fam='trace', events=r['trace']), expected='the properties of Cancel.tla', observed=r['trace'][r['pos']])
