"""C15 -- cancellation stops execution promptly and is otherwise invisible.

spec/Cancel.tla (shared poll counter, stack of execution contexts, blocked-in-child states and how a child that ends
by itself ends -- status 0 / another status / killed by a signal / the wait itself fails --, output printed and still
pending per destination -- unbuffered or buffered standard output, file, command --; lock-step context-free machine),
MC_Cancel (since <= CheckEvery, ends with the context's error or by itself, right error identity, everything printed is
delivered at every destination, an uncancelled context is invisible including what system()/close() hand to the
program, cancelled ~> returned), Gen_Cancel (every situation in which the context can become done, exported with what
the rest of the run must satisfy; every uncancelled step), Trace_Cancel (random deeper scenarios recorded through the
instruction hook, checked against the same property operators with the bound of the real code).
"""
import copy, json, os
from vlib import MachineryError

ALL_PRINTS = '{"pr_direct", "pr_buffered", "pr_file", "pr_cmd"}'
ALL_OUTCOMES = '{"zero", "nonzero", "signal", "waitfail"}'


def corrupt(case, rnd):
    """Corrupt the specification's demand so that the real (correct) run must be rejected."""
    c = copy.deepcopy(case)
    if c.get('fam') == 'cancel':
        if c['waiting'] == 'none' and c['started'] and c['opsclass'] != 'before-poll' and rnd.random() < 0.4:
            c['expect']['maxsince'] = 0            # nothing may run after the cancellation: the real run does run on
            return c
        if rnd.random() < 0.5 and c['started']:
            used = [d for d, n in c['printed'].items() if n] or ['direct', 'file']
            c['expect']['mindelivered'][rnd.choice(used)] += 2       # more output than was printed
            return c
        c['expect']['errid'] = 'deadline' if c['expect']['errid'] == 'cancel' else 'cancel'
        return c
    if c.get('fam') == 'nocancel':
        c['expect']['same'] = False                # the demand that ExecuteContext equals Execute
        return c
    return None


def corrupt_new(case, rnd):
    """Self-test of the new families: the demand on a buffered / file / command destination is raised above what was
    printed (the observation of THAT destination must reject it); a child ending is declared visible."""
    c = copy.deepcopy(case)
    if c.get('fam') == 'cancel' and c['started']:
        used = [d for d, n in c['printed'].items() if n and d != 'direct']
        if used:
            c['expect']['mindelivered'][used[0]] += 2
            return c
    if c.get('fam') == 'nocancel' and c.get('outcome') not in (None, 'none'):
        c['expect']['same'] = False
        return c
    return None


def corrupt_event(ev, rnd):
    e = copy.deepcopy(ev)
    if e.get('op') == 'end':
        if e['result'] == 'ctxerr':
            e['errid'] = 'deadline' if e['errid'] == 'cancel' else 'cancel'
        else:
            e['same'] = False
        return e
    return None


def keep(sc, quick):
    """Which exported scenarios are replayed.
    Dropped in both tiers: steps that only write a buffer out (the state differs, the program does not); buffered
    standard output together with a child that shares Config.Output (a child's copier and the interpreter writing to
    one bufio.Writer is C13's matter); a command destination together with a blocked-in-child situation (os/exec closes
    the pipe to a command 250 ms -- WaitDelay -- after its context is done; reaping the killed child first races with
    that, and nothing in the statement decides the race).
    In the quick tier the cross products are thinned: programs that run through a child only without other output;
    children with a given ending (a failing wait costs 0.25 s of real time, twice) only in the 12 shallowest nestings,
    for both system() and close(); blocked-in-child
    situations with output to a file only in the 12 shallowest nestings and never with output that has already left
    its buffer; a command destination only at one poll phase (it is not placed for those anyway)."""
    printed = [d for d, n in sc['printed'].items() if n]
    shallow = len(sc['kinds']) <= 2
    if sc['fam'] == 'nocancel':
        waits = sc['waiting'] != 'none' or sc['waited'] != 'none'
        if sc['waited'] == 'none' and sc['outcome'] != 'none':
            return False
        if 'buffered' in printed and waits:
            return False
        if quick:
            if waits and printed:
                return False
            if sc['outcome'] != 'none' and not shallow:
                return False
        return True
    if sc['fam'] == 'cancel':
        if sc['waiting'] != 'none':
            if 'buffered' in printed or 'cmd' in printed:
                return False
            if quick and 'file' in printed and (not shallow or not sc['pending']['file']):
                return False
        elif quick and 'cmd' in printed and sc['opsclass'] != 'mid':
            return False
        return True
    return True


def dedupe(path, quick):
    seen, out = set(), []
    for line in open(path):
        if line not in seen:
            seen.add(line)
            if keep(json.loads(line), quick):
                out.append(line)
    with open(path, 'w') as f:
        f.writelines(out)
    return len(out)


def run(ctx):
    q = ctx.quick
    ctx.rule = ('a case is one situation in which the context becomes done -- nesting of execution contexts (BEGIN / '
                'pattern / action / END, then function bodies and for-in bodies), blocked in system() / cmd|getline / '
                'close of an output pipe, position of the poll counter (just after a poll, middle, just before), output '
                'printed before that point -- to unbuffered standard output, to a bufio.Writer given as Config.Output, to a '
                'file, to a command; fewer than a buffer-full still pending, or more than a buffer-full with the tail '
                'pending --, cancelled vs deadline, before the first instruction -- exported by TLC from Gen_Cancel and '
                'rendered to an AWK program of that shape whose Go function vcancel() makes the context done at the chosen '
                'instruction; or one uncancelled ExecuteContext step (must equal Execute in standard output, redirected '
                'output, error stream, status and error), among them system() and close() of a command that exits 0, exits '
                '3, is killed by a signal, or whose wait fails; or one of 24 ordinary '
                'programs; or one random deeper scenario recorded through the instruction hook; distinct by content; all '
                'are non-trivial (each exercises the poll or the never-cancelled path)')
    ctx.assumptions += [
        '"about a thousand further interpreter steps" is taken as one poll interval of the code (1000 dispatched VM '
        'instructions, counted by the verif hook after vcancel() returned) plus a slack of 32 (so that e.g. an interval of 1024 would pass); where inside the interval the '
        'code polls is not demanded',
        'a deadline is delivered deterministically by a context.Context implementation whose Done channel the harness '
        'closes and whose Err() is DeadlineExceeded; real context.WithTimeout contexts are used in the recorded traces',
        'programs that block in a child are built around BEGIN/END (a child inherits Config.Stdin and would race with the '
        'record loop); the context is made done from another goroutine 40 ms after the script announced the wait; a wait is '
        'reported only if the call has not returned 60 s later, twice; the latency itself is not judged',
        'after a killed child the bound is applied to calls of a Go function in the loop body (each at least one instruction)',
        'error texts are not compared; only nil / context.Canceled / context.DeadlineExceeded / other',
        'long single instructions (a huge regex match, a big sort) are outside the statement, which counts interpreter steps',
        '"delivered": when the call has returned, the lines printed before the cancellation point are in Config.Output '
        '(when that is a *bufio.Writer: in the writer underneath it -- the interpreter flushes a Config.Output that has a '
        'Flush method when a call returns, as it must for its default, a buffered os.Stdout; the harness does not flush), '
        'in the file of print > "f", or have been handed to the command of print | "cmd"',
        'a command destination: the context kills the shell the interpreter started, so the observable reader is a '
        'process the shell forked into the background (`exec 3<&0; (echo up > mark; exec cat <&3 > file) &`); the program '
        'waits (Go function vwait) until the marker exists before it goes on towards the cancellation; after the call '
        'the harness waits up to 20 s for the file to hold the lines (2 s once one case has waited in vain)',
        'one printed unit of the model is 3 lines while it is pending, and 12000 lines (78 KB, buffers are 64 KiB) when '
        'the model says the buffer has been written out before the cancellation (BufferFull): all of them must arrive',
        'children that end by themselves under a never-cancelled context: `exit 0`, `exit 3`, `kill -9 $$`, and '
        '`sleep 5 &` (the shell exits at once, the background sleep keeps the inherited output open for 5 s, 20 times '
        'os/exec\'s 250 ms WaitDelay, so Wait fails with ErrWaitDelay); what system()/close() return, standard output, '
        'the error stream (texts of the two real runs against each other, not against a specified text), status and error '
        'are compared between Execute and ExecuteContext; if under Execute the child does not end the way the scenario '
        'says (value printed), the case is skipped; a difference counts only if three consecutive pairs of runs show it',
        'buffered standard output is not combined with a child that shares Config.Output (the known C13 matter of a '
        'child\'s copier and the interpreter writing to one bufio.Writer)',
    ]
    ctx.build()
    # 1. the model
    if os.environ.get('VERIF_SKIP_MODEL'):      # development aid for runs against changed trees: the model does not depend on the code
        ctx.notes.append('model run skipped (VERIF_SKIP_MODEL)')
    elif q:
        # safety over every print destination and a failing wait; liveness (an order of magnitude dearer) over the
        # machine with one destination: Stops is about polling, not about where output goes
        mc = ctx.cfg('MC_Cancel', constants=dict(MaxDepth=2, MaxPrint=1, MaxRecords=1, Outcomes='{"zero", "waitfail"}'), drop=['PROPERTIES'])
        ctx.tlc('MC_Cancel', mc, timeout=1500, heap='6g', label='MC_Cancel (invariants)')
        lv = ctx.cfg('MC_Cancel', name='MC_Cancel_live', constants=dict(MaxDepth=2, MaxPrint=1, MaxRecords=1, Outcomes='{"zero"}',
                                                                       PrintKinds='{"pr_direct"}'))
        ctx.tlc('MC_Cancel', lv, timeout=1500, heap='6g', label='MC_Cancel (invariants + liveness)')
    else:
        mc = ctx.cfg('MC_Cancel', constants=dict(MaxDepth=3, MaxPrint=2, MaxRecords=2), drop=['PROPERTIES'])
        ctx.tlc('MC_Cancel', mc, timeout=3000, heap='8g', label='MC_Cancel (invariants)')
        lv = ctx.cfg('MC_Cancel', name='MC_Cancel_live', constants=dict(MaxDepth=3, MaxPrint=1, MaxRecords=2, Outcomes='{"zero", "waitfail"}',
                                                                       PrintKinds='{"pr_direct", "pr_file"}'))
        ctx.tlc('MC_Cancel', lv, timeout=3000, heap='8g', label='MC_Cancel (invariants + liveness)')
        # the model must be able to fail: each of the four design decisions removed violates an invariant
        for const, inv in (('SharedCounter', 'Prompt'), ('PreferCtxErr', 'EndsRight'), ('FlushOnCtxErr', 'Delivered'),
                           ('WaitErrChecksDone', 'Invisible')):
            c = ctx.cfg('MC_Cancel', name=f'MC_Cancel_no_{const}', constants={const: 'FALSE', 'MaxDepth': 2, 'MaxPrint': 1, 'MaxRecords': 1},
                        drop=['PROPERTIES'])
            r = ctx.tlc('MC_Cancel', c, timeout=900, heap='4g', allow_fail=True, label=f'MC_Cancel with {const}=FALSE')
            log = open(r['log']).read()
            if r['ok'] or f'Invariant {inv} is violated' not in log:
                raise MachineryError(f'model lost its teeth: {const}=FALSE no longer violates {inv}')
        ctx.notes.append('model sanity: a per-execute poll counter violates Prompt, reporting the secondary error violates '
                         'EndsRight, not flushing on the context error violates Delivered, taking every failed wait under '
                         'ExecuteContext for the context\'s doing violates Invisible (TLC counterexamples found)')
    # 2. spec -> code
    gen = ctx.cfg('Gen_Cancel', constants=dict(MaxDepth=3 if q else 4))
    ctx.tlc('Gen_Cancel', gen, capture='cases.ndjson', timeout=900, heap='4g')
    n = dedupe(ctx.path('cases.ndjson'), q)
    with open(ctx.path('cases.ndjson'), 'a') as f:
        for i in range(24):
            f.write(json.dumps(dict(fam='ordinary', i=i), separators=(',', ':')) + '\n')
    ctx.log(f'{n} distinct scenarios kept + 24 ordinary programs')
    classes = {}
    for line in open(ctx.path('cases.ndjson')):
        sc = json.loads(line)
        if sc['fam'] == 'cancel':
            for d, k in sc['printed'].items():
                if k:
                    key = f"cancel/{d}/{'pending' if sc['pending'][d] else 'written-out'}"
                    classes[key] = classes.get(key, 0) + 1
        elif sc['fam'] == 'nocancel' and sc['outcome'] != 'none':
            key = f"nocancel/{sc['waited']}/{sc['outcome']}"
            classes[key] = classes.get(key, 0) + 1
    ctx.cov['scenario_classes'] = classes
    need = [f'cancel/{d}/pending' for d in ('buffered', 'file', 'cmd')] + ['cancel/direct/written-out'] + \
           [f'nocancel/{w}/{o}' for w in ('system', 'pipeclose') for o in ('zero', 'status', 'signal', 'fail')]
    if any(not classes.get(k) for k in need):
        raise MachineryError(f'Gen_Cancel exported no scenario of some class: {classes}')
    ctx.cov['exhaustive'] = True
    ctx.replay('cases.ndjson', label='gen-cancel', min_cases=300, corrupt=corrupt)
    # the same demonstration for the new families alone: per-destination delivery, child endings
    newf = ctx.path('cases_new.ndjson')
    with open(newf, 'w') as f:
        for line in open(ctx.path('cases.ndjson')):
            if corrupt_new(json.loads(line), None) is not None:
                f.write(line)
    os.environ['VERIF_C15_DRAIN_S'] = '3'      # a corrupted demand on a command destination is waited for in vain
    try:
        ctx.selftest(newf, 'C15', corrupt_new, 'gen-cancel-destinations+endings', k=16)
    finally:
        del os.environ['VERIF_C15_DRAIN_S']
    ex = ctx.cov.get('replay_extra', {}).get('gen-cancel', {})
    ctx.log(f'environment-dependent cases: {ex}')
    # (only a clean run must show that these cases were really judged: on a tree with violations the cases that fail
    # are not counted as judged, and a violation must never be turned into a machinery error)
    if not ctx.failures and (not ex.get('wait_failure_judged') or not ex.get('command_destination_judged')):
        raise MachineryError(f'no case with a failing wait / a command destination was judged (all skipped?): {ex}')
    bad = [f for f in ctx.failures if f['sig'].startswith('C15-MODEL')]
    if bad:
        raise MachineryError(f"scenario binding broken: {bad[0]['sig']}: {bad[0].get('what')}")
    # 3. code -> spec
    ntr = 150 if q else 1500
    ctx.harness(['C15', 'record', '-seed', str(ctx.seed), '-n', str(ntr), '-out', ctx.path('trace.ndjson')])
    rejects = ctx.validate_traces('Trace_Cancel', 'Trace_Cancel', 'trace.ndjson', label='trace-cancel', timeout=1200,
                                  corrupt_event=corrupt_event)
    if not rejects:
        trace_delivery_selftest(ctx)
    for r in rejects:
        v = [k for k, b in sorted(r['info'].get('violated', {}).items()) if b]
        ctx.add_failure(f"C15/trace/{'+'.join(v) or 'unexplained'}/recorded",
                        f"recorded run rejected by Trace_Cancel at event {r['line']}: violates {v} "
                        f"(since={r['info'].get('since')}, bound={r['info'].get('bound')})",
                        case=dict(fam='trace', events=r['trace']), expected='the properties of Cancel.tla', observed=r['trace'][r['pos']])


def trace_delivery_selftest(ctx):
    """Binding demonstration for delivery in the trace direction: in a recorded cancelled run that printed n > 0 lines
    to a buffered / file / command destination before the cancellation, the recorded delivery is lowered to n - 1;
    Trace_Cancel must reject exactly that event."""
    events = [json.loads(x) for x in open(ctx.path('trace.ndjson')) if x.strip()]
    lo = None
    pick = None
    for i, e in enumerate(events):
        if e.get('ev') == 'reset':
            lo = i
            pr = None
        elif e.get('op') == 'print' and e['n'] > 0 and e['dest'] != 'direct':
            pr = e
        elif e.get('op') == 'end' and pr is not None and e['result'] == 'ctxerr' and e['delivered'][pr['dest']] >= pr['n']:
            pick = (lo, i, pr)
            break
    if pick is None:
        ctx.notes.append('trace-cancel: no recorded run with pending output at a buffered destination to corrupt')
        return
    lo, i, pr = pick
    bad = copy.deepcopy(events[lo:i + 1])
    bad[-1]['delivered'][pr['dest']] = pr['n'] - 1
    with open(ctx.path('bad_delivery.ndjson'), 'w') as f:
        for e in bad:
            f.write(json.dumps(e, separators=(',', ':')) + '\n')
    rej = ctx._run_trace('Trace_Cancel', 'Trace_Cancel', ctx.path('bad_delivery.ndjson'), 'trace-cancel-delivery-selftest', 600, False)
    if not any(r['reject'] == len(bad) and r['info']['violated'].get('delivery') for r in rej):
        raise MachineryError('trace-cancel: binding self-test failed: a recorded delivery lowered below what was printed '
                             f"to {pr['dest']} was accepted")
    ctx.cov.setdefault('selftest', []).append({'label': 'trace-cancel-delivery', 'dest': pr['dest'], 'rejected': True})
    ctx.log(f"trace-cancel: delivery self-test ok (destination {pr['dest']}: {pr['n'] - 1} of {pr['n']} lines rejected)")
