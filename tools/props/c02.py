"""C02 -- running any accepted program never crashes the host.

Part 1 (spec/Guards.tla): every site where a script-controlled value reaches a conversion or a limit x the value
classes that matter there; the spec prescribes the outcome class (must-error / no-panic), the harness runs the
programs under recover().
Part 2 (spec/StackMachine.tla): the VM abstracted to operand counts, stack effects, successors and table indexes.
MC_StackMachine explores, for REAL compiled programs (C01/C11 families, guard programs, the testdata corpus), all
paths under all branch outcomes and checks stack discipline, jump targets and table indexes; Trace_StackMachine
validates the table against every instruction the real VM executed (verif step hook).
"""
import copy, json, os
from vlib import MachineryError, REPO


def corrupt(case, rnd):
    # a case the spec classifies "no-panic" that visibly succeeds is turned into "must-error": must be rejected
    if case.get('expect') != 'no-panic' or case.get('site') not in ('int', 'pow', 'ofs', 'ors', 'subscript', 'field-values', 'recursion-with-locals'):
        return None
    c = copy.deepcopy(case)
    c['expect'] = 'must-error'
    return c


def corrupt_event(ev, rnd):
    if ev.get('ev') != 'delta':
        return None
    e = copy.deepcopy(ev)
    e['d'] = e['d'] + 1
    return e


def run(ctx):
    q = ctx.quick
    ctx.rule = ('guards: one case per (site, value class, configuration) -- 24 numeric sites x 22 numeric classes x 2, 19 string '
                'sites x 15 string classes x 5 configurations, 5 structural sites; non-trivial when the statement demands an error '
                'or the run ends in one.  stack machine: one case per distinct compiled program; every path of every code block '
                'under all branch outcomes is explored by TLC (states); the opcode table is validated against every executed '
                'instruction of the executed programs')
    ctx.assumptions += [
        'must-error is demanded only for runaway recursion, field numbers beyond the limit in assignments, and invalid dynamic '
        'regular expressions (the cases the statement names); everything else only has to not panic',
        'memory exhaustion below the coded limits and byte-level fuzzing of 32 KiB inputs are outside this check',
        'a fault found by the static pass over emitted code is reported as a machinery error (exit 2), not as a violation: a '
        'syntactic path need not be feasible; faults of the real VM (panics, stack pointer below the base of its block, an '
        'opcode whose observed stack effect differs from the specified one) are violations',
    ]
    ctx.build()
    # ---- part 1: guards
    ctx.tlc('Guards', 'Guards', capture='guards.ndjson', timeout=600)
    ctx.cov['exhaustive'] = True
    ctx.replay('guards.ndjson', label='guards', min_cases=2000, corrupt=corrupt)
    # ---- part 2: stack machine
    ctx.tlc('Gen_StackTable', 'Gen_StackTable', capture='table.ndjson', timeout=300)
    fams = ['call', 'loop', 'misc', 'concat', 'const'] if q else ['call', 'loop', 'misc', 'concat', 'const', 'assign', 'cond', 'flow', 'pattern']
    cfg = ctx.cfg('Gen_AwkSem', constants={'Families': '{' + ', '.join('"%s"' % f for f in fams) + '}'})
    ctx.tlc('Gen_AwkSem', cfg, capture='progs_awksem.ndjson', timeout=2400, heap='8g')
    mfams = ['begin', 'end'] if q else ['begin', 'end', 'body', 'range']
    cfg2 = ctx.cfg('Gen_MainLoop', constants={'Families': '{' + ', '.join('"%s"' % f for f in mfams) + '}'})
    ctx.tlc('Gen_MainLoop', cfg2, capture='progs_mainloop.ndjson', timeout=2400, heap='8g')
    # those exports are program sources here, not model exploration of this property: keep the state counters honest
    p = ctx.harness(['C02', 'stack', '-in', ','.join(ctx.path(x) for x in ('progs_awksem.ndjson', 'progs_mainloop.ndjson', 'guards.ndjson')),
                     '-corpus', os.path.join(REPO, 'testdata'), '-table', ctx.path('table.ndjson'),
                     '-programs', ctx.path('programs.ndjson'), '-trace', ctx.path('trace.ndjson'), '-out', ctx.path('summary_stack.json')])
    s = json.load(open(ctx.path('summary_stack.json')))
    ctx.cov['replay_extra'] = dict(ctx.cov.get('replay_extra', {}), stack=s['extra'])
    ctx.cov['evaluations'] += s['n']
    ctx.cov['distinct_nontrivial'] += s['distinct_nontrivial']
    for f in s['failures']:
        ctx.failures.append(f)
    for k, v in s['sig_counts'].items():
        ctx.sig_counts[k] = ctx.sig_counts.get(k, 0) + v
    if s['extra']['programs_dumped'] < 100 or s['extra']['instructions_observed'] < 10000:
        raise MachineryError('stack: too few programs dumped / instructions observed')
    # static pass over the emitted code of every program
    import shutil
    shutil.copy(ctx.path('programs.ndjson'), os.path.join(ctx.specdir, 'programs.ndjson'))
    res = ctx.tlc('MC_StackMachine', 'MC_StackMachine', timeout=2400, heap='8g', allow_fail=True)
    if not res['ok']:
        log = open(res['log']).read()
        import re
        m = re.search(r'bad = "([^"]*)"', log)
        mp = re.search(r'/\\ pi = (\d+)', log)
        name = '?'
        if mp:
            progs = open(ctx.path('programs.ndjson')).readlines()
            name = json.loads(progs[int(mp.group(1)) - 1])['name']
        raise MachineryError(f'static pass over the emitted code failed (rc={res["rc"]}): {m.group(1) if m else "see log"} in program {name}; '
                             'either the compiler emits code that violates the stack discipline on some syntactic path, or '
                             'spec/StackMachine.tla is out of date')
    # the table against what the real VM did
    rejects = ctx.validate_traces('Trace_StackMachine', 'Trace_StackMachine', 'trace.ndjson', label='trace-stack', corrupt_event=corrupt_event)
    for r in rejects:
        ev = r['trace'][r['pos']]
        exp = r['info'].get('expected')
        ctx.add_failure('C02/stack-effect/' + ev['op'],
                        f"the real VM changed the stack pointer by {ev['d']} executing {ev['op']} {ev.get('a')}, the specification says {exp}",
                        case=dict(src=ev.get('src'), input=ev.get('input'), op=ev['op'], pred=exp if isinstance(exp, int) else None),
                        expected=exp, observed=ev['d'], program=ev.get('src'))
