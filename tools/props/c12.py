"""C12 -- NoExec, NoFileWrites and NoFileReads confine every program.

spec/IOStreams.tla (shared with C13); MC_IOStreams with Sandbox = TRUE (the confinement invariants over all
histories x 8 flag sets x custom open), Gen_IOStreams family "sandbox" (every I/O action, pair and
close/reopen triple under every configuration, replayed with a logging OpenFile, a sentinel-writing shell and
a directory listing), Trace_IOStreams (random longer runs recorded from the real interpreter), and a go/ast
scan of package interp for open-file / os/exec call sites the model does not know (exit 2, never a violation).
"""
import copy, json, os
from vlib import MachineryError, REPO
import iocommon


def run(ctx):
    q = ctx.quick
    ctx.rule = ('a case is one run: configuration (3 deny flags, custom OpenFile on/off) + a history of 1-3 I/O actions '
                '(print to stdout / > / >> / |, close, fflush, system, getline < file, cmd | getline, file operand; names '
                'literal or computed at run time, incl. "-", /dev/stdout, /dev/stderr, other-direction and close-then-reopen) '
                'exported by TLC from Gen_IOStreams, or a 3-8 action random run recorded from the real interpreter; distinct by '
                'content; non-trivial when at least one deny flag is set and the history performs I/O')
    ctx.assumptions += iocommon.ASSUMPTIONS + [
        'quick tier: where NoExec is off, process-starting actions are replayed on their own only (a process start costs ~100 ms here); the thorough tier lifts this',
        'the go/ast scan only compares the call sites of p.openFile / execShell / exec.Command* / os.Open* in package interp with '
        'IOStreams!CallSites; it is not a proof that no other I/O path exists',
    ]
    ctx.build()
    # 1. model: confinement invariants
    mc = ctx.cfg('MC_IOStreams', constants={'Depth': 2 if q else 3, 'Sandbox': 'TRUE', 'FailMax': 0})
    ctx.tlc('MC_IOStreams', mc, timeout=1500, heap='8g', capture='callsites.ndjson')
    # 2. spec -> code
    gen = ctx.cfg('Gen_IOStreams', name='Gen_sandbox', constants={'Family': '"sandbox"', 'Depth': 3, 'Rich': 1 if q else 2})
    ctx.tlc('Gen_IOStreams', gen, capture='cases.ndjson', timeout=900)
    ctx.cov['exhaustive'] = True
    iocommon.replay(ctx, 'cases.ndjson', 'sandbox', iocommon.corrupt, 2000)
    # 3. code -> spec
    iocommon.traces(ctx, 'C12', 60 if q else 400)
    # 4. the model's action list vs the I/O call sites of the tree (last: a violation found above is the better answer)
    iocommon.scan_callsites(ctx)
