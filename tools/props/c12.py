"""C12 -- NoExec, NoFileWrites and NoFileReads confine every program.

spec/IOStreams.tla (shared with C13); MC_IOStreams with Sandbox = TRUE (the confinement invariants over all
histories x 8 flag sets x custom open, and over sessions of two Execute calls on one Interpreter with a
configuration each), Gen_IOStreams family "sandbox" (every I/O action, pair and close/reopen triple under every
configuration, replayed with a logging OpenFile, a sentinel-writing shell and a directory listing; and sessions:
two Execute calls on ONE interp.Interpreter whose configurations differ, every open / process start / refusal of
the second run judged against the configuration of THAT Execute), Trace_IOStreams (random longer runs recorded from the real interpreter), and a go/ast
scan of package interp for open-file / os/exec call sites the model does not know (exit 2, never a violation).

Name dimensions of the model (all judged against the same statement: every name meets the same flag checks and the same
open-file function): four spellings of a regular file's path (absolute, ./relative, with "..", /dev/../...), /dev/null,
a file name in a directory that does not exist (written and read; also relative to the root of a name-mapping OpenFile; the
model says that nothing but files opened for writing through the open function comes into being -- the tree under the work
directory is listed before and after every run),
command lines that are empty / blank / start with blanks in all three process-starting forms, operands that are a directory,
a missing file, the empty string, an assignment, "-".
"""
import copy, json, os
from vlib import MachineryError, REPO
import iocommon


def run(ctx):
    q = ctx.quick
    ctx.rule = ('a case is one run: configuration (3 deny flags, custom OpenFile on/off) + a history of 1-3 I/O actions '
                '(print to stdout / > / >> / |, close, fflush, system, getline < file, cmd | getline, operands; names '
                'literal or computed at run time, incl. "-", /dev/stdout, /dev/stderr, /dev/null, a regular file spelled as absolute path / '
                './relative / with ".." / as /dev/../<abs>, command lines "", "  " and "  cat", operands that are a directory, a missing '
                'file, "" or v=1 (alone, or in front of any other operand), a file name in a directory that does not exist (print / printf '
                '> and >>, getline, operand; absolute, computed, relative, relative to the root of a name-mapping OpenFile), '
                'other-direction and close-then-reopen; the newer name '
                'classes singly under every configuration and, one representative each, paired with every older action in both orders) '
                'exported by TLC from Gen_IOStreams; or a session: two Execute calls on one reusable interp.Interpreter, a first '
                'run (nothing / print > file / getline < file) under one configuration, then one I/O action under a configuration '
                'that differs in one flag or in the presence of the custom OpenFile (thorough: in anything; two actions), the '
                'opens, process starts, refusals, files and results of EACH run compared with the model\'s run started by '
                'NextRun(previous, that Execute\'s Config); or a 3-8 action random run / a 2-3 run session recorded from the real '
                'interpreter; distinct by content; non-trivial when at least one deny flag is set and the history performs I/O '
                '(session: when its last run performs I/O)')
    ctx.assumptions += iocommon.ASSUMPTIONS + [
        'sessions: one program serves all runs of a session (it branches on a variable set through Config.Vars); the native '
        'functions and the shell wrapper are the same in every run (Config.Funcs must not change between Execute calls), each run '
        'has its own Config.OpenFile closure, output writers, standard input and flags; the work directory is shared; a call, during '
        'run k, of the OpenFile function given to an earlier Execute counts as "not opened through the configured function"',
        'quick tier sessions: the second configuration differs from the first in exactly one of NoExec / NoFileWrites / NoFileReads / '
        'custom OpenFile; where NoExec is off in the second run, process-starting actions are used only after an empty first run that '
        'had NoExec on; the thorough tier uses every pair of different configurations and second runs of up to two actions',
        'quick tier: where NoExec is off, process-starting actions are replayed on their own only (a process start costs ~100 ms here); the thorough tier lifts this',
        'the go/ast scan only compares the call sites of p.openFile / execShell / exec.Command* / os.Open* in package interp with '
        'IOStreams!CallSites; it is not a proof that no other I/O path exists',
    ]
    ctx.build()
    # 1. model: confinement invariants
    skip_model = bool(os.environ.get('VERIF_SKIP_MODEL'))   # development aid for mutant runs: the model does not depend on the code
    if skip_model:
        ctx.notes.append('model run and call-site scan skipped (VERIF_SKIP_MODEL)')
    else:
        mc = ctx.cfg('MC_IOStreams', constants={'Depth': 2 if q else 3, 'Sandbox': 'TRUE', 'FailMax': 0, 'MaxRuns': 2,
                                                'NLs': '{"smart"}', 'Rich': 0})
        ctx.tlc('MC_IOStreams', mc, timeout=1500, heap='8g', capture='callsites.ndjson')
        if not q:
            # every action of the newer name dimensions (all spellings, /dev/null in every form, every blank command line,
            # every operand kind), histories of two actions, sessions of two runs
            mc1 = ctx.cfg('MC_IOStreams', name='MC_IOStreams_allnames', constants={'Depth': 2, 'Sandbox': 'TRUE', 'FailMax': 0,
                                                                                   'MaxRuns': 2, 'NLs': '{"smart"}', 'Rich': 1})
            ctx.tlc('MC_IOStreams', mc1, timeout=1500, heap='8g')
    # 2. spec -> code
    gen = ctx.cfg('Gen_IOStreams', name='Gen_sandbox', constants={'Family': '"sandbox"', 'Depth': 3, 'Rich': 1 if q else 2, 'Runs': 2})
    ctx.tlc('Gen_IOStreams', gen, capture='cases.ndjson', timeout=1800, heap='8g')
    ctx.cov['exhaustive'] = True
    nses = iocommon.split_cases(ctx, 'cases.ndjson', 'sessions.ndjson', lambda c: c.get('fam') == 'session')
    if nses < 1000:
        raise MachineryError(f'Gen_IOStreams exported only {nses} sessions (two Execute calls on one Interpreter)')
    ctx.log(f'cases.ndjson: {nses} of the exported behaviours are sessions on one Interpreter')
    nnew = iocommon.split_cases(ctx, 'cases.ndjson', 'newdims.ndjson', iocommon.has_new_dim)
    kinds = {}
    for line in open(ctx.path('newdims.ndjson')):
        c = json.loads(line)
        for r in (c['runs'] if c.get('fam') == 'session' else [c]):
            for a in r['acts']:
                if iocommon.new_dim_act(a):
                    k = a['cls'] if a.get('cls') in iocommon.PATH_CLASSES and a['name'] != 'nd/g1' else (a['op'] + ':' + a['name'])
                    kinds[k] = kinds.get(k, 0) + 1
    need = ['print:nd/g1', 'getline_file:nd/g1', 'operand:nd/g1', 'rel', 'dotdot', 'devdd', 'print:/dev/null', 'getline_file:/dev/null', 'operand:/dev/null', 'system:blank', 'system:empty',
            'print:blank', 'getline_cmd:empty', 'system:spcat', 'operand:d1', 'operand:', 'operand:v=1']
    missing = [k for k in need if kinds.get(k, 0) < 8]
    if missing:
        raise MachineryError(f'Gen_IOStreams: too few behaviours exercise {missing} (counts: {kinds})')
    ctx.log(f'cases.ndjson: {nnew} behaviours exercise the newer name dimensions (path spellings, /dev/null, blank command lines, '
            f'operand kinds)')
    s = iocommon.replay(ctx, 'cases.ndjson', 'sandbox', iocommon.corrupt, 2000)
    if all(sig in iocommon.known_sigs(ctx) for sig in s['sig_counts']):
        ctx.selftest(ctx.path('sessions.ndjson'), ctx.pid, iocommon.corrupt_session, 'sessions')
        ctx.selftest(ctx.path('newdims.ndjson'), ctx.pid, iocommon.corrupt_new_dim, 'name-dimensions', k=24)
        nlost = iocommon.split_cases(ctx, 'cases.ndjson', 'lost.ndjson', lambda c: c.get('fam') != 'session' and
                                     any(a.get('name') == 'nd/g1' for a in c['acts']))
        if nlost < 100:
            raise MachineryError(f'Gen_IOStreams exported only {nlost} behaviours that touch a file name in a directory that does not exist')
        ctx.selftest(ctx.path('lost.ndjson'), ctx.pid, iocommon.corrupt_new_dim, 'name-in-missing-directory', k=24)
    if not q:
        # sessions of THREE Execute calls on one Interpreter (single-flip configurations, one action in the later runs)
        gen3 = ctx.cfg('Gen_IOStreams', name='Gen_sessions3', constants={'Family': '"sandbox"', 'Depth': 3, 'Rich': 1, 'Runs': 3})
        ctx.tlc('Gen_IOStreams', gen3, capture='cases3_all.ndjson', timeout=1800, heap='8g')
        n3 = iocommon.split_cases(ctx, 'cases3_all.ndjson', 'sessions3.ndjson',
                                  lambda c: c.get('fam') == 'session' and len(c['runs']) == 3)
        ctx.log(f'cases3_all.ndjson: {n3} sessions of three runs')
        iocommon.replay(ctx, 'sessions3.ndjson', 'sessions-of-3', iocommon.corrupt_session, 2000)
    # 3. code -> spec
    iocommon.traces(ctx, 'C12', 60 if q else 400)
    # 4. the model's action list vs the I/O call sites of the tree (last: a violation found above is the better answer)
    if not skip_model:
        iocommon.scan_callsites(ctx)
