"""C08 -- CSV/TSV input follows RFC 4180 (lenient quotes); CSV output reads back to the same fields.

spec/CsvReader.tla (EXTENDS Csv): character-level reader CsvRead, the intended record-at-a-time scanner
over a chunked stream, CsvWriteIntended.  MC_CsvReader: every delivery schedule of every input up to
MaxLen (with/without BOM) x 6 configurations -> ChunkIndependence, PrefixSafe, row-text laws, RoundTrip.
Gen_CsvReader exports (input, configuration, rows); harness/c08 delivers each under every composition of
its length.  Gen_CsvRoundTrip exports field lists: written by print / rebuilt by $n assignment in
OUTPUTMODE, read back in INPUTMODE.  Trace_CsvReader validates recorded reads/records of longer runs.
"""
import copy, os


def corrupt(case, rnd):
    c = copy.deepcopy(case)
    if c.get('fam') == 'rt':
        c['back'][0][0] = c['back'][0][0] + [113]
        return c
    if not c.get('judge'):
        return None
    c['nogate'] = True      # the encoding/csv sanity gate would discard a corrupted prediction instead of replaying it
    if c['recs']:
        k = rnd.randrange(len(c['recs']))
        if rnd.random() < 0.5:
            c['recs'][k]['fields'][0] = c['recs'][k]['fields'][0] + [113]
        else:
            c['recs'][k]['text'] = c['recs'][k]['text'] + [113]
    else:
        c['recs'] = [dict(fields=[[113]], text=[113])]
    return c


def corrupt_event(ev, rnd):
    if ev.get('ev') != 'step':
        return None
    e = copy.deepcopy(ev)
    e['fields'] = e['fields'] + [[113]]
    return e


def run(ctx):
    q = ctx.quick
    ctx.rule = ('read direction: a case is one (input bytes, configuration) pair exported by TLC from Gen_CsvReader with the rows '
                'CsvRead predicts, replayed under every composition of the input length (longer inputs: whole, 1-byte, single '
                'splits, 8 random); non-trivial when it has >= 1 record and >= 2 bytes.  Round trip: a case is a list of 1-2 '
                'records of field values exported by Gen_CsvRoundTrip, written via print or via $n assignment and read back '
                '(whole and 1-byte delivery).  Plus recorded traces (8-60 byte inputs, random schedules) validated by TLC.')
    ctx.assumptions += [
        'configurations: csv; csv comment=#; csv header; tsv; csv separator=| comment=# header; csv separator=e-acute; '
        'input alphabet {a " LF CR separator bytes comment byte}, with and without a leading byte-order mark',
        '"RFC 4180 reader with lenient quotes" is read as encoding/csv with LazyQuotes, FieldsPerRecord=-1 (the property\'s own '
        'anchor); the specification is a character-level state machine, sanity-gated against encoding/csv on every case '
        '(disagreement = case skipped, never a verdict)',
        '$0 is compared with the row\'s own text without carriage returns and without trailing line feeds',
        'inputs whose last byte is a bare carriage return are judged for schedule independence only',
        'round trip: comment character unset, header off; fields over {a " LF blank separator}, no field starts with a byte-order mark; '
        'the written bytes themselves are not judged, only what is read back',
        'two-argument split() in CSV mode and getline are not exercised',
    ]
    ctx.build()
    mc = ctx.cfg('MC_CsvReader', constants={'MaxLen': 4 if q else 5, 'RTFields': 2 if q else 3, 'RTLen': 2})
    if os.environ.get('VERIF_SKIP_MODEL'):      # development aid for mutant runs: the model does not depend on the code
        ctx.notes.append('model run skipped (VERIF_SKIP_MODEL)')
    else:
        ctx.tlc('MC_CsvReader', mc, timeout=2400, heap='10g')
    ctx.cov['exhaustive'] = True
    gen = ctx.cfg('Gen_CsvReader', constants={'MaxLen': 4 if q else 6, 'BomMaxLen': 3 if q else 4, 'EmitMin': 0})
    ctx.tlc('Gen_CsvReader', gen, capture='cases.ndjson', timeout=2400, heap='8g')
    sim = ctx.cfg('Gen_CsvReader', name='Gen_CsvReader_sim', constants={'MaxLen': 16 if q else 30, 'BomMaxLen': 14 if q else 28, 'EmitMin': 14 if q else 24})
    ctx.tlc('Gen_CsvReader', sim, capture='cases.ndjson', simulate=100 if q else 800, depth=18 if q else 32, workers=1, timeout=900)
    rt = ctx.cfg('Gen_CsvRoundTrip', constants={'NFields': 2, 'FLen': 1 if q else 2})
    ctx.tlc('Gen_CsvRoundTrip', rt, capture='cases.ndjson', timeout=1500, heap='8g')
    os.environ['VERIF_WORKERS'] = str(ctx.cores)
    s = ctx.replay('cases.ndjson', label='gen-csv', min_cases=1000, corrupt=corrupt)
    if s['skipped'] > s['n'] // 100:
        from vlib import MachineryError
        raise MachineryError(f"{s['skipped']} of {s['n']} cases skipped: the specification's CsvRead disagrees with encoding/csv too often")
    ctx.cov['gate_skipped'] = s['skipped']
    ntr = 150 if q else 2000
    ctx.harness(['C08', 'record', '-seed', str(ctx.seed), '-n', str(ntr), '-out', ctx.path('trace.ndjson')])
    # inputs with a byte-order mark (two listed findings) are validated apart, so that the rest is expected to be
    # accepted completely and the binding self-test of the trace direction always runs
    from c07 import split_traces
    split_traces(ctx, 'trace.ndjson', lambda st: st['input'][:3] == [239, 187, 191], 'trace_a.ndjson', 'trace_b.ndjson')
    rejects = ctx.validate_traces('Trace_CsvReader', 'Trace_CsvReader', 'trace_a.ndjson', label='trace-csv', corrupt_event=corrupt_event)
    if os.path.getsize(ctx.path('trace_b.ndjson')) > 0:
        rejects += ctx.validate_traces('Trace_CsvReader', 'Trace_CsvReader', 'trace_b.ndjson', label='trace-csv-bom', selftest=False)
    for r in rejects:
        info = r['info']
        cls = 'read-bom' if info.get('bom') else 'read'
        start = [e for e in r['trace'] if e.get('ev') == 'start'][0]
        cf = info['cfg']
        # the rejected run as a Gen_CsvReader-format case (replayable with ./check C08 --replay)
        case = dict(fam='read', name=cf['name'], sep=cf['sep'], comment=cf['comment'], header=cf['header'], bom=bool(info.get('bom')),
                    input=start['input'], names=info['all']['names'], recs=info['all']['recs'], judge=True,
                    sched=[e['n'] for e in r['trace'] if e.get('ev') == 'read'])
        ctx.add_failure(f"C08/{cls}/chunked/{info['what']}",
                        f"recorded run rejected by Trace_CsvReader at event {r['line']}: {info['what']} "
                        f"(configuration {info['name']}, {info['delivered']} bytes delivered)",
                        case=case, expected=dict(record=info.get('expected'), names=info.get('names')), observed=r['trace'][r['pos']])
