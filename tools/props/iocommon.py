"""Shared by c12.py and c13.py (both bound to spec/IOStreams.tla)."""
import copy, json, os
from vlib import MachineryError, REPO

ASSUMPTIONS = [
    'file names f1 (exists before the run), f2, f3 in a fresh directory; commands `cat` and `sh -c \'cat; exit 3\'`; payload of '
    'the k-th action is the k-th letter',
    'not generated because the statement leaves the outcome open: output to "-", /dev/stdout, /dev/stderr under NoFileWrites; a file '
    'operand that does not exist or is open for writing; using one name in both directions at once is generated but its error '
    'outcome is not judged',
    'results of getline from a command / system() are recorded but not judged; getline from stdin is judged only while no child '
    'process has been given the run\'s stdin',
    'Config.Output is a mutex-protected buffer (also behind a bufio.Writer when no child process runs)',
]


def replay(ctx, cases_file, label, corrupt_fn, min_cases):
    """ctx.replay, with the binding self-test run only when the replay itself found nothing new: the self-test corrupts
    predictions and needs the real code to agree with the uncorrupted ones; when the tree under test already disagrees
    (an unknown failing signature) the corrupted prediction may happen to match it, which says nothing about the binding."""
    from vlib import load_known
    s = ctx.replay(cases_file, label=label, min_cases=min_cases, selftest=False)
    known = load_known(ctx.pid)
    if all(sig in known for sig in s['sig_counts']):
        ctx.selftest(ctx.path(cases_file), ctx.pid, corrupt_fn, label)
    else:
        ctx.log(f'{label}: binding self-test skipped (the replay already disagrees with the specification)')
    return s


def corrupt(case, rnd):
    """Corrupt one compared prediction of a sandbox/delivery case."""
    c = copy.deepcopy(case)
    p = c['pred']
    if p.get('onlyErr'):
        return corrupt_failure(case, rnd)
    choice = rnd.randrange(4)
    if choice == 0:
        p['starts'] = p['starts'] + ['cat']
        return c
    if choice == 1:
        f = p['files']['f1']
        f['c'] = f['c'] + [122]
        f['ex'] = True
        return c
    if choice == 2 and p['errJudged']:
        p['err'] = not p['err']
        return c
    if c['cfg']['custom']:
        p['opens'] = p['opens'] + [{'name': 'f2', 'mode': 'read'}]
        return c
    if p['stdoutJudged']:
        p['stdout']['prog'] = p['stdout']['prog'] + [122]
        return c
    p['files']['f2']['ex'] = not p['files']['f2']['ex']
    return c


def corrupt_failure(case, rnd):
    c = copy.deepcopy(case)
    # corrupt only where the real tree agrees with the spec, so that the rejection is due to the corruption
    if c['cfg']['buffered']:
        return None
    c['pred']['err'] = not c['pred']['err']
    return c


def corrupt_share(case, rnd):
    if case.get('scenario') not in ('no-child', 'system-child'):
        return None
    c = copy.deepcopy(case)
    c['pred']['maxInside'] = 2
    return c


def scan_callsites(ctx):
    """Weak substitute for a source scan: every call of p.openFile / execShell / exec.Command* / os.Open* in package
    interp must be one the specification lists (IOStreams!CallSites); otherwise the MODEL is incomplete (exit 2)."""
    spec_sites = None
    for line in open(ctx.path('callsites.ndjson')):
        d = json.loads(line)
        if 'callsites' in d:
            spec_sites = sorted((s['fn'], s['call']) for s in d['callsites'])
    if spec_sites is None:
        raise MachineryError('MC_IOStreams did not print IOStreams!CallSites')
    out = ctx.path('scan.json')
    ctx.harness(['C12', 'scan', '-dir', os.path.join(REPO, 'interp'), '-out', out])
    found = sorted((s['fn'], s['call']) for s in json.load(open(out)))
    if found != spec_sites:
        extra = [s for s in found if s not in spec_sites]
        gone = [s for s in spec_sites if s not in found]
        if ctx.failures:
            ctx.notes.append(f'call-site scan: unknown to the model {extra}, listed but not found {gone} (not fatal: the replay '
                             f'already disagrees with the specification)')
            return
        raise MachineryError(f'model incomplete: I/O call sites in package interp differ from IOStreams!CallSites; '
                             f'unknown to the model: {extra}; listed but not found: {gone}')
    ctx.log(f'call-site scan: {len(found)} open-file / exec call sites in package interp, all known to the model')
    ctx.cov['callsites'] = [list(s) for s in found]


def corrupt_event(ev, rnd):
    e = copy.deepcopy(ev)
    obs = e.get('obs')
    if not obs:
        return None
    if e['act']['op'] == 'end':
        obs['starts'] = obs['starts'] + ['cat']
        return e
    if e['act']['op'] == 'config':
        return None
    obs['opens'] = obs['opens'] + [{'name': 'f3', 'mode': 'trunc'}]
    return e


def traces(ctx, pid, n):
    ctx.harness([pid, 'record', '-seed', str(ctx.seed), '-n', str(n), '-out', ctx.path('trace.ndjson')])
    rejects = ctx.validate_traces('Trace_IOStreams', 'Trace_IOStreams', 'trace.ndjson', label='trace-iostreams',
                                  corrupt_event=corrupt_event)
    for r in rejects:
        ev = r['trace'][r['pos']]
        info = r.get('info') or {}
        what = info.get('what', 'mismatch')
        op = ev.get('act', {}).get('op', '?')
        ctx.add_failure(f"{pid}/{info.get('opname', op)}/trace-{what}/recorded",
                        f"recorded run rejected by Trace_IOStreams at event {r['line']}: {what}",
                        case=dict(fam='trace', events=r['trace'][:r['pos'] + 1]), expected=info.get('expected'), observed=ev.get('obs'))
