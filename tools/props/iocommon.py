"""Shared by c12.py and c13.py (both bound to spec/IOStreams.tla)."""
import copy, json, os
from vlib import MachineryError, REPO

ASSUMPTIONS = [
    'file names f1 (exists before the run), f2, f3 and a directory d1 in a fresh directory; commands `cat` and `sh -c \'cat; exit 3\'` (read their '
    'input and echo it), `sh -c \'exec 0<&-; ...; exit 3\'` (closes its input at once, output form only) and `cat f1 2>/dev/null` '
    '(system() only); payload of the k-th action of a run is built from the k-th letter (lower and upper case)',
    'spellings of a path: absolute (literal or concatenated at run time), "./"-prefixed relative to the harness process\'s working '
    'directory, <dir>/../w/f1, and /dev/..<dir>/f1 (starts with /dev/, is no device); the OpenFile wrapper records the file a call '
    'denotes (cleaned absolute path), so the statement "every file is opened through it, in order, with the right mode" is judged, the '
    'spelling handed to the function is not; within a run a file is used under one spelling (the interpreter keys streams by the '
    'string: two spellings would be two streams on one file, about which the statement says nothing); /dev/stdin and other real '
    'device nodes are not used (only /dev/null: writing discards, reading gives the end of input); /dev/stdout and /dev/stderr are '
    'the interpreter\'s own streams (no open call is predicted for them)',
    'command lines "" and "  " (no command): refused under NoExec in all three forms (judged: error, no process start -- the sentinel '
    'shell wrapper logs a line even for an empty command line); without NoExec system() and | getline of them are generated but '
    'whether a shell is started, and the value returned, are not judged; print | "" is generated only under NoExec (a writer racing '
    'with a shell that exits at once); "  cat" is cat',
    'operands: "" and "v=1" are not files (nothing opened, never refused; the standard input is the main input when no file operand '
    'follows); a directory and a missing file are attempts to open a file for reading (refused under NoFileReads, else one recorded '
    'OpenFile call); after the directory was opened the run must end with an error (no message compared); the error outcome of a '
    'failed open (missing file) is not judged; at most one file operand, after any number of operands that are not files',
    'newline output modes: "smart" is modelled as "raw" (the harness does not run on Windows); "crlf" is modelled after the '
    'documentation of interp.CRLFNewlineMode ("forces the use of CRLF newlines on output"): per written string, every LF not already '
    'preceded by CR is delivered as CR LF; payload shapes never end in CR (a CR at the end of one written string followed by the '
    'LF of the next is not generated); CRLF mode is combined with the default output mode only (CSV/TSV quoting of newlines is '
    'encoding/csv\'s); what getline / the main loop return for a line that ends in CR is not judged',
    'a file name in a directory that does not exist (nd/g1; written with > and >> by print and printf, read by getline and as an '
    'operand; spelled absolute, computed, "./"-relative, and -- custom OpenFile only -- relative to the root of a name-mapping OpenFile '
    'wrapper that resolves such names in the work directory, as os.Root.OpenFile would): refused under the deny flag, else exactly one '
    'recorded OpenFile call; generated only when a custom OpenFile is configured or the deny flag of that direction is set (what the default open function does about a missing directory is not the statement\'s business); the error outcome of the failed open is not judged; the model says that a run creates no file-system entry '
    'except the files it opens for writing through the open function (Prediction.created): the harness lists the tree under the work '
    'directory before and after every run and looks for the per-case unique first component of the mapped names in the process\'s '
    'working directory (other entries of the working directory, which is shared by concurrent cases, are not looked at)',
    'payload shape "block": ONE string of N copies of the payload letter written by one print / printf; the model treats it as one '
    'symbol (the statement does not depend on the length of a written string); the binding replays each such history with N = 4096, '
    '65535, 65536, 65537 and 131073 (65536 and 65537 when a process is started) -- around the sizes of the interpreter\'s 64 KiB stream '
    'buffers -- and expands the symbol in the predicted contents',
    'the implied print of a rule with a pattern and no action (form "implied") is rendered as a main loop: one input record per '
    'action (its payload letter), action k runs in a rule NR == k; only in histories that do not use the standard input otherwise '
    '(the failure family)',
    'not generated because the statement leaves the outcome open: output to "-", /dev/stdout, /dev/stderr under NoFileWrites; a file '
    'operand that is open for writing; using one name in both directions at once is generated but its error '
    'outcome is not judged',
    'results of getline from a command / system() are recorded but not judged; getline from stdin is judged only while no child '
    'process has been given the run\'s stdin',
    'Config.Output is a mutex-protected buffer (also behind a bufio.Writer when no child process runs)',
    'a command that never reads its input: the harness waits (native function, up to 5 s) until the command has closed its '
    'standard input before the program goes on, so that what the program flushes later certainly meets a closed pipe; whether '
    'such a run ends with an error, and what the interpreter prints on stderr about it, is not judged (close() must still '
    'wait and report the exit status); a second print to such a command after a flush has lost bytes is not generated',
]


def known_sigs(ctx):
    from vlib import load_known
    return load_known(ctx.pid)


def replay(ctx, cases_file, label, corrupt_fn, min_cases):
    """ctx.replay, with the binding self-test run only when the replay itself found nothing new: the self-test corrupts
    predictions and needs the real code to agree with the uncorrupted ones; when the tree under test already disagrees
    (an unknown failing signature) the corrupted prediction may happen to match it, which says nothing about the binding."""
    from vlib import load_known
    s = ctx.replay(cases_file, label=label, min_cases=min_cases, selftest=False)
    known = load_known(ctx.pid)
    if all(sig in known for sig in s['sig_counts']):
        ctx.selftest(ctx.path(cases_file), ctx.pid, corrupt_fn, label)
    else:
        ctx.log(f'{label}: binding self-test skipped (the replay already disagrees with the specification)')
    return s


def corrupt(case, rnd):
    """Corrupt one compared prediction of a sandbox/delivery case (for a session: of one of its runs)."""
    c = copy.deepcopy(case)
    if c.get('fam') == 'session':
        k = rnd.randrange(len(c['runs']))
        r = corrupt(dict(fam='sandbox', cfg=c['runs'][k]['cfg'], acts=c['runs'][k]['acts'], pred=c['runs'][k]['pred']), rnd)
        if r is None:
            return None
        c['runs'][k]['pred'] = r['pred']
        return c
    p = c['pred']
    if p.get('onlyErr'):
        return corrupt_failure(case, rnd)
    choice = rnd.randrange(4)
    if choice == 0:
        p['starts'] = p['starts'] + ['cat']
        return c
    if choice == 1:
        f = p['files']['f1']
        f['c'] = f['c'] + [122]
        f['ex'] = True
        return c
    if choice == 2 and p['errJudged']:
        p['err'] = not p['err']
        return c
    if c['cfg']['custom']:
        p['opens'] = p['opens'] + [{'name': 'f2', 'mode': 'read'}]
        return c
    if p['stdoutJudged']:
        p['stdout']['prog'] = p['stdout']['prog'] + [122]
        return c
    p['files']['f2']['ex'] = not p['files']['f2']['ex']
    return c


NEW_NAMES = ('/dev/null', 'd1', 'empty', 'blank', 'spcat', 'v=1', 'nd/g1')
PATH_CLASSES = ('rel', 'dotdot', 'devdd')


def new_dim_act(a):
    """Does the action exercise one of the newer C12 dimensions (path spelling, /dev/null, operand kind, blank command line)?"""
    return a.get('cls') in PATH_CLASSES or a.get('name') in NEW_NAMES or (a.get('op') == 'operand' and a.get('name') == '')


def has_new_dim(case):
    runs = case['runs'] if case.get('fam') == 'session' else [case]
    return any(new_dim_act(a) for r in runs for a in r['acts'])


def corrupt_new_dim(case, rnd):
    """Corruptions aimed at what the model predicts for the newer dimensions: the recorded OpenFile call of a spelled name /
    /dev/null / a directory or missing-file operand, the refusal of a blank command line or of such an operand."""
    if case.get('fam') == 'session':
        c = copy.deepcopy(case)
        ks = [k for k, r in enumerate(c['runs']) if any(new_dim_act(a) for a in r['acts'])]
        if not ks:
            return None
        k = ks[-1]
        r = corrupt_new_dim(dict(fam='sandbox', cfg=c['runs'][k]['cfg'], acts=c['runs'][k]['acts'], pred=c['runs'][k]['pred']), rnd)
        if r is None:
            return None
        c['runs'][k]['pred'] = r['pred']
        return c
    if not has_new_dim(case):
        return None
    c = copy.deepcopy(case)
    p = c['pred']
    cfg = c['cfg']
    if any(a.get('name') == 'nd/g1' for a in c['acts']) and 'created' in p and rnd.randrange(3) == 0:
        # a name in a directory that does not exist: the model says that nothing comes into being; a prediction that the
        # file (hence its directory) is created must be rejected
        p['created'] = p['created'] + ['nd', 'nd/g1']
        return c
    if cfg['custom'] and p['opens'] and rnd.randrange(3) > 0:
        # the predicted call of the open-file function: dropped, or with the wrong mode
        if rnd.randrange(2) == 0:
            p['opens'] = p['opens'][:-1]
        else:
            m = p['opens'][-1]['mode']
            p['opens'][-1]['mode'] = 'append' if m != 'append' else 'trunc'
        return c
    if cfg['ne'] and any(a.get('name') in ('empty', 'blank') for a in c['acts']) and rnd.randrange(2) == 0:
        p['starts'] = p['starts'] + ['blank']       # under NoExec even the start of a command line without a command is judged
        return c
    if p['errJudged']:
        p['err'] = not p['err']
        return c
    if cfg['custom']:
        p['opens'] = p['opens'] + [{'name': '/dev/null', 'mode': 'read'}]
        return c
    p['starts'] = p['starts'] + ['spcat']
    return c


def has_block(case):
    return any(a.get('shape') == 'block' for a in case['acts'])


def has_implied(case):
    return any(a.get('form') == 'implied' for a in case['acts'])


def has_newline_dim(case):
    return case.get('fam') == 'newline' and (case['cfg']['nlmode'] == 'crlf' or
                                             any(a.get('shape') not in (None, '', 'plain') for a in case['acts']))


def corrupt_newline(case, rnd):
    """Corrupt the predicted bytes of a destination at a newline: drop one CR, or turn the last LF into CR LF, in the predicted
    standard output / file / error output; a prediction without any newline gets a byte appended."""
    c = copy.deepcopy(case)
    p = c['pred']
    dests = []
    if p['stdoutJudged'] and not p['stdout']['kids'] and p['stdout']['prog']:
        dests.append(p['stdout']['prog'])
    for n in ('f1', 'f2', 'f3'):
        if p['files'][n]['ex'] and p['files'][n]['c']:
            dests.append(p['files'][n]['c'])
    if p['serrJudged'] and p['serr']:
        dests.append(p['serr'])
    for k in p['stdout']['kids'] if p['stdoutJudged'] else []:
        if k['out']:
            dests.append(k['out'])
    if not dests:
        return None
    d = dests[rnd.randrange(len(dests))]
    blocks = [i for i, v in enumerate(d) if v >= 1000]
    if blocks and len(d) > 1:
        # a block (one string as large as a stream buffer): moved in front of / behind its neighbour (delivered out of order)
        i = blocks[0]
        j = i - 1 if i > 0 else i + 1
        if d[i] != d[j]:
            d[i], d[j] = d[j], d[i]
            return c
    if 13 in d:
        d.remove(13)
    elif 10 in d:
        i = len(d) - 1 - d[::-1].index(10)
        d.insert(i, 13)
    else:
        d.append(122)
    return c


def split_cases(ctx, src, dst, keep):
    """Write the exported cases for which keep(case) holds to dst; returns how many."""
    n = 0
    with open(ctx.path(src)) as f, open(ctx.path(dst), 'w') as g:
        for line in f:
            if keep(json.loads(line)):
                g.write(line)
                n += 1
    return n


def has_sys_child(case):
    return 'pred' in case and any(k.get('sys') for k in case['pred']['stdout']['kids']) and case['pred']['stdoutJudged']


def has_nonreader_close(case):
    return 'pred' in case and any(a.get('op') == 'close' and a.get('name') == 'exit3' for a in case['acts']) and \
        any(n['k'] == 'close' and n['j'] and n['v'] == 3 for n in case['pred']['notes'])


def corrupt_new_delivery(case, rnd):
    """Corruptions aimed at what the newer parts of the model predict: what a system() child shows of a file, and the
    exit status close() reports for a command that never reads."""
    c = copy.deepcopy(case)
    p = c['pred']
    if has_sys_child(c) and (rnd.randrange(2) == 0 or not has_nonreader_close(c)):
        for k in p['stdout']['kids']:
            if k.get('sys'):
                k['out'] = k['out'][:-1] if rnd.randrange(2) == 0 else k['out'] + [122]
                return c
    if has_nonreader_close(c):
        for n in p['notes']:
            if n['k'] == 'close' and n['j'] and n['v'] == 3:
                n['v'] = -1
                return c
    return None


def corrupt_session(case, rnd):
    """Corrupt the prediction of the LAST run of a session (the one made under a changed configuration)."""
    if case.get('fam') != 'session':
        return None
    c = copy.deepcopy(case)
    r = c['runs'][-1]
    p = r['pred']
    if r['cfg']['custom'] and rnd.randrange(2) == 0:
        if p['opens']:
            p['opens'] = p['opens'][:-1]
        else:
            p['opens'] = [{'name': 'f2', 'mode': 'read'}]
        return c
    if p['errJudged']:
        p['err'] = not p['err']
        return c
    p['starts'] = p['starts'] + ['cat']
    return c


def corrupt_failure(case, rnd):
    c = copy.deepcopy(case)
    if not c['pred'].get('onlyErr'):
        # the control of the failure family (the writer never fails): everything written must arrive
        if not c['pred']['stdoutJudged']:
            return None
        c['pred']['stdout']['prog'] = c['pred']['stdout']['prog'] + [122]
        return c
    # corrupt only where the real tree agrees with the spec, so that the rejection is due to the corruption
    if c['cfg']['wkind'] != 'plain':
        return None
    c['pred']['err'] = not c['pred']['err']
    return c


def corrupt_share(case, rnd):
    if case.get('scenario') not in ('no-child', 'system-child'):
        return None
    c = copy.deepcopy(case)
    c['pred']['maxInside'] = 2
    return c


def scan_callsites(ctx):
    """Weak substitute for a source scan: every call of p.openFile / execShell / exec.Command* / os.Open* in package
    interp must be one the specification lists (IOStreams!CallSites); otherwise the MODEL is incomplete (exit 2)."""
    spec_sites = None
    for line in open(ctx.path('callsites.ndjson')):
        d = json.loads(line)
        if 'callsites' in d:
            spec_sites = sorted((s['fn'], s['call']) for s in d['callsites'])
    if spec_sites is None:
        raise MachineryError('MC_IOStreams did not print IOStreams!CallSites')
    out = ctx.path('scan.json')
    ctx.harness(['C12', 'scan', '-dir', os.path.join(REPO, 'interp'), '-out', out])
    found = sorted((s['fn'], s['call']) for s in json.load(open(out)))
    if found != spec_sites:
        extra = [s for s in found if s not in spec_sites]
        gone = [s for s in spec_sites if s not in found]
        if ctx.failures:
            ctx.notes.append(f'call-site scan: unknown to the model {extra}, listed but not found {gone} (not fatal: the replay '
                             f'already disagrees with the specification)')
            return
        raise MachineryError(f'model incomplete: I/O call sites in package interp differ from IOStreams!CallSites; '
                             f'unknown to the model: {extra}; listed but not found: {gone}')
    ctx.log(f'call-site scan: {len(found)} open-file / exec call sites in package interp, all known to the model')
    ctx.cov['callsites'] = [list(s) for s in found]


def corrupt_event(ev, rnd):
    e = copy.deepcopy(ev)
    obs = e.get('obs')
    if not obs:
        return None
    if e['act']['op'] == 'end':
        crs = [n for n in ('f1', 'f2', 'f3') if 13 in obs['files'][n]['c']]
        if crs and rnd.randrange(2) == 0:
            # a file written with CRLF newlines (or a payload with CR LF in it): one CR lost
            obs['files'][crs[0]]['c'].remove(13)
            return e
        if rnd.randrange(3) == 0:
            obs['stale'] = obs['stale'] + [{'name': 'f1', 'mode': 'read'}]
        else:
            obs['starts'] = obs['starts'] + ['cat']
        return e
    if e['act']['op'] == 'config':
        return None
    # calls of the open-file function are only observable, and compared, when the run has a custom one
    if obs.get('custom') and rnd.randrange(2) == 0:
        obs['opens'] = obs['opens'] + [{'name': 'f3', 'mode': 'trunc'}]
    else:
        obs['notes'] = obs['notes'] + [{'k': 'close', 'v': 0, 's': []}]
    return e


def traces(ctx, pid, n):
    ctx.harness([pid, 'record', '-seed', str(ctx.seed), '-n', str(n), '-out', ctx.path('trace.ndjson')])
    rejects = ctx.validate_traces('Trace_IOStreams', 'Trace_IOStreams', 'trace.ndjson', label='trace-iostreams',
                                  corrupt_event=corrupt_event)
    for r in rejects:
        ev = r['trace'][r['pos']]
        info = r.get('info') or {}
        what = info.get('what', 'mismatch')
        op = ev.get('act', {}).get('op', '?')
        ctx.add_failure(f"{pid}/{info.get('opname', op)}/trace-{what}/recorded",
                        f"recorded run rejected by Trace_IOStreams at event {r['line']}: {what}",
                        case=dict(fam='trace', events=r['trace'][:r['pos'] + 1]), expected=info.get('expected'), observed=ev.get('obs'))
