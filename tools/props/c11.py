"""C11 -- input bookkeeping: NR, FNR, FILENAME, operands, getline, ranges, next, nextfile, exit.

The input part of spec/AwkSem.tla (NextMain = the operand walk, Getline = the getline forms, RuleMatches =
range patterns, MainLoop). Gen_MainLoop.tla enumerates programs whose rule bodies start with a trace statement
(NR FNR FILENAME $0 NF v) crossed with operand lists (files, '-', empty operands, var=value, edited ARGV/ARGC);
TLC evaluates them, checks on the model that NR counts the records taken, and exports the predicted trace.
The harness runs them with real files and operands.  Trace_MainLoop validates random programs recorded from the
real interpreter.
"""
import copy, os


def corrupt(case, rnd):
    c = copy.deepcopy(case)
    c['expect']['out'] = c['expect']['out'] + [122]
    return c


def corrupt_event(ev, rnd):
    e = copy.deepcopy(ev)
    if 'obs' not in e:
        return None
    e['obs']['out'] = e['obs']['out'] + [122]
    return e


def corrupt_cli(case, rnd):
    c = copy.deepcopy(case)
    e = c['expect']
    if e['kind'] == 'run':
        e['out'] = e['out'] + [122]
        return c
    if e['kind'] == 'error':
        e['kind'] = 'version'
        return c
    if e['kind'] == 'version':
        e['kind'] = 'error'
        return c
    return None


def run(ctx):
    q = ctx.quick
    ctx.rule = ('a case is one AWK program with an operand list, file contents and standard input: families body (18 commands '
                '-- the getline forms incl. into a field / array element / from a function, next, nextfile, exit, close -- x 5 '
                'patterns x 12 operand lists), range (5 range patterns x 8 commands x 12 operand lists; pairs of ranges), begin '
                '(getline before the main loop, ARGV/ARGC edits incl. numbers assigned to ARGV, exit in BEGIN), end, long (2100 records, '
                'next/getline/return inside functions on every record); getline < "-" while the main input comes from files; or one random multi-rule program recorded '
                'from the real interpreter; every case traces NR FNR FILENAME $0 NF after every step, so all are non-trivial')
    ctx.assumptions += [
        'files are served through Config.OpenFile from a private directory; commands ("cmd" | getline) are exercised by C13, not here',
        'FILENAME while standard input is being read is not judged (the trace masks "-")',
        'standard input read both by the main loop and through getline < "-" in one run is not judged (two independent readers)',
        'command line (CommandLine.tla): options -F -v -f -E -c -version, --, -, an unknown option, over every vector of <= 3 (thorough: 4 over a '
        'reduced menu) arguments; vectors in which another argument than the probe text lands in program position, or that '
        'name a missing operand file, are run but only required not to crash',
        'missing file operands and RS/FS other than the defaults are not generated (C06/C07 own separators)',
    ]
    ctx.build()
    ctx.tlc('Gen_MainLoop', ctx.cfg('Gen_MainLoop'), capture='cases.ndjson', timeout=1500, heap='8g')
    # long inputs (2100 records: next / getline / return from inside functions on every record -- nothing may accumulate)
    glong = ctx.cfg('Gen_MainLoop', name='Gen_MainLoop_long', constants={'Families': '{"long"}', 'Fuel': 20000})
    ctx.tlc('Gen_MainLoop', glong, capture='cases.ndjson', timeout=1500, heap='8g', workers=4)
    ctx.cov['exhaustive'] = True
    ctx.replay('cases.ndjson', label='gen-mainloop', min_cases=1500, corrupt=corrupt)
    # the command line of the tool (spec/CommandLine.tla): argument vectors -> program, settings, operands; the probe
    # program is evaluated by the same AwkSem.  Run with the binary built from the tree under test.
    os.environ['VERIF_GOAWK'] = ctx.build_goawk()
    gcl = ctx.cfg('Gen_CommandLine', constants={'MaxArgs': 3, 'MaxArgsSmall': 3 if q else 4, 'ErrThin': 12 if q else 1, 'MaxUnits': 2 if q else 3})
    ctx.tlc('Gen_CommandLine', gcl, capture='cases_cli.ndjson', timeout=1500, heap='8g')
    ctx.replay('cases_cli.ndjson', label='gen-commandline', min_cases=300, corrupt=corrupt_cli)
    ntr = 300 if q else 4000
    ctx.harness(['C11', 'record', '-seed', str(ctx.seed), '-n', str(ntr), '-out', ctx.path('trace.ndjson')])
    rejects = ctx.validate_traces('Trace_MainLoop', 'Trace_MainLoop', 'trace.ndjson', label='trace-mainloop',
                                  corrupt_event=corrupt_event, timeout=2400, parallel=ctx.cores)
    for r in rejects:
        ev = r['trace'][r['pos']]
        exp = r['info'].get('expected')
        case = dict(fam='random', mech='random', prog=ev['prog'], env=ev['env'], expect=exp)
        ctx.add_failure('C11/random/trace', f"program recorded from the real interpreter rejected by Trace_MainLoop at event {r['line']}",
                        case=case, expected=exp, observed=ev.get('obs'), program=ev.get('src'))
