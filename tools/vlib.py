#!/usr/bin/env python3
"""Common machinery of the /verif checks.

A check (tools/props/cNN.py) does, in this order:
  1. build the Go conformance harness against /repo's working tree (-tags verif);
  2. run TLC on the property's MC_* configuration (invariants of the model);
  3. run TLC on the Gen_* configuration and collect the behaviours it exports;
  4. replay them on the real code (vreplay <id> replay), compare with the
     specification's predictions;
  5. record traces from the real code with a seeded driver and let TLC validate
     them against the Trace_* module;
  6. match failures against known_findings.jsonl, write evidence, exit.

Exit codes: 0 property held on everything explored (KNOWN-FINDING lines allowed),
1 + "VIOLATION property=<id> replay=<path>" for a disagreement of the real code
with the specification that is not a listed finding, 2 for machinery problems
(build failure, TLC error or timeout, model invariant violated, dead driver).
"""
import json, os, re, shutil, subprocess, sys, time, random, hashlib, copy, threading

VERIF = os.path.dirname(os.path.dirname(os.path.abspath(__file__)))
REPO = os.environ.get('VERIF_REPO', '/repo')
TLA_CP = '/opt/veriftools/tla/tla2tools.jar:/opt/veriftools/tla/CommunityModules-deps.jar'
GOENV = dict(GOFLAGS='-mod=mod', GOPROXY='off', GOSUMDB='off', GOTOOLCHAIN='local')


class MachineryError(Exception):
    pass


class Ctx:
    def __init__(self, pid, tier, seed):
        self.pid, self.tier, self.seed = pid, tier, seed
        self.t0 = time.time()
        self.work = os.path.join(VERIF, '.work', f'{pid}.{tier}.{os.getpid()}')
        shutil.rmtree(self.work, ignore_errors=True)
        os.makedirs(self.work)
        shutil.copytree(os.path.join(VERIF, 'spec'), os.path.join(self.work, 'spec'))
        self.specdir = os.path.join(self.work, 'spec')
        self.bin = None
        self.failures = []        # failure dicts from the harness
        self.sig_counts = {}
        self.cov = dict(states=0, transitions=0, traces_validated_against_impl=0, evaluations=0,
                        distinct_nontrivial=0, samples=[], tlc_runs=[], exhaustive=False)
        self.assumptions = []
        self.notes = []
        self.cores = int(os.environ.get('VERIF_CORES', os.cpu_count() or 4))
        self.quick = (tier == 'quick')
        self._lock = threading.Lock()

    # ------------------------------------------------------------------ util
    def log(self, *a):
        print(f'[{self.pid} {time.time() - self.t0:6.1f}s]', *a, flush=True)

    def path(self, name):
        return os.path.join(self.work, name)

    # ----------------------------------------------------------------- build
    def build(self, race=False, name='vreplay'):
        """Build the harness against the current /repo working tree."""
        hdir = os.path.join(self.work, 'harness')
        if not os.path.isdir(hdir):
            shutil.copytree(os.path.join(VERIF, 'harness'), hdir)
            # point the replace directive at the tree under test
            gm = open(os.path.join(hdir, 'go.mod')).read()
            gm = re.sub(r'replace github.com/benhoyt/goawk => .*', f'replace github.com/benhoyt/goawk => {REPO}', gm)
            open(os.path.join(hdir, 'go.mod'), 'w').write(gm)
            # only this property's registration is linked in, so that a package of another property
            # (possibly being edited) cannot break this build
            if True:
                keep = {'main.go', f'reg_{self.pid.lower()}.go'} | {f'reg_{x.lower()}.go' for x in getattr(self, 'extra_props', [])}
                rdir = os.path.join(hdir, 'cmd', 'vreplay')
                for fn in os.listdir(rdir):
                    if fn.startswith('reg_') and fn not in keep:
                        os.remove(os.path.join(rdir, fn))
        out = self.path(name)
        cmd = ['go', 'build', '-tags', 'verif'] + (['-race'] if race else []) + ['-o', out, './cmd/vreplay']
        env = dict(os.environ, **GOENV)
        p = subprocess.run(cmd, cwd=hdir, env=env, stdout=subprocess.PIPE, stderr=subprocess.STDOUT, text=True)
        if p.returncode != 0:
            raise MachineryError('harness/repo build failed:\n' + p.stdout[-3000:])
        if not race:
            self.bin = out
        return out

    def build_goawk(self):
        """Build the goawk CLI from the tree under test."""
        out = self.path('goawk')
        env = dict(os.environ, **GOENV)
        p = subprocess.run(['go', 'build', '-o', out, '.'], cwd=REPO, env=env,
                           stdout=subprocess.PIPE, stderr=subprocess.STDOUT, text=True)
        if p.returncode != 0:
            raise MachineryError('goawk build failed:\n' + p.stdout[-3000:])
        return out

    # ------------------------------------------------------------------- TLC
    def cfg(self, base, name=None, constants=None, drop=None, add=None):
        """Derive a .cfg in the work spec dir from spec/<base>.cfg, overriding CONSTANTS."""
        text = open(os.path.join(self.specdir, base + '.cfg')).read()
        for k, v in (constants or {}).items():
            text, n = re.subn(rf'(?m)^(\s*{re.escape(k)}\s*=\s*).*$', lambda m: m.group(1) + str(v), text)
            if n != 1:
                raise MachineryError(f'cfg {base}: constant {k} not found exactly once')
        for d in (drop or []):
            text = re.sub(rf'(?m)^.*{re.escape(d)}.*$\n?', '', text)
        if add:
            text += '\n' + add + '\n'
        name = name or (base + '_' + self.tier)
        open(os.path.join(self.specdir, name + '.cfg'), 'w').write(text)
        return name

    def tlc(self, module, cfg=None, workers=None, timeout=900, simulate=None, depth=None, capture=None,
            deque=False, heap='6g', extra=None, allow_fail=False, label=None, specdir=None, tag=''):
        """Run TLC in the work copy of spec/.  capture: file name (in work dir) receiving the JSON
        lines printed by the specification, decoded (one JSON object per line)."""
        cfg = cfg or module
        workers = workers or self.cores
        specdir = specdir or self.specdir
        meta = self.path(f'meta_{module}_{cfg}{tag}_{int(time.time() * 1000) % 100000}')
        # TLC's scratch directories (tlc-<n>) go into the work directory of this run, which is removed at the end
        jtmp = self.path('jtmp')
        os.makedirs(jtmp, exist_ok=True)
        jopts = ['-XX:+UseParallelGC', f'-Xmx{heap}', '-Xss512m', f'-Djava.io.tmpdir={jtmp}']
        if deque:
            jopts.append('-Dtlc2.tool.queue.IStateQueue=StateDeque')
        cmd = ['timeout', str(timeout), 'java'] + jopts + ['-cp', TLA_CP, 'tlc2.TLC', '-workers', str(workers),
               '-metadir', meta, '-config', cfg + '.cfg']
        if simulate:
            cmd += ['-simulate', f'num={simulate}', '-depth', str(depth or 20), '-seed', str(self.seed)]
        cmd += (extra or []) + [module + '.tla']
        logp = self.path(f'tlc_{module}_{cfg}{tag}.log')
        t0 = time.time()
        ncap = 0
        env = dict(os.environ)
        env.pop('JAVA_TOOL_OPTIONS', None)
        with open(logp, 'w') as lf:
            p = subprocess.Popen(cmd, cwd=specdir, stdout=subprocess.PIPE, stderr=subprocess.STDOUT, text=True, env=env)
            capf = open(self.path(capture), 'a') if capture else None
            for line in p.stdout:
                if line.startswith('"{') and capf is not None:
                    try:
                        obj = json.loads(json.loads(line))
                    except Exception:
                        lf.write('UNDECODABLE: ' + line)
                        continue
                    capf.write(json.dumps(obj, separators=(',', ':')) + '\n')
                    ncap += 1
                else:
                    lf.write(line)
            p.wait()
            if capf:
                capf.close()
        log = open(logp).read()
        shutil.rmtree(meta, ignore_errors=True)
        res = dict(module=module, cfg=cfg, rc=p.returncode, wall_s=round(time.time() - t0, 1), captured=ncap,
                   generated=0, distinct=0, mode='simulate' if simulate else 'bfs')
        m = re.findall(r'(\d+) states generated, (\d+) distinct states found', log)
        if m:
            res['generated'], res['distinct'] = int(m[-1][0]), int(m[-1][1])
        m = re.search(r'The depth of the complete state graph search is (\d+)', log)
        if m:
            res['depth'] = int(m.group(1))
        if simulate:
            m = re.findall(r'(\d+) states checked', log)
            if m:
                res['generated'] = res['distinct'] = int(m[-1])
        res['log'] = logp
        ok = (p.returncode == 0) or (simulate and p.returncode in (0,) )
        res['ok'] = ok
        with self._lock:
            self.cov['tlc_runs'].append({k: res[k] for k in ('module', 'cfg', 'mode', 'rc', 'generated', 'distinct', 'captured', 'wall_s')})
            self.cov['states'] += res['distinct']
            self.cov['transitions'] += res['generated']
        self.log(f"TLC {label or module}/{cfg}: rc={p.returncode} generated={res['generated']} distinct={res['distinct']} "
                 f"exported={ncap} in {res['wall_s']}s")
        if not ok and not allow_fail:
            if p.returncode == 124:
                raise MachineryError(f'TLC timed out on {module}/{cfg} after {timeout}s')
            tail = '\n'.join(l for l in log.splitlines() if not l.startswith(('Semantic', 'Linting', 'Parsing')))[-4000:]
            raise MachineryError(f'TLC failed on {module}/{cfg} (rc={p.returncode}); the MODEL, not the code, is at fault:\n{tail}')
        return res

    # --------------------------------------------------------------- harness
    def harness(self, args, timeout=3600, binary=None, check=True, env=None):
        cmd = [binary or self.bin] + args
        e = dict(os.environ, **(env or {}))
        p = subprocess.run(['timeout', str(timeout)] + cmd, cwd=self.work, stdout=subprocess.PIPE,
                           stderr=subprocess.STDOUT, text=True, env=e)
        if p.stdout.strip():
            self.log('harness:', p.stdout.strip()[-1500:])
        if check and p.returncode != 0:
            raise MachineryError(f'harness {args[:2]} failed rc={p.returncode}:\n{p.stdout[-3000:]}')
        return p

    def replay(self, cases_file, label='replay', count_traces=True, prop=None, selftest=True, corrupt=None,
               min_cases=1):
        """Replay exported behaviours on the real code; collect failures."""
        cases = self.path(cases_file)
        if not os.path.exists(cases) or os.path.getsize(cases) == 0:
            raise MachineryError(f'{label}: TLC exported no behaviours into {cases_file}')
        out = self.path(f'summary_{label}.json')
        self.harness([prop or self.pid, 'replay', '-in', cases, '-out', out])
        s = json.load(open(out))
        if s['n'] < min_cases:
            raise MachineryError(f'{label}: only {s["n"]} cases replayed (expected at least {min_cases})')
        if s['sig_counts'].get('HARNESS-PANIC'):
            f = [x for x in s['failures'] if x['sig'] == 'HARNESS-PANIC'][0]
            raise MachineryError(f'{label}: harness panicked: {f["what"][:2000]}')
        self.cov['evaluations'] += s['n']
        self.cov['distinct_nontrivial'] += s['distinct_nontrivial']
        if count_traces:
            self.cov['traces_validated_against_impl'] += s['n'] - s['skipped']
        self.cov.setdefault('skipped_cases', 0)
        self.cov['skipped_cases'] += s['skipped']
        for smp in s['samples'][:3]:
            if len(self.cov['samples']) < 8:
                self.cov['samples'].append({'from': label, 'case': smp})
        for f in s['failures']:
            self.failures.append(f)
        for k, v in s['sig_counts'].items():
            self.sig_counts[k] = self.sig_counts.get(k, 0) + v
        if s.get('extra'):
            self.cov.setdefault('replay_extra', {})[label] = s['extra']
        self.log(f"{label}: {s['n']} behaviours replayed, {s['distinct_nontrivial']} distinct non-trivial, "
                 f"{s['skipped']} skipped, failing signatures: {s['sig_counts'] or 'none'}")
        if s['skipped'] > s['n'] // 2:
            raise MachineryError(f'{label}: more than half of the cases were skipped by the harness')
        if selftest:
            self.selftest(cases, prop or self.pid, corrupt or default_corrupt, label)
        return s

    def selftest(self, cases, prop, corrupt, label, k=12):
        """Binding demonstration: corrupt the predicted observation of a few exported behaviours and
        require the replay to reject every one of them."""
        rnd = random.Random(self.seed)
        lines = []
        with open(cases) as f:
            for i, line in enumerate(f):
                if len(lines) < 400:
                    lines.append(line)
                elif rnd.random() < 0.01:
                    lines[rnd.randrange(len(lines))] = line
                if i > 200000:
                    break
        rnd.shuffle(lines)
        bad = []
        for line in lines:
            c = corrupt(json.loads(line), rnd)
            if c is not None:
                bad.append(c)
            if len(bad) >= k:
                break
        if not bad:
            raise MachineryError(f'{label}: self-test could not corrupt any case')
        bf = self.path(f'selftest_{label}.ndjson')
        with open(bf, 'w') as f:
            for c in bad:
                f.write(json.dumps(c, separators=(',', ':')) + '\n')
        out = self.path(f'selftest_{label}.json')
        self.harness([prop, 'replay', '-in', bf, '-out', out, '-maxfail', '1000'])
        s = json.load(open(out))
        nfail = sum(s['sig_counts'].values())
        self.cov.setdefault('selftest', []).append({'label': label, 'corrupted': len(bad), 'rejected': nfail})
        if nfail < len(bad):
            if self.failures:
                # the tree under test already shows violations: a corrupted prediction can then coincide with what the
                # (wrong) code does.  The self-test is a statement about the machinery on a correct tree; it must never
                # turn a violation into a machinery error.
                self.notes.append(f'{label}: binding self-test inconclusive on a tree with violations ({nfail}/{len(bad)} rejected)')
                self.log(f'{label}: binding self-test inconclusive ({nfail}/{len(bad)} rejected; the tree shows violations)')
                return
            raise MachineryError(f'{label}: binding self-test failed: {len(bad)} corrupted predictions, only {nfail} rejected')
        self.log(f'{label}: binding self-test ok ({nfail}/{len(bad)} corrupted predictions rejected)')

    def validate_traces(self, module, cfg, trace_file, label='traces', timeout=900, deque=False, selftest=True,
                        corrupt_event=None, parallel=1):
        """Run a Trace_* module (see spec/TraceBase.tla) on a recorded ndjson log.  Returns the list of
        rejects: dicts {line, info, trace (events of the enclosing trace), pos (index inside it)}."""
        src = self.path(trace_file)
        events = [json.loads(x) for x in open(src) if x.strip()]
        if not events:
            raise MachineryError(f'{label}: the driver recorded no events')
        if parallel > 1 and len(events) > 200:
            rejects = self._run_trace_parallel(module, cfg, events, label, timeout, deque, parallel)
        else:
            rejects = self._run_trace(module, cfg, src, label, timeout, deque)
        ntr = sum(1 for e in events if e.get('ev') == 'reset') or 1
        out = []
        for r in rejects:
            k = r['reject']
            lo = k - 1
            while lo > 0 and events[lo - 1].get('ev') != 'reset':
                lo -= 1
            hi = k
            while hi < len(events) and events[hi].get('ev') != 'reset':
                hi += 1
            out.append(dict(line=k, info=r.get('info'), trace=events[lo:hi], pos=k - 1 - lo))
        self.cov['traces_validated_against_impl'] += ntr - len(out)
        self.cov['evaluations'] += ntr
        self.cov.setdefault('trace_events', 0)
        self.cov['trace_events'] += len(events)
        self.log(f'{label}: {ntr} recorded traces / {len(events)} events checked by {module}: {len(out)} rejected')
        if len(self.cov['samples']) < 8:
            self.cov['samples'].append({'from': label, 'events': events[1:4]})
        if selftest and not out:
            # binding demonstration: corrupt one recorded observation, the trace must be rejected there
            rnd = random.Random(self.seed)
            cand = [i for i, e in enumerate(events) if e.get('ev') != 'reset']
            rnd.shuffle(cand)
            done = False
            for i in cand[:50]:
                ev2 = (corrupt_event or default_corrupt)(events[i], rnd)
                if ev2 is None:
                    continue
                # only the enclosing trace is re-validated (from its reset to the next one)
                lo = i
                while lo > 0 and events[lo].get('ev') != 'reset':
                    lo -= 1
                hi = i + 1
                while hi < len(events) and events[hi].get('ev') != 'reset':
                    hi += 1
                bad = self.path(f'bad_{label}.ndjson')
                with open(bad, 'w') as f:
                    for j in range(lo, hi):
                        f.write(json.dumps(ev2 if j == i else events[j], separators=(',', ':')) + '\n')
                rej = self._run_trace(module, cfg, bad, label + '-selftest', timeout, deque)
                if not any(r['reject'] == i - lo + 1 for r in rej):
                    if (i - lo + 1) in getattr(self, 'last_skips', set()):
                        # the trace module does not judge this event (its run leaves the model): corrupt another one
                        self.cov['trace_events_outside_model'] -= len(self.last_skips)
                        continue
                    if self.failures or out:
                        self.notes.append(f'{label}: trace binding self-test inconclusive on a tree with violations')
                        done = True
                        break
                    raise MachineryError(f'{label}: binding self-test failed: corrupted event {i + 1} was accepted')
                self.cov.setdefault('selftest', []).append({'label': label, 'corrupted_event': i + 1, 'rejected': True})
                self.log(f'{label}: binding self-test ok (corrupted event {i + 1} rejected)')
                done = True
                break
            if not done:
                raise MachineryError(f'{label}: self-test could not corrupt any event')
        return out

    def _run_trace_parallel(self, module, cfg, events, label, timeout, deque, k):
        """Split the log at reset events into k chunks, validate them with k concurrent TLC processes (each in its
        own copy of spec/), and map the rejected line numbers back to the whole log."""
        from concurrent.futures import ThreadPoolExecutor
        starts = [i for i, e in enumerate(events) if e.get('ev') == 'reset'] or [0]
        if starts[0] != 0:
            starts = [0] + starts
        per = max(1, (len(starts) + k - 1) // k)
        cuts = [starts[i] for i in range(0, len(starts), per)] + [len(events)]
        jobs = []
        for ci in range(len(cuts) - 1):
            lo, hi = cuts[ci], cuts[ci + 1]
            sd = self.path(f'spec_{label}_{ci}')
            shutil.copytree(os.path.join(VERIF, 'spec'), sd)
            for fn in os.listdir(self.specdir):          # derived cfg files
                if fn.endswith('.cfg') and not os.path.exists(os.path.join(sd, fn)):
                    shutil.copy(os.path.join(self.specdir, fn), sd)
            src = self.path(f'chunk_{label}_{ci}.ndjson')
            with open(src, 'w') as f:
                for e in events[lo:hi]:
                    f.write(json.dumps(e, separators=(',', ':')) + '\n')
            jobs.append((ci, lo, src, sd))

        def work(job):
            ci, lo, src, sd = job
            rej = self._run_trace(module, cfg, src, f'{label}#{ci}', timeout, deque, specdir=sd, tag=f'_{ci}')
            return [dict(r, reject=r['reject'] + lo) for r in rej]

        out = []
        with ThreadPoolExecutor(max_workers=k) as ex:
            for part in ex.map(work, jobs):
                out += part
        return out

    def _run_trace(self, module, cfg, src, label, timeout, deque, specdir=None, tag=''):
        specdir = specdir or self.specdir
        shutil.copy(src, os.path.join(specdir, 'trace.ndjson'))
        cap = f'rejects_{label}_{int(time.time() * 1000) % 1000000}.ndjson'
        res = self.tlc(module, cfg, workers=1, timeout=timeout, allow_fail=True, deque=deque, label=label, capture=cap,
                       specdir=specdir, tag=tag, heap='3g')
        log = open(res['log']).read()
        # trace runs are not model exploration: do not count their states as model states
        with self._lock:
            self.cov['states'] -= res['distinct']
            self.cov['transitions'] -= res['generated']
        if res['rc'] == 124:
            raise MachineryError(f'{label}: TLC timed out validating traces')
        if res['rc'] != 0 or 'TRACE-END' not in log:
            tail = '\n'.join(l for l in log.splitlines() if not l.startswith(('Semantic', 'Linting', 'Parsing')))[-3000:]
            raise MachineryError(f'{label}: trace module could not consume the log (rc={res["rc"]}); specification out of '
                                 f'date or harness defect, not a verdict on the code:\n{tail}')
        rej = []
        if os.path.exists(self.path(cap)):
            rej = [json.loads(x) for x in open(self.path(cap)) if x.strip()]
        self.cov['trace_events_outside_model'] = self.cov.get('trace_events_outside_model', 0) + sum(1 for r in rej if 'skip' in r)
        self.last_skips = {r['skip'] for r in rej if 'skip' in r}      # lines the trace module declared outside the model
        return [r for r in rej if 'reject' in r]

    # --------------------------------------------------------------- verdict
    def add_failure(self, sig, what, case=None, expected=None, observed=None, program=None):
        self.failures.append(dict(sig=sig, what=what, case=case, expected=expected, observed=observed, program=program))
        self.sig_counts[sig] = self.sig_counts.get(sig, 0) + 1

    def evidence(self, violations, extra=None):
        cov = dict(self.cov)
        cov['rule'] = getattr(self, 'rule', 'behaviours exported by TLC from the TLA+ specification; distinct by JSON '
                              'content; non-trivial by the per-property rule in the harness')
        if extra:
            cov.update(extra)
        if not cov['samples']:
            cov['samples'] = [{'note': 'no behaviour was explored (run aborted early)'}]
        cov['failing_signatures'] = self.sig_counts
        ev = dict(property_id=self.pid, tier=self.tier, seed=self.seed, level='model_checking', coverage=cov,
                  assumptions=self.assumptions, wall_s=round(time.time() - self.t0, 1), violations=violations,
                  notes=self.notes)
        os.makedirs(os.path.join(VERIF, 'evidence'), exist_ok=True)
        with open(os.path.join(VERIF, 'evidence', f'{self.pid}.json'), 'w') as f:
            json.dump(ev, f, indent=1)

    def finish(self):
        known = load_known(self.pid)
        seen_known, unknown = {}, {}
        for f in self.failures:
            if f['sig'] in known:
                seen_known.setdefault(f['sig'], f)
            else:
                unknown.setdefault(f['sig'], f)
        for sig, f in seen_known.items():
            print(f"KNOWN-FINDING: property={self.pid} {sig}: {known[sig].get('what', '')} "
                  f"({self.sig_counts.get(sig, 1)} explored cases)", flush=True)
        rdir = os.path.join(VERIF, 'replays', self.pid)
        for sig, f in unknown.items():
            os.makedirs(rdir, exist_ok=True)
            name = re.sub(r'[^A-Za-z0-9_.-]+', '_', sig)[:80] + '.json'
            path = os.path.join(rdir, name)
            with open(path, 'w') as fh:
                json.dump(dict(property=self.pid, signature=sig, what=f.get('what'), case=f.get('case'),
                               expected=f.get('expected'), observed=f.get('observed'), program=f.get('program'),
                               count=self.sig_counts.get(sig, 1)), fh, indent=1)
            print(f'  {sig}: {f.get("what")}', flush=True)
            print(f'VIOLATION property={self.pid} replay={path}', flush=True)
        self.evidence(len(unknown), extra={'known_findings_observed': sorted(seen_known)})
        self.cleanup()
        self.log(f'done: {len(unknown)} violation signature(s), {len(seen_known)} known finding(s)')
        return 1 if unknown else 0

    def cleanup(self):
        if not os.environ.get('VERIF_KEEP'):
            shutil.rmtree(self.work, ignore_errors=True)


def load_known(pid):
    known = {}
    p = os.path.join(VERIF, 'known_findings.jsonl')
    if os.path.exists(p):
        for line in open(p):
            line = line.strip()
            if not line or line.startswith('#'):
                continue
            e = json.loads(line)
            if e.get('status') == 'known' and e.get('property') == pid:
                known[e['signature']] = e
    return known


def default_corrupt(case, rnd):
    """Corrupt the specification's prediction inside an exported behaviour: the first byte string found
    under an observation-like key gets an extra byte; an integer gets +1."""
    c = copy.deepcopy(case)
    keys = ('obs', 'expect', 'out', 'read', 'result', 'pred')

    def bump(v):
        if isinstance(v, list) and all(isinstance(x, int) for x in v):
            return v + [122], True
        if isinstance(v, bool):
            return (not v), True
        if isinstance(v, int):
            return v + 1, True
        if isinstance(v, str):
            return v + 'z', True
        if isinstance(v, list):
            for i, x in enumerate(v):
                nv, ok = bump(x)
                if ok:
                    v[i] = nv
                    return v, True
            return v + [[122]], True
        if isinstance(v, dict):
            for k in sorted(v):
                nv, ok = bump(v[k])
                if ok:
                    v[k] = nv
                    return v, True
        return v, False

    def walk(o):
        if isinstance(o, dict):
            for k in sorted(o):
                if k in keys:
                    nv, ok = bump(o[k])
                    if ok:
                        o[k] = nv
                        return True
            for k in sorted(o):
                if walk(o[k]):
                    return True
        elif isinstance(o, list):
            idx = list(range(len(o)))
            for i in reversed(idx):
                if walk(o[i]):
                    return True
        return False

    return c if walk(c) else None


def run_check(pid, tier, seed, fn):
    ctx = Ctx(pid, tier, seed)
    try:
        fn(ctx)
        rc = ctx.finish()
    except MachineryError as e:
        print(f'MACHINERY-ERROR property={pid}: {e}', flush=True)
        ctx.notes.append('machinery error: ' + str(e)[:500])
        ctx.evidence(0)
        ctx.cleanup()
        rc = 2
    return rc


def run_replay_file(pid, path):
    """./check <id> --replay <file>: re-run one recorded case on the real code."""
    rf = json.load(open(path))
    ctx = Ctx(pid, 'quick', 1)
    try:
        ctx.build()
        cf = ctx.path('one.ndjson')
        with open(cf, 'w') as f:
            f.write(json.dumps(rf['case'], separators=(',', ':')) + '\n')
        out = ctx.path('one.json')
        ctx.harness([rf.get('harness_prop', pid), 'replay', '-in', cf, '-out', out])
        s = json.load(open(out))
        if s['failures']:
            f = s['failures'][0]
            print(f"reproduced: {f['sig']}: {f['what']}")
            print('expected:', json.dumps(f.get('expected'))[:2000])
            print('observed:', json.dumps(f.get('observed'))[:2000])
            print(f'VIOLATION property={pid} replay={path}')
            rc = 1
        else:
            print('not reproduced: the real code now agrees with the specification on this case')
            rc = 0
    except MachineryError as e:
        print(f'MACHINERY-ERROR property={pid}: {e}')
        rc = 2
    ctx.cleanup()
    return rc


def setup():
    """MANIFEST.setup_cmd: build everything once from files on disk (warms the Go build cache and
    checks that TLC starts).  Checks rebuild against /repo's working tree on every run anyway."""
    ctx = Ctx('SETUP', 'quick', 1)
    try:
        # link the registrations of the properties claimed in MANIFEST.json (warms the build cache for all of them)
        man = json.load(open(os.path.join(VERIF, 'MANIFEST.json')))
        ctx.extra_props = [c['property_id'] for c in man.get('checks', [])]
        ctx.build()
        p = subprocess.run(['java', '-cp', TLA_CP, 'tlc2.TLC', '-h'], stdout=subprocess.PIPE, stderr=subprocess.STDOUT, text=True)
        print('setup ok: harness built, TLC present')
        rc = 0
    except MachineryError as e:
        print('setup failed:', e)
        rc = 2
    ctx.cleanup()
    return rc
