#!/usr/bin/env python3
"""Regenerate /verif/MANIFEST.json from the table below (run after adding a check)."""
import json, os
V = os.path.dirname(os.path.dirname(os.path.abspath(__file__)))
props = [json.loads(l) for l in open(os.path.join(V, 'properties.jsonl'))]

# id -> (design_ref, level text, level note, technique)
CLAIMED = {
 'C01': ('DESIGN.md section 3 / C01',
   'spec/AwkSem.tla is a reference big-step semantics of AWK over the syntax tree, written in TLA+ and knowing nothing about byte '
   'code. TLC enumerates ~8,000 programs in nine families that each cross one compiler mechanism completely (7 lvalue kinds x 11 '
   'assignment forms x 5 expression positions; 6 comparisons x 121 operand-kind pairs x 10 control-flow spellings that reach each '
   'fused jump and its inverse; loop nests x jump statements; concatenation groupings; call shapes; constant shortcuts; patterns; '
   'sub/gsub targets ...), evaluates each with the reference semantics, asserts inside TLC that the listed equivalent spellings '
   'are equivalent under the semantics, and exports program + spellings + predicted stdout/status/error; the harness renders every '
   'spelling and runs it through the real parser, compiler and VM. 400-4,000 random programs produced by a seeded generator are '
   'run on the real interpreter and validated by TLC against the same semantics (Trace_AwkSem). Executed-opcode coverage is '
   'measured through the verif step hook and reported.',
   'Trusted: TLC, the transcription of AWK semantics in AwkSem.tla (itself cross-checked by the metamorphic equalities and by '
   'agreement with the real interpreter on ~8,000 programs), the harness renderer. Integers only (|n| <= 30000); getline, I/O '
   'redirection, CSV and native functions are covered by other properties\' modules.',
   'TLA+ reference semantics evaluated by TLC; replay of TLC-exported programs and equivalent spellings on the real compiler+VM; '
   'TLC validation of recorded random-program executions'),
 'C11': ('DESIGN.md section 3 / C11',
   'The input part of spec/AwkSem.tla specifies the operand walk (files, "-", empty operands, var=value assigned when reached, '
   'ARGV/ARGC edited in BEGIN), the getline forms and what each one sets, range patterns, next/nextfile (also from inside '
   'functions), exit in BEGIN/main/END and the final status. TLC evaluates ~1,850 programs (18 commands x patterns x 12 operand '
   'lists; ranges x disturbing commands; BEGIN and END forms), asserts on the model that NR equals the number of records taken '
   'from the main input, and exports the predicted per-step trace of NR FNR FILENAME $0 NF; the harness runs every program with '
   'real files and operands. 300-4,000 random multi-rule programs recorded from the real interpreter are validated by TLC '
   '(Trace_MainLoop).',
   'Trusted: TLC, AwkSem.tla, the harness renderer. Default RS/FS only; command pipes, missing files and FILENAME during '
   'standard input are not judged.',
   'TLA+ reference semantics of the main loop evaluated by TLC; replay of exported programs with real files/operands; TLC '
   'validation of recorded random executions'),
 'C18': ('DESIGN.md section 3 / C18',
   'spec/Cover.tla labels every statement of a program, defines the partition into blocks (maximal runs ending at a control-flow '
   'statement, recursively) and takes each block\'s count from ghost counters of the reference semantics AwkSem, which records '
   'how often every labelled statement began executing. TLC checks on the model that the blocks partition the statements and that '
   'labelling is transparent, and exports 550-6,000 programs (calls, loops, sub/gsub/exit forms, loop nests with early exits, '
   'patterns, empty bodies, else-if chains) with predicted output, exit status and profile. The harness runs each program through '
   'the goawk CLI built from the tree under test, from 1-3 -f files (with and without final newline): no coverage / -covermode '
   'count / -covermode set; outputs and statuses must agree with each other and with the reference semantics, and the profile must '
   'report exactly the specified blocks, with the specified statement counts, the ghost counts (count mode) or their non-zeroness '
   '(set mode), and positions inside the named file with start before end.',
   'Trusted: TLC, AwkSem.tla + Cover.tla, the harness renderer (one statement per line, markers in comments). Exact columns and '
   '-coverappend are not judged; HTML rendering is out of scope.',
   'TLA+ reference semantics with ghost statement counters evaluated by TLC; replay of exported programs through the real CLI '
   'with and without coverage; profile parsed and compared with the predicted block partition and counts'),
 'C02': ('DESIGN.md section 3 / C02',
   'Two TLA+ models. Guards.tla crosses every site where a script-controlled value reaches a conversion or a limit (48 sites: field '
   'indexes, NF, ARGC, substr/printf/exit/srand/int arguments, subscripts, RS/FS/SUBSEP/CONVFMT/OFMT/modes, dynamic regexes, names, '
   'recursion) with the value classes that matter (22 numeric classes from -1e30 over the field limit and int32/int53/int64 '
   'boundaries to inf/nan; 15 string classes incl. non-UTF-8, NUL, 70 KB, invalid regexes) and 5 configurations, and prescribes the '
   'outcome class the statement demands (must-error for runaway recursion, oversized field numbers and invalid dynamic regexes; '
   'no-panic otherwise); all 2,486 cases are run under recover(). StackMachine.tla abstracts the VM to operand counts, stack '
   'effects, successors and table indexes of all 94 opcodes; TLC explores every path of every code block of 500-2,000 REAL compiled '
   'programs under all branch outcomes (no underflow, jumps on instruction boundaries inside the block, balanced blocks, indexes in '
   'range), and the table is validated against every instruction the real VM executed in those programs (verif step hook, '
   'Trace_StackMachine).',
   'Trusted: TLC, the two specifications, the harness spelling table of sites and values. Not covered: byte-level fuzzing of '
   'large inputs, memory exhaustion below the coded limits. A fault of the static pass alone is reported as exit 2.',
   'TLA+ guard table and abstract stack machine model-checked by TLC over real compiled code; replay under recover(); TLC '
   'validation of recorded per-instruction stack effects'),
 'C04': ('DESIGN.md section 3 / C04, 10.5',
   'TLC explores a strict operator-precedence parser written from the POSIX table alone (spec/Grammar.tla, an explicit shift/reduce '
   'machine) on the minimally and the fully parenthesised text of every expression tree with <= 2 operators over 45 productions '
   '(124k-2.3M states) and checks that both texts parse back to the tree. Every tree with <= 2 operators (quick, 37k cases) and <= 3 '
   'operators plus 48k random trees of <= 6 operators (thorough, 970k cases), in seven contexts (statement, print argument, pattern, '
   'condition, print > dest, print | cmd, printf), is exported with both texts and parsed by the real parser, whose tree '
   '(S-expression, grouping skipped) must equal the prescribed one. About 700 corpus expressions as printed by the real printer '
   'are parsed by the specification in TLC and compared with the real tree.',
   'Trusted: TLC, the transcription of the table and of the strictness rules, the harness S-expression printer and token renderer. '
   'The judged language is deliberately strict: forms awks accept only through yacc preferences (2 ^ -x, $-1, a ? b : c = d, '
   'print B[a > b] ...) are never judged. Operand alphabet and contexts are bounded.',
   'TLA+ shift/reduce parser from the POSIX table model-checked by TLC; replay of TLC-exported trees on the real parser; TLC '
   'validation of recorded expressions'),
 'C05': ('DESIGN.md section 3 / C05, 10.5',
   'spec/Values.tla models the AWK value model on exact decimals (digit sequences with exponent, a table of exact big integers up to '
   '2^64, +-inf, nan): the four tags, two separately specified string-to-number routines (whole-string recogniser and prefix '
   'automaton), comparison, truth, number->string with %.Ng/f/e round-half-even and exact int64 integers. TLC checks their '
   'consistency over every string of <= 3/4 symbols of an 18-symbol alphabet in 8 dialects (the three points POSIX leaves open) '
   'and the operator laws (trichotomy, antisymmetry, <= is not >, != is not ==, numeric/string mode law) over 78x78 value pairs. '
   'TLC-exported predictions for every string in 12 provenances, every pair under six operators in three syntactic positions, '
   'and number x CONVFMT/OFMT cases (20k quick / 280k thorough) are replayed by probe programs; observations recorded from '
   'random longer strings are validated by TLC with the same operators.',
   'Trusted: TLC, Values.tla (sanity-gated against regexp+strconv), the probe renderer. Decimals of <= 15 digits, the exact-integer '
   'table and the specials only; NaN comparisons and the spelling of non-finite values are not judged; on forms POSIX leaves open '
   'only the consistency of the two routines is judged.',
   'TLA+ value model model-checked by TLC; replay of exported predictions in every provenance; TLC validation of recorded observations'),
 'C09': ('DESIGN.md section 3 / C09, 10.5',
   'spec/Printf.tla models printf/sprintf: the format scanner as a state machine and the C conversions of d i o x X u c s e E f g G '
   'with the 32 flag sets, literal and * width and precision, %%, and the errors (dangling %, unknown verb, too few arguments), '
   'plus print/OFMT; TLC checks totality, scanner/renderer round trip, width/justification and verb laws (29k-62k states). 25k '
   '(quick) / 200k (thorough) directive x argument cases plus multi-directive and error formats are exported and replayed through '
   'both printf and sprintf, byte-exact including error versus no error; every exported prediction is first compared with glibc '
   'through a compiled C gate (a disagreement is a spec defect, exit 2). Sequences of sprintf calls recorded in one interpreter '
   'are validated by TLC (the format cache must be invisible).',
   'Trusted: TLC, Printf.tla (gated against glibc on every case), the probe renderer. C-undefined flag combinations are judged by '
   'glibc\'s behaviour; results on inexact values beyond 15 digits, %a, %5%, length modifiers and out-of-range %c are not exported.',
   'TLA+ printf model model-checked by TLC; replay of exported directive x argument cases; glibc sanity gate; TLC validation of recorded call sequences'),
 'C10': ('DESIGN.md section 3 / C10, 10.5',
   'spec/Builtins.tla specifies substr, index, match (RSTART/RLENGTH), split, sub, gsub, length and int() over byte strings, with '
   'symbolic numbers (halves, +-1e15, +-1e30, +-inf) and a byte/character mode, as a state machine over (target, RSTART, RLENGTH, '
   'split array). TLC checks the statement\'s equations on the specification itself as 13 invariants of a byte-mode and a '
   'character-mode machine run in lock-step, exhaustively for every call of the menu on every string of <= 3-4 characters over '
   '{a, b, e-acute, FF} and for 2-call histories (41k-576k states). The same histories (204k quick / 1.5M thorough) are exported '
   'with predicted observables and replayed on the real interpreter in both modes; 280-3,300 random 4-12-call histories on '
   'subjects of <= 12 characters recorded from the real interpreter are validated by TLC (Trace_Builtins).',
   'Trusted: TLC, Builtins.tla/Regex.tla (matches sanity-gated against Go regexp on every case), the probe renderer. Replacement '
   'backslashes other than \\&, NaN, int(inf), index(s,""), the number of pieces of split("") and empty-matching regex separators '
   'are left open and not judged. substr follows the statement (start below 1 taken as 1).',
   'TLA+ builtin state machine model-checked by TLC against the statement\'s equations; replay of exported call histories in byte '
   'and character mode; TLC validation of recorded random call histories'),
 'C12': ('DESIGN.md section 3 / C12-C13, 10.5',
   'spec/IOStreams.tla models one run as a record (flags, custom OpenFile, open streams, file system, stdin, stdout, started '
   'processes, log of opens) with one action per I/O form of the language. TLC checks exhaustively, over all histories of <= 2 '
   '(quick) / <= 3 (thorough) actions x 8 flag sets x custom OpenFile on/off, that no process, write-open or read-open occurs under '
   'the respective flag, that every such attempt ends the run in error, and that every touched file goes through the open '
   'function (13k-181k states). Every single action (literal and run-time-computed names, printf, "-", /dev/std*), every pair and '
   'every X;close;Y triple is exported (8k-10k runs) and replayed on the real interpreter with a logging OpenFile, a recording '
   'shell wrapper and a directory listing; 60-400 random recorded runs are validated by TLC.',
   'Trusted: TLC, IOStreams.tla, the recording shell/OpenFile wrappers. A go/ast diff of the open/exec call sites of package '
   'interp against the 8 sites the model knows is a completeness hint (exit 2 on an unknown site), not a proof of absence. Bounded '
   'to 3 files and 2 commands.',
   'TLA+ I/O state machine model-checked by TLC; replay of exported histories with recording OpenFile/shell; TLC trace validation'),
 'C13': ('DESIGN.md section 3 / C12-C13, 10.5',
   'On the same IOStreams.tla TLC checks over all histories of <= 2/3 actions (20k-809k states), with the stdout writer failing at '
   'every modelled offset, that files, commands and stdout receive exactly what was written, in order, once (> truncates once per '
   'session, >> never, one name = one stream, close reports the status, a failing write fails the run). StdoutShare.tla proves the '
   'serialised two-writer model and exhibits the lost update for the unserialised one. 19k-50k exported histories (all endings, '
   'exit, run-time error), every failure offset x plain/bufio writer, and provoked write-level schedules (a gate writer that parks '
   'the first Write until a second goroutine arrives) are replayed on the real interpreter; 60-400 recorded runs are validated by TLC.',
   'Trusted: TLC, IOStreams/StdoutShare, `cat` echoing its input, the gate writer (a missed second writer is a missed detection '
   'only). Process-starting histories are sampled; the order of a running child\'s output relative to the program\'s own later '
   'writes is left open until close().',
   'TLA+ I/O state machine model-checked by TLC; replay incl. fault injection at every stdout offset and a provoked write schedule; '
   'race detector as recording instrument (thorough); TLC trace validation'),
 'C20': ('DESIGN.md section 3 / C20, 10.5',
   'For every program exported by TLC, the real Program.String text must re-parse, denote the tree the specification predicts for '
   'the source, and print to itself. Exported: expression trees of Grammar.tla in seven contexts with minimal, full and no added '
   'parentheses; statement derivations of <= 2-3 statements with a rotating menu of 46 stress expressions; 28 program shapes; '
   'string literals over every byte singly and with hex followers plus multi-byte menus; regex literals of <= 2-3 units; 38 number '
   'spellings (30k cases quick, 940k thorough) plus 1,190 corpus programs. TLC checks the specification\'s own printers and readers '
   '(Parse(MinParen(t)) = t, ReadStr(SpellStr(v)) = v, ReadRe(SpellRe(v)) = v) and reads back expressions and literals printed by '
   'the real printer (2k-3k judged events).',
   'Trusted: TLC, Grammar/GrammarProg/GrammarLit.tla, the harness S-expression printer. Sources the real parser reads differently '
   'from the specification are not judged (bounded, under 3 %). Numbers are compared to six digits. Statements have no TLA+ parser '
   '(they rely on the spec printer plus an injectivity gate).',
   'TLA+ grammar/literal specification model-checked by TLC; round-trip replay of exported programs and the corpus on the real '
   'parser and printer; TLC validation of recorded printed expressions and literals'),
 'C07': ('DESIGN.md section 3 / C07, 10.5',
   'spec/RecordReader.tla holds the declarative reference Records(input, RS) (newline, single byte incl. 0xFF, multi-byte character, '
   '"" paragraph mode, regex RS via Regex.tla) and the chunked reader as an explicit machine (Deliver(k) for any chunk size, '
   'DeliverEOF, Split with the intended "wait while the decision could still change" splitter). TLC explores every delivery '
   'schedule of every input of <= 5/7 bytes x 11/16 RS settings (43k-1.7M states) and proves ChunkIndependence, PrefixSafe, NR '
   'counting and the statement\'s equations (lossless concatenation for regex RS, the join law for one-byte RS, the newline/CR law, '
   'paragraph shape). Exported (input, RS, Records) cases are replayed on the real interpreter through a Config.Stdin reader that '
   'returns exactly the scheduled chunks, under all 2^(n-1) chunkings for n <= 8 (12k cases quick, 130-180k thorough = 15M runs), '
   'single splits and 1-byte delivery for longer inputs, and at the 64 KiB buffer edge; recorded Read/record interleavings are '
   'validated by Trace_RecordReader.',
   'Trusted: TLC, RecordReader.tla/Regex.tla, the chunking reader. RT is judged against the specification only where the statement '
   'defines it (regex RS), otherwise across schedules. Not covered: RS changed while reading, several files, records over 10 MiB, '
   'nullable or anchored regexes.',
   'TLA+ chunked-reader machine model-checked over all schedules; replay under all chunkings; TLC validation of recorded read/record interleavings'),
 'C08': ('DESIGN.md section 3 / C08, 10.5',
   'spec/CsvReader.tla is a character-level lenient RFC 4180 reader (states fs/uq/q/qq; CRLF, CR at EOF, blank and comment lines, '
   'BOM, header, each row\'s own text) plus the intended record-at-a-time scanner; Csv.tla is the writer. TLC explores every delivery '
   'schedule of inputs of <= 4/5 bytes in 6 configurations (separators , tab | e-acute; comment #; header) with and without BOM '
   '(196k-1.3M states) and proves ChunkIndependence, PrefixSafe, the row laws (own text re-parses to the same fields) and the '
   'round-trip law CsvRead(CsvEncode(f)) = f. Replay sets INPUTMODE and tries all chunkings of exported inputs (11k quick / 306k '
   'thorough cases), comparing NR, NF, fields, FIELDS and $0; the round trip writes exported field lists with print and with the '
   '$0 rebuild under OUTPUTMODE and reads them back whole and byte by byte; recorded traces are validated by Trace_CsvReader.',
   'Trusted: TLC, CsvReader.tla/Csv.tla (sanity-gated against encoding/csv on every case), the chunking reader. $0 is compared '
   'modulo carriage returns and a trailing LF of an unterminated quoted field. Not covered: two-argument split(), inputs ending in '
   'a bare CR (compared across schedules only), round-trip fields longer than 2 bytes.',
   'TLA+ CSV reader/writer model-checked over all schedules and the round-trip law; replay under all chunkings and write-read round trips; TLC trace validation'),
 'C03': ('DESIGN.md section 3 / C03, 10.5',
   'spec/Lexer.tla transcribes lexer.Scan / ScanRegex on offsets (blanks, CR, backslash-newline, comments, NUL, names, maximal munch, '
   'numbers with the "1e" back-up, strings with all escapes, regex bodies) and models next() / unread() as a position machine '
   '[off, cur, nxt]; TruePos(src, k) is the defining position function. TLC runs the lexer in micro-steps over every source of '
   'length <= 4 over 12-14 byte classes and <= 5 over 11 classes (475k-4.4M states) and checks that the tracked position equals '
   'TruePos in every intermediate state, that delivered positions are true, that an un-read never has to step back to a line ending, '
   'and the laws of ValidPos (a valid position keeps the CLI\'s source-line slice in range). 92k (quick) / 1.5M (thorough) exported '
   'sources (byte-class strings, token soups with every separator class, corpus windows, random strings) are replayed on '
   'lexer.Scan, on parser.ParseProgram under recover() and, sampled, on the built goawk binary; token streams and parse outcomes '
   'recorded from the corpus, its mutations and a few 8-32 KiB sources are validated by Trace_Lexer.',
   'Trusted: TLC, Lexer.tla, the harness. The parser has no grammar model here: totality and the existence of the reported '
   'position are checked on the explored sources, not proved. Token kinds and values, CLI exit status and sources over 6000 bytes '
   '(parser-only) are not judged.',
   'TLA+ lexer/position machine model-checked by TLC in micro-steps; replay of exported sources on lexer, parser and CLI; TLC '
   'validation of recorded token streams'),
 'C14': ('DESIGN.md section 3 / C14, 10.5',
   'spec/Reuse.tla splits the interpreter state into vars (what ResetVars clears), per-run state (record, NR/FNR, FILENAME, RSTART/'
   'RLENGTH, scanner, stream maps, CSV header names, modes, exit status, stack) and the random-generator state, and transcribes one '
   '16-mode AWK program (an Interpreter is bound to one program; the mode arrives through Config.Vars). TLC runs the reset '
   'discipline of newexecute.go to a fixpoint against the statement-level machine in which nothing per-run carries over '
   '(Refines, FreshAfterReset, OnlyVarsCarry, ResetsAreExact), and shows that the model can fail (dropping the header-name, '
   'exit-status or output-stream clear violates an invariant). All histories of <= 3 Execute/ExecuteContext calls x 4 reset '
   'variants x 3 configurations (37k quick / 215k thorough) are exported with the predicted output of the last run and replayed on '
   'ONE interp.New, plus a byte-for-byte comparison with a new interpreter after both resets; random 5-12 operation histories '
   'recorded from one real Interpreter are validated by TLC.',
   'Trusted: TLC, Reuse.tla, the 16-mode program. Only output, status and error class are compared, so redundant reset lines may '
   'be removed without an alarm. Not covered: FIELDS/ARGV/ENVIRON arrays, rand() without ResetRand, native-function state.',
   'TLA+ state machine of the reset discipline with a refinement check; replay of exported Execute histories on one Interpreter; '
   'TLC validation of recorded histories'),
 'C15': ('DESIGN.md section 3 / C15, 10.5',
   'spec/Cancel.tla models the shared poll counter, a stack of execution contexts (BEGIN, pattern, action, function, for-in, END), '
   'waits on child processes, cancellation by cancel or deadline, the instructions executed since cancellation and the printed / '
   'delivered lines, with a context-free machine run in lock step. TLC checks (CheckEvery = 3; 71k-1.05M states) that since <= '
   'CheckEvery in every nesting, the error identity, that everything printed before cancellation is delivered, that an uncancelled '
   'context is invisible, and liveness under fairness; three model-sanity variants (per-call counter, context error not '
   'preferred, no flush) must each violate their invariant. Every situation in which the context can become done (1,090-2,306 '
   'scenarios) is rendered to an AWK program of that nesting with a script-callable cancel(), a calibrated poll phase, and the '
   'verif step hook counting later dispatches (bound 1000 + 32); never-cancelled contexts must equal Execute; recorded hook traces '
   'are validated by TLC against the same property operators.',
   'Trusted: TLC, Cancel.tla, the step hook. The bound is one poll interval plus 32; waits on children are judged by interruption, '
   'not latency (generous timeouts, retried). Long single instructions are outside the statement.',
   'TLA+ cancellation machine model-checked by TLC incl. liveness; replay of every cancellation situation with exact instruction '
   'counts from the verif hook; TLC validation of recorded hook traces'),
 'C16': ('DESIGN.md section 3 / C16, 10.5',
   'spec/Resolver.tla has a declarative layer (direct-use evidence, argument<->parameter edges, connected components; reject iff some '
   'component holds both kinds of evidence), an algorithmic layer (the multi-pass inference of resolve.go/toposort.go as a state '
   'machine whose ChooseOrder takes every order the topological walk plus Go map iteration can yield) and a run-time layer '
   '(arrays by reference, scalars by value, fresh local arrays). TLC checks, for every program of bounded universes (2 functions x '
   '1-2 parameters, every direct use, any call incl. recursion and fewer arguments than parameters; plus sampled 3-function '
   'programs; 145k-6.9M states) and every body order, that the inference gives exactly the declarative verdict, types every use '
   'consistently and stays within chain+2 passes. Every exported program (27k quick / 334k thorough) is rendered in all definition '
   'orders x 3 renamings and parsed repeatedly by the real parser; the verdict is compared with the specification, accepted '
   'programs are run and compared with the run-time model; 150-1,500 recorded resolutions of richer random programs (verdict, '
   'types, indexes from DebugTypes, output) are validated by TLC.',
   'Trusted: TLC, the transcription of resolve.go/toposort.go and of the declarative typing, the renderer. Bounds: <= 3 functions x '
   '<= 2 parameters (<= 4 x <= 3 in traces), call depth 2; split/getline/native arguments as typing evidence are not covered; error '
   'messages are not compared here (C19 does).',
   'TLA+ declarative + algorithmic resolver model-checked by TLC over all traversal orders; replay in every definition order and '
   'renaming; TLC validation of recorded resolutions'),
 'C17': ('DESIGN.md section 3 / C17, 10.5',
   'spec/Native.tla holds the documented conversion rules (ToGo/FromGo over 15 kinds x 14 argument values, zero-fill, variadic '
   'spread, result modes, 12 invalid shapes, 7 keyword-like names) and NativeMachine.tla the Parse -> Setup -> Call -> Convert -> '
   'Return/Abort machine. TLC checks totality of the tables, the integer round trip, zero-fill, variadic spread, that the machine '
   'equals Outcome and never sticks. 27k (quick) / 177k (thorough) exported (signature, arguments) cases run against Go functions '
   'synthesised with reflect.FuncOf/MakeFunc that record what they receive; outcome class (set-up rejection, parse-time rejection, '
   'run-time error, success), received values, printed result and the identity of the returned error are compared; everything '
   'runs under recover(). 300-5,000 recorded runs over tables of 2-5 functions are validated by TLC.',
   'Trusted: TLC, the documented-rule tables in Native.tla, the reflect harness. Out-of-range and NaN conversions are judged only '
   'for "no panic"; rejections are compared by class, not message; nil or non-function Funcs entries are outside the statement.',
   'TLA+ conversion tables and call machine model-checked by TLC; replay through reflect.MakeFunc recorders; TLC validation of recorded calls'),
 'C19': ('DESIGN.md section 3 / C19, 10.5',
   '(a) On the algorithmic layer of Resolver.tla TLC proves that verdict, types and indexes do not depend on the path through '
   'ChooseOrder and that message and position are deterministic under sorted iteration; 27k-87k sources (the C16 programs plus '
   'programs with 2-3 independent type errors and native functions) are parsed 50 times each and compared on verdict, error text '
   'and position, disassembly and a digest of the compiled tables. (b) SharedProgram.tla models N <= 3 interpreters over one shared '
   'program with every step labelled by the locations it reads and writes; TLC checks Immutable, NoSharedWrite, NoForeignRead and '
   'Equivalent over all interleavings (a shared-cache variant is refuted, so the properties are not vacuous). 18k-97k exported '
   'interleavings are imposed on real interpreters one VM instruction at a time through the verif step hook and compared with the '
   'solo result, with a reflection digest of the Program before and after; 52-612 recorded traces of 8 interpreters run '
   'sequentially and then concurrently over one *parser.Program are validated by TLC; the thorough tier also builds the harness '
   'with -race as a recording instrument.',
   'Trusted: TLC, the digest walker, the step-hook scheduler. Interleavings finer than one VM instruction are seen only by the race '
   'detector; races invisible to the result, the digest and the detector are not covered.',
   'TLA+ resolver determinism + shared-program model checked by TLC; repeated-parse comparison; schedule replay through the verif '
   'step hook; TLC trace validation; race detector as recording instrument'),
 'C06': ('DESIGN.md section 3 / C06',
   'TLC checks exhaustively (all operation histories up to depth 4-5 over a menu of ~60 operation instances) that the lazy '
   'record representation refines the abstract AWK record of spec/Record.tla; every history of <= 3 operations exported by '
   'TLC (150k-600k, plus random walks of depth 8 in the thorough tier) is replayed on the real interpreter and the record '
   'state after every step is compared with the specification; 300-3000 random 10-40 step histories recorded from the real '
   'interpreter are validated by TLC against the same actions (Trace_Record).',
   'Trusted: TLC, the transcription of the FS/OFS/CSV rules in Strings/Regex/Csv/Record.tla, the harness renderer. Bounded '
   'alphabet and separators; see evidence assumptions.',
   'TLA+ spec + TLC model checking, replay of TLC-exported behaviours and TLC trace validation of recorded executions'),
}

# what the later rounds added to each check (DESIGN.md 10.8); appended to the level text
ADDED = {
 'C01': 'Added later: families builtins2 (tolower/toupper, match() with RSTART/RLENGTH, mathematical functions, rand/srand across '
        'spellings) and valuetype (value of && / ||, string type of concatenations), a NaN operand in the comparison family, actions '
        'made of empty blocks.',
 'C03': 'Added later: the command line tool must name a file and an existing line for an error at the very end of the text.',
 'C04': 'Added later: Gen_GrammarExtra (a unary operator directly after ^ * / % + -) and the sign-adjacency family.',
 'C05': 'Added later: decimals of 16-19 digits (only the consistency of comparison and arithmetic is predicted), pair probes on array elements, '
        'provenance fieldafter.',
 'C06': 'Added later: $k += d, sub/gsub on $k and $0 and getline $k as record operations (AssignRebuilds, SubAssigns).',
 'C07': 'Added later: inputs built from blocks (separators far longer than the pattern text), RS assigned while reading (RecordsSwitch, '
        'MC_RecordReaderSwitch), counted repetition, paragraph mode with CR in the quick tier.',
 'C08': 'Added later: the disturbed reader (CsvReader!Disturbed: split(), getline var and $0 reassigned between field reads), one-byte custom separators.',
 'C09': 'Added later: argument kinds (input text through four provenances) for every conversion, runs of several formats in one interpreter, '
        'print in default/CSV/TSV output mode x OFMT x CONVFMT.',
 'C10': 'Added later: U+FFFD subjects, $1 / $$x replacement texts, split() into a non-empty array and with the separator in a variable, 120 other '
        'dynamic regexes first.',
 'C11': 'Added later: getline < "-" with file operands, numbers assigned to ARGV, family long (2100 records).',
 'C12': 'Added later: sessions of several Execute calls with different configurations on one Interpreter (IOStreams!NextRun); '
        'path spellings, /dev/null, directory / missing / non-file operands, blank command lines; names in missing directories and the '
        'file-system entries a run creates.',
 'C13': 'Added later: a command that does not read its input (exit3), a system() child that reads a file (showf1), output mode x writer kind x a '
        'failure at every offset; newline output modes x payload shapes; block payloads around the 64 KiB buffer; implied print of pattern-only rules.',
 'C14': 'Added later: 38 run kinds x 8 configurations (standard input through every path, exit N then a failing END, commands, range patterns '
        'ended in every way, rand/srand with symbolic draws, per-run Args/Environ/flags, ARGV/ENVIRON/FIELDS enumerated, formatted output under per-run settings, call depth near the limit), contexts that end after the call returned.',
 'C15': 'Added later: four print destinations with pending output at the cancellation point; children ending by status / signal / failing wait '
        'under a never-cancelled context.',
 'C16': 'Added later: family frames (fewer arguments than parameters with omitted scalars and arrays mixed, run and compared); argument forms '
        '(bare / parenthesised variable, expression, element, constant).',
 'C17': 'Added later: string and []byte parameters under CONVFMT / nan / inf; AWK functions shadowing entries of Config.Funcs; function shapes, '
        'results at the extremes of every numeric kind, NativeSession (Execute histories after a set-up error), NativeProgram (errors in every call position, []byte results as values).',
 'C18': 'Added later: jump statements as last statement of a block; the profile file over several runs (append on/off, stale longer file).',
 'C19': 'Added later: several collected parse errors; regex objects in the program digest; repeated executions through every execution interface; '
        'race build in the quick tier; ParseHistory (the verdict of a source does not depend on what was parsed before); shell commands, range rules and number formats of concurrent interpreters.',
 'C20': 'Added later: sign-adjacency family (all trees <= 3/4 operators over unary + - !, ++ --, + - ^, $).',
}

# checks that have been verified on the unchanged tree (seeds 1-3) and are therefore claimed
REGISTERED = {'C01', 'C02', 'C03', 'C04', 'C05', 'C06', 'C07', 'C08', 'C09', 'C10', 'C11', 'C12', 'C13', 'C14', 'C15', 'C16', 'C17', 'C18', 'C19', 'C20'}

m = {
 'version': 1,
 'setup_cmd': 'cd /verif && ./check --setup',
 'hooks': {'guard': 'verif', 'enable': 'go build -tags verif (the harness module replaces github.com/benhoyt/goawk => /repo, the tag applies to the replaced module)',
           'baseline_off_cmd': 'cd /repo && go test -vet=off -count=1 -json ./...', 'source_commits': ['b0722d5', '8dac178'], 'add_only': True},
 'engines': [{'name': 'tlc+vreplay', 'path': '/verif/check', 'serves_properties': sorted(REGISTERED),
              'kind_free_text': 'TLA+ specification (spec/*.tla) model-checked by TLC; conformance harness (harness/, Go) replays '
                                'TLC-exported behaviours on the code built from /repo and records traces that TLC validates'}],
 'checks': [], 'not_applicable': [],
 'notes': 'Model-based verification with an explicit TLA+ specification; see DESIGN.md. exit 2 = machinery problem, never a verdict.',
}
for p in props:
    i = p['id']
    if i in CLAIMED and i in REGISTERED:
        ref, text, note, tech = CLAIMED[i]
        m['checks'].append({'property_id': i, 'quick_cmd': f'./check {i} quick', 'thorough_cmd': f'./check {i} thorough',
                            'evidence_file': f'/verif/evidence/{i}.json', 'replay_cmd_template': f'./check {i} --replay {{path}}',
                            'engine': 'tlc+vreplay',
                            'level_claimed': {'category': 'model_checking', 'text': text + (' ' + ADDED[i] if i in ADDED else ''), 'design_ref': ref},
                            'level_note': note, 'technique': tech})
    else:
        m['not_applicable'].append({'property_id': i, 'reason': 'check not built yet (work in progress; DESIGN.md section 6 gives the build order)'})
json.dump(m, open(os.path.join(V, 'MANIFEST.json'), 'w'), indent=1)
print('claimed:', sorted(REGISTERED & set(CLAIMED)))
