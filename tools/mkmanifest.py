#!/usr/bin/env python3
"""Regenerate /verif/MANIFEST.json from the table below (run after adding a check)."""
import json, os
V = os.path.dirname(os.path.dirname(os.path.abspath(__file__)))
props = [json.loads(l) for l in open(os.path.join(V, 'properties.jsonl'))]

# id -> (design_ref, level text, level note, technique)
CLAIMED = {
 'C01': ('DESIGN.md section 3 / C01',
   'spec/AwkSem.tla is a reference big-step semantics of AWK over the syntax tree, written in TLA+ and knowing nothing about byte '
   'code. TLC enumerates ~8,000 programs in nine families that each cross one compiler mechanism completely (7 lvalue kinds x 11 '
   'assignment forms x 5 expression positions; 6 comparisons x 121 operand-kind pairs x 10 control-flow spellings that reach each '
   'fused jump and its inverse; loop nests x jump statements; concatenation groupings; call shapes; constant shortcuts; patterns; '
   'sub/gsub targets ...), evaluates each with the reference semantics, asserts inside TLC that the listed equivalent spellings '
   'are equivalent under the semantics, and exports program + spellings + predicted stdout/status/error; the harness renders every '
   'spelling and runs it through the real parser, compiler and VM. 400-4,000 random programs produced by a seeded generator are '
   'run on the real interpreter and validated by TLC against the same semantics (Trace_AwkSem). Executed-opcode coverage is '
   'measured through the verif step hook and reported.',
   'Trusted: TLC, the transcription of AWK semantics in AwkSem.tla (itself cross-checked by the metamorphic equalities and by '
   'agreement with the real interpreter on ~8,000 programs), the harness renderer. Integers only (|n| <= 30000); getline, I/O '
   'redirection, CSV and native functions are covered by other properties\' modules.',
   'TLA+ reference semantics evaluated by TLC; replay of TLC-exported programs and equivalent spellings on the real compiler+VM; '
   'TLC validation of recorded random-program executions'),
 'C11': ('DESIGN.md section 3 / C11',
   'The input part of spec/AwkSem.tla specifies the operand walk (files, "-", empty operands, var=value assigned when reached, '
   'ARGV/ARGC edited in BEGIN), the getline forms and what each one sets, range patterns, next/nextfile (also from inside '
   'functions), exit in BEGIN/main/END and the final status. TLC evaluates ~1,850 programs (18 commands x patterns x 12 operand '
   'lists; ranges x disturbing commands; BEGIN and END forms), asserts on the model that NR equals the number of records taken '
   'from the main input, and exports the predicted per-step trace of NR FNR FILENAME $0 NF; the harness runs every program with '
   'real files and operands. 300-4,000 random multi-rule programs recorded from the real interpreter are validated by TLC '
   '(Trace_MainLoop).',
   'Trusted: TLC, AwkSem.tla, the harness renderer. Default RS/FS only; command pipes, missing files and FILENAME during '
   'standard input are not judged.',
   'TLA+ reference semantics of the main loop evaluated by TLC; replay of exported programs with real files/operands; TLC '
   'validation of recorded random executions'),
 'C18': ('DESIGN.md section 3 / C18',
   'spec/Cover.tla labels every statement of a program, defines the partition into blocks (maximal runs ending at a control-flow '
   'statement, recursively) and takes each block\'s count from ghost counters of the reference semantics AwkSem, which records '
   'how often every labelled statement began executing. TLC checks on the model that the blocks partition the statements and that '
   'labelling is transparent, and exports 550-6,000 programs (calls, loops, sub/gsub/exit forms, loop nests with early exits, '
   'patterns, empty bodies, else-if chains) with predicted output, exit status and profile. The harness runs each program through '
   'the goawk CLI built from the tree under test, from 1-3 -f files (with and without final newline): no coverage / -covermode '
   'count / -covermode set; outputs and statuses must agree with each other and with the reference semantics, and the profile must '
   'report exactly the specified blocks, with the specified statement counts, the ghost counts (count mode) or their non-zeroness '
   '(set mode), and positions inside the named file with start before end.',
   'Trusted: TLC, AwkSem.tla + Cover.tla, the harness renderer (one statement per line, markers in comments). Exact columns and '
   '-coverappend are not judged; HTML rendering is out of scope.',
   'TLA+ reference semantics with ghost statement counters evaluated by TLC; replay of exported programs through the real CLI '
   'with and without coverage; profile parsed and compared with the predicted block partition and counts'),
 'C02': ('DESIGN.md section 3 / C02',
   'Two TLA+ models. Guards.tla crosses every site where a script-controlled value reaches a conversion or a limit (48 sites: field '
   'indexes, NF, ARGC, substr/printf/exit/srand/int arguments, subscripts, RS/FS/SUBSEP/CONVFMT/OFMT/modes, dynamic regexes, names, '
   'recursion) with the value classes that matter (22 numeric classes from -1e30 over the field limit and int32/int53/int64 '
   'boundaries to inf/nan; 15 string classes incl. non-UTF-8, NUL, 70 KB, invalid regexes) and 5 configurations, and prescribes the '
   'outcome class the statement demands (must-error for runaway recursion, oversized field numbers and invalid dynamic regexes; '
   'no-panic otherwise); all 2,486 cases are run under recover(). StackMachine.tla abstracts the VM to operand counts, stack '
   'effects, successors and table indexes of all 94 opcodes; TLC explores every path of every code block of 500-2,000 REAL compiled '
   'programs under all branch outcomes (no underflow, jumps on instruction boundaries inside the block, balanced blocks, indexes in '
   'range), and the table is validated against every instruction the real VM executed in those programs (verif step hook, '
   'Trace_StackMachine).',
   'Trusted: TLC, the two specifications, the harness spelling table of sites and values. Not covered: byte-level fuzzing of '
   'large inputs, memory exhaustion below the coded limits. A fault of the static pass alone is reported as exit 2.',
   'TLA+ guard table and abstract stack machine model-checked by TLC over real compiled code; replay under recover(); TLC '
   'validation of recorded per-instruction stack effects'),
 'C06': ('DESIGN.md section 3 / C06',
   'TLC checks exhaustively (all operation histories up to depth 4-5 over a menu of ~60 operation instances) that the lazy '
   'record representation refines the abstract AWK record of spec/Record.tla; every history of <= 3 operations exported by '
   'TLC (150k-600k, plus random walks of depth 8 in the thorough tier) is replayed on the real interpreter and the record '
   'state after every step is compared with the specification; 300-3000 random 10-40 step histories recorded from the real '
   'interpreter are validated by TLC against the same actions (Trace_Record).',
   'Trusted: TLC, the transcription of the FS/OFS/CSV rules in Strings/Regex/Csv/Record.tla, the harness renderer. Bounded '
   'alphabet and separators; see evidence assumptions.',
   'TLA+ spec + TLC model checking, replay of TLC-exported behaviours and TLC trace validation of recorded executions'),
}

m = {
 'version': 1,
 'setup_cmd': 'cd /verif && ./check --setup',
 'hooks': {'guard': 'verif', 'enable': 'go build -tags verif (the harness module replaces github.com/benhoyt/goawk => /repo, the tag applies to the replaced module)',
           'baseline_off_cmd': 'cd /repo && go test -vet=off -count=1 -json ./...', 'source_commits': ['b0722d5', '8dac178'], 'add_only': True},
 'engines': [{'name': 'tlc+vreplay', 'path': '/verif/check', 'serves_properties': sorted(CLAIMED),
              'kind_free_text': 'TLA+ specification (spec/*.tla) model-checked by TLC; conformance harness (harness/, Go) replays '
                                'TLC-exported behaviours on the code built from /repo and records traces that TLC validates'}],
 'checks': [], 'not_applicable': [],
 'notes': 'Model-based verification with an explicit TLA+ specification; see DESIGN.md. exit 2 = machinery problem, never a verdict.',
}
for p in props:
    i = p['id']
    if i in CLAIMED:
        ref, text, note, tech = CLAIMED[i]
        m['checks'].append({'property_id': i, 'quick_cmd': f'./check {i} quick', 'thorough_cmd': f'./check {i} thorough',
                            'evidence_file': f'/verif/evidence/{i}.json', 'replay_cmd_template': f'./check {i} --replay {{path}}',
                            'engine': 'tlc+vreplay',
                            'level_claimed': {'category': 'model_checking', 'text': text, 'design_ref': ref},
                            'level_note': note, 'technique': tech})
    else:
        m['not_applicable'].append({'property_id': i, 'reason': 'check not built yet (work in progress; DESIGN.md section 6 gives the build order)'})
json.dump(m, open(os.path.join(V, 'MANIFEST.json'), 'w'), indent=1)
print('claimed:', sorted(CLAIMED))
