#!/bin/bash
# usage: tools/confirm_seed.sh <mutant dir (with patch.diff, demo.sh, README.md)> <seed id> <property>
# Confirms an independently produced change in a scratch copy of /repo's HEAD: it applies, builds, the
# repository's baseline tests still pass, and the demonstration behaves differently with and without it.
# On success stores it as /verif/seeded/<seed id>/ (patch.diff, demo.sh, README.md, demo outputs, meta.json).
set -uo pipefail
src=$(readlink -f "$1"); sid=$2; prop=$3
S=$(mktemp -d /tmp/confirm.XXXXXX)
trap 'rm -rf "$S"' EXIT
mkdir -p "$S/with" "$S/without"
for d in with without; do git -C /repo archive HEAD | tar -x -C "$S/$d" || exit 2; test -f "$S/$d/go.mod" || exit 2; done
(cd "$S/with" && git init -q . && git apply "$src/patch.diff") || { echo "$sid: patch does not apply to HEAD"; exit 1; }
export GOFLAGS=-mod=mod GOPROXY=off GOSUMDB=off GOTOOLCHAIN=local
(cd "$S/with" && go build ./...) || { echo "$sid: does not build"; exit 1; }
base=$(python3 /verif/tools/baseline.py "$S/with" | head -1)
echo "$sid: $base"
case "$base" in *" 0 missing"*) ;; *) echo "$sid: baseline tests do not pass with the change"; exit 1;; esac
for d in with without; do
  n=$(basename "$src"); mkdir -p "$S/$d/_mutants/$n"; cp -r "$src"/. "$S/$d/_mutants/$n/"
  (cd "$S/$d" && timeout 300 sh _mutants/$(basename "$src")/demo.sh > "$S/$d.out" 2>&1)
  sed -i "s#$S/$d#<tree>#g" "$S/$d.out"
done
if cmp -s "$S/with.out" "$S/without.out"; then echo "$sid: demonstration does not distinguish the change"; exit 1; fi
D=/verif/seeded/$sid; mkdir -p "$D"
cp -r "$src"/. "$D/"
cp "$S/with.out" "$D/demo.with.out"; cp "$S/without.out" "$D/demo.without.out"
python3 - "$D" "$sid" "$prop" "$base" <<'PY'
import json, sys, re
d, sid, prop, base = sys.argv[1:5]
readme = open(d + '/README.md').read()
json.dump({"seed": sid, "property": prop, "origin": "independent sub-agent given only the property text and a scratch worktree",
           "needs_to_manifest": readme[:1500],
           "confirmed": {"applies_to_repo_head": True, "builds": True, "baseline": base,
                         "demo_differs_with_and_without": True,
                         "ran": ["git apply patch.diff (scratch copy of /repo HEAD)", "go build ./...", "python3 tools/baseline.py <copy>",
                                 "sh demo.sh with and without the change (outputs kept as demo.with.out / demo.without.out)"]}},
          open(d + '/meta.json', 'w'), indent=1)
PY
echo "$sid: confirmed and stored in $D"
