#!/usr/bin/env python3
"""Run the repository's test suite (guard off) in DIR (default /repo) and compare
with the stable_pass list of /root/.vp/BASELINE.json.  Exit 0 iff every
stable-pass test passes."""
import json, subprocess, sys, os
d = sys.argv[1] if len(sys.argv) > 1 else '/repo'
base = json.load(open('/root/.vp/BASELINE.json'))
want = set(base['stable_pass'])
env = dict(os.environ, GOFLAGS='-mod=mod', GOPROXY='off', GOSUMDB='off', GOTOOLCHAIN='local')
p = subprocess.run(['go', 'test', '-json', '-vet=off', '-count=1', '-timeout', '25m', './...'],
                   cwd=d, env=env, stdout=subprocess.PIPE, stderr=subprocess.STDOUT, text=True)
passed = set()
for line in p.stdout.splitlines():
    try:
        ev = json.loads(line)
    except Exception:
        continue
    if ev.get('Action') == 'pass' and ev.get('Test'):
        passed.add(ev['Package'] + '::' + ev['Test'])
missing = sorted(want - passed)
print(f'baseline: {len(want)} stable tests, {len(want & passed)} passed, {len(missing)} missing')
for m in missing[:40]:
    print('  NOT PASSING:', m)
sys.exit(1 if missing else 0)
