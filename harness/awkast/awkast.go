// Package awkast renders the syntax trees of spec/AwkSem.tla (exported by TLC
// as JSON) to AWK source text, fully parenthesised and with explicit
// separators.  It never uses GoAWK's own printer, so parser precedence and
// Program.String are not part of the trusted base of the checks built on it.
package awkast

import (
	"encoding/json"
	"fmt"
	"strings"

	"github.com/benhoyt/goawk/verifharness/hx"
)

type Node = map[string]any

func kind(n Node) string {
	s, _ := n["k"].(string)
	return s
}

func bytesOf(v any) []byte {
	arr, _ := v.([]any)
	out := make([]byte, len(arr))
	for i, x := range arr {
		out[i] = byte(int(x.(float64)))
	}
	return out
}

func nodes(v any) []Node {
	arr, _ := v.([]any)
	out := make([]Node, len(arr))
	for i, x := range arr {
		out[i], _ = x.(Node)
	}
	return out
}

func intOf(v any) int { f, _ := v.(float64); return int(f) }

// RegexSrc renders a Regex.tla AST the way Regex!Render does.
func RegexSrc(r Node) string {
	switch kind(r) {
	case "lit":
		c := byte(intOf(r["c"]))
		if strings.ContainsRune(`\.+*?()|[]{}^$/`, rune(c)) {
			return `\` + string(c)
		}
		return string(c)
	case "any":
		return "."
	case "eps":
		return "()"
	case "bol":
		return "^"
	case "eol":
		return "$"
	case "cls":
		s := "["
		for _, c := range bytesOf(r["set"]) {
			s += string(c)
		}
		return s + "]"
	case "cat":
		return RegexSrc(r["l"].(Node)) + RegexSrc(r["r"].(Node))
	case "alt":
		return "(" + RegexSrc(r["l"].(Node)) + "|" + RegexSrc(r["r"].(Node)) + ")"
	case "star":
		return "(" + RegexSrc(r["r"].(Node)) + ")*"
	case "plus":
		return "(" + RegexSrc(r["r"].(Node)) + ")+"
	case "opt":
		return "(" + RegexSrc(r["r"].(Node)) + ")?"
	}
	panic("awkast: unknown regex node " + kind(r))
}

var binOps = map[string]string{"+": "+", "-": "-", "*": "*", "/": "/", "%": "%", "^": "^", "<": "<", "<=": "<=",
	"==": "==", "!=": "!=", ">": ">", ">=": ">=", "cat": " ", "&&": "&&", "||": "||"}

// Expr renders an expression.  Every operand of every operator is wrapped in
// parentheses unless it is atomic.
func Expr(e Node) string {
	switch kind(e) {
	case "num":
		n := intOf(e["n"])
		if n < 0 {
			return fmt.Sprintf("(%d)", n)
		}
		return fmt.Sprint(n)
	case "fnum":
		return e["src"].(string)
	case "str":
		return hx.AwkString(bytesOf(e["s"]))
	case "var":
		return e["name"].(string)
	case "group":
		return "(" + Expr(e["e"].(Node)) + ")"
	case "field":
		// $2 and $i are spelled without parentheses, so that the syntax tree has a bare
		// constant / variable under the field node (the compiler special-cases those shapes)
		ix := e["e"].(Node)
		if kind(ix) == "num" && intOf(ix["n"]) >= 0 {
			return fmt.Sprintf("$%d", intOf(ix["n"]))
		}
		if kind(ix) == "var" {
			return "$" + ix["name"].(string)
		}
		return "$(" + Expr(ix) + ")"
	case "fieldc": // $<constant> spelled without parentheses
		return fmt.Sprintf("$%d", intOf(e["n"]))
	case "idx":
		return e["arr"].(string) + "[" + Subscript(e["e"].(Node)) + "]"
	case "in":
		sub := e["e"].(Node)
		if kind(sub) == "multi" {
			return "((" + Subscript(sub) + ") in " + e["arr"].(string) + ")"
		}
		return "((" + Expr(sub) + ") in " + e["arr"].(string) + ")"
	case "un":
		return "(" + e["op"].(string) + "(" + Expr(e["e"].(Node)) + "))"
	case "bin":
		if e["op"].(string) == "cat" {
			// a left-nested chain a b c is written without parentheses around the chain itself
			// (the compiler flattens exactly that tree shape into one multi-operand instruction)
			l := e["l"].(Node)
			ls := operand(l)
			if kind(l) == "bin" && l["op"].(string) == "cat" {
				ls = Bare(l)
			}
			return "(" + ls + " " + operand(e["r"].(Node)) + ")"
		}
		return "(" + operand(e["l"].(Node)) + " " + binOps[e["op"].(string)] + " " + operand(e["r"].(Node)) + ")"
	case "match":
		op := "~"
		if b, _ := e["neg"].(bool); b {
			op = "!~"
		}
		return "(" + operand(e["e"].(Node)) + " " + op + " /" + RegexSrc(e["re"].(Node)) + "/)"
	case "cond":
		// the condition is left bare when it is a comparison (binds tighter than ?:), so that the
		// tree has the comparison directly under the conditional
		c := e["c"].(Node)
		cs := operand(c)
		if kind(c) == "bin" && isCmp(c["op"].(string)) {
			cs = Bare(c)
		}
		return "(" + cs + " ? " + operand(e["t"].(Node)) + " : " + operand(e["f"].(Node)) + ")"
	case "assign":
		return "(" + Expr(e["lv"].(Node)) + " = " + operand(e["e"].(Node)) + ")"
	case "aug":
		return "(" + Expr(e["lv"].(Node)) + " " + e["op"].(string) + "= " + operand(e["e"].(Node)) + ")"
	case "incr":
		if b, _ := e["pre"].(bool); b {
			return "(" + e["op"].(string) + Expr(e["lv"].(Node)) + ")"
		}
		return "(" + Expr(e["lv"].(Node)) + e["op"].(string) + ")"
	case "getline":
		out := "getline"
		if lv := e["lv"].(Node); kind(lv) != "none" {
			out += " " + Expr(lv)
		}
		if e["src"].(string) == "file" {
			out += " < (" + Expr(e["name"].(Node)) + ")"
		}
		return "(" + out + ")"
	case "close":
		return "close(" + Expr(e["name"].(Node)) + ")"
	case "re0":
		return "/" + RegexSrc(e["re"].(Node)) + "/"
	case "subst":
		f := "sub"
		if b, _ := e["global"].(bool); b {
			f = "gsub"
		}
		return f + "(/" + RegexSrc(e["re"].(Node)) + "/, " + Expr(e["repl"].(Node)) + ", " + Expr(e["lv"].(Node)) + ")"
	case "matchfn":
		return "match(" + Expr(e["e"].(Node)) + ", /" + RegexSrc(e["re"].(Node)) + "/)"
	case "call":
		return e["f"].(string) + "(" + exprList(nodes(e["args"])) + ")"
	case "bi":
		f := e["f"].(string)
		args := nodes(e["args"])
		if f == "alength" {
			return "length(" + args[0]["name"].(string) + ")"
		}
		if f == "length" && len(args) == 0 {
			return "length()"
		}
		return f + "(" + exprList(args) + ")"
	}
	panic("awkast: unknown expression node " + kind(e))
}

// operand renders an operand of an operator: atomic expressions (non-negative numbers, strings,
// variables, $N / $name, array elements, calls) are written bare, so that the syntax tree has the
// literal or the variable itself under the operator (the compiler special-cases such shapes);
// everything else is parenthesised.
func operand(e Node) string {
	switch kind(e) {
	case "num":
		if intOf(e["n"]) >= 0 {
			return Expr(e)
		}
	case "str", "var", "idx", "call", "bi", "group", "fnum", "matchfn":
		return Expr(e)
	case "field":
		ix := e["e"].(Node)
		if (kind(ix) == "num" && intOf(ix["n"]) >= 0) || kind(ix) == "var" {
			return Expr(e)
		}
	}
	return "(" + Expr(e) + ")"
}

func isCmp(op string) bool {
	switch op {
	case "<", "<=", "==", "!=", ">", ">=":
		return true
	}
	return false
}

// Bare renders an expression without the outermost pair of parentheses that
// Expr puts around every operator application; used where the expression is
// already delimited (conditions, patterns), so that the syntax tree has the
// operator node itself in that position and not a grouping node.
func Bare(e Node) string {
	s := Expr(e)
	switch kind(e) {
	case "bin", "cond", "match", "assign", "aug", "incr", "un", "in":
		if len(s) >= 2 && s[0] == '(' && s[len(s)-1] == ')' {
			return s[1 : len(s)-1]
		}
	}
	return s
}

func exprList(es []Node) string {
	parts := make([]string, len(es))
	for i, a := range es {
		parts[i] = Expr(a)
	}
	return strings.Join(parts, ", ")
}

func Subscript(e Node) string {
	if kind(e) == "multi" {
		return exprList(nodes(e["es"]))
	}
	return Expr(e)
}

// statement-position expressions are written bare (no outer parentheses) so
// that the compiler's statement-level shortcuts apply
func bareExpr(e Node) string {
	switch kind(e) {
	case "assign", "aug", "incr":
		return Bare(e)
	}
	return Expr(e)
}

func Stmts(ss []Node, ind string) string {
	var sb strings.Builder
	for _, s := range ss {
		sb.WriteString(Stmt(s, ind))
	}
	return sb.String()
}

func block(ss []Node, ind string) string {
	return "{\n" + Stmts(ss, ind+"  ") + ind + "}"
}

func simple(s Node) string { // for-loop pre/post parts
	if kind(s) == "none" {
		return ""
	}
	return strings.TrimSuffix(strings.TrimSpace(Stmt(s, "")), ";")
}

// Stmt renders one statement.  A statement that carries a label (field "lbl",
// see spec/Cover.tla) gets the comment marker  #@<label>  at the end of its
// first line, from which a harness can recover the line each statement is on.
func Stmt(s Node, ind string) string {
	out := stmtText(s, ind)
	if lbl, ok := s["lbl"].(string); ok {
		if i := strings.IndexByte(out, '\n'); i >= 0 {
			out = out[:i] + " #@" + lbl + out[i:]
		}
	}
	return out
}

func stmtText(s Node, ind string) string {
	switch kind(s) {
	case "expr":
		return ind + bareExpr(s["e"].(Node)) + "\n"
	case "print":
		args := nodes(s["args"])
		if len(args) == 0 {
			return ind + "print\n"
		}
		return ind + "print " + exprList(args) + "\n"
	case "printf":
		return ind + "printf " + exprList(nodes(s["args"])) + "\n"
	case "if":
		out := ind + "if (" + Bare(s["c"].(Node)) + ") " + block(nodes(s["t"]), ind)
		if f := nodes(s["f"]); len(f) > 0 {
			out += " else " + block(f, ind)
		}
		return out + "\n"
	case "while":
		return ind + "while (" + Bare(s["c"].(Node)) + ") " + block(nodes(s["b"]), ind) + "\n"
	case "do":
		return ind + "do " + block(nodes(s["b"]), ind) + " while (" + Bare(s["c"].(Node)) + ")\n"
	case "for":
		c := ""
		if cn := s["c"].(Node); kind(cn) != "none" {
			c = Bare(cn)
		}
		return ind + "for (" + simple(s["pre"].(Node)) + "; " + c + "; " + simple(s["post"].(Node)) + ") " +
			block(nodes(s["b"]), ind) + "\n"
	case "forin":
		return ind + "for (" + s["v"].(string) + " in " + s["arr"].(string) + ") " + block(nodes(s["b"]), ind) + "\n"
	case "break", "continue", "next", "getline", "nextfile":
		return ind + kind(s) + "\n"
	case "exit":
		if kind(s["e"].(Node)) == "none" {
			return ind + "exit\n"
		}
		return ind + "exit " + Expr(s["e"].(Node)) + "\n"
	case "return":
		if kind(s["e"].(Node)) == "none" {
			return ind + "return\n"
		}
		return ind + "return " + Expr(s["e"].(Node)) + "\n"
	case "delete":
		if kind(s["e"].(Node)) == "none" {
			return ind + "delete " + s["arr"].(string) + "\n"
		}
		return ind + "delete " + s["arr"].(string) + "[" + Subscript(s["e"].(Node)) + "]\n"
	case "block":
		return ind + block(nodes(s["b"]), ind) + "\n"
	}
	panic("awkast: unknown statement node " + kind(s))
}

// Program renders [begin, rules, end, funcs].
func Program(p Node) string { return strings.Join(ProgramItems(p), "") }

// ProgramItems renders the top-level items (functions, BEGIN, rules, END) one
// string each, in source order.
func ProgramItems(p Node) []string {
	items := []string{}
	for _, f := range nodes(p["funcs"]) {
		params := []string{}
		for _, pr := range nodes(f["params"]) {
			params = append(params, pr["n"].(string))
		}
		items = append(items, "function "+f["name"].(string)+"("+strings.Join(params, ", ")+") "+
			block(nodes(f["body"]), "")+"\n")
	}
	if b := nodes(p["begin"]); len(b) > 0 {
		items = append(items, "BEGIN "+block(b, "")+"\n")
	}
	for _, r := range nodes(p["rules"]) {
		pat := r["pat"].(Node)
		nobody, _ := r["nobody"].(bool)
		if p2, ok := r["pat2"].(Node); ok && kind(p2) != "none" {
			if nobody {
				items = append(items, Bare(pat)+", "+Bare(p2)+"\n")
			} else {
				items = append(items, Bare(pat)+", "+Bare(p2)+" "+block(nodes(r["body"]), "")+"\n")
			}
			continue
		}
		switch {
		case kind(pat) == "none":
			items = append(items, block(nodes(r["body"]), "")+"\n")
		case nobody:
			items = append(items, Expr(pat)+"\n")
		default:
			items = append(items, Expr(pat)+" "+block(nodes(r["body"]), "")+"\n")
		}
	}
	if e := nodes(p["end"]); len(e) > 0 {
		items = append(items, "END "+block(e, "")+"\n")
	}
	return items
}

// Input joins records with newlines.
func Input(v any) []byte {
	arr, _ := v.([]any)
	var out []byte
	for _, r := range arr {
		out = append(out, bytesOf(r)...)
		out = append(out, '\n')
	}
	return out
}

// Bytes decodes a JSON byte-string value.
func Bytes(v any) []byte { return bytesOf(v) }

// Decode parses one exported case into a generic node.
func Decode(raw json.RawMessage) (Node, error) {
	var n Node
	err := json.Unmarshal(raw, &n)
	return n, err
}
