package c02

import (
	"bufio"
	"encoding/json"
	"flag"
	"fmt"
	"os"
	"path/filepath"
	"sort"
	"strings"
	"sync"

	"github.com/benhoyt/goawk/internal/ast"
	"github.com/benhoyt/goawk/internal/compiler"
	"github.com/benhoyt/goawk/internal/resolver"
	"github.com/benhoyt/goawk/interp"
	"github.com/benhoyt/goawk/lexer"
	"github.com/benhoyt/goawk/parser"
	"github.com/benhoyt/goawk/verifharness/awkast"
	"github.com/benhoyt/goawk/verifharness/hx"
)

// ---- source programs: C01/C11/C18 style cases (syntax tree under "prog"), guard programs, corpus files ----

type srcProg struct {
	Name  string
	Src   string
	Input []byte
}

func loadSources(paths []string, corpusDir string, limit int) ([]srcProg, error) {
	var out []srcProg
	for _, p := range paths {
		f, err := os.Open(p)
		if err != nil {
			return nil, err
		}
		sc := bufio.NewScanner(f)
		sc.Buffer(make([]byte, 1<<20), 1<<28)
		n := 0
		for sc.Scan() {
			var c struct {
				Mech  string          `json:"mech"`
				Prog  json.RawMessage `json:"prog"`
				Vars  []json.RawMessage `json:"variants"`
				Input json.RawMessage `json:"input"`
				Env   *struct {
					Stdin []hx.BS `json:"stdin"`
				} `json:"env"`
				Site string `json:"site"`
				Val  string `json:"val"`
			}
			if err := json.Unmarshal(sc.Bytes(), &c); err != nil {
				continue
			}
			n++
			if limit > 0 && n > limit {
				break
			}
			if c.Site != "" { // a guard case
				var prog string
				var ok bool
				if v, isNum := numSpell[c.Val]; isNum {
					prog, ok = numProgram(c.Site, v)
				} else if s, isStr := strSpell(c.Val); isStr && len(s) < 1000 {
					prog, ok = strProgram(c.Site, hx.AwkString([]byte(s)))
				}
				if ok {
					out = append(out, srcProg{"guard/" + c.Site + "/" + c.Val, prog, []byte(guardInput)})
				}
				continue
			}
			var input []byte
			if c.Env != nil {
				for _, r := range c.Env.Stdin {
					input = append(input, r.Bytes()...)
					input = append(input, '\n')
				}
			} else {
				var v any
				json.Unmarshal(c.Input, &v)
				input = awkast.Input(v)
			}
			for i, raw := range append([]json.RawMessage{c.Prog}, c.Vars...) {
				node, err := awkast.Decode(raw)
				if err != nil || node == nil {
					continue
				}
				src, ok := render(node)
				if ok {
					out = append(out, srcProg{fmt.Sprintf("%s#%d", c.Mech, i), src, input})
				}
			}
		}
		f.Close()
	}
	if corpusDir != "" {
		files, _ := filepath.Glob(filepath.Join(corpusDir, "*.awk"))
		sort.Strings(files)
		for _, fn := range files {
			b, err := os.ReadFile(fn)
			if err == nil {
				out = append(out, srcProg{"corpus/" + filepath.Base(fn), string(b), nil})
			}
		}
	}
	return out, nil
}

func render(node awkast.Node) (s string, ok bool) {
	defer func() {
		if r := recover(); r != nil {
			ok = false
		}
	}()
	return awkast.Program(node), true
}

// ---- dump of compiled programs for MC_StackMachine ----

type dumpBlock struct {
	Kind string `json:"kind"` // stmts | expr | func
	Fn   int    `json:"fn"`
	Code []int  `json:"code"`
}

type dumpFunc struct {
	NumScalars int `json:"numScalars"`
	NumArrays  int `json:"numArrays"`
}

type dumpProg struct {
	Name         string            `json:"name"`
	Illegal      int               `json:"illegal"`
	ScopeGlobal  int               `json:"scopeGlobal"`
	ScopeLocal   int               `json:"scopeLocal"`
	ScopeSpecial int               `json:"scopeSpecial"`
	Specials     int               `json:"specials"`
	Nums         int               `json:"nums"`
	Strs         int               `json:"strs"`
	Regexes      int               `json:"regexes"`
	Scalars      int               `json:"scalars"`
	Arrays       int               `json:"arrays"`
	Natives      int               `json:"natives"`
	OpNames      map[string]string `json:"opnames"`
	Funcs        []dumpFunc        `json:"funcs"`
	Blocks       []dumpBlock       `json:"blocks"`
}

func ints(code []compiler.Opcode) []int {
	out := make([]int, len(code))
	for i, c := range code {
		out[i] = int(c)
	}
	return out
}

func opNames() map[string]string {
	m := map[string]string{}
	for op := compiler.Nop; op < compiler.EndOpcode; op++ {
		m[fmt.Sprint(int(op))] = op.String()
	}
	return m
}

func dumpOf(name string, prog *parser.Program) *dumpProg {
	c := prog.Compiled
	d := &dumpProg{Name: name, Illegal: int(lexer.ILLEGAL), ScopeGlobal: int(resolver.Global), ScopeLocal: int(resolver.Local),
		ScopeSpecial: int(resolver.Special), Specials: ast.V_LAST, Nums: len(c.Nums), Strs: len(c.Strs), Regexes: len(c.Regexes),
		OpNames: opNames(), Funcs: []dumpFunc{}, Blocks: []dumpBlock{}}
	prog.IterVars("", func(_ string, info resolver.VarInfo) {
		if info.Type == resolver.Array {
			if info.Index+1 > d.Arrays {
				d.Arrays = info.Index + 1
			}
		} else if info.Index+1 > d.Scalars {
			d.Scalars = info.Index + 1
		}
	})
	prog.IterFuncs(func(_ string, info resolver.FuncInfo) {
		if info.Native && info.Index+1 > d.Natives {
			d.Natives = info.Index + 1
		}
	})
	if len(c.Begin) > 0 {
		d.Blocks = append(d.Blocks, dumpBlock{"stmts", -1, ints(c.Begin)})
	}
	for _, a := range c.Actions {
		for _, p := range a.Pattern {
			d.Blocks = append(d.Blocks, dumpBlock{"expr", -1, ints(p)})
		}
		if len(a.Body) > 0 {
			d.Blocks = append(d.Blocks, dumpBlock{"stmts", -1, ints(a.Body)})
		}
	}
	if len(c.End) > 0 {
		d.Blocks = append(d.Blocks, dumpBlock{"stmts", -1, ints(c.End)})
	}
	for i, f := range c.Functions {
		d.Funcs = append(d.Funcs, dumpFunc{f.NumScalars, f.NumArrays})
		if len(f.Body) > 0 {
			d.Blocks = append(d.Blocks, dumpBlock{"func", i, ints(f.Body)})
		}
	}
	return d
}

func parseSafe(src string) (prog *parser.Program, err error) {
	defer func() {
		if r := recover(); r != nil {
			err = fmt.Errorf("panic: %v", r)
		}
	}()
	return parser.ParseProgram([]byte(src), nil)
}

// StackMode:  vreplay C02 stack -in a.ndjson,b.ndjson -corpus DIR -programs programs.ndjson -trace trace.ndjson -out summary.json
// Dumps the compiled form of every program for the static pass, runs every
// program with the step hook installed and records, per distinct (opcode,
// operands, observed change of the stack pointer), one event for
// Trace_StackMachine.tla; stack-pointer values below a frame's base and panics
// are collected as failures.
func StackMode(args []string) int {
	fs := flag.NewFlagSet("stack", flag.ExitOnError)
	in := fs.String("in", "", "comma separated case files")
	corpus := fs.String("corpus", "", "directory of .awk files")
	progsOut := fs.String("programs", "programs.ndjson", "")
	traceOut := fs.String("trace", "trace.ndjson", "")
	out := fs.String("out", "summary.json", "")
	tablePath := fs.String("table", "table.ndjson", "operand-count table exported by Gen_StackTable")
	limit := fs.Int("limit", 0, "max cases per file")
	fs.Parse(args)
	var paths []string
	if *in != "" {
		paths = strings.Split(*in, ",")
	}
	operands := map[string]int{}
	if tf, err := os.Open(*tablePath); err == nil {
		sc := bufio.NewScanner(tf)
		for sc.Scan() {
			var row struct {
				Op       string `json:"op"`
				Operands int    `json:"operands"`
			}
			if json.Unmarshal(sc.Bytes(), &row) == nil && row.Op != "" {
				operands[row.Op] = row.Operands
			}
		}
		tf.Close()
	}
	if len(operands) == 0 {
		fmt.Fprintln(os.Stderr, "no operand table")
		return 2
	}
	srcs, err := loadSources(paths, *corpus, *limit)
	if err != nil {
		fmt.Fprintln(os.Stderr, err)
		return 2
	}
	pf, _ := os.Create(*progsOut)
	pw := bufio.NewWriter(pf)
	sum := &hx.Summary{SigCounts: map[string]int{}, Failures: []*hx.Failure{}, Samples: []json.RawMessage{}, Extra: map[string]any{}}
	type pairKey struct {
		op    string
		a     string
		d     int
		ns    int
		ill   int
	}
	pairs := map[pairKey]int{}
	pairArgs := map[pairKey][]int{}
	pairWitness := map[pairKey]srcProg{}
	dumped, executed, instrs := 0, 0, 0
	seenDump := map[string]bool{}
	var mu sync.Mutex
	for _, sp := range srcs {
		prog, err := parseSafe(sp.Src)
		if err != nil || prog == nil {
			continue
		}
		d := dumpOf(sp.Name, prog)
		key := fmt.Sprint(d.Blocks, d.Funcs)
		if !seenDump[key] {
			seenDump[key] = true
			b, _ := json.Marshal(d)
			pw.Write(b)
			pw.WriteByte('\n')
			dumped++
			if len(sum.Samples) < 3 {
				sum.Samples = append(sum.Samples, json.RawMessage(fmt.Sprintf(`{"program":%q,"blocks":%d}`, sp.Name, len(d.Blocks))))
			}
		}
		if sp.Input == nil {
			continue // corpus programs: static pass only
		}
		// dynamic run with the step hook
		type ev struct {
			codeLen, depth, ip, sp int
			op                     compiler.Opcode
			a                      []int
			ns                     int
		}
		curProg := sp
		last := map[[2]int]*ev{}
		base := map[[2]int]int{}
		belowBase := ""
		codeOf := map[int][]compiler.Opcode{}
		_ = codeOf
		interp.SetVerifStepHook(func(i interp.VerifStepInfo) {
			mu.Lock()
			defer mu.Unlock()
			instrs++
			k := [2]int{i.CodeLen, i.CallDepth}
			e := &ev{codeLen: i.CodeLen, depth: i.CallDepth, ip: i.IP, sp: i.SP, op: i.Op, a: []int{}}
			na := operands[i.Op.String()]
			if i.Op == compiler.CallUser && i.IP+2 < len(i.Code) {
				na = 2 + 2*int(i.Code[i.IP+2])
			}
			for j := 1; j <= na && i.IP+j < len(i.Code); j++ {
				e.a = append(e.a, int(i.Code[i.IP+j]))
			}
			if i.Op == compiler.CallUser && len(e.a) > 0 && e.a[0] >= 0 && e.a[0] < len(prog.Compiled.Functions) {
				e.ns = prog.Compiled.Functions[e.a[0]].NumScalars
			}
			prev := last[k]
			fresh := prev == nil || (i.IP == 0 && !isJump(prev.op))
			if fresh {
				base[k] = i.SP
			} else {
				pk := pairKey{op: prev.op.String(), a: fmt.Sprint(prev.a), d: i.SP - prev.sp, ill: int(lexer.ILLEGAL), ns: prev.ns}
				if _, seen := pairs[pk]; !seen {
					pairArgs[pk] = prev.a
					pairWitness[pk] = curProg
				}
				pairs[pk]++
			}
			if b, ok := base[k]; ok && i.SP < b && belowBase == "" && i.CallDepth == 0 {
				belowBase = fmt.Sprintf("stack pointer %d below the base %d of its block at ip %d (%s)", i.SP, b, i.IP, i.Op)
			}
			last[k] = e
		})
		res := hx.RunProg(prog, sp.Input, nil)
		interp.SetVerifStepHook(nil)
		executed++
		if res.Panic != nil {
			sig := "C02/panic/" + strings.SplitN(sp.Name, "#", 2)[0]
			sum.SigCounts[sig]++
			if sum.SigCounts[sig] <= 3 {
				sum.Failures = append(sum.Failures, &hx.Failure{Sig: sig, What: fmt.Sprintf("panic: %v", res.Panic), Observed: res.PanicStk, Program: sp.Src,
					Case: json.RawMessage(fmt.Sprintf(`{"src":%q,"input":%q}`, sp.Src, sp.Input))})
			}
		}
		if belowBase != "" {
			sig := "C02/stack-below-base/" + strings.SplitN(sp.Name, "#", 2)[0]
			sum.SigCounts[sig]++
			if sum.SigCounts[sig] <= 3 {
				sum.Failures = append(sum.Failures, &hx.Failure{Sig: sig, What: belowBase, Program: sp.Src,
					Case: json.RawMessage(fmt.Sprintf(`{"src":%q,"input":%q}`, sp.Src, sp.Input))})
			}
		}
	}
	pw.Flush()
	pf.Close()
	// the observed stack-pointer changes, one event per distinct (opcode, change)
	tf, _ := os.Create(*traceOut)
	tw := bufio.NewWriter(tf)
	tw.WriteString("{\"ev\":\"reset\"}\n")
	keys := make([]pairKey, 0, len(pairs))
	for k := range pairs {
		keys = append(keys, k)
	}
	sort.Slice(keys, func(i, j int) bool {
		if keys[i].op != keys[j].op {
			return keys[i].op < keys[j].op
		}
		if keys[i].a != keys[j].a {
			return keys[i].a < keys[j].a
		}
		return keys[i].d < keys[j].d
	})
	for _, k := range keys {
		b, _ := json.Marshal(map[string]any{"ev": "delta", "op": k.op, "a": pairArgs[k], "d": k.d, "ns": k.ns, "illegal": k.ill, "count": pairs[k],
			"src": pairWitness[k].Src, "input": hx.FromBytes(pairWitness[k].Input), "name": pairWitness[k].Name})
		tw.Write(b)
		tw.WriteByte('\n')
	}
	tw.Flush()
	tf.Close()
	sum.N = executed
	sum.Distinct = dumped
	sum.Nontrivial = dumped
	sum.Extra["programs_dumped"] = dumped
	sum.Extra["programs_executed_with_hook"] = executed
	sum.Extra["instructions_observed"] = instrs
	sum.Extra["distinct_opcode_deltas"] = len(pairs)
	hx.WriteJSON(*out, sum)
	fmt.Printf("stack: %d programs dumped, %d executed with the step hook, %d instructions, %d distinct (opcode, delta) pairs, %d failing signatures\n",
		dumped, executed, instrs, len(pairs), len(sum.SigCounts))
	return 0
}

func isJump(op compiler.Opcode) bool {
	switch op {
	case compiler.Jump, compiler.JumpFalse, compiler.JumpTrue, compiler.JumpEquals, compiler.JumpNotEquals, compiler.JumpLess,
		compiler.JumpGreater, compiler.JumpLessOrEqual, compiler.JumpGreaterOrEqual:
		return true
	}
	return false
}
