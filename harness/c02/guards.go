// Package c02 binds spec/Guards.tla (which values must yield an error, which
// only must not crash) and spec/StackMachine.tla (stack discipline of the
// emitted byte code) to the real interpreter.
package c02

import (
	"bytes"
	"context"
	"encoding/json"
	"fmt"
	"os"
	"path/filepath"
	"runtime"
	"strings"
	"sync"

	"github.com/benhoyt/goawk/interp"
	"github.com/benhoyt/goawk/verifharness/hx"
)

type guardCase struct {
	Site   string `json:"site"`
	Val    string `json:"val"`
	Cfg    string `json:"cfg"`
	Expect string `json:"expect"`
	// replay files of the stack checks: a program, its input, and for a stack-effect finding
	// the opcode with the change of the stack pointer the specification predicts
	Src   string `json:"src"`
	Input hx.BS  `json:"input"`
	Op    string `json:"op"`
	Pred  *int   `json:"pred"`
}

// AWK spelling of each numeric value class (an expression)
var numSpell = map[string]string{
	"-huge": "-1e30", "-int64": "-9223372036854775808", "-int32": "-2147483649", "-1": "-1", "-0.5": "-0.5", "0": "0",
	"0.5": "0.5", "1": "1", "limit-1": "999999", "limit": "1000000", "limit+1": "1000001", "int32": "2147483647",
	"int32+1": "2147483648", "int53": "9007199254740993", "int64": "9223372036854775808", "huge": "1e30",
	"inf": "(-log(0))", "-inf": "log(0)", "nan": "(log(0)-log(0))", "empty-string": `""`, "text": `"abc"`, "1e400-string": `"1e400"`,
}

// byte content of each string value class
func strSpell(v string) (string, bool) {
	switch v {
	case "empty":
		return "", true
	case "one-ascii":
		return "a", true
	case "one-nonutf8":
		return "\xff", true
	case "one-multibyte":
		return "é", true
	case "two-invalid":
		return "\xff\xfe", true
	case "valid-regex":
		return "a+|b", true
	case "invalid-regex-paren":
		return "(", true
	case "invalid-regex-bracket":
		return "[a", true
	case "invalid-regex-repeat":
		return "a**{", true
	case "long-70k":
		return strings.Repeat("ab", 35000), true
	case "nul":
		return "\x00", true
	case "backslash":
		return `\`, true
	case "csv-mode":
		return "csv separator=; comment=# header", true
	case "bad-mode":
		return "csv separator=\xff\xfe", true
	case "newline":
		return "\n", true
	}
	return "", false
}

var hookMu sync.Mutex

const guardInput = "a b c\n\xffd,e \"f\"\n\né é\n1 2 3 4 5 6 7 8 9 10\n \t \na, ,c,\t,0x1A,+inf,-nan,1e400,.5.,\u00a012,\u2003\n"

// program for a numeric site; V is the value expression
func numProgram(site, v string) (string, bool) {
	switch site {
	case "field-read":
		return "{ x = $(" + v + "); print x }", true
	case "field-assign":
		return "{ $(" + v + ") = \"x\"; print NF }", true
	case "field-incr":
		return "{ $(" + v + ")++; print NF }", true
	case "nf-assign":
		return "{ NF = " + v + "; print NF; print $0 }", true
	case "argc-assign":
		return "BEGIN { ARGC = " + v + " } { print }", true
	case "substr-pos":
		return "{ print substr($0, " + v + ") substr(\"hello\", " + v + ", 2) }", true
	case "substr-len":
		return "{ print substr($0, 2, " + v + ") substr(\"hello\", -1, " + v + ") }", true
	case "printf-c":
		return "{ printf \"%c|%5c|\\n\", " + v + ", " + v + " }", true
	case "printf-d":
		return "{ printf \"%d %i %o %x %X %u %5.3d %e %g %f\\n\", " + strings.Repeat(v+", ", 9) + v + " }", true
	case "printf-star-width":
		return "{ printf \"%*d|%-*s|\\n\", " + v + ", 5, " + v + ", \"s\" }", true
	case "printf-star-prec":
		return "{ printf \"%.*d|%.*s|%.*f|\\n\", " + v + ", 5, " + v + ", \"str\", " + v + ", 2.5 }", true
	case "exit-status":
		return "{ exit " + v + " }", true
	case "srand":
		return "{ srand(" + v + "); x = rand(); print (x >= 0 && x < 1) }", true
	case "int":
		return "{ print int(" + v + "), int(-(" + v + ")) }", true
	case "subscript":
		return "{ a[" + v + "] = 1; a[" + v + ", " + v + "]++; for (k in a) n++; print n; delete a[" + v + "]; print ((" + v + ") in a) }", true
	case "pow":
		return "{ print (" + v + ") ^ (" + v + "), 2 ^ (" + v + "), (" + v + ") ^ 0.5 }", true
	case "mod":
		return "{ print 7 % (" + v + ") }", true
	case "div":
		return "{ print 7 / (" + v + ") }", true
	case "getline-field":
		return "{ getline $(" + v + ") < \"/dev/null/nonexistent\"; \"echo x\" | getline $(" + v + "); print NF }", true
	case "split-limit":
		return "{ n = split($0, a, " + v + "); print n }", true
	case "nr-assign":
		return "{ NR = " + v + "; FNR = " + v + "; RSTART = " + v + "; RLENGTH = " + v + "; print NR, FNR }", true
	case "index-arg":
		return "{ print index($0, " + v + "), length(" + v + "), toupper(" + v + "), match($0, " + v + ") }", true
	case "repeat-concat":
		return "{ s = " + v + "; for (i = 0; i < 5; i++) s = s s; print length(s) }", true
	case "sprintf-width-literal":
		return "{ x = sprintf(\"%\" (" + v + ") \"d\", 5); print length(x) > 0 }", true
	}
	return "", false
}

// program for a string site; S is an AWK string literal holding the value
func strProgram(site, s string) (string, bool) {
	switch site {
	case "rs":
		return "BEGIN { RS = " + s + " } { print NR, $0, RT }", true
	case "rs-then-read":
		return "NR == 1 { RS = " + s + " } { print NR, $0 }", true
	case "rs-regex-then-read":
		return "BEGIN { RS = \"ab|\\n\" } NR == 1 { RS = " + s + " } { print NR, $0, RT }", true
	case "rs-mbchar-then-read":
		return "BEGIN { RS = \"\303\251\" } NR == 1 { RS = " + s + " } { print NR, $0, RT }", true
	case "fs-regex-then-read":
		return "BEGIN { FS = \"a+|,\" } NR == 1 { FS = " + s + " } { print NF, $1; $0 = $0; print NF, $2; n = split($0, parts); print n }", true
	case "fs":
		return "BEGIN { FS = " + s + " } { print NF, $1 }", true
	case "fs-then-read":
		return "{ FS = " + s + "; $0 = $0; print NF; n = split($0, a); print n }", true
	case "subsep":
		return "BEGIN { SUBSEP = " + s + " } { a[1, 2] = 1; for (k in a) print length(k); print ((1, 2) in a) }", true
	case "convfmt":
		return "BEGIN { CONVFMT = " + s + " } { x = 0.5 \"\"; a[0.25] = 1; print length(x) }", true
	case "ofmt":
		return "BEGIN { OFMT = " + s + " } { print 0.5, 1e300 }", true
	case "ors":
		return "BEGIN { ORS = " + s + " } { print; print 1, 2 }", true
	case "ofs":
		return "BEGIN { OFS = " + s + " } { $1 = $1; print; print 1, 2 }", true
	case "dyn-regex-match":
		return "BEGIN { r = " + s + " } { print ($0 ~ r), ($0 !~ r) }", true
	case "dyn-regex-split":
		return "BEGIN { r = " + s + " } { print split($0, a, r \"x\" r) }", true
	case "dyn-regex-sub":
		return "BEGIN { r = " + s + " } { n = gsub(r, \"&-\\\\&\"); sub(r, r); print n }", true
	case "dyn-regex-matchfn":
		return "BEGIN { r = " + s + " } { print match($0, r), RSTART, RLENGTH }", true
	case "inputmode":
		return "BEGIN { INPUTMODE = " + s + " } { print NF }", true
	case "outputmode":
		return "BEGIN { OUTPUTMODE = " + s + " } { $1 = $1; print; print $1, $2 }", true
	case "getline-file":
		return "BEGIN { f = " + s + " } NR == 1 { r = (getline x < f); print (r <= 1); close(f) }", true
	case "close-name":
		return "BEGIN { f = " + s + " } NR == 1 { print close(f), fflush(f) }", true
	case "printf-format":
		return "BEGIN { f = " + s + " } NR == 1 { printf f \"%s\\n\", 1, 2; x = sprintf(f) }", true
	case "operand-fs", "operand-rs", "operand-other":
		// the value arrives through a var=value operand (see argsOf)
		return "BEGIN { r1 = getline; r2 = getline; print r1, r2, $1, NF } { print $1, NF; n = split($0, a); print n }", true
	case "field-sep-arg":
		return "BEGIN { f = " + s + " } { n = split($0, a, f); print n; print index($0, f), toupper(f) tolower(f), substr(f, 2, 1) }", true
	}
	return "", false
}

func otherProgram(site string) (string, bool) {
	switch site {
	case "recursion-with-locals":
		return "function f(n, a, b) { a = n; if (n > 0) b = f(n - 1); return a + b } function g(n, t) { if (n == 0) return 0; t = g(n - 1); return t + 1 } " +
			"BEGIN { print f(20), f(60), f(200), g(150), f(33) }", true
	case "runaway-recursion-with-locals":
		return "function g(n, a, b) { a = n; return g(n + 1) + a } BEGIN { g(1) }", true
	case "field-values":
		return "BEGIN { FS = \",\" } { for (i = 0; i <= NF; i++) { v = $i; printf \"%d %d %d %d \", (v == \"\"), (v < 1), !v, (v ? 1 : 0); " +
			"printf \"%c|%d|%s|%5.2f \", v, v, v + 0, v; a[v] = v; n++ } print n; x = $0; if ($0) m++; if (x == 0) m++ } END { print m }", true
	case "getline-other-file-wider":
		return "{ x = $1; r = (getline line < OTHERFILE); print r, $1, $4, NF; r = (getline < OTHERFILE); print r, $1, $5, NF; print $0 }", true
	case "format-ends-after-flag", "format-ends-after-width", "format-ends-after-precision", "format-ends-after-star":
		f := map[string]string{"format-ends-after-flag": "%-", "format-ends-after-width": "a %5", "format-ends-after-precision": "abc %-08.3",
			"format-ends-after-star": "%*"}[site]
		return "BEGIN { printf \"%s|%d\\n\", \"a\", 1 } NR == 1 { x = sprintf(\"" + f + "\", 3.14159, 2); print x; printf \"" + f + "\", 1, 2 }", true
	case "format-again-with-fewer-args":
		return "BEGIN { printf \"%s-%s\\n\", \"a\", \"b\"; x = sprintf(\"%d:%*d|%c\", 1, 4, 2, 65); print x; f = \"%s %s %s\\n\"; printf f, 1, 2, 3 } " +
			"END { printf \"%s-%s\\n\", \"a\"; x = sprintf(\"%d:%*d|%c\", 1, 4); print x; printf f, 1 }", true
	case "format-again-with-other-kinds":
		return "{ printf \"%c|%d|%s|%5.2f|%x\\n\", 65, 66, 67, 68, 69; printf \"%c|%d|%s|%5.2f|%x\\n\", $1, $2, $0, \"x\", -1; printf \"%c|%d|%s|%5.2f|%x\\n\", \"\", u, a[1], 1e300, 1e300 }", true
	case "getline-var-in-csv":
		return "{ r = (getline x); print r, x, $1, $2, $3, NF; $2 = \"y\"; print }", true
	case "recursion":
		return "function f(n) { return f(n + 1) } BEGIN { f(1) }", true
	case "mutual-recursion":
		return "function f(n, a) { a[n] = 1; return g(n + 1, a) } function g(n, a) { return f(n + 1, a) } BEGIN { f(1, arr) }", true
	case "deep-expression":
		return "BEGIN { x = " + strings.Repeat("(", 400) + "1" + strings.Repeat(")", 400) + "; print x; print " + strings.Repeat("-", 300) + "1 }", true
	case "many-fields":
		return "BEGIN { $0 = sprintf(\"%70000s\", \"\"); gsub(/ /, \"x \"); print NF; $70001 = 1; print NF; NF = 3; print }", true
	case "long-record":
		return "BEGIN { s = \"ab\"; for (i = 0; i < 18; i++) s = s s; $0 = s; print length($0), NF; print length(substr($0, 1e5)) }", true
	}
	return "", false
}

func cfgOf(name string) *interp.Config {
	c := &interp.Config{}
	switch name {
	case "chars":
		c.Chars = true
	case "csv-in":
		c.InputMode = interp.CSVMode
	case "tsv-in-csv-out":
		c.InputMode = interp.TSVMode
		c.OutputMode = interp.CSVMode
	case "header":
		c.InputMode = interp.CSVMode
		c.CSVInput.Header = true
	}
	return c
}

// argsOf gives the operands for the sites whose value arrives through a var=value operand.
func argsOf(site, val string) []string {
	switch site {
	case "operand-fs":
		return []string{"FS=" + val}
	case "operand-rs":
		return []string{"RS=" + val}
	case "operand-other":
		return []string{"CONVFMT=" + val, "OFS=" + val, "SUBSEP=" + val, "v=" + val}
	}
	return nil
}

// runTwice parses the program and executes it twice on ONE Interpreter, under recover().
func runTwice(prog string, cfg *interp.Config) (*hx.RunResult, *hx.RunResult) {
	p, err := parseSafe(prog)
	if err != nil || p == nil {
		return &hx.RunResult{ParseErr: fmt.Errorf("%v", err)}, nil
	}
	first := &hx.RunResult{}
	second := &hx.RunResult{}
	var in *interp.Interpreter
	for i, res := range []*hx.RunResult{first, second} {
		func() {
			defer func() {
				if r := recover(); r != nil {
					res.Panic = r
					buf := make([]byte, 6000)
					res.PanicStk = string(buf[:runtime.Stack(buf, false)])
				}
			}()
			if i == 0 {
				in, res.Err = interp.New(p)
				if res.Err != nil {
					return
				}
			}
			if in == nil {
				return
			}
			c := *cfg
			var outb, errb bytes.Buffer
			c.Stdin = bytes.NewReader([]byte(guardInput))
			c.Output, c.Error = &outb, &errb
			c.Environ = []string{}
			ctx, cancel := context.WithTimeout(context.Background(), hx.HangTimeout)
			defer cancel()
			res.Status, res.Err = in.ExecuteContext(ctx, &c)
			if ctx.Err() == context.DeadlineExceeded && res.Err != nil {
				res.TimedOut = true
			}
			res.Stdout = outb.Bytes()
		}()
		if first.Panic != nil {
			break
		}
	}
	return first, second
}

// ReplayGuard is the hx.Replayer for Guards.tla exports.
func ReplayGuard(raw json.RawMessage) hx.Outcome {
	var c guardCase
	if err := json.Unmarshal(raw, &c); err != nil {
		return hx.Outcome{Skipped: true, Note: "bad case"}
	}
	if c.Src != "" {
		return replaySrc(&c)
	}
	var prog string
	var ok bool
	if v, isNum := numSpell[c.Val]; isNum {
		prog, ok = numProgram(c.Site, v)
	} else if s, isStr := strSpell(c.Val); isStr {
		prog, ok = strProgram(c.Site, hx.AwkString([]byte(s)))
	} else {
		prog, ok = otherProgram(c.Site)
	}
	if !ok {
		return hx.Outcome{Skipped: true, Note: "no spelling for " + c.Site + "/" + c.Val}
	}
	cfg := cfgOf(c.Cfg)
	if s, isStr := strSpell(c.Val); isStr {
		cfg.Args = argsOf(c.Site, s)
	}
	if strings.Contains(prog, "OTHERFILE") {
		dir, err := os.MkdirTemp("", "c02-")
		if err != nil {
			return hx.Outcome{Fail: &hx.Failure{Sig: "HARNESS-PANIC", What: err.Error()}}
		}
		defer os.RemoveAll(dir)
		other := filepath.Join(dir, "wide.csv")
		os.WriteFile(other, []byte("1,2,3,4,5,6\n\"q\"\"\",w\n7 8 9 10 11 12 13\n"), 0o644)
		prog = strings.ReplaceAll(prog, "OTHERFILE", hx.AwkString([]byte(other)))
	}
	first, second := runTwice(prog, cfg)
	sig := fmt.Sprintf("C02/%s/%s", c.Site, c.Val)
	if first.ParseErr != nil {
		return hx.Outcome{Skipped: true, Note: "rejected by the parser: " + first.ParseErr.Error() + ": " + prog}
	}
	for i, res := range []*hx.RunResult{first, second} {
		if res == nil {
			continue
		}
		which := []string{"first", "second"}[i]
		if res.Panic != nil {
			suffix := "/panic"
			if i == 1 {
				suffix = "/panic-on-reuse"
			}
			return hx.Fail(sig+suffix, fmt.Sprintf("panic in the %s execution: %v", which, res.Panic), c.Expect, res.PanicStk, prog)
		}
		if res.TimedOut {
			return hx.Fail(sig+"/hang", "the "+which+" execution does not terminate", c.Expect, "timeout", prog)
		}
		if c.Expect == "must-error" && res.Err == nil {
			return hx.Fail(sig+"/no-error", "the statement requires an error value here, the "+which+" execution succeeded", "error",
				fmt.Sprintf("status %d, stdout %q", res.Status, trunc(res.Stdout)), prog)
		}
	}
	return hx.OK(c.Expect == "must-error" || first.Err != nil)
}

func trunc(b []byte) string {
	if len(b) > 200 {
		return string(b[:200]) + "..."
	}
	return string(b)
}

// replaySrc re-runs a recorded program: a panic reproduces a panic finding; with Op/Pred set, the
// observed stack-pointer change of that opcode is compared with the predicted one.
func replaySrc(c *guardCase) hx.Outcome {
	prog, err := parseSafe(c.Src)
	if err != nil || prog == nil {
		return hx.Outcome{Skipped: true, Note: "not accepted by the parser"}
	}
	type last struct {
		op string
		sp int
	}
	prev := map[[2]int]*last{}
	bad := ""
	if c.Op != "" && c.Pred != nil {
		hookMu.Lock()
		defer hookMu.Unlock()
		interp.SetVerifStepHook(func(i interp.VerifStepInfo) {
			k := [2]int{i.CodeLen, i.CallDepth}
			if p := prev[k]; p != nil && !(i.IP == 0) && p.op == c.Op && i.SP-p.sp != *c.Pred && bad == "" {
				bad = fmt.Sprintf("%s changed the stack pointer by %d, the specification says %d", c.Op, i.SP-p.sp, *c.Pred)
			}
			prev[k] = &last{i.Op.String(), i.SP}
		})
		defer interp.SetVerifStepHook(nil)
	}
	res := hx.RunProg(prog, c.Input.Bytes(), nil)
	if res.Panic != nil {
		return hx.Fail("C02/panic/replay", fmt.Sprintf("panic: %v", res.Panic), nil, res.PanicStk, c.Src)
	}
	if bad != "" {
		return hx.Fail("C02/stack-effect/"+c.Op, bad, *c.Pred, nil, c.Src)
	}
	return hx.OK(true)
}
