// Package c11 binds the input part of spec/AwkSem.tla (operand walk, getline
// forms, range patterns, next/nextfile/exit) to the real interpreter: programs
// exported by TLC (Gen_MainLoop) run with real files, operands and standard
// input, and their trace output, exit status and error outcome are compared
// with the specification's prediction.
package c11

import (
	"bytes"
	"encoding/json"
	"fmt"
	"os"
	"path/filepath"
	"strings"

	"github.com/benhoyt/goawk/interp"
	"github.com/benhoyt/goawk/verifharness/awkast"
	"github.com/benhoyt/goawk/verifharness/hx"
)

type fileT struct {
	Name hx.BS   `json:"name"`
	Recs []hx.BS `json:"recs"`
}

type envT struct {
	Stdin []hx.BS `json:"stdin"`
	Files []fileT `json:"files"`
	Args  []hx.BS `json:"args"`
}

type expT struct {
	Out    hx.BS `json:"out"`
	Status int   `json:"status"`
	Err    bool  `json:"err"`
}

type caseT struct {
	Fam    string          `json:"fam"`
	Mech   string          `json:"mech"`
	Prog   json.RawMessage `json:"prog"`
	Env    envT            `json:"env"`
	Expect expT            `json:"expect"`
}

func joinRecs(recs []hx.BS) []byte {
	var b []byte
	for _, r := range recs {
		b = append(b, r.Bytes()...)
		b = append(b, '\n')
	}
	return b
}

// RunCase executes one case on the real interpreter in a private directory.
func RunCase(c *caseT) (string, *hx.RunResult, error) {
	node, err := awkast.Decode(c.Prog)
	if err != nil {
		return "", nil, err
	}
	var src string
	func() {
		defer func() {
			if r := recover(); r != nil {
				err = fmt.Errorf("render: %v", r)
			}
		}()
		src = awkast.Program(node)
	}()
	if err != nil {
		return "", nil, err
	}
	dir, err := os.MkdirTemp("", "c11-")
	if err != nil {
		return src, nil, err
	}
	defer os.RemoveAll(dir)
	for _, f := range c.Env.Files {
		if err := os.WriteFile(filepath.Join(dir, f.Name.String()), joinRecs(f.Recs), 0o644); err != nil {
			return src, nil, err
		}
	}
	args := make([]string, len(c.Env.Args))
	for i, a := range c.Env.Args {
		args[i] = a.String()
	}
	cfg := &interp.Config{
		Args: args,
		OpenFile: func(name string, flag int, perm os.FileMode) (*os.File, error) {
			if strings.ContainsAny(name, "/\\") {
				return nil, os.ErrNotExist
			}
			return os.OpenFile(filepath.Join(dir, name), flag, perm)
		},
	}
	return src, hx.RunAwk(src, joinRecs(c.Env.Stdin), cfg, nil), nil
}

// Replay is the hx.Replayer for Gen_MainLoop exports.
func Replay(raw json.RawMessage) hx.Outcome {
	var probe struct {
		Fam string `json:"fam"`
	}
	if json.Unmarshal(raw, &probe) == nil && probe.Fam == "cli" {
		return replayCLI(raw)
	}
	var c caseT
	if err := json.Unmarshal(raw, &c); err != nil {
		return hx.Outcome{Skipped: true, Note: "bad case: " + err.Error()}
	}
	src, res, err := RunCase(&c)
	if err != nil {
		return hx.Outcome{Fail: &hx.Failure{Sig: "HARNESS-PANIC", What: err.Error()}}
	}
	mech := c.Mech
	show := src + "--- operands: " + fmt.Sprintf("%q", res0(c.Env.Args)) + "\n"
	switch {
	case res.Panic != nil:
		return hx.Fail("C11/"+mech+"/panic", fmt.Sprintf("panic: %v", res.Panic), nil, res.PanicStk, show)
	case res.ParseErr != nil:
		return hx.Outcome{Skipped: true, Note: "generated program rejected by the parser: " + res.ParseErr.Error() + "\n" + src}
	case res.TimedOut:
		return hx.Fail("C11/"+mech+"/hang", "the specification's run terminates, the real run does not", nil, "timeout", show)
	case !bytes.Equal(res.Stdout, c.Expect.Out.Bytes()):
		return hx.Fail("C11/"+mech+"/trace", "trace of NR FNR FILENAME $0 NF differs from the specification",
			string(c.Expect.Out.Bytes()), string(res.Stdout), show)
	case c.Expect.Err != (res.Err != nil):
		return hx.Fail("C11/"+mech+"/error-outcome", fmt.Sprintf("spec error=%v real error=%v", c.Expect.Err, res.Err), c.Expect, fmt.Sprint(res.Err), show)
	case !c.Expect.Err && res.Status != c.Expect.Status:
		return hx.Fail("C11/"+mech+"/exit-status", fmt.Sprintf("exit status %d, specification %d", res.Status, c.Expect.Status), c.Expect.Status, res.Status, show)
	}
	return hx.OK(true)
}

func res0(args []hx.BS) []string {
	out := []string{}
	for _, a := range args {
		out = append(out, a.String())
	}
	return out
}
