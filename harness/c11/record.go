package c11

import (
	"bufio"
	"encoding/json"
	"math/rand"
	"os"

	"github.com/benhoyt/goawk/verifharness/hx"
)

// Random input-bookkeeping programs for the code -> spec direction: several
// rules with patterns / range patterns, bodies of several commands (the getline
// forms, next, nextfile, exit, calls), random operand lists and file contents.
// Each program is run on the real interpreter; Trace_MainLoop.tla evaluates the
// specification on the recorded tree + environment and accepts or rejects the
// recorded outcome.

type node = map[string]any

func bs(s string) []int {
	out := make([]int, len(s))
	for i := range s {
		out[i] = int(s[i])
	}
	return out
}
func num(n int) node                { return node{"k": "num", "n": n} }
func str(s string) node             { return node{"k": "str", "s": bs(s)} }
func vr(n string) node              { return node{"k": "var", "name": n} }
func none() node                    { return node{"k": "none"} }
func bin(op string, l, r node) node { return node{"k": "bin", "op": op, "l": l, "r": r} }
func fld(e node) node               { return node{"k": "field", "e": e} }
func lit(c byte) node               { return node{"k": "lit", "c": int(c)} }
func mat(e node, re node) node      { return node{"k": "match", "neg": false, "e": e, "re": re} }
func prnt(args ...any) node         { return node{"k": "print", "args": args} }
func getl(lv node) node             { return node{"k": "getline", "src": "main", "name": none(), "lv": lv} }
func getf(lv node, f string) node   { return node{"k": "getline", "src": "file", "name": str(f), "lv": lv} }

func fname() node {
	return node{"k": "cond", "c": bin("==", vr("FILENAME"), str("-")), "t": str(""), "f": vr("FILENAME")}
}
func tr(tag string) node {
	return prnt(str(tag), vr("NR"), vr("FNR"), fname(), fld(num(0)), vr("NF"), vr("v"))
}

type rgen struct{ r *rand.Rand }

func (g *rgen) pat() node {
	switch g.r.Intn(7) {
	case 0, 1:
		return none()
	case 2:
		return bin("==", vr("NR"), num(1+g.r.Intn(4)))
	case 3:
		return bin("==", vr("FNR"), num(1+g.r.Intn(3)))
	case 4:
		return mat(fld(num(0)), lit("abcd"[g.r.Intn(4)]))
	case 5:
		return bin(">", vr("NF"), num(g.r.Intn(3)))
	default:
		return bin("==", vr("v"), num(g.r.Intn(4)))
	}
}

func (g *rgen) somePat() node {
	for {
		p := g.pat()
		if p["k"] != "none" {
			return p
		}
	}
}

func (g *rgen) cmd() []any {
	files := []string{"f1", "f2", "f3", "nofile"}
	f := files[g.r.Intn(len(files))]
	switch g.r.Intn(16) {
	case 0:
		return []any{node{"k": "next"}}
	case 1:
		return []any{node{"k": "nextfile"}}
	case 2:
		return []any{node{"k": "exit", "e": num(g.r.Intn(5))}}
	case 3:
		return []any{node{"k": "exit", "e": none()}}
	case 4:
		return []any{prnt(str("g"), getl(none())), tr("h")}
	case 5:
		return []any{prnt(str("g"), getl(vr("w")), vr("w")), tr("h")}
	case 6:
		return []any{prnt(str("g"), getf(none(), f)), tr("h")}
	case 7:
		return []any{prnt(str("g"), getf(vr("w"), f), vr("w")), tr("h")}
	case 8:
		return []any{prnt(str("g"), getl(fld(num(1+g.r.Intn(3))))), tr("h")}
	case 9:
		return []any{prnt(str("g"), getf(fld(num(1+g.r.Intn(3))), f)), tr("h")}
	case 10:
		return []any{node{"k": "expr", "e": node{"k": "call", "f": []string{"fn", "fnf", "fx"}[g.r.Intn(3)], "args": []any{}}}}
	case 11:
		return []any{prnt(str("g"), node{"k": "call", "f": "fg", "args": []any{}}), tr("h")}
	case 12:
		return []any{prnt(str("c"), node{"k": "close", "name": str(f)})}
	case 13:
		return []any{node{"k": "expr", "e": node{"k": "assign", "lv": vr("v"), "e": num(g.r.Intn(4))}}}
	default:
		return []any{tr("m")}
	}
}

func (g *rgen) body() []any {
	out := []any{tr("r")}
	for i := g.r.Intn(3); i >= 0; i-- {
		c := g.cmd()
		if g.r.Intn(2) == 0 {
			out = append(out, node{"k": "if", "c": g.somePat(), "t": c, "f": []any{}})
		} else {
			out = append(out, c...)
		}
	}
	return out
}

var helperFuncs = []any{
	node{"name": "fn", "params": []any{}, "body": []any{prnt(str("n")), node{"k": "next"}}},
	node{"name": "fnf", "params": []any{}, "body": []any{prnt(str("n")), node{"k": "nextfile"}}},
	node{"name": "fx", "params": []any{}, "body": []any{prnt(str("x")), node{"k": "exit", "e": num(2)}, prnt(str("y"))}},
	node{"name": "fg", "params": []any{node{"n": "p", "arr": false}}, "body": []any{
		node{"k": "expr", "e": node{"k": "assign", "lv": vr("p"), "e": getl(vr("w"))}},
		node{"k": "return", "e": bin("cat", vr("p"), vr("w"))}}},
}

var recMenu = []string{"a 1", "b", "c 3 y", "d d", "", "a b c d", "bb", "1 2"}

func (g *rgen) recs(max int) []hx.BS {
	out := []hx.BS{}
	for i := g.r.Intn(max + 1); i > 0; i-- {
		out = append(out, hx.FromBytes([]byte(recMenu[g.r.Intn(len(recMenu))])))
	}
	return out
}

func (g *rgen) program() (node, map[string]any) {
	prog := node{"begin": []any{}, "rules": []any{}, "end": []any{}, "funcs": helperFuncs}
	if g.r.Intn(3) == 0 {
		b := []any{tr("b")}
		switch g.r.Intn(5) {
		case 0:
			b = append(b, prnt(getl(none())), tr("b"))
		case 1:
			b = append(b, prnt(getl(vr("w")), vr("w")), tr("b"))
		case 2:
			b = append(b, node{"k": "expr", "e": node{"k": "assign", "lv": node{"k": "idx", "arr": "ARGV", "e": num(1)}, "e": str("f2")}})
		case 3:
			b = append(b, node{"k": "expr", "e": node{"k": "assign", "lv": vr("ARGC"), "e": num(1 + g.r.Intn(3))}})
		}
		prog["begin"] = b
	}
	rules := []any{}
	for i := 1 + g.r.Intn(3); i > 0; i-- {
		rl := node{"pat": g.pat(), "body": g.body(), "nobody": false}
		if g.r.Intn(3) == 0 {
			rl["pat"] = g.somePat()
			rl["pat2"] = g.somePat()
		}
		if g.r.Intn(8) == 0 {
			rl["pat"] = g.somePat()
			rl["nobody"] = true
			rl["body"] = []any{}
		}
		rules = append(rules, rl)
	}
	prog["rules"] = rules
	if g.r.Intn(2) == 0 {
		prog["end"] = []any{tr("e")}
	}
	argMenu := []string{"f1", "f2", "f3", "-", "", "v=1", "v=2", "w=9"}
	args := []hx.BS{}
	for i := g.r.Intn(5); i > 0; i-- {
		args = append(args, hx.FromBytes([]byte(argMenu[g.r.Intn(len(argMenu))])))
	}
	env := map[string]any{
		"stdin": g.recs(3),
		"files": []any{
			map[string]any{"name": hx.FromBytes([]byte("f1")), "recs": g.recs(4)},
			map[string]any{"name": hx.FromBytes([]byte("f2")), "recs": g.recs(3)},
			map[string]any{"name": hx.FromBytes([]byte("f3")), "recs": g.recs(1)},
		},
		"args": args,
	}
	return prog, env
}

// Record writes n random cases with the outcome observed on the real interpreter.
func Record(seed int64, n int, out string) (int, error) {
	r := rand.New(rand.NewSource(seed))
	f, err := os.Create(out)
	if err != nil {
		return 0, err
	}
	defer f.Close()
	w := bufio.NewWriter(f)
	defer w.Flush()
	written := 0
	for t := 0; t < n; t++ {
		g := &rgen{r: r}
		prog, env := g.program()
		praw, _ := json.Marshal(prog)
		eraw, _ := json.Marshal(env)
		var c caseT
		c.Prog = praw
		if err := json.Unmarshal(eraw, &c.Env); err != nil {
			return written, err
		}
		src, res, err := RunCase(&c)
		if err != nil {
			return written, err
		}
		if res.ParseErr != nil {
			return written, &genErr{src, res.ParseErr}
		}
		if res.TimedOut {
			continue
		}
		obs := map[string]any{"out": hx.FromBytes(res.Stdout), "status": res.Status, "err": res.Err != nil}
		for _, ev := range []any{
			map[string]any{"ev": "reset"},
			map[string]any{"ev": "step", "prog": prog, "env": env, "obs": obs, "src": src},
		} {
			b, _ := json.Marshal(ev)
			w.Write(b)
			w.WriteByte('\n')
		}
		written++
	}
	return written, nil
}

type genErr struct {
	src string
	err error
}

func (e *genErr) Error() string { return "generated program rejected by the parser: " + e.err.Error() + "\n" + e.src }
