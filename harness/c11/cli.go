package c11

// Binding of spec/CommandLine.tla: argument vectors exported by Gen_CommandLine are given to the goawk binary
// built from the tree under test (VERIF_GOAWK), in a directory that holds the files the specification names
// (p1.awk = the probe program, p2.awk, file1), with "s1\n" on standard input.

import (
	"bytes"
	"encoding/json"
	"fmt"
	"os"
	"os/exec"
	"path/filepath"
	"strings"
	"sync"
	"time"

	"github.com/benhoyt/goawk/verifharness/hx"
)

// ProbeText is CommandLine!ProbeBegin / ProbeRule / ProbeEnd as AWK source.
const ProbeText = `BEGIN { printf "B FS=%s x=%s w=%s A=%d", FS, x, w, ARGC; for (i = 0; i < ARGC; i++) printf " [%s]", ARGV[i]; print "" }
{ printf "R %d %s x=%s w=%s\n", NR, $0, x, w }
END { printf "E %d x=%s w=%s\n", NR, x, w }
`
const p2Text = "BEGIN { print \"p2\" }\n"

type cliCase struct {
	Fam  string `json:"fam"`
	Argv []struct {
		B    hx.BS `json:"b"`
		Prog bool  `json:"prog"`
	} `json:"argv"`
	Expect struct {
		Kind   string `json:"kind"`
		Out    hx.BS  `json:"out"`
		Status int    `json:"status"`
		Err    bool   `json:"err"`
		Why    string `json:"why"`
	} `json:"expect"`
}

var goawkBin = os.Getenv("VERIF_GOAWK")

// One working directory for all runs (none of them writes): p1.awk, p2.awk, file1 and bin/goawk, a link to the
// binary under test (it must be called goawk: ARGV[0] is its base name).  Removed by Finish.
var (
	cliOnce   sync.Once
	cliDirVal string
	cliDirErr error
)

func cliDir() (string, error) {
	cliOnce.Do(func() {
		dir, err := os.MkdirTemp("", "c11cli-")
		if err != nil {
			cliDirErr = err
			return
		}
		for name, text := range map[string]string{"p1.awk": ProbeText, "p2.awk": p2Text, "file1": "l1\nl2 q\n"} {
			if err := os.WriteFile(filepath.Join(dir, name), []byte(text), 0o644); err != nil {
				cliDirErr = err
				return
			}
		}
		os.Mkdir(filepath.Join(dir, "bin"), 0o755)
		if err := os.Symlink(goawkBin, filepath.Join(dir, "bin", "goawk")); err != nil {
			cliDirErr = err
			return
		}
		cliDirVal = dir
	})
	return cliDirVal, cliDirErr
}

// Finish removes the shared working directory.
func Finish(sum *hx.Summary) {
	if cliDirVal != "" {
		os.RemoveAll(cliDirVal)
	}
}

func replayCLI(raw json.RawMessage) hx.Outcome {
	var c cliCase
	if err := json.Unmarshal(raw, &c); err != nil {
		return hx.Outcome{Skipped: true, Note: "bad case: " + err.Error()}
	}
	if goawkBin == "" {
		return hx.Outcome{Fail: &hx.Failure{Sig: "HARNESS-PANIC", What: "VERIF_GOAWK is not set"}}
	}
	dir, err := cliDir()
	if err != nil {
		return hx.Outcome{Fail: &hx.Failure{Sig: "HARNESS-PANIC", What: err.Error()}}
	}
	args := make([]string, len(c.Argv))
	shown := make([]string, len(c.Argv))
	for i, a := range c.Argv {
		if a.Prog {
			args[i], shown[i] = ProbeText, "<probe program>"
		} else {
			args[i] = string(a.B.Bytes())
			shown[i] = fmt.Sprintf("%q", args[i])
		}
	}
	show := "goawk " + strings.Join(shown, " ") + "   (in a directory with p1.awk = the probe program, p2.awk, file1; standard input \"s1\\n\")\n--- probe program\n" + ProbeText
	bin := filepath.Join(dir, "bin", "goawk")
	cmd := exec.Command(bin, args...)
	cmd.Dir = dir
	cmd.Stdin = strings.NewReader("s1\n")
	var so, se bytes.Buffer
	cmd.Stdout, cmd.Stderr = &so, &se
	if err := cmd.Start(); err != nil {
		return hx.Outcome{Fail: &hx.Failure{Sig: "HARNESS-PANIC", What: err.Error()}}
	}
	done := make(chan error, 1)
	go func() { done <- cmd.Wait() }()
	select {
	case <-done:
	case <-time.After(30 * time.Second):
		cmd.Process.Kill()
		<-done
		return hx.Fail("C11/cli/hang", "goawk does not finish", nil, nil, show)
	}
	status := cmd.ProcessState.ExitCode()
	obs := fmt.Sprintf("status %d\n--- stdout\n%s--- stderr\n%s", status, so.String(), se.String())
	if strings.Contains(se.String(), "panic:") || strings.Contains(se.String(), "goroutine ") {
		return hx.Fail("C11/cli/panic", "goawk printed a Go panic trace", nil, obs, show)
	}
	switch c.Expect.Kind {
	case "unjudged":
		return hx.OK(false)
	case "version":
		if status != 0 || strings.Count(so.String(), "\n") != 1 || strings.Contains(so.String(), "FS=") {
			return hx.Fail("C11/cli/version", "-version must print one line and exit 0 without running anything", "one line, status 0", obs, show)
		}
		return hx.OK(true)
	case "error":
		if status == 0 || so.Len() != 0 || se.Len() == 0 {
			return hx.Fail("C11/cli/error-outcome", "the argument vector is an error (an option without its value, an unknown option, no program, -v without =, a missing program file): non-zero status, a message, no output",
				"non-zero status, empty stdout, a message on stderr", obs, show)
		}
		return hx.OK(true)
	case "run":
		want := string(c.Expect.Out.Bytes())
		if so.String() != want {
			return hx.Fail("C11/cli/output", "output of the probe program differs from what the command line means", want, obs, show)
		}
		if c.Expect.Err != (status != 0 && se.Len() > 0) && c.Expect.Err {
			return hx.Fail("C11/cli/error-outcome", "the run should end with a run-time error", "error", obs, show)
		}
		if !c.Expect.Err && status != c.Expect.Status {
			return hx.Fail("C11/cli/exit-status", fmt.Sprintf("exit status %d, specification %d", status, c.Expect.Status), c.Expect.Status, obs, show)
		}
		return hx.OK(true)
	}
	return hx.Outcome{Skipped: true, Note: "unknown outcome kind"}
}
