package c12

import (
	"encoding/json"
	"flag"
	"fmt"
	"go/ast"
	"go/parser"
	"go/token"
	"os"
	"path/filepath"
	"sort"
	"strings"
)

// ScanMode lists the call sites of the open-file function and of os/exec in a
// package directory (non-test files): vreplay C12 scan -dir <interp> -out f.
// It is compared with IOStreams!CallSites; a difference means the model is
// incomplete (exit 2 of the check), never a violation.
func ScanMode(args []string) int {
	fs := flag.NewFlagSet("scan", flag.ExitOnError)
	dir := fs.String("dir", "", "package directory")
	out := fs.String("out", "", "output json")
	fs.Parse(args)
	type site struct {
		Fn   string `json:"fn"`
		Call string `json:"call"`
		Pos  string `json:"pos"`
	}
	var sites []site
	fset := token.NewFileSet()
	files, _ := filepath.Glob(filepath.Join(*dir, "*.go"))
	watched := map[string]bool{
		"p.openFile": true, "p.execShell": true,
		"exec.Command": true, "exec.CommandContext": true,
		"os.OpenFile": true, "os.Open": true, "os.Create": true, "os.ReadFile": true, "os.WriteFile": true,
		"os.StartProcess": true, "os.Remove": true, "os.Rename": true, "os.Mkdir": true, "os.MkdirAll": true,
		"syscall.Exec": true, "syscall.ForkExec": true, "syscall.Open": true,
		"ioutil.ReadFile": true, "ioutil.WriteFile": true,
	}
	for _, f := range files {
		if strings.HasSuffix(f, "_test.go") {
			continue
		}
		af, err := parser.ParseFile(fset, f, nil, 0)
		if err != nil {
			fmt.Fprintln(os.Stderr, err)
			return 2
		}
		for _, d := range af.Decls {
			fd, ok := d.(*ast.FuncDecl)
			if !ok || fd.Body == nil {
				continue
			}
			ast.Inspect(fd.Body, func(n ast.Node) bool {
				ce, ok := n.(*ast.CallExpr)
				if !ok {
					return true
				}
				se, ok := ce.Fun.(*ast.SelectorExpr)
				if !ok {
					return true
				}
				id, ok := se.X.(*ast.Ident)
				if !ok {
					return true
				}
				name := id.Name + "." + se.Sel.Name
				if se.Sel.Name == "openFile" || se.Sel.Name == "execShell" {
					name = "p." + se.Sel.Name // whatever the receiver is called
				}
				if watched[name] {
					sites = append(sites, site{fd.Name.Name, name, fset.Position(ce.Pos()).String()})
				}
				return true
			})
		}
	}
	sort.Slice(sites, func(i, j int) bool {
		if sites[i].Fn != sites[j].Fn {
			return sites[i].Fn < sites[j].Fn
		}
		return sites[i].Call < sites[j].Call
	})
	b, _ := json.MarshalIndent(sites, "", " ")
	if err := os.WriteFile(*out, b, 0o644); err != nil {
		fmt.Fprintln(os.Stderr, err)
		return 2
	}
	return 0
}
