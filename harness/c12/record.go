package c12

import (
	"bufio"
	"encoding/json"
	"math/rand"
	"os"
	"strings"

	"github.com/benhoyt/goawk/verifharness/hx"
)

// The trace direction: a seeded driver makes random runs that are longer and
// use more names than the exhaustive families, executes them on the real
// interpreter and writes what was observed, action by action, for
// Trace_IOStreams to validate.  The driver knows nothing about the expected
// behaviour; it only keeps inside the domain the specification speaks about
// (one name is used in one direction per run, the operand comes last, no
// output to "-" / /dev/std* under NoFileWrites, no second print to the
// command that never reads once something has been flushed to it; a file is
// spelled in one way per run; print | "" only where NoExec refuses it; payloads
// with newlines only in the default output mode; CRLF newlines likewise).
// The richer inputs: every spelling of a path, /dev/null in both directions,
// command lines that are empty / blank / start with blanks, operand lists
// (operands that are not files, then a file, a missing file, a directory,
// /dev/null, "-" or nothing), newline output modes x payload shapes.
// Part of the traces are SESSIONS: two or three runs on one Interpreter, each
// Execute with a configuration of its own (config events with cont = true).

func actMap(a Act) map[string]any {
	return map[string]any{"op": a.Op, "name": a.Name, "cls": a.Cls, "dest": a.Dest, "mode": a.Mode, "form": a.Form, "shape": a.Shape}
}

func pick(r *rand.Rand, xs ...string) string { return xs[r.Intn(len(xs))] }

func genRun(r *rand.Rand, sandbox bool, first bool) *Case {
	c := &Case{Fam: "trace"}
	c.Cfg.FailAt = -1
	c.Cfg.Custom = true
	c.Cfg.WKind = "plain"
	c.Cfg.OMode = "default"
	c.Cfg.NLMode = "smart"
	if !sandbox {
		c.Cfg.OMode = pick(r, "default", "default", "default", "csv", "tsv")
		if c.Cfg.OMode == "default" {
			c.Cfg.NLMode = pick(r, "smart", "raw", "crlf", "crlf")
		} else {
			c.Cfg.NLMode = pick(r, "smart", "raw")
		}
	}
	if sandbox {
		c.Cfg.Custom = r.Intn(4) > 0
		c.Cfg.NE, c.Cfg.NW, c.Cfg.NR = r.Intn(3) == 0, r.Intn(3) == 0, r.Intn(3) == 0
		if r.Intn(4) == 0 {
			c.Cfg.Stdin = []hx.BS{hx.FromBytes([]byte("s"))}
		}
	}
	if c.Cfg.Stdin == nil {
		c.Cfg.Stdin = []hx.BS{}
	}
	c.Cfg.Pre = []string{}
	for _, n := range FileNames {
		if first && r.Intn(2) == 0 {
			c.Cfg.Pre = append(c.Cfg.Pre, n)
		}
	}
	// direction of every name in this run
	dir := map[string]string{}
	for _, n := range []string{"f1", "f2", "f3", "/dev/null", "cat", "cat3", "spcat"} {
		dir[n] = pick(r, "out", "in")
	}
	// the spelling of every regular file in this run ("" = the plain absolute path)
	spell := map[string]string{}
	for _, n := range FileNames {
		spell[n] = pick(r, "", "", "rel", "dotdot", "devdd")
	}
	if !sandbox && r.Intn(3) == 0 {
		dir["exit3"] = "out"
	}
	outFiles, inFiles, outCmds, inCmds := []string{}, []string{}, []string{}, []string{}
	for _, n := range FileNames {
		if dir[n] == "out" {
			outFiles = append(outFiles, n)
		} else {
			inFiles = append(inFiles, n)
		}
	}
	if r.Intn(2) == 0 {
		if dir["/dev/null"] == "out" {
			outFiles = append(outFiles, "/dev/null")
		} else {
			inFiles = append(inFiles, "/dev/null")
		}
	}
	for _, n := range []string{"cat", "cat3", "spcat"} {
		if n == "spcat" && r.Intn(3) > 0 {
			continue
		}
		if dir[n] == "out" {
			outCmds = append(outCmds, n)
		} else {
			inCmds = append(inCmds, n)
		}
	}
	// command lines without a command: read from (any run), written to only where NoExec refuses the attempt
	if sandbox && r.Intn(3) == 0 {
		b := pick(r, "empty", "blank")
		if c.Cfg.NE && r.Intn(2) == 0 {
			outCmds = append(outCmds, b)
		} else {
			inCmds = append(inCmds, b)
		}
	}
	if dir["exit3"] == "out" {
		outCmds = append(outCmds, "exit3")
	}
	sysCmds := []string{"cat", "cat3", "empty", "blank", "spcat"}
	if !sandbox {
		sysCmds = []string{"cat", "cat3", "showf1", "showf1"}
	}
	// exit3: has something been flushed into the closed pipe (after which the domain has no further print to it)?
	exit3Open, exit3Dirty, exit3Broken := false, false, false
	execBudget := 0
	if r.Intn(2) == 0 {
		execBudget = 1 + r.Intn(2)
	}
	if sandbox && c.Cfg.NE {
		execBudget = 3 // refused anyway
	}
	n := 3 + r.Intn(6)
	cls0 := func() string {
		if r.Intn(3) == 0 {
			return "computed"
		}
		return "lit"
	}
	// how the name n is written: a file in the spelling of this run
	clsOf := func(n string) string {
		if sp := spell[n]; sp != "" {
			return sp
		}
		return cls0()
	}
	// the shape of a payload (newlines only in the default output mode)
	shape := func(form string) string {
		if sandbox || c.Cfg.OMode != "default" || form == "print2" || r.Intn(2) == 0 {
			return ""
		}
		return pick(r, "nl", "mid", "mid", "midnl", "crlf", "crlf")
	}
	form := func() string {
		if r.Intn(4) == 0 {
			return "printf"
		}
		return "print"
	}
	stdoutForm := func() string {
		switch r.Intn(6) {
		case 0:
			return "printf"
		case 1, 2:
			return "print2"
		}
		return "print"
	}
	for len(c.Acts) < n {
		var a Act
		switch k := r.Intn(100); {
		case k < 20:
			a = Act{Op: "print", Dest: "stdout", Mode: "none", Form: stdoutForm(), Cls: "lit"}
			a.Shape = shape(a.Form)
		case k < 40:
			if len(outFiles) == 0 {
				continue
			}
			a = Act{Op: "print", Dest: "file", Name: pick(r, outFiles...), Mode: pick(r, "trunc", "append"), Form: form()}
			a.Cls, a.Shape = clsOf(a.Name), shape(a.Form)
		case k < 46:
			if c.Cfg.NW {
				continue
			}
			a = Act{Op: "print", Dest: "file", Name: pick(r, "-", "/dev/stdout", "/dev/stderr"), Mode: pick(r, "trunc", "append"), Form: form(), Cls: cls0()}
			a.Shape = shape(a.Form)
		case k < 54:
			if len(outCmds) == 0 || execBudget == 0 {
				continue
			}
			a = Act{Op: "print", Dest: "cmd", Name: pick(r, outCmds...), Mode: "pipe", Form: form(), Cls: cls0()}
			a.Shape = shape(a.Form)
			if a.Name == "exit3" {
				if exit3Broken {
					continue
				}
				exit3Open, exit3Dirty = true, true
			}
		case k < 68:
			a = Act{Op: "close", Name: pick(r, "f1", "f2", "f3", "cat", "cat3", "exit3", "/dev/null", "spcat")}
			a.Cls = clsOf(a.Name)
			if a.Name == "exit3" {
				if dir["exit3"] != "out" {
					continue
				}
				exit3Open, exit3Dirty, exit3Broken = false, false, false
			}
		case k < 76:
			a = Act{Op: "fflush", Name: pick(r, "", "", "f1", "f2", "cat", "cat3"), Cls: "lit"}
			if sp := spell[a.Name]; sp != "" {
				a.Cls = sp
			}
			if dir["exit3"] == "out" && r.Intn(4) == 0 {
				a.Name = "exit3"
			}
			if (a.Name == "" || a.Name == "exit3") && exit3Open && exit3Dirty {
				exit3Dirty, exit3Broken = false, true
			}
		case k < 80:
			if execBudget == 0 {
				continue
			}
			a = Act{Op: "system", Name: pick(r, sysCmds...), Cls: cls0()}
			execBudget--
			if exit3Open && exit3Dirty {
				exit3Dirty, exit3Broken = false, true // system() flushes every stream
			}
		case k < 94:
			nm := "-"
			if len(inFiles) > 0 && r.Intn(5) > 0 {
				nm = pick(r, inFiles...)
			}
			a = Act{Op: "getline_file", Name: nm, Cls: clsOf(nm)}
		default:
			if len(inCmds) == 0 || execBudget == 0 {
				continue
			}
			a = Act{Op: "getline_cmd", Name: pick(r, inCmds...), Cls: cls0()}
		}
		if a.Op == "print" && a.Dest == "cmd" || a.Op == "getline_cmd" {
			// a new process only when the name is not open; count pessimistically
			execBudget--
			if execBudget < 0 {
				execBudget = 0
			}
		}
		c.Acts = append(c.Acts, a)
	}
	switch k := r.Intn(100); {
	case k < 24:
		// operands: up to two that are not files, then stdin, a file that is never written in this run (existing or
		// not), the directory, /dev/null -- or nothing more (the standard input is the main input then)
		// (not the standard input as main input after a child that does not read its input was given it: how much
		// of it is left is a race)
		racy := false
		for _, a := range c.Acts {
			if (a.Op == "system" || a.Op == "getline_cmd") && (a.Name == "empty" || a.Name == "blank" || a.Name == "showf1") &&
				!c.Cfg.NE && len(c.Cfg.Stdin) > 0 {
				racy = true
			}
		}
		nskip := 0
		if r.Intn(3) == 0 && !racy {
			nskip = 1 + r.Intn(2)
		}
		for j := 0; j < nskip; j++ {
			c.Acts = append(c.Acts, Act{Op: "operand", Name: pick(r, "", "v=1"), Cls: pick(r, "lit", "lit", "computed")})
		}
		cand := []string{"-", "d1"}
		if racy {
			cand = []string{"d1"}
		}
		for _, f := range FileNames {
			if dir[f] == "in" {
				cand = append(cand, f)
			}
		}
		if dir["/dev/null"] == "in" {
			cand = append(cand, "/dev/null")
		}
		if nskip == 0 || r.Intn(3) > 0 {
			nm := pick(r, cand...)
			cl := pick(r, "lit", "lit", "computed") // computed: appended to ARGV by the program
			if sp := spell[nm]; sp != "" {
				cl = sp
			}
			c.Acts = append(c.Acts, Act{Op: "operand", Name: nm, Cls: cl})
		}
	case k < 35:
		c.Acts = append(c.Acts, Act{Op: "exit"})
	case k < 50:
		c.Acts = append(c.Acts, Act{Op: "rterror"})
	}
	return c
}

// traceKind: the newer dimension an action exercises, as part of the operation name of a rejected trace
func traceKind(a Act) string { return strings.ReplaceAll(argKind(a), "/", "-") }

func emptyIfNil[T any](x []T) []T {
	if x == nil {
		return []T{}
	}
	return x
}

func noteMaps(ns []Note) []map[string]any {
	out := []map[string]any{}
	for _, n := range ns {
		out = append(out, map[string]any{"k": n.K, "v": n.V, "s": n.S})
	}
	return out
}

// runEvents turns one observed run into the events Trace_IOStreams reads: its config event (cont: this Execute is made
// on the Interpreter of the run before it), one step per action, the end event.
func runEvents(c *Case, obs *Obs, cont bool) []map[string]any {
	var evs []map[string]any
	emit := func(m map[string]any) { evs = append(evs, m) }
	emit(map[string]any{"ev": "step", "act": map[string]any{"op": "config", "cfg": c.Cfg, "cont": cont}, "obs": map[string]any{}})
	// actions whose mark was reached, then the one the run ended in (if any)
	po, pn := 0, 0
	done := len(obs.Marks)
	last := "none"
	k := 0
	for _, a := range c.Acts {
		if a.Op == "operand" || a.Op == "finish" {
			// no statement of its own in BEGIN: everything left over belongs to it
			if a.Op == "operand" && done == k {
				if a.Name == "" || a.Name == "v=1" {
					// not a file: nothing is opened for it, nothing is read through it (when no file operand follows,
					// what the main loop reads from the standard input belongs to the end of the run)
					emit(map[string]any{"ev": "step", "act": actMap(a),
						"obs": map[string]any{"custom": c.Cfg.Custom, "opens": []Open{}, "notes": noteMaps(nil)}})
					last = opName(a) + traceKind(a)
					continue
				}
				emit(map[string]any{"ev": "step", "act": actMap(a),
					"obs": map[string]any{"custom": c.Cfg.Custom, "opens": emptyIfNil(obs.Opens[po:]), "notes": noteMaps(obs.Notes[pn:])}})
				po, pn = len(obs.Opens), len(obs.Notes)
				last = opName(a) + traceKind(a)
			}
			continue
		}
		if k < done {
			m := obs.Marks[k]
			emit(map[string]any{"ev": "step", "act": actMap(a),
				"obs": map[string]any{"custom": c.Cfg.Custom, "opens": emptyIfNil(obs.Opens[po:m.Opens]), "notes": noteMaps(obs.Notes[pn:m.Notes])}})
			po, pn = m.Opens, m.Notes
			last = opName(a) + traceKind(a)
			k++
			continue
		}
		// the action the run ended in (error, exit): no mark
		emit(map[string]any{"ev": "step", "act": actMap(a),
			"obs": map[string]any{"custom": c.Cfg.Custom, "opens": emptyIfNil(obs.Opens[po:]), "notes": noteMaps(obs.Notes[pn:])}})
		po, pn = len(obs.Opens), len(obs.Notes)
		last = opName(a) + traceKind(a)
		break
	}
	files := map[string]any{}
	for _, fn := range FileNames {
		files[fn] = map[string]any{"ex": obs.Files[fn].Ex, "c": obs.Files[fn].C}
	}
	emit(map[string]any{"ev": "step", "act": map[string]any{"op": "end", "last": last},
		"obs": map[string]any{"err": obs.Err != nil || obs.Panic != nil, "starts": emptyIfNil(obs.Starts), "files": files,
			"extra": emptyIfNil(obs.Extra), "stdout": hx.FromBytes(obs.Stdout), "serr": hx.FromBytes(obs.Stderr),
			"stale": emptyIfNil(obs.Stale)}})
	return evs
}

// SessionEvents: a reset event, then the events of every run that was made.
func SessionEvents(runs []RunIn, obs []*Obs) []map[string]any {
	evs := []map[string]any{{"ev": "reset"}}
	for k := range runs {
		if k >= len(obs) {
			break
		}
		c := &Case{Fam: "trace", Cfg: runs[k].Cfg, Acts: runs[k].Acts}
		evs = append(evs, runEvents(c, obs[k], k > 0)...)
	}
	return evs
}

func record(seed int64, n int, out string, sandbox bool) (int, error) {
	f, err := os.Create(out)
	if err != nil {
		return 0, err
	}
	defer f.Close()
	w := bufio.NewWriter(f)
	defer w.Flush()
	enc := json.NewEncoder(w)
	r := rand.New(rand.NewSource(seed*7919 + 13))
	defer Cleanup()
	for t := 0; t < n; t++ {
		nruns := 1
		if sandbox && r.Intn(3) == 0 {
			nruns = 2 + r.Intn(2)
		}
		var runs []RunIn
		usesProc := false
		for k := 0; k < nruns; k++ {
			c := genRun(r, sandbox, k == 0)
			if nruns > 1 && len(c.Acts) > 4 {
				// runs of a session are shorter; the ending (if any) is kept
				lastA := c.Acts[len(c.Acts)-1]
				c.Acts = c.Acts[:3]
				switch lastA.Op {
				case "exit", "rterror":
					c.Acts = append(c.Acts, lastA)
				}
			}
			for _, a := range c.Acts {
				if isExecAct(a) {
					usesProc = true
				}
			}
			runs = append(runs, RunIn{Cfg: c.Cfg, Acts: c.Acts})
		}
		wk := ""
		if !usesProc {
			wk = pick(r, "", "bufio4096", "bufio16", "bufio3")
		}
		obs, prog := RunSession(runs, RunOpts{Marks: true, WKind: wk})
		if obs == nil {
			return t, os.ErrInvalid
		}
		_ = prog
		unsynced := false
		for _, o := range obs {
			if o.Unsynced {
				unsynced = true
			}
		}
		if unsynced {
			continue // a command did not report in time: nothing can be said about this run
		}
		for _, ev := range SessionEvents(runs, obs) {
			enc.Encode(ev)
		}
	}
	return n, nil
}

func RecordSandbox(seed int64, n int, out string) (int, error)  { return record(seed, n, out, true) }
func RecordDelivery(seed int64, n int, out string) (int, error) { return record(seed, n, out, false) }
