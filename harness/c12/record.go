package c12

import (
	"bufio"
	"encoding/json"
	"math/rand"
	"os"

	"github.com/benhoyt/goawk/verifharness/hx"
)

// The trace direction: a seeded driver makes random runs that are longer and
// use more names than the exhaustive families, executes them on the real
// interpreter and writes what was observed, action by action, for
// Trace_IOStreams to validate.  The driver knows nothing about the expected
// behaviour; it only keeps inside the domain the specification speaks about
// (one name is used in one direction per run, the operand comes last, no
// output to "-" / /dev/std* under NoFileWrites).

func actMap(a Act) map[string]any {
	return map[string]any{"op": a.Op, "name": a.Name, "cls": a.Cls, "dest": a.Dest, "mode": a.Mode, "form": a.Form}
}

func pick(r *rand.Rand, xs ...string) string { return xs[r.Intn(len(xs))] }

func genRun(r *rand.Rand, sandbox bool) *Case {
	c := &Case{Fam: "trace"}
	c.Cfg.FailAt = -1
	c.Cfg.Custom = true
	if sandbox {
		c.Cfg.NE, c.Cfg.NW, c.Cfg.NR = r.Intn(3) == 0, r.Intn(3) == 0, r.Intn(3) == 0
		if r.Intn(4) == 0 {
			c.Cfg.Stdin = []hx.BS{hx.FromBytes([]byte("s"))}
		}
	}
	if c.Cfg.Stdin == nil {
		c.Cfg.Stdin = []hx.BS{}
	}
	c.Cfg.Pre = []string{}
	for _, n := range FileNames {
		if r.Intn(2) == 0 {
			c.Cfg.Pre = append(c.Cfg.Pre, n)
		}
	}
	// direction of every name in this run
	dir := map[string]string{}
	for _, n := range []string{"f1", "f2", "f3", "cat", "cat3"} {
		dir[n] = pick(r, "out", "in")
	}
	outFiles, inFiles, outCmds, inCmds := []string{}, []string{}, []string{}, []string{}
	for _, n := range FileNames {
		if dir[n] == "out" {
			outFiles = append(outFiles, n)
		} else {
			inFiles = append(inFiles, n)
		}
	}
	for _, n := range []string{"cat", "cat3"} {
		if dir[n] == "out" {
			outCmds = append(outCmds, n)
		} else {
			inCmds = append(inCmds, n)
		}
	}
	execBudget := 0
	if r.Intn(2) == 0 {
		execBudget = 1 + r.Intn(2)
	}
	if sandbox && c.Cfg.NE {
		execBudget = 3 // refused anyway
	}
	n := 3 + r.Intn(6)
	cls := func() string {
		if r.Intn(3) == 0 {
			return "computed"
		}
		return "lit"
	}
	form := func() string {
		if r.Intn(4) == 0 {
			return "printf"
		}
		return "print"
	}
	for len(c.Acts) < n {
		var a Act
		switch k := r.Intn(100); {
		case k < 20:
			a = Act{Op: "print", Dest: "stdout", Mode: "none", Form: form(), Cls: "lit"}
		case k < 40:
			if len(outFiles) == 0 {
				continue
			}
			a = Act{Op: "print", Dest: "file", Name: pick(r, outFiles...), Mode: pick(r, "trunc", "append"), Form: form(), Cls: cls()}
		case k < 46:
			if c.Cfg.NW {
				continue
			}
			a = Act{Op: "print", Dest: "file", Name: pick(r, "-", "/dev/stdout", "/dev/stderr"), Mode: pick(r, "trunc", "append"), Form: form(), Cls: cls()}
		case k < 54:
			if len(outCmds) == 0 || execBudget == 0 {
				continue
			}
			a = Act{Op: "print", Dest: "cmd", Name: pick(r, outCmds...), Mode: "pipe", Form: form(), Cls: cls()}
		case k < 68:
			a = Act{Op: "close", Name: pick(r, "f1", "f2", "f3", "cat", "cat3"), Cls: cls()}
		case k < 76:
			a = Act{Op: "fflush", Name: pick(r, "", "", "f1", "f2", "cat", "cat3"), Cls: "lit"}
		case k < 80:
			if execBudget == 0 {
				continue
			}
			a = Act{Op: "system", Name: pick(r, "cat", "cat3"), Cls: cls()}
			execBudget--
		case k < 94:
			nm := "-"
			if len(inFiles) > 0 && r.Intn(5) > 0 {
				nm = pick(r, inFiles...)
			}
			a = Act{Op: "getline_file", Name: nm, Cls: cls()}
		default:
			if len(inCmds) == 0 || execBudget == 0 {
				continue
			}
			a = Act{Op: "getline_cmd", Name: pick(r, inCmds...), Cls: cls()}
		}
		if a.Op == "print" && a.Dest == "cmd" || a.Op == "getline_cmd" {
			// a new process only when the name is not open; count pessimistically
			execBudget--
			if execBudget < 0 {
				execBudget = 0
			}
		}
		c.Acts = append(c.Acts, a)
	}
	switch k := r.Intn(100); {
	case k < 20:
		// operand: a file that exists and is never written in this run, or stdin
		cand := []string{"-"}
		for _, f := range c.Cfg.Pre {
			if dir[f] == "in" {
				cand = append(cand, f)
			}
		}
		c.Acts = append(c.Acts, Act{Op: "operand", Name: pick(r, cand...), Cls: "lit"})
	case k < 35:
		c.Acts = append(c.Acts, Act{Op: "exit"})
	case k < 50:
		c.Acts = append(c.Acts, Act{Op: "rterror"})
	}
	return c
}

func emptyIfNil[T any](x []T) []T {
	if x == nil {
		return []T{}
	}
	return x
}

func noteMaps(ns []Note) []map[string]any {
	out := []map[string]any{}
	for _, n := range ns {
		out = append(out, map[string]any{"k": n.K, "v": n.V, "s": n.S})
	}
	return out
}

// EventsOf turns one observed run into the events Trace_IOStreams reads.
func EventsOf(c *Case, obs *Obs) []map[string]any {
	var evs []map[string]any
	emit := func(m map[string]any) { evs = append(evs, m) }
	emit(map[string]any{"ev": "reset"})
	emit(map[string]any{"ev": "step", "act": map[string]any{"op": "config", "cfg": c.Cfg}, "obs": map[string]any{}})
	// actions whose mark was reached, then the one the run ended in (if any)
	po, pn := 0, 0
	done := len(obs.Marks)
	last := "none"
	k := 0
	for _, a := range c.Acts {
		if a.Op == "operand" || a.Op == "finish" {
			// no statement of its own in BEGIN: everything left over belongs to it
			if a.Op == "operand" && done == k {
				emit(map[string]any{"ev": "step", "act": actMap(a),
					"obs": map[string]any{"opens": emptyIfNil(obs.Opens[po:]), "notes": noteMaps(obs.Notes[pn:])}})
				po, pn = len(obs.Opens), len(obs.Notes)
				last = opName(a)
			}
			continue
		}
		if k < done {
			m := obs.Marks[k]
			emit(map[string]any{"ev": "step", "act": actMap(a),
				"obs": map[string]any{"opens": emptyIfNil(obs.Opens[po:m.Opens]), "notes": noteMaps(obs.Notes[pn:m.Notes])}})
			po, pn = m.Opens, m.Notes
			last = opName(a)
			k++
			continue
		}
		// the action the run ended in (error, exit): no mark
		emit(map[string]any{"ev": "step", "act": actMap(a),
			"obs": map[string]any{"opens": emptyIfNil(obs.Opens[po:]), "notes": noteMaps(obs.Notes[pn:])}})
		po, pn = len(obs.Opens), len(obs.Notes)
		last = opName(a)
		break
	}
	files := map[string]any{}
	for _, fn := range FileNames {
		files[fn] = map[string]any{"ex": obs.Files[fn].Ex, "c": obs.Files[fn].C}
	}
	emit(map[string]any{"ev": "step", "act": map[string]any{"op": "end", "last": last},
		"obs": map[string]any{"err": obs.Err != nil || obs.Panic != nil, "starts": emptyIfNil(obs.Starts), "files": files,
			"extra": emptyIfNil(obs.Extra), "stdout": hx.FromBytes(obs.Stdout), "serr": hx.FromBytes(obs.Stderr)}})
	return evs
}

func record(seed int64, n int, out string, sandbox bool) (int, error) {
	f, err := os.Create(out)
	if err != nil {
		return 0, err
	}
	defer f.Close()
	w := bufio.NewWriter(f)
	defer w.Flush()
	enc := json.NewEncoder(w)
	r := rand.New(rand.NewSource(seed*7919 + 13))
	defer Cleanup()
	for t := 0; t < n; t++ {
		c := genRun(r, sandbox)
		usesProc := false
		for _, a := range c.Acts {
			if isExecAct(a) {
				usesProc = true
			}
		}
		obs, prog := Run(c, RunOpts{Marks: true, Bufio: !usesProc && r.Intn(2) == 0})
		if obs == nil {
			return t, os.ErrInvalid
		}
		_ = prog
		for _, ev := range EventsOf(c, obs) {
			enc.Encode(ev)
		}
	}
	return n, nil
}

func RecordSandbox(seed int64, n int, out string) (int, error)  { return record(seed, n, out, true) }
func RecordDelivery(seed int64, n int, out string) (int, error) { return record(seed, n, out, false) }
