// Package c12 binds spec/IOStreams.tla (properties C12 and C13) to the real
// interpreter.  A behaviour exported by Gen_IOStreams (configuration, actions,
// Prediction(st)) is rendered to an AWK program and run with
//   - Config.OpenFile wrapped by a logger (the spec's `opens`),
//   - Config.ShellCommand pointing at a shell line that appends the command to
//     a sentinel log before exec'ing it (the spec's `procs`),
//   - a fresh directory whose listing and contents are read afterwards (`fsys`),
//   - Config.Output / Config.Error captured (`sdel` + children, `serr`),
//   - a native function note() receiving every close/getline/system result.
//
// Only these observables are compared with the prediction.
//
// Names.  The model's files f1 f2 f3 and directory d1 live in the work
// directory; act.cls selects how the program spells the path: "lit" /
// "computed" (the absolute path, written literally / concatenated at run time),
// "rel" (./<path relative to the process's working directory>), "dotdot"
// (<dir>/../w/f1) and "devdd" (/dev/..<dir>/f1, computed).  The OpenFile
// wrapper records the file a call DENOTES (the cleaned absolute path), not its
// spelling.  /dev/null is itself.  The commands "empty", "blank" and "spcat"
// are the command lines "", "  " and "  cat".  Config.NewlineOutput is set
// from cfg.nlmode ("raw", "crlf", "smart" / absent = the default).
//
// "nd/g1" is a file name in a directory (nd) that does not exist.  In the
// spelling "jailed" (custom OpenFile only) the program writes names relative to
// the work directory under a per-case unique first component ("nd.<id>/g1") and
// the OpenFile wrapper resolves relative names in the work directory, as
// os.Root.OpenFile would: whatever the interpreter does to the name without going
// through OpenFile lands in the process's working directory, which is looked at
// after the run.  Before and after each run the tree under the work directory is
// listed; the entries that came into being are compared with Prediction.created.
//
// A print action of form "implied" is the implied print of a rule with a pattern
// and no action.  A history that has one is rendered as a MAIN LOOP: the input
// is one record per action (the payload letter of that action), the k-th action
// is the rule `NR == k` (implied print of the record) or `NR == k { statement }`.
//
// Payload shape "block" is one string of N copies of the letter (native function
// blk); N is RunOpts.Block; in predictions it is the symbol 1000 + letter, which
// Expand replaces by the N bytes.
//
// A SESSION (fam "session") is a sequence of such runs on ONE interp.Interpreter
// (interp.New once, Execute per run), each Execute with the Config of its own
// run: own flags, own OpenFile wrapper (or none), own output writers; the work
// directory is shared, as the model's file system is.  The one program
// branches on the variable RUN set through Config.Vars.
package c12

import (
	"bufio"
	"bytes"
	"context"
	"errors"
	"fmt"
	"io"
	"os"
	"path/filepath"
	"runtime"
	"sort"
	"strings"
	"sync"
	"sync/atomic"
	"time"

	"github.com/benhoyt/goawk/interp"
	"github.com/benhoyt/goawk/parser"
	"github.com/benhoyt/goawk/verifharness/hx"
)

type Cfg struct {
	NE     bool     `json:"ne"`
	NW     bool     `json:"nw"`
	NR     bool     `json:"nr"`
	Custom bool     `json:"custom"`
	FailAt int      `json:"failAt"`
	WKind  string   `json:"wkind"`  // "plain" | "bufio3" | "bufio16" | "bufio4096": Config.Output
	OMode  string   `json:"omode"`  // "default" | "csv" | "tsv": Config.OutputMode
	NLMode string   `json:"nlmode"` // "raw" | "crlf" | "smart": Config.NewlineOutput
	Stdin  []hx.BS  `json:"stdin"`
	Pre    []string `json:"pre"`
}

type Act struct {
	Op   string `json:"op"`
	Name string `json:"name,omitempty"`
	Cls  string `json:"cls,omitempty"`
	Dest string `json:"dest,omitempty"`
	Mode string `json:"mode,omitempty"`
	Form string `json:"form,omitempty"`
	// Shape of the string argument of a print action: "" / "plain", "nl", "mid", "midnl", "crlf"
	Shape string `json:"shape,omitempty"`
}

type Open struct {
	Name string `json:"name"`
	Mode string `json:"mode"`
}

type Note struct {
	K string `json:"k"`
	V int    `json:"v"`
	S hx.BS  `json:"s"`
	J bool   `json:"j"`
}

type FileSt struct {
	Ex bool  `json:"ex"`
	C  hx.BS `json:"c"`
}

type Kid struct {
	Out hx.BS `json:"out"`
	Lo  int   `json:"lo"`
	Hi  int   `json:"hi"`
	Sys bool  `json:"sys"` // a system() child (lo = hi) rather than a command written to
}

type Pred struct {
	Err       bool              `json:"err"`
	ErrJudged bool              `json:"errJudged"`
	Opens     []Open            `json:"opens"`
	Starts    []string          `json:"starts"`
	Files     map[string]FileSt `json:"files"`
	Created   *[]string         `json:"created"` // nil: not predicted (cases exported by an older model)
	Stdout    struct {
		Prog hx.BS `json:"prog"`
		Kids []Kid `json:"kids"`
	} `json:"stdout"`
	StdoutJudged bool   `json:"stdoutJudged"`
	Serr         hx.BS  `json:"serr"`
	SerrJudged   bool   `json:"serrJudged"`
	Notes        []Note `json:"notes"`
	OnlyErr      bool   `json:"onlyErr"`
}

type Case struct {
	Fam  string `json:"fam"`
	Cfg  Cfg    `json:"cfg"`
	Acts []Act  `json:"acts"`
	Pred Pred   `json:"pred"`
	// Block is the number of bytes a block symbol of the prediction has been expanded to (0: none)
	Block int `json:"-"`
	// SigClass, when set, replaces the flag class in failure signatures (runs of a session)
	SigClass string `json:"-"`
}

// RunIn is one Execute of a session: its configuration and its history.
type RunIn struct {
	Cfg  Cfg   `json:"cfg"`
	Acts []Act `json:"acts"`
	Pred Pred  `json:"pred"`
}

// SessionCase is a sequence of runs on one Interpreter.
type SessionCase struct {
	Fam  string  `json:"fam"`
	Runs []RunIn `json:"runs"`
}

var FileNames = []string{"f1", "f2", "f3"}

const cat3Text = "sh -c 'cat; exit 3'"

// exit3: a command that closes its standard input at once, says so in the
// control directory (so that the harness can wait for it: what the program
// writes afterwards certainly meets a closed pipe), and exits with status 3.
const exit3Head = `sh -c 'exec 0<&-; echo x >> "$0/gone"; exit `
const exit3Tail = `' `

func exit3Text(ctl string) string { return exit3Head + "3" + exit3Tail + ctl }

// showf1: a command that copies file f1 (as it is on disk at that moment) to
// its standard output.
func showf1Text(dir string) string { return "cat '" + dir + "/f1' 2>/dev/null" }

var (
	cwdOnce sync.Once
	cwdPath string
)

func cwd() string {
	cwdOnce.Do(func() {
		d, err := os.Getwd()
		if err != nil {
			panic(err)
		}
		cwdPath = d
	})
	return cwdPath
}

// spelled returns the path of the entry `base` of the work directory in the spelling cls.
func spelled(dir, base, cls string) string {
	switch cls {
	case "rel":
		r, err := filepath.Rel(cwd(), dir)
		if err != nil {
			panic(err)
		}
		return "./" + r + "/" + base
	case "dotdot":
		return dir + "/../" + filepath.Base(dir) + "/" + base
	case "devdd":
		return "/dev/.." + dir + "/" + base
	}
	return dir + "/" + base
}

// denoted maps a name handed to the open-file function to the model's name of the file it denotes.
func denoted(name, dir string) string {
	if name == "" {
		return name
	}
	abs := name
	if !filepath.IsAbs(abs) {
		abs = filepath.Join(cwd(), abs)
	}
	abs = filepath.Clean(abs)
	if filepath.Dir(abs) == dir {
		return filepath.Base(abs)
	}
	if d := filepath.Dir(abs); filepath.Dir(d) == dir && strings.HasPrefix(filepath.Base(d), "nd") {
		// an entry of the directory that does not exist ("nd", or "nd.<id>" in the jailed spelling)
		return "nd/" + filepath.Base(abs)
	}
	if abs == "/dev/null" {
		return abs
	}
	return name
}

const (
	emptyText = ""
	blankText = "  "
	spcatText = "  cat"
)

// nameExpr renders a name as an AWK expression; D is the AWK variable holding
// the work directory, C the one holding the control directory.
func nameExpr(n, cls, dir, ctl string) string {
	comp := cls == "computed"
	switch n {
	case "f1", "f2", "f3", "d1":
		switch cls {
		case "computed":
			return `(D "/" "` + n[:1] + `" ` + n[1:] + `)`
		case "devdd":
			return `("/dev/.." D "/` + n + `")`
		case "dotdot":
			return `(D "/../` + filepath.Base(dir) + `/` + n + `")`
		}
		return hx.AwkString([]byte(spelled(dir, n, cls)))
	case "nd/g1":
		switch cls {
		case "computed":
			return `(D "/n" "d/g" 1)`
		case "jailed":
			return `(J "/g" 1)`
		}
		return hx.AwkString([]byte(spelled(dir, n, cls)))
	case "/dev/null":
		if comp {
			return `("/dev/" "null")`
		}
		return `"/dev/null"`
	case "empty":
		if comp {
			return `substr("x", 2)`
		}
		return `""`
	case "blank":
		if comp {
			return `sprintf("%2s", "")`
		}
		return `"  "`
	case "spcat":
		if comp {
			return `(sprintf("%2s", "") "cat")`
		}
		return `"  cat"`
	case "-":
		if comp {
			return `substr("x-", 2)`
		}
		return `"-"`
	case "/dev/stdout", "/dev/stderr":
		if comp {
			return `("/dev/" "` + n[5:] + `")`
		}
		return hx.AwkString([]byte(n))
	case "cat":
		if comp {
			return `("c" "at")`
		}
		return `"cat"`
	case "cat3":
		if comp {
			return `("sh -c 'cat; exit " 3 "'")`
		}
		return hx.AwkString([]byte(cat3Text))
	case "exit3":
		if comp {
			return "(" + hx.AwkString([]byte(exit3Head)) + " 3 " + hx.AwkString([]byte(exit3Tail)) + " C)"
		}
		return hx.AwkString([]byte(exit3Text(ctl)))
	case "showf1":
		if comp {
			return `("cat '" D "/f1' 2>/dev/null")`
		}
		return hx.AwkString([]byte(showf1Text(dir)))
	}
	return hx.AwkString([]byte(n))
}

// renderBody renders the statements of one history (the body of BEGIN);
// marks adds mark(i) after action i.  operand reports the file operand, if any.
func renderBody(sb *strings.Builder, acts []Act, dir, ctl string, marks bool, indent string) (args []string, mainRule, ok bool) {
	gone := 0 // processes of exit3 started so far in this run
	argvAtRunTime := false
	exit3Open := false
	for i, a := range acts {
		pay := string(rune(96 + i + 1))
		up := string(rune(64 + i + 1))
		nm := nameExpr(a.Name, a.Cls, dir, ctl)
		var s string
		switch a.Op {
		case "print":
			switch a.Shape {
			case "", "plain":
			case "nl":
				pay += `\n`
			case "mid":
				pay += `\n` + up
			case "midnl":
				pay += `\n` + up + `\n`
			case "crlf":
				pay += `\r\n` + up
			case "block":
			default:
				return nil, false, false
			}
			arg := `"` + pay + `"`
			if a.Shape == "block" {
				arg = `blk("` + pay + `")`
			}
			stmt := `print ` + arg
			switch a.Form {
			case "", "print":
			case "printf":
				stmt = `printf "%s", ` + arg
			case "print2":
				stmt = `print ` + arg + `, ` + arg
			default:
				// "implied" has no statement: see RenderLoop
				return nil, false, false
			}
			switch a.Dest {
			case "stdout":
				s = stmt
			case "file":
				if a.Mode == "append" {
					s = stmt + " >> " + nm
				} else {
					s = stmt + " > " + nm
				}
			case "cmd":
				s = stmt + " | " + nm
				if a.Name == "exit3" {
					// wait until the command has closed its standard input
					if !exit3Open {
						exit3Open = true
						gone++
					}
					s += fmt.Sprintf("; waitgone(%d)", gone)
				}
			default:
				return nil, false, false
			}
		case "close":
			s = `note("close", close(` + nm + `), "")`
			if a.Name == "exit3" {
				exit3Open = false
			}
		case "fflush":
			if a.Name == "" {
				s = `note("fflush", fflush(), "")`
			} else {
				s = `note("fflush", fflush(` + nm + `), "")`
			}
		case "system":
			s = `note("system", system(` + nm + `), "")`
		case "getline_file":
			s = `gl = ""; gr = (getline gl < ` + nm + `); note("getline", gr, gl)`
		case "getline_cmd":
			s = `gl = ""; gr = (` + nm + ` | getline gl); note("getline", gr, gl)`
		case "operand":
			mainRule = true
			if a.Cls == "computed" {
				argvAtRunTime = true
			}
			if argvAtRunTime {
				// the program itself appends the operand to ARGV (in BEGIN; no mark: the operand is read afterwards)
				var ex string
				switch a.Name {
				case "":
					ex = `substr("x", 2)`
				case "v=1":
					ex = `("v=" 1)`
				default:
					ex = nameExpr(a.Name, a.Cls, dir, ctl)
				}
				sb.WriteString(indent + "ARGV[ARGC++] = " + ex + "\n")
				continue
			}
			switch a.Name {
			case "-", "", "v=1":
				args = append(args, a.Name)
			case "/dev/null":
				args = append(args, a.Name)
			default:
				args = append(args, spelled(dir, a.Name, a.Cls))
			}
			continue
		case "exit":
			s = "exit 3"
		case "rterror":
			s = "zz = 1 / zero"
		case "finish":
			continue
		default:
			return nil, false, false
		}
		sb.WriteString(indent + s + "\n")
		if marks {
			fmt.Fprintf(sb, "%smark(%d)\n", indent, i+1)
		}
	}
	return args, mainRule, true
}

// HasImplied: does the history contain the implied print of a rule without an action?
func HasImplied(acts []Act) bool {
	for _, a := range acts {
		if a.Op == "print" && a.Form == "implied" {
			return true
		}
	}
	return false
}

// LoopInput is the input that drives a main-loop rendering: one record per action, the payload letter of that action.
func LoopInput(acts []Act) []byte {
	var b []byte
	for i := range acts {
		b = append(b, byte(96+i+1), '\n')
	}
	return b
}

// RenderLoop renders a history as a main loop over LoopInput: action k is executed when record k is read; an
// implied print is a rule with a pattern and no action.  Only actions that do not touch the standard input.
func RenderLoop(acts []Act, dir, ctl string, marks bool) (prog string, ok bool) {
	var sb strings.Builder
	for i, a := range acts {
		switch a.Op {
		case "getline_file", "getline_cmd", "system", "operand":
			return "", false
		case "finish":
			continue
		}
		if a.Op == "print" && a.Form == "implied" {
			if a.Dest != "stdout" || (a.Shape != "" && a.Shape != "plain") {
				return "", false
			}
			fmt.Fprintf(&sb, "NR == %d\n", i+1)
			if marks {
				fmt.Fprintf(&sb, "NR == %d { mark(%d) }\n", i+1, i+1)
			}
			continue
		}
		var body strings.Builder
		one := make([]Act, i+1) // renderBody derives the payload from the position
		for j := range one {
			one[j] = Act{Op: "finish"}
		}
		one[i] = a
		if _, _, ok := renderBody(&body, one, dir, ctl, marks, "  "); !ok {
			return "", false
		}
		fmt.Fprintf(&sb, "NR == %d {\n%s}\n", i+1, body.String())
	}
	return sb.String(), true
}

// Render builds the program for a history; marks adds mark(i) after action i.
func Render(acts []Act, dir, ctl string, marks bool) (prog string, args []string, ok bool) {
	if HasImplied(acts) {
		prog, ok = RenderLoop(acts, dir, ctl, marks)
		return prog, nil, ok
	}
	var sb strings.Builder
	sb.WriteString("BEGIN {\n")
	args, mainRule, ok := renderBody(&sb, acts, dir, ctl, marks, "  ")
	if !ok {
		return "", nil, false
	}
	sb.WriteString("}\n")
	if mainRule {
		sb.WriteString("{ note(\"rec\", 0, $0) }\n")
	}
	return sb.String(), args, true
}

// RenderSession builds ONE program for all runs of a session: the run to
// execute is chosen by the variable RUN (set through Config.Vars).
func RenderSession(runs []RunIn, dir, ctl string, marks bool) (prog string, args [][]string, ok bool) {
	if len(runs) == 1 {
		p, a, ok := Render(runs[0].Acts, dir, ctl, marks)
		return p, [][]string{a}, ok
	}
	var sb strings.Builder
	var recRuns []string
	sb.WriteString("BEGIN {\n")
	for k, r := range runs {
		fmt.Fprintf(&sb, "  if (RUN == %d) {\n", k+1)
		a, mainRule, ok := renderBody(&sb, r.Acts, dir, ctl, marks, "    ")
		if !ok {
			return "", nil, false
		}
		sb.WriteString("  }\n")
		args = append(args, a)
		if mainRule {
			recRuns = append(recRuns, fmt.Sprintf("RUN == %d", k+1))
		}
	}
	sb.WriteString("}\n")
	if len(recRuns) > 0 {
		// a run without an operand reads its (private) standard input to the end here and sees nothing of it
		sb.WriteString(strings.Join(recRuns, " || ") + " { note(\"rec\", 0, $0) }\n")
	}
	return sb.String(), args, true
}

// ---- writers ----

// LockedBuf is a concurrency-safe byte sink (children and the interpreter may
// write to it at the same time; whether they do is StdoutShare's business).
type LockedBuf struct {
	mu sync.Mutex
	b  []byte
}

func (l *LockedBuf) Write(p []byte) (int, error) {
	l.mu.Lock()
	l.b = append(l.b, p...)
	l.mu.Unlock()
	return len(p), nil
}
func (l *LockedBuf) Bytes() []byte {
	l.mu.Lock()
	defer l.mu.Unlock()
	return append([]byte(nil), l.b...)
}

var errInjected = errors.New("injected write failure")

// FailWriter accepts k bytes in total, then fails for ever.  It remembers how
// many actions of the program had been completed (mark() calls) when the
// first write failed: the action in progress at that moment is the one whose
// write met the failure.
type FailWriter struct {
	mu       sync.Mutex
	left     int
	got      []byte
	marks    *int64
	FailMark int // -1: no write has failed
}

func (f *FailWriter) Write(p []byte) (int, error) {
	f.mu.Lock()
	defer f.mu.Unlock()
	if len(p) <= f.left {
		f.left -= len(p)
		f.got = append(f.got, p...)
		return len(p), nil
	}
	n := f.left
	f.got = append(f.got, p[:n]...)
	f.left = 0
	if f.FailMark < 0 && f.marks != nil {
		f.FailMark = int(atomic.LoadInt64(f.marks))
	}
	return n, errInjected
}

// ---- one run ----

type Obs struct {
	Stdout   []byte
	Stderr   []byte
	Err      error
	Panic    any
	Stack    string
	Timeout  bool
	Opens    []Open
	Stale    []Open // calls, during this run, of an open-file function configured for ANOTHER run of the session
	Starts   []string
	Files    map[string]FileSt
	Extra    []string // unexpected directory entries
	Created  []string // entries that came into being during the run: under the work directory (model names), "cwd:<name>" in the process's working directory
	Notes    []Note
	Marks    []MarkPos
	FailMark int  // see FailWriter (-1: no write failed, or no failing writer)
	Unsynced bool // a command that should have closed its standard input did not report in time: run not judged
	goneBase int  // lines of the "gone" file when this run began
}

type MarkPos struct{ I, Opens, Notes int }

var (
	baseOnce sync.Once
	baseDir  string
	caseSeq  int64
)

func base() string {
	baseOnce.Do(func() {
		// inside the check's work directory (removed by the framework) when possible
		d, err := os.MkdirTemp(".", "vio")
		if err == nil {
			d, err = filepath.Abs(d)
		}
		if err != nil {
			d, err = os.MkdirTemp("", "vio")
		}
		if err != nil {
			panic(err)
		}
		baseDir = d
	})
	return baseDir
}

// Cleanup removes the scratch tree (called by modes that finish in-process).
func Cleanup() {
	if baseDir != "" {
		os.RemoveAll(baseDir)
	}
}

const shellLine = `printf '%s\n' "$1" >> "$0/starts.log"; eval "exec $1"`

func openClass(flag int) string {
	switch {
	case flag&os.O_TRUNC != 0:
		return "trunc"
	case flag&os.O_APPEND != 0:
		return "append"
	case flag&(os.O_WRONLY|os.O_RDWR) != 0:
		return "write-other"
	}
	return "read"
}

type RunOpts struct {
	Marks bool
	Block int // the number of bytes of a payload of shape "block"
	WKind string // when set (and the writer never fails): Config.Output of this kind instead of the configured one
}

func bufSize(wkind string) int {
	switch wkind {
	case "bufio3":
		return 3
	case "bufio16":
		return 16
	case "bufio4096":
		return 4096
	}
	return 0
}

// GoneWait bounds the wait for a command to report that it closed its stdin.
var GoneWait = 5 * time.Second

// Run executes the history of c on the real interpreter.
func Run(c *Case, o RunOpts) (*Obs, string) {
	obs, prog := RunSession([]RunIn{{Cfg: c.Cfg, Acts: c.Acts}}, o)
	if obs == nil {
		return nil, prog
	}
	return obs[0], prog
}

// RunSession executes the runs, in order, on ONE interp.Interpreter (interp.New once, one Execute per run, each
// with the Config of its own run) in one work directory.
func RunSession(runs []RunIn, o RunOpts) ([]*Obs, string) {
	id := atomic.AddInt64(&caseSeq, 1)
	root := filepath.Join(base(), fmt.Sprint(id))
	dir := filepath.Join(root, "w")
	ctl := root // the sentinel log of process starts lives beside, not inside, the work directory
	if err := os.MkdirAll(dir, 0o755); err != nil {
		panic(err)
	}
	defer os.RemoveAll(root)
	if err := os.Mkdir(filepath.Join(dir, "d1"), 0o755); err != nil {
		panic(err)
	}
	for _, n := range runs[0].Cfg.Pre {
		if err := os.WriteFile(filepath.Join(dir, n), []byte("o\n"), 0o644); err != nil {
			panic(err)
		}
	}
	prog, argss, ok := RenderSession(runs, dir, ctl, o.Marks)
	if !ok {
		return nil, ""
	}
	jail := fmt.Sprintf("nd.%d", id) // first component of the names of the "jailed" spelling
	defer os.RemoveAll(filepath.Join(cwd(), jail))
	block := o.Block
	if block <= 0 {
		block = 1
	}
	all := make([]*Obs, len(runs))
	for k := range all {
		all[k] = &Obs{Files: map[string]FileSt{}, FailMark: -1}
	}
	var mu sync.Mutex
	cur := 0 // index of the run being executed (guarded by mu)
	var nmarks int64
	// native functions are bound once per Interpreter (at its first Execute): they look up the current run
	funcs := map[string]any{
		"note": func(k string, v float64, s string) {
			mu.Lock()
			ob := all[cur]
			ob.Notes = append(ob.Notes, Note{K: k, V: int(v), S: hx.FromBytes([]byte(s))})
			mu.Unlock()
		},
		"blk": func(s string) string { return strings.Repeat(s, block) },
		"mark": func(i int) {
			mu.Lock()
			ob := all[cur]
			ob.Marks = append(ob.Marks, MarkPos{i, len(ob.Opens), len(ob.Notes)})
			atomic.AddInt64(&nmarks, 1)
			mu.Unlock()
		},
		// waitgone(k): wait until k processes of exit3 (in the current run) have closed their standard input
		"waitgone": func(k int) {
			mu.Lock()
			ob := all[cur]
			gb := ob.goneBase
			mu.Unlock()
			deadline := time.Now().Add(GoneWait)
			for {
				if fi, err := os.Stat(filepath.Join(ctl, "gone")); err == nil && int(fi.Size())/2-gb >= k {
					return
				}
				if time.Now().After(deadline) {
					mu.Lock()
					ob.Unsynced = true
					mu.Unlock()
					return
				}
				time.Sleep(200 * time.Microsecond)
			}
		},
	}
	var in *interp.Interpreter
	var perr error
	var ppanic any
	func() {
		defer func() {
			if r := recover(); r != nil {
				ppanic = r
			}
		}()
		var p *parser.Program
		p, perr = parser.ParseProgram([]byte(prog), &parser.ParserConfig{Funcs: funcs})
		if perr == nil {
			in, perr = interp.New(p)
		}
	}()
	if ppanic != nil {
		return nil, prog + fmt.Sprintf("\nPARSE PANIC: %v", ppanic)
	}
	if perr != nil {
		return nil, prog + "\nPARSE ERROR: " + perr.Error()
	}
	startsSeen := 0
	for k := range runs {
		rc := runs[k].Cfg
		obs := all[k]
		mu.Lock()
		cur = k
		if fi, err := os.Stat(filepath.Join(ctl, "gone")); err == nil {
			obs.goneBase = int(fi.Size()) / 2
		}
		mu.Unlock()
		atomic.StoreInt64(&nmarks, 0)
		var stdin []byte
		for _, l := range rc.Stdin {
			stdin = append(stdin, l.Bytes()...)
			stdin = append(stdin, '\n')
		}
		if len(runs) == 1 && HasImplied(runs[k].Acts) {
			stdin = LoopInput(runs[k].Acts)
		}
		before := listTree(dir)
		out := &LockedBuf{}
		errb := &LockedBuf{}
		var fw *FailWriter
		vars := []string{"D", dir, "C", ctl, "J", jail}
		if len(runs) > 1 {
			vars = append(vars, "RUN", fmt.Sprint(k+1))
		}
		cfg := &interp.Config{
			Stdin:        bytes.NewReader(stdin),
			Error:        errb,
			Args:         argss[k],
			Vars:         vars,
			NoExec:       rc.NE,
			NoFileWrites: rc.NW,
			NoFileReads:  rc.NR,
			ShellCommand: []string{"/bin/sh", "-c", shellLine, ctl},
			Funcs:        funcs,
			Environ:      []string{},
		}
		switch rc.NLMode {
		case "raw":
			cfg.NewlineOutput = interp.RawNewlineMode
		case "crlf":
			cfg.NewlineOutput = interp.CRLFNewlineMode
		}
		switch rc.OMode {
		case "csv":
			cfg.OutputMode = interp.CSVMode
		case "tsv":
			cfg.OutputMode = interp.TSVMode
		}
		var sink io.Writer = out
		wkind := rc.WKind
		if rc.FailAt >= 0 {
			fw = &FailWriter{left: rc.FailAt, marks: &nmarks, FailMark: -1}
			sink = fw
		} else if o.WKind != "" {
			wkind = o.WKind
		}
		if sz := bufSize(wkind); sz > 0 {
			cfg.Output = bufio.NewWriterSize(sink, sz)
		} else {
			cfg.Output = sink
		}
		if rc.Custom {
			me := k
			cfg.OpenFile = func(name string, flag int, perm os.FileMode) (*os.File, error) {
				if !filepath.IsAbs(name) && strings.HasPrefix(name, jail+"/") {
					// the jail: names relative to its root are resolved in the work directory
					name = filepath.Join(dir, name)
				}
				n := denoted(name, dir)
				mu.Lock()
				if cur == me {
					all[me].Opens = append(all[me].Opens, Open{n, openClass(flag)})
				} else {
					all[cur].Stale = append(all[cur].Stale, Open{n, openClass(flag)})
				}
				mu.Unlock()
				return os.OpenFile(name, flag, perm)
			}
		}
		// execute under recover(), with a hang guard
		func() {
			ctx, cancel := context.WithTimeout(context.Background(), hx.HangTimeout)
			defer cancel()
			defer func() {
				if r := recover(); r != nil {
					obs.Panic = r
					buf := make([]byte, 8192)
					obs.Stack = string(buf[:runtime.Stack(buf, false)])
				}
			}()
			_, obs.Err = in.ExecuteContext(ctx, cfg)
			if ctx.Err() == context.DeadlineExceeded && obs.Err != nil {
				obs.Timeout = true
			}
		}()
		if fw != nil {
			obs.Stdout = fw.got
			obs.FailMark = fw.FailMark
		} else {
			obs.Stdout = out.Bytes()
		}
		obs.Stderr = errb.Bytes()
		if b, err := os.ReadFile(filepath.Join(ctl, "starts.log")); err == nil {
			// one line per start (a command line without a command gives an empty or blank line)
			var lines []string
			if len(b) > 0 {
				lines = strings.Split(strings.TrimSuffix(string(b), "\n"), "\n")
			}
			from := startsSeen
			if from > len(lines) {
				from = len(lines)
			}
			for _, l := range lines[from:] {
				switch l {
				case "cat":
					obs.Starts = append(obs.Starts, "cat")
				case cat3Text:
					obs.Starts = append(obs.Starts, "cat3")
				case exit3Text(ctl):
					obs.Starts = append(obs.Starts, "exit3")
				case showf1Text(dir):
					obs.Starts = append(obs.Starts, "showf1")
				case emptyText:
					obs.Starts = append(obs.Starts, "empty")
				case blankText:
					obs.Starts = append(obs.Starts, "blank")
				case spcatText:
					obs.Starts = append(obs.Starts, "spcat")
				default:
					obs.Starts = append(obs.Starts, "?"+l)
				}
			}
			startsSeen = len(lines)
		}
		for _, n := range FileNames {
			obs.Files[n] = FileSt{C: hx.BS{}}
		}
		ents, _ := os.ReadDir(dir)
		for _, e := range ents {
			if e.Name() == "d1" && e.IsDir() {
				continue
			}
			if _, known := obs.Files[e.Name()]; !known {
				obs.Extra = append(obs.Extra, e.Name())
				continue
			}
			b, _ := os.ReadFile(filepath.Join(dir, e.Name()))
			obs.Files[e.Name()] = FileSt{Ex: true, C: hx.FromBytes(b)}
		}
		for n := range listTree(dir) {
			if !before[n] {
				if strings.HasPrefix(n, jail) {
					n = "nd" + n[len(jail):]
				}
				obs.Created = append(obs.Created, n)
			}
		}
		if _, err := os.Lstat(filepath.Join(cwd(), jail)); err == nil {
			obs.Created = append(obs.Created, "cwd:nd")
			os.RemoveAll(filepath.Join(cwd(), jail))
		}
		sort.Strings(obs.Created)
		if obs.Panic != nil || obs.Timeout {
			// the Interpreter is in an unknown state: later runs of the session are not made
			return all[:k+1], prog
		}
	}
	return all, prog
}

// listTree lists the entries below dir (paths relative to dir).
func listTree(dir string) map[string]bool {
	m := map[string]bool{}
	_ = filepath.Walk(dir, func(p string, _ os.FileInfo, err error) error {
		if err == nil && p != dir {
			if r, e := filepath.Rel(dir, p); e == nil {
				m[r] = true
			}
		}
		return nil
	})
	return m
}

// ---- block symbols ----

const blockBase = 1000

// HasBlock: does the history write a payload of shape "block"?
func HasBlock(acts []Act) bool {
	for _, a := range acts {
		if a.Op == "print" && a.Shape == "block" {
			return true
		}
	}
	return false
}

func expandBS(b hx.BS, n int) hx.BS {
	out := make(hx.BS, 0, len(b))
	for _, v := range b {
		if v >= blockBase {
			for i := 0; i < n; i++ {
				out = append(out, v-blockBase)
			}
		} else {
			out = append(out, v)
		}
	}
	return out
}

// offset maps a position in a symbol sequence (a count of symbols) to the position in its expansion.
func expandOffset(b hx.BS, k, n int) int {
	if k < 0 {
		return k
	}
	pos := 0
	for i := 0; i < k && i < len(b); i++ {
		if b[i] >= blockBase {
			pos += n
		} else {
			pos++
		}
	}
	return pos
}

// Expand returns the case with every block symbol of its prediction replaced by n copies of its byte.
func Expand(c *Case, n int) *Case {
	d := *c
	d.Block = n
	p := c.Pred
	q := p
	q.Files = map[string]FileSt{}
	for k, f := range p.Files {
		q.Files[k] = FileSt{Ex: f.Ex, C: expandBS(f.C, n)}
	}
	q.Stdout.Prog = expandBS(p.Stdout.Prog, n)
	q.Stdout.Kids = nil
	for _, k := range p.Stdout.Kids {
		q.Stdout.Kids = append(q.Stdout.Kids, Kid{Out: expandBS(k.Out, n), Lo: expandOffset(p.Stdout.Prog, k.Lo, n),
			Hi: expandOffset(p.Stdout.Prog, k.Hi, n), Sys: k.Sys})
	}
	q.Serr = expandBS(p.Serr, n)
	q.Notes = nil
	for _, x := range p.Notes {
		x.S = expandBS(x.S, n)
		q.Notes = append(q.Notes, x)
	}
	d.Pred = q
	return &d
}

// ---- the stdout predicate (transcription of IOStreams!IsAllowedStdout) ----

func AllowedStdout(s []byte, prog []byte, kids []Kid) bool {
	total := len(prog)
	for _, k := range kids {
		total += len(k.Out)
	}
	if total != len(s) {
		return false
	}
	if len(kids) == 0 {
		return bytes.Equal(s, prog)
	}
	memo := map[string]bool{}
	cs := make([]int, len(kids))
	var rec func(pi int) bool
	rec = func(pi int) bool {
		i := pi
		for _, v := range cs {
			i += v
		}
		if i >= len(s) {
			return true
		}
		key := fmt.Sprint(pi, cs)
		if v, ok := memo[key]; ok {
			return v
		}
		r := false
		if pi < len(prog) && prog[pi] == s[i] {
			okw := true
			for j, k := range kids {
				if cs[j] < len(k.Out) && pi+1 > k.Hi {
					okw = false
				}
			}
			if okw && rec(pi+1) {
				r = true
			}
		}
		if !r {
			for j, k := range kids {
				if cs[j] < len(k.Out) && byte(k.Out[cs[j]]) == s[i] && pi >= k.Lo {
					cs[j]++
					ok := rec(pi)
					cs[j]--
					if ok {
						r = true
						break
					}
				}
			}
		}
		memo[key] = r
		return r
	}
	return rec(0)
}

func sortedCopy(a []string) []string {
	b := append([]string{}, a...)
	sort.Strings(b)
	return b
}
