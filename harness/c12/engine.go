// Package c12 binds spec/IOStreams.tla (properties C12 and C13) to the real
// interpreter.  A behaviour exported by Gen_IOStreams (configuration, actions,
// Prediction(st)) is rendered to an AWK program and run with
//   - Config.OpenFile wrapped by a logger (the spec's `opens`),
//   - Config.ShellCommand pointing at a shell line that appends the command to
//     a sentinel log before exec'ing it (the spec's `procs`),
//   - a fresh directory whose listing and contents are read afterwards (`fsys`),
//   - Config.Output / Config.Error captured (`sdel` + children, `serr`),
//   - a native function note() receiving every close/getline/system result.
//
// Only these observables are compared with the prediction.
package c12

import (
	"bufio"
	"bytes"
	"errors"
	"fmt"
	"io"
	"os"
	"path/filepath"
	"sort"
	"strings"
	"sync"
	"sync/atomic"

	"github.com/benhoyt/goawk/interp"
	"github.com/benhoyt/goawk/parser"
	"github.com/benhoyt/goawk/verifharness/hx"
)

type Cfg struct {
	NE       bool     `json:"ne"`
	NW       bool     `json:"nw"`
	NR       bool     `json:"nr"`
	Custom   bool     `json:"custom"`
	FailAt   int      `json:"failAt"`
	Buffered bool     `json:"buffered"`
	Stdin    []hx.BS  `json:"stdin"`
	Pre      []string `json:"pre"`
}

type Act struct {
	Op   string `json:"op"`
	Name string `json:"name,omitempty"`
	Cls  string `json:"cls,omitempty"`
	Dest string `json:"dest,omitempty"`
	Mode string `json:"mode,omitempty"`
	Form string `json:"form,omitempty"`
}

type Open struct {
	Name string `json:"name"`
	Mode string `json:"mode"`
}

type Note struct {
	K string `json:"k"`
	V int    `json:"v"`
	S hx.BS  `json:"s"`
	J bool   `json:"j"`
}

type FileSt struct {
	Ex bool  `json:"ex"`
	C  hx.BS `json:"c"`
}

type Kid struct {
	Out hx.BS `json:"out"`
	Lo  int   `json:"lo"`
	Hi  int   `json:"hi"`
}

type Pred struct {
	Err       bool              `json:"err"`
	ErrJudged bool              `json:"errJudged"`
	Opens     []Open            `json:"opens"`
	Starts    []string          `json:"starts"`
	Files     map[string]FileSt `json:"files"`
	Stdout    struct {
		Prog hx.BS `json:"prog"`
		Kids []Kid `json:"kids"`
	} `json:"stdout"`
	StdoutJudged bool   `json:"stdoutJudged"`
	Serr         hx.BS  `json:"serr"`
	SerrJudged   bool   `json:"serrJudged"`
	Notes        []Note `json:"notes"`
	OnlyErr      bool   `json:"onlyErr"`
}

type Case struct {
	Fam  string `json:"fam"`
	Cfg  Cfg    `json:"cfg"`
	Acts []Act  `json:"acts"`
	Pred Pred   `json:"pred"`
}

var FileNames = []string{"f1", "f2", "f3"}

const cat3Text = "sh -c 'cat; exit 3'"

func cmdText(c string) string {
	if c == "cat3" {
		return cat3Text
	}
	return c
}

// nameExpr renders a name as an AWK expression; D is the AWK variable holding
// the work directory.
func nameExpr(n, cls, dir string) string {
	comp := cls == "computed"
	switch n {
	case "f1", "f2", "f3":
		if comp {
			return `(D "/" "f" ` + n[1:] + `)`
		}
		return hx.AwkString([]byte(dir + "/" + n))
	case "-":
		if comp {
			return `substr("x-", 2)`
		}
		return `"-"`
	case "/dev/stdout", "/dev/stderr":
		if comp {
			return `("/dev/" "` + n[5:] + `")`
		}
		return hx.AwkString([]byte(n))
	case "cat":
		if comp {
			return `("c" "at")`
		}
		return `"cat"`
	case "cat3":
		if comp {
			return `("sh -c 'cat; exit " 3 "'")`
		}
		return hx.AwkString([]byte(cat3Text))
	}
	return hx.AwkString([]byte(n))
}

// Render builds the program for a history; marks adds mark(i) after action i.
func Render(acts []Act, dir string, marks bool) (prog string, args []string, ok bool) {
	var sb strings.Builder
	sb.WriteString("BEGIN {\n")
	mainRule := false
	for i, a := range acts {
		pay := string(rune(96 + i + 1))
		nm := nameExpr(a.Name, a.Cls, dir)
		var s string
		switch a.Op {
		case "print":
			stmt := `print "` + pay + `"`
			if a.Form == "printf" {
				stmt = `printf "%s", "` + pay + `"`
			}
			switch a.Dest {
			case "stdout":
				s = stmt
			case "file":
				if a.Mode == "append" {
					s = stmt + " >> " + nm
				} else {
					s = stmt + " > " + nm
				}
			case "cmd":
				s = stmt + " | " + nm
			default:
				return "", nil, false
			}
		case "close":
			s = `note("close", close(` + nm + `), "")`
		case "fflush":
			if a.Name == "" {
				s = `note("fflush", fflush(), "")`
			} else {
				s = `note("fflush", fflush(` + nm + `), "")`
			}
		case "system":
			s = `note("system", system(` + nm + `), "")`
		case "getline_file":
			s = `gl = ""; gr = (getline gl < ` + nm + `); note("getline", gr, gl)`
		case "getline_cmd":
			s = `gl = ""; gr = (` + nm + ` | getline gl); note("getline", gr, gl)`
		case "operand":
			mainRule = true
			if a.Name == "-" {
				args = []string{"-"}
			} else {
				args = []string{dir + "/" + a.Name}
			}
			continue
		case "exit":
			s = "exit 3"
		case "rterror":
			s = "zz = 1 / zero"
		case "finish":
			continue
		default:
			return "", nil, false
		}
		sb.WriteString("  " + s + "\n")
		if marks {
			fmt.Fprintf(&sb, "  mark(%d)\n", i+1)
		}
	}
	sb.WriteString("}\n")
	if mainRule {
		sb.WriteString("{ note(\"rec\", 0, $0) }\n")
	}
	return sb.String(), args, true
}

// ---- writers ----

// LockedBuf is a concurrency-safe byte sink (children and the interpreter may
// write to it at the same time; whether they do is StdoutShare's business).
type LockedBuf struct {
	mu sync.Mutex
	b  []byte
}

func (l *LockedBuf) Write(p []byte) (int, error) {
	l.mu.Lock()
	l.b = append(l.b, p...)
	l.mu.Unlock()
	return len(p), nil
}
func (l *LockedBuf) Bytes() []byte {
	l.mu.Lock()
	defer l.mu.Unlock()
	return append([]byte(nil), l.b...)
}

var errInjected = errors.New("injected write failure")

// FailWriter accepts k bytes in total, then fails for ever.
type FailWriter struct {
	mu   sync.Mutex
	left int
	got  []byte
}

func (f *FailWriter) Write(p []byte) (int, error) {
	f.mu.Lock()
	defer f.mu.Unlock()
	if len(p) <= f.left {
		f.left -= len(p)
		f.got = append(f.got, p...)
		return len(p), nil
	}
	n := f.left
	f.got = append(f.got, p[:n]...)
	f.left = 0
	return n, errInjected
}

// ---- one run ----

type Obs struct {
	Stdout  []byte
	Stderr  []byte
	Err     error
	Panic   any
	Stack   string
	Timeout bool
	Opens   []Open
	Starts  []string
	Files   map[string]FileSt
	Extra   []string // unexpected directory entries
	Notes   []Note
	Marks   []MarkPos
}

type MarkPos struct{ I, Opens, Notes int }

var (
	baseOnce sync.Once
	baseDir  string
	caseSeq  int64
)

func base() string {
	baseOnce.Do(func() {
		// inside the check's work directory (removed by the framework) when possible
		d, err := os.MkdirTemp(".", "vio")
		if err == nil {
			d, err = filepath.Abs(d)
		}
		if err != nil {
			d, err = os.MkdirTemp("", "vio")
		}
		if err != nil {
			panic(err)
		}
		baseDir = d
	})
	return baseDir
}

// Cleanup removes the scratch tree (called by modes that finish in-process).
func Cleanup() {
	if baseDir != "" {
		os.RemoveAll(baseDir)
	}
}

const shellLine = `printf '%s\n' "$1" >> "$0/starts.log"; eval "exec $1"`

func openClass(flag int) string {
	switch {
	case flag&os.O_TRUNC != 0:
		return "trunc"
	case flag&os.O_APPEND != 0:
		return "append"
	case flag&(os.O_WRONLY|os.O_RDWR) != 0:
		return "write-other"
	}
	return "read"
}

type RunOpts struct {
	Marks   bool
	Bufio   bool // wrap the (non failing) output in a bufio.Writer
	BufSize int
}

// Run executes the history of c on the real interpreter.
func Run(c *Case, o RunOpts) (*Obs, string) {
	id := atomic.AddInt64(&caseSeq, 1)
	root := filepath.Join(base(), fmt.Sprint(id))
	dir := filepath.Join(root, "w")
	ctl := root // the sentinel log of process starts lives beside, not inside, the work directory
	if err := os.MkdirAll(dir, 0o755); err != nil {
		panic(err)
	}
	defer os.RemoveAll(root)
	for _, n := range c.Cfg.Pre {
		if err := os.WriteFile(filepath.Join(dir, n), []byte("o\n"), 0o644); err != nil {
			panic(err)
		}
	}
	prog, args, ok := Render(c.Acts, dir, o.Marks)
	if !ok {
		return nil, ""
	}
	obs := &Obs{Files: map[string]FileSt{}}
	var mu sync.Mutex
	funcs := map[string]any{
		"note": func(k string, v float64, s string) {
			mu.Lock()
			obs.Notes = append(obs.Notes, Note{K: k, V: int(v), S: hx.FromBytes([]byte(s))})
			mu.Unlock()
		},
		"mark": func(i int) {
			mu.Lock()
			obs.Marks = append(obs.Marks, MarkPos{i, len(obs.Opens), len(obs.Notes)})
			mu.Unlock()
		},
	}
	var stdin []byte
	for _, l := range c.Cfg.Stdin {
		stdin = append(stdin, l.Bytes()...)
		stdin = append(stdin, '\n')
	}
	out := &LockedBuf{}
	errb := &LockedBuf{}
	var fw *FailWriter
	var bw *bufio.Writer
	cfg := &interp.Config{
		Stdin:        bytes.NewReader(stdin),
		Error:        errb,
		Args:         args,
		Vars:         []string{"D", dir},
		NoExec:       c.Cfg.NE,
		NoFileWrites: c.Cfg.NW,
		NoFileReads:  c.Cfg.NR,
		ShellCommand: []string{"/bin/sh", "-c", shellLine, ctl},
		Funcs:        funcs,
	}
	var sink io.Writer = out
	if c.Cfg.FailAt >= 0 {
		fw = &FailWriter{left: c.Cfg.FailAt}
		sink = fw
	}
	if (c.Cfg.FailAt >= 0 && c.Cfg.Buffered) || (c.Cfg.FailAt < 0 && o.Bufio) {
		sz := o.BufSize
		if sz == 0 {
			sz = 4096
		}
		bw = bufio.NewWriterSize(sink, sz)
		cfg.Output = bw
	} else {
		cfg.Output = sink
	}
	if c.Cfg.Custom {
		cfg.OpenFile = func(name string, flag int, perm os.FileMode) (*os.File, error) {
			n := name
			if filepath.Dir(name) == dir {
				n = filepath.Base(name)
			}
			mu.Lock()
			obs.Opens = append(obs.Opens, Open{n, openClass(flag)})
			mu.Unlock()
			return os.OpenFile(name, flag, perm)
		}
	}
	res := hx.RunAwk(prog, nil, cfg, &parser.ParserConfig{Funcs: funcs})
	if res.ParseErr != nil {
		return nil, prog + "\nPARSE ERROR: " + res.ParseErr.Error()
	}
	obs.Err, obs.Panic, obs.Stack, obs.Timeout = res.Err, res.Panic, res.PanicStk, res.TimedOut
	if fw != nil {
		obs.Stdout = fw.got
	} else {
		obs.Stdout = out.Bytes()
	}
	obs.Stderr = errb.Bytes()
	if b, err := os.ReadFile(filepath.Join(ctl, "starts.log")); err == nil {
		for _, l := range strings.Split(strings.TrimRight(string(b), "\n"), "\n") {
			switch l {
			case "cat":
				obs.Starts = append(obs.Starts, "cat")
			case cat3Text:
				obs.Starts = append(obs.Starts, "cat3")
			default:
				obs.Starts = append(obs.Starts, "?"+l)
			}
		}
	}
	for _, n := range FileNames {
		obs.Files[n] = FileSt{C: hx.BS{}}
	}
	ents, _ := os.ReadDir(dir)
	for _, e := range ents {
		if _, known := obs.Files[e.Name()]; !known {
			obs.Extra = append(obs.Extra, e.Name())
			continue
		}
		b, _ := os.ReadFile(filepath.Join(dir, e.Name()))
		obs.Files[e.Name()] = FileSt{Ex: true, C: hx.FromBytes(b)}
	}
	return obs, prog
}

// ---- the stdout predicate (transcription of IOStreams!IsAllowedStdout) ----

func AllowedStdout(s []byte, prog []byte, kids []Kid) bool {
	total := len(prog)
	for _, k := range kids {
		total += len(k.Out)
	}
	if total != len(s) {
		return false
	}
	memo := map[string]bool{}
	cs := make([]int, len(kids))
	var rec func(pi int) bool
	rec = func(pi int) bool {
		i := pi
		for _, v := range cs {
			i += v
		}
		if i >= len(s) {
			return true
		}
		key := fmt.Sprint(pi, cs)
		if v, ok := memo[key]; ok {
			return v
		}
		r := false
		if pi < len(prog) && prog[pi] == s[i] {
			okw := true
			for j, k := range kids {
				if cs[j] < len(k.Out) && pi+1 > k.Hi {
					okw = false
				}
			}
			if okw && rec(pi+1) {
				r = true
			}
		}
		if !r {
			for j, k := range kids {
				if cs[j] < len(k.Out) && byte(k.Out[cs[j]]) == s[i] && pi >= k.Lo {
					cs[j]++
					ok := rec(pi)
					cs[j]--
					if ok {
						r = true
						break
					}
				}
			}
		}
		memo[key] = r
		return r
	}
	return rec(0)
}

func sortedCopy(a []string) []string {
	b := append([]string{}, a...)
	sort.Strings(b)
	return b
}
