package c12

import (
	"bytes"
	"encoding/json"
	"fmt"
	"reflect"
	"sort"
	"strings"

	"github.com/benhoyt/goawk/verifharness/hx"
)

// opName names the I/O form of an action (the "mechanism" part of signatures).
func opName(a Act) string {
	switch a.Op {
	case "print":
		switch a.Dest {
		case "stdout":
			return "print-stdout"
		case "cmd":
			return "print-pipe"
		}
		if strings.HasPrefix(a.Name, "/dev/") || a.Name == "-" {
			return "print-to-" + strings.TrimPrefix(a.Name, "/dev/")
		}
		if a.Mode == "append" {
			return "print-append"
		}
		return "print-trunc"
	case "getline_file":
		if a.Name == "-" {
			return "getline-stdin"
		}
		return "getline-file"
	case "getline_cmd":
		return "getline-pipe"
	}
	return a.Op
}

// argKind names the newer dimension an action exercises (appended to the
// argument class of signatures; "" for the names of the older menu): the
// spelling of a path, /dev/null, the kind of operand, a command line without
// a command, the shape of a payload.
func argKind(a Act) string {
	if a.Op == "print" && a.Shape != "" && a.Shape != "plain" {
		return "/payload-" + a.Shape
	}
	switch a.Name {
	case "nd/g1":
		if a.Cls == "jailed" {
			return "/name-in-missing-dir-jailed"
		}
		return "/name-in-missing-dir"
	case "/dev/null":
		if a.Op != "print" && a.Op != "close" && a.Op != "fflush" {
			return "/name-dev-null"
		}
	case "d1":
		return "/operand-directory"
	case "empty", "blank":
		return "/command-line-" + a.Name
	case "spcat":
		return "/command-line-with-leading-blanks"
	}
	if a.Op == "operand" {
		switch a.Name {
		case "":
			return "/operand-empty-string"
		case "v=1":
			return "/operand-assignment"
		}
	}
	switch a.Cls {
	case "rel", "dotdot", "devdd":
		return "/path-spelled-" + a.Cls
	}
	return ""
}

// nlClass names the newline output mode in signatures ("" unless CRLF newlines are forced).
func nlClass(c Cfg) string {
	if c.NLMode == "crlf" {
		return "-crlf-newline-output"
	}
	return ""
}

// optionalStart: the start of a command line without a command is judged only under NoExec.
func optionalStart(name string) bool { return name == "empty" || name == "blank" }

func judgedStarts(c Cfg, starts []string) []string {
	out := []string{}
	for _, s := range starts {
		if !c.NE && optionalStart(s) {
			continue
		}
		out = append(out, s)
	}
	sort.Strings(out)
	return out
}

func flagClass(c Cfg) string {
	var p []string
	if c.NE {
		p = append(p, "NoExec")
	}
	if c.NW {
		p = append(p, "NoFileWrites")
	}
	if c.NR {
		p = append(p, "NoFileReads")
	}
	if len(p) == 0 {
		return "noflags"
	}
	return strings.Join(p, "+")
}

// lastIO returns the last action that is not an ending (the action a
// disagreement is attributed to when nothing more specific is known).
func lastIO(c *Case) Act {
	for i := len(c.Acts) - 1; i >= 0; i-- {
		switch c.Acts[i].Op {
		case "finish", "exit", "rterror":
		default:
			return c.Acts[i]
		}
	}
	return Act{Op: "none"}
}

func ending(c *Case) string {
	if len(c.Acts) == 0 {
		return "finish"
	}
	switch op := c.Acts[len(c.Acts)-1].Op; op {
	case "exit", "rterror":
		return op
	}
	return "finish"
}

// actFor finds the action that opens / uses the given name (for signatures).
func actFor(c *Case, name string, pred func(Act) bool) Act {
	for _, a := range c.Acts {
		if a.Name == name && pred(a) {
			return a
		}
	}
	return lastIO(c)
}

// failedAct is the action the real run stopped in: the first one with a
// statement of its own whose mark() was not reached.
func failedAct(c *Case, o *Obs) Act {
	reached := 0
	for _, m := range o.Marks {
		if m.I > reached {
			reached = m.I
		}
	}
	for i, a := range c.Acts {
		if i+1 > reached && a.Op != "finish" && a.Op != "operand" {
			return a
		}
	}
	for _, a := range c.Acts {
		if a.Op == "operand" {
			return a
		}
	}
	return lastIO(c)
}

func isWriteAct(a Act) bool { return a.Op == "print" }
func isReadAct(a Act) bool  { return a.Op == "getline_file" || a.Op == "operand" }
func isExecAct(a Act) bool {
	return a.Op == "system" || a.Op == "getline_cmd" || (a.Op == "print" && a.Dest == "cmd")
}

func prop(c *Case) string {
	if c.Fam == "sandbox" || c.Fam == "session" {
		return "C12"
	}
	return "C13"
}

// modeClass names the output mode in signatures ("" for the default mode).
func modeClass(c Cfg) string {
	if c.OMode == "csv" || c.OMode == "tsv" {
		return "-" + c.OMode + "-output"
	}
	return ""
}

// markedActs are the actions that have a statement (and a mark) of their own.
func markedActs(c *Case) []Act {
	var out []Act
	for _, a := range c.Acts {
		if a.Op != "finish" && a.Op != "operand" {
			out = append(out, a)
		}
	}
	return out
}

// failClass classifies a run of the failure family that succeeded although the writer failed.
//   - plain writer: every write goes to the failing writer directly;
//   - buffered writer whose failing write to the underlying writer happened while a print / printf statement that
//     writes to standard output was being executed: that statement received the error ("write errors propagate out
//     of print/printf");
//   - buffered writer whose failing write happened at a flush point (fflush, the synchronising flush before a file
//     or process is opened, the end of the run): class "buffered".
func failClass(c *Case, o *Obs) string {
	mc := modeClass(c.Cfg)
	if c.Cfg.WKind == "plain" || c.Cfg.WKind == "" {
		return "plain" + mc
	}
	if o.FailMark < 0 {
		return c.Cfg.WKind + "-never-written" + mc
	}
	ma := markedActs(c)
	toStdout := func(a Act) bool {
		return a.Op == "print" && (a.Dest == "stdout" || (a.Dest == "file" && (a.Name == "-" || a.Name == "/dev/stdout")))
	}
	if o.FailMark < len(ma) && toStdout(ma[o.FailMark]) {
		if ma[o.FailMark].Form == "implied" {
			// the print implied by a rule with a pattern and no action
			return c.Cfg.WKind + "-write-failed-in-implied-print" + mc
		}
		return c.Cfg.WKind + "-write-failed-in-print" + mc
	}
	return "buffered"
}

type diff struct {
	sig, what string
	exp, got  any
}

// Compare checks the observation of one run against the prediction.
func Compare(c *Case, o *Obs, variant string) *diff {
	p := &c.Pred
	P := prop(c)
	fc := flagClass(c.Cfg)
	if c.SigClass != "" {
		fc = c.SigClass
	}
	fc += nlClass(c.Cfg)
	if o.Panic != nil {
		return &diff{P + "/" + opName(lastIO(c)) + "/panic/" + fc, fmt.Sprintf("panic: %v", o.Panic), nil, o.Stack}
	}
	if o.Timeout {
		return &diff{P + "/" + opName(lastIO(c)) + "/hang/" + fc, "run did not finish", nil, "timeout"}
	}
	gotErr := o.Err != nil
	if p.OnlyErr {
		// failure family: only "the run fails" is stated
		if p.Err != gotErr {
			what := "silent-success"
			if gotErr {
				what = "unexpected-error"
			}
			cls := failClass(c, o)
			if gotErr {
				cls = c.Cfg.WKind + modeClass(c.Cfg)
			}
			return &diff{"C13/stdout-write-failure/" + what + "/" + cls,
				fmt.Sprintf("standard output writer fails at byte %d (%s writer, output mode %s, ending %s; the first failing write happened after %d completed actions): spec error=%v, real error=%v",
					c.Cfg.FailAt, c.Cfg.WKind, c.Cfg.OMode, ending(c), o.FailMark, p.Err, o.Err), p.Err, fmt.Sprint(o.Err)}
		}
		return nil
	}
	// process starts (multiset)
	// (whether a shell is started for a command line without a command is judged only under NoExec)
	if !reflect.DeepEqual(judgedStarts(c.Cfg, p.Starts), judgedStarts(c.Cfg, o.Starts)) {
		what := "process-count"
		if c.Cfg.NE && len(o.Starts) > 0 {
			what = "process-started"
		}
		culprit := lastIO(c)
		for _, a := range c.Acts {
			if isExecAct(a) {
				culprit = a
				if c.Cfg.NE {
					break
				}
			}
		}
		return &diff{P + "/" + opName(culprit) + "/" + what + "/" + fc + argKind(culprit), "process starts differ", p.Starts, o.Starts}
	}
	// file-system entries that came into being although the model creates no such entry: anything but the files
	// f1 f2 f3 (whose existence is compared below, after the calls of the open-file function)
	if bad := strangeEntries(p, o); len(bad) > 0 {
		culprit := lastIO(c)
		for _, a := range c.Acts {
			if isWriteAct(a) && argKind(a) != "" {
				culprit = a
			}
		}
		return &diff{P + "/" + opName(culprit) + "/created-behind-openfile/" + fc + argKind(culprit),
			"file-system entries came into being that no call of the open-file function created (work directory; cwd: = the process's working directory)",
			predCreated(p), o.Created}
	}
	// open-file calls
	if c.Cfg.Custom {
		po, oo := p.Opens, o.Opens
		if po == nil {
			po = []Open{}
		}
		if oo == nil {
			oo = []Open{}
		}
		if !reflect.DeepEqual(po, oo) {
			what, culprit := "opens-differ", lastIO(c)
			byMode := func(m string) func(Act) bool {
				if m == "read" {
					return isReadAct
				}
				return isWriteAct
			}
			// the first call that differs names the action
			k := 0
			for k < len(po) && k < len(oo) && po[k] == oo[k] {
				k++
			}
			switch {
			case k < len(oo) && ((c.Cfg.NW && oo[k].Mode != "read") || (c.Cfg.NR && oo[k].Mode == "read")):
				what, culprit = "file-opened", actFor(c, oo[k].Name, byMode(oo[k].Mode))
			case k < len(po) && k < len(oo) && po[k].Name == oo[k].Name:
				what, culprit = "open-mode-"+oo[k].Mode+"-for-"+po[k].Mode, actFor(c, po[k].Name, byMode(po[k].Mode))
			case k < len(po) && !containsOpen(oo[k:], po[k]):
				// the expected call was never made (whatever else was)
				what, culprit = "not-through-openfile", actForOpen(c, po[k], byMode(po[k].Mode))
			case k < len(oo):
				what, culprit = "extra-open", actFor(c, oo[k].Name, byMode(oo[k].Mode))
			}
			return &diff{P + "/" + opName(culprit) + "/" + what + "/" + fc + argKind(culprit), "calls of the open-file function differ", po, oo}
		}
	}
	// directory
	if len(o.Extra) > 0 {
		return &diff{P + "/" + opName(lastIO(c)) + "/unexpected-file/" + fc, "unexpected directory entries", nil, o.Extra}
	}
	for _, n := range FileNames {
		pf, of := p.Files[n], o.Files[n]
		if pf.Ex != of.Ex || !bytes.Equal(pf.C.Bytes(), of.C.Bytes()) {
			a := actFor(c, n, isWriteAct)
			if c.Block > 0 {
				// the block payload written to this file names the argument class
				a = actFor(c, n, func(x Act) bool { return isWriteAct(x) && x.Shape == "block" })
			}
			what := "file-content"
			if pf.Ex != of.Ex {
				what = "file-existence"
			}
			return &diff{P + "/" + opName(a) + "/" + what + "/" + fc + argKind(a), "file " + n + " differs" + blockNote(c),
				map[string]any{"exists": pf.Ex, "content": rle(pf.C.Bytes())}, map[string]any{"exists": of.Ex, "content": rle(of.C.Bytes())}}
		}
	}
	if p.Created != nil && !reflect.DeepEqual(predCreated(p), append([]string{}, o.Created...)) {
		return &diff{P + "/" + opName(lastIO(c)) + "/created-entries/" + fc, "the set of file-system entries the run created differs", predCreated(p), o.Created}
	}
	// error outcome
	if p.ErrJudged && p.Err != gotErr {
		what, culprit := "missing-error", lastIO(c)
		if gotErr {
			what, culprit = "unexpected-error", failedAct(c, o)
		}
		return &diff{P + "/" + opName(culprit) + "/" + what + "/" + fc + "/" + ending(c) + argKind(culprit),
			fmt.Sprintf("spec error=%v, real error=%v", p.Err, o.Err), p.Err, fmt.Sprint(o.Err)}
	}
	// values the program saw
	n := len(p.Notes)
	if len(o.Notes) != n && p.ErrJudged {
		return &diff{P + "/" + opName(lastIO(c)) + "/result-count/" + fc, "number of observed results differs", p.Notes, o.Notes}
	}
	if len(o.Notes) < n {
		n = len(o.Notes)
	}
	for i := 0; i < n; i++ {
		pn, on := p.Notes[i], o.Notes[i]
		if pn.K != on.K {
			return &diff{P + "/" + opName(lastIO(c)) + "/result-kind/" + fc, "sequence of observed results differs", p.Notes, o.Notes}
		}
		if pn.J && (pn.V != on.V || !bytes.Equal(pn.S.Bytes(), on.S.Bytes())) {
			what := pn.K + "-value"
			if pn.K == "close" {
				what = "close-status"
				if closesNonReader(c, i) {
					what = "close-status-of-command-that-does-not-read"
				}
			}
			return &diff{P + "/" + pn.K + "/" + what + "/" + fc, fmt.Sprintf("result %d (%s) differs", i+1, pn.K), pn, on}
		}
	}
	if p.StdoutJudged {
		if !AllowedStdout(o.Stdout, p.Stdout.Prog.Bytes(), p.Stdout.Kids) {
			cls := "no-children"
			if len(p.Stdout.Kids) > 0 {
				cls = "with-children"
			}
			for _, k := range p.Stdout.Kids {
				if k.Sys {
					cls = "with-system-child-showing-file"
				}
			}
			if c.Block > 0 {
				return &diff{P + "/stdout/content/" + cls + "/" + variant + "/" + ending(c) + shapeKind(c), "standard output is not an allowed interleaving" + blockNote(c),
					map[string]any{"program": rle(p.Stdout.Prog.Bytes())}, rle(o.Stdout)}
			}
			return &diff{P + "/stdout/content/" + cls + "/" + variant + "/" + ending(c) + shapeKind(c), "standard output is not an allowed interleaving",
				map[string]any{"program": p.Stdout.Prog.String(), "children": p.Stdout.Kids}, string(o.Stdout)}
		}
	}
	if p.SerrJudged && !bytes.Equal(o.Stderr, p.Serr.Bytes()) {
		return &diff{P + "/print-to-stderr/content/" + fc + shapeKind(c), "error output differs" + blockNote(c), rle(p.Serr.Bytes()), rle(o.Stderr)}
	}
	return nil
}

func predCreated(p *Pred) []string {
	out := []string{}
	if p.Created != nil {
		out = append(out, *p.Created...)
	}
	sort.Strings(out)
	return out
}

// strangeEntries: created entries that are neither predicted nor one of the model's files.
func strangeEntries(p *Pred, o *Obs) []string {
	var bad []string
	for _, n := range o.Created {
		if n == "f1" || n == "f2" || n == "f3" {
			continue
		}
		bad = append(bad, n)
	}
	return bad
}

func blockNote(c *Case) string {
	if c.Block > 0 {
		return fmt.Sprintf(" (a block payload is one string of %d bytes)", c.Block)
	}
	return ""
}

// rle abbreviates long runs of one byte (contents with block payloads) for reports: x{65536}.
func rle(b []byte) string {
	if len(b) < 200 {
		return string(b)
	}
	var sb strings.Builder
	for i := 0; i < len(b); {
		j := i
		for j < len(b) && b[j] == b[i] {
			j++
		}
		if j-i >= 8 {
			fmt.Fprintf(&sb, "%c{%d}", b[i], j-i)
		} else {
			sb.Write(b[i:j])
		}
		i = j
	}
	return sb.String()
}

// shapeKind: the first payload shape other than "plain" among the print actions of the history.
func shapeKind(c *Case) string {
	for _, a := range c.Acts {
		if k := argKind(a); a.Op == "print" && strings.HasPrefix(k, "/payload-") {
			return k
		}
	}
	return ""
}

func containsOpen(xs []Open, x Open) bool {
	for _, y := range xs {
		if y == x {
			return true
		}
	}
	return false
}

// actForOpen finds the action that should have made the given call of the open-file function: among the actions on
// that name, one of the newer dimensions (a spelling, /dev/null, an operand kind) is preferred.
func actForOpen(c *Case, o Open, pred func(Act) bool) Act {
	for _, a := range c.Acts {
		if a.Name == o.Name && pred(a) && argKind(a) != "" {
			return a
		}
	}
	return actFor(c, o.Name, pred)
}

// closesNonReader: is the i-th observed result the close() of the command that never reads its input?
func closesNonReader(c *Case, i int) bool {
	k := 0
	for _, a := range c.Acts {
		switch a.Op {
		case "close", "fflush", "system", "getline_file", "getline_cmd":
			if k == i {
				return a.Op == "close" && a.Name == "exit3"
			}
			k++
		}
	}
	return false
}

func nontrivial(c *Case) bool {
	if c.Fam == "sandbox" {
		return (c.Cfg.NE || c.Cfg.NW || c.Cfg.NR) && lastIO(c).Op != "none"
	}
	if c.Fam == "failure" {
		return true
	}
	if c.Fam == "newline" {
		// a payload with a newline in it, or CRLF newlines forced
		return c.Cfg.NLMode == "crlf" || shapeKind(c) != ""
	}
	// delivery: writes to a destination other than plain stdout, or mixes destinations
	for _, a := range c.Acts {
		if a.Op == "print" && a.Dest != "stdout" {
			return true
		}
	}
	return false
}

// casesOfTrace rebuilds the runs of a recorded session from its events.
func casesOfTrace(raw json.RawMessage) (runs []RunIn, nev int, lastObs json.RawMessage, okk bool) {
	var t struct {
		Events []struct {
			Ev  string `json:"ev"`
			Act struct {
				Act
				Cfg *Cfg `json:"cfg"`
			} `json:"act"`
			Obs json.RawMessage `json:"obs"`
		} `json:"events"`
	}
	if err := json.Unmarshal(raw, &t); err != nil {
		return nil, 0, nil, false
	}
	for _, e := range t.Events {
		switch {
		case e.Ev != "step" || e.Act.Op == "end":
		case e.Act.Op == "config" && e.Act.Cfg != nil:
			runs = append(runs, RunIn{Cfg: *e.Act.Cfg})
		default:
			if len(runs) == 0 {
				runs = append(runs, RunIn{})
			}
			runs[len(runs)-1].Acts = append(runs[len(runs)-1].Acts, e.Act.Act)
		}
	}
	if len(t.Events) == 0 {
		return nil, 0, nil, false
	}
	skipReset := 0
	if t.Events[0].Ev != "reset" {
		skipReset = 1 // the recorded slice starts after the reset event
	}
	return runs, len(t.Events) - 1 + skipReset, t.Events[len(t.Events)-1].Obs, true
}

// replayTrace re-runs a recorded session that Trace_IOStreams rejected (the
// verdict was TLC's): it reports whether the real code still shows the
// rejected observation.
func replayTrace(raw json.RawMessage) hx.Outcome {
	runs, k, lastObs, ok := casesOfTrace(raw)
	if !ok {
		return hx.Outcome{Skipped: true, Note: "bad trace case"}
	}
	nacts := 0
	for _, r := range runs {
		nacts += len(r.Acts)
	}
	if nacts == 0 {
		return hx.Outcome{Skipped: true, Note: "no actions"}
	}
	obs, prog := RunSession(runs, RunOpts{Marks: true})
	if obs == nil {
		return hx.Outcome{Skipped: true, Note: "not renderable"}
	}
	now := SessionEvents(runs, obs)
	// compare the observation of the rejected (last recorded) event with the new run
	if k >= len(now) {
		return hx.OK(true)
	}
	nb, _ := json.Marshal(now[k]["obs"])
	var x, y any
	_ = json.Unmarshal(nb, &x)
	_ = json.Unmarshal(lastObs, &y)
	if reflect.DeepEqual(x, y) {
		last := &Case{Cfg: runs[len(runs)-1].Cfg, Acts: runs[len(runs)-1].Acts}
		return hx.Fail("trace/"+opName(lastIO(last))+"/rejected-observation-reproduced", "the real code still produces the observation that Trace_IOStreams rejected",
			"see the replay file (info.expected)", string(nb), prog)
	}
	return hx.OK(true)
}

// changeClass names what differs between the configuration of a run and that of the run before it on the same
// Interpreter (the argument class of session signatures).
func changeClass(prev, cur Cfg) string {
	var p []string
	onoff := func(name string, a, b bool) {
		if a != b {
			if b {
				p = append(p, name+"-on")
			} else {
				p = append(p, name+"-off")
			}
		}
	}
	onoff("NoExec", prev.NE, cur.NE)
	onoff("NoFileWrites", prev.NW, cur.NW)
	onoff("NoFileReads", prev.NR, cur.NR)
	onoff("custom-open", prev.Custom, cur.Custom)
	if len(p) == 0 {
		return "same-config"
	}
	if len(p) > 1 {
		return "several-changes"
	}
	return p[0]
}

// replaySession: several Execute calls on one Interpreter, each judged against the prediction of ITS run.
func replaySession(raw json.RawMessage) hx.Outcome {
	var sc SessionCase
	if err := json.Unmarshal(raw, &sc); err != nil || len(sc.Runs) == 0 {
		return hx.Outcome{Skipped: true, Note: "bad session case"}
	}
	usesProc := false
	for _, r := range sc.Runs {
		if len(r.Pred.Starts) > 0 {
			usesProc = true
		}
	}
	var fail *hx.Failure
	for try := 0; try < 3; try++ {
		fail = nil
		obs, prog := RunSession(sc.Runs, RunOpts{Marks: true})
		if obs == nil {
			return hx.Outcome{Skipped: true, Note: "not renderable: " + prog}
		}
		for k := range sc.Runs {
			if k >= len(obs) {
				break
			}
			if obs[k].Unsynced {
				return hx.Outcome{Skipped: true, Note: "command did not report in time"}
			}
			c := &Case{Fam: "session", Cfg: sc.Runs[k].Cfg, Acts: sc.Runs[k].Acts, Pred: sc.Runs[k].Pred}
			if k > 0 {
				c.SigClass = fmt.Sprintf("reused-interpreter-run%d/%s", k+1, changeClass(sc.Runs[k-1].Cfg, sc.Runs[k].Cfg))
			} else {
				c.SigClass = "reused-interpreter-run1/" + flagClass(c.Cfg)
			}
			if d := Compare(c, obs[k], "plain-writer"); d != nil {
				fail = &hx.Failure{Sig: d.sig, What: fmt.Sprintf("[Execute %d of %d on one Interpreter] %s", k+1, len(sc.Runs), d.what), Expected: d.exp, Observed: d.got, Program: prog}
				break
			}
			if len(obs[k].Stale) > 0 {
				a := actFor(c, obs[k].Stale[0].Name, func(Act) bool { return true })
				fail = &hx.Failure{Sig: "C12/" + opName(a) + "/open-through-earlier-runs-openfile/" + c.SigClass,
					What:     fmt.Sprintf("[Execute %d of %d on one Interpreter] a file was opened through the OpenFile function of an EARLIER Execute, not through the configuration of this one", k+1, len(sc.Runs)),
					Expected: []Open{}, Observed: obs[k].Stale, Program: prog}
				break
			}
		}
		if fail == nil || !usesProc {
			break
		}
	}
	if fail != nil {
		return hx.Outcome{Fail: fail, Nontrivial: true}
	}
	last := sc.Runs[len(sc.Runs)-1]
	lc := &Case{Cfg: last.Cfg, Acts: last.Acts}
	return hx.OK(lastIO(lc).Op != "none")
}

// BlockSizes are the sizes a block payload is instantiated with: the default bufio size, the 64 KiB of the
// interpreter's stream buffers minus one / exactly / plus one, and more than two buffers.  Runs that start a
// process take two of them.
func BlockSizes(procs bool) []int {
	if procs {
		return []int{65536, 65537}
	}
	return []int{4096, 65535, 65536, 65537, 131073}
}

// Replay is the hx.Replayer for Gen_IOStreams exports.
func Replay(raw json.RawMessage) hx.Outcome {
	var head struct {
		Fam string `json:"fam"`
	}
	_ = json.Unmarshal(raw, &head)
	if head.Fam == "trace" {
		return replayTrace(raw)
	}
	if head.Fam == "session" {
		return replaySession(raw)
	}
	var c Case
	if err := json.Unmarshal(raw, &c); err != nil || len(c.Acts) == 0 {
		return hx.Outcome{Skipped: true, Note: "bad case"}
	}
	variants := []RunOpts{{Marks: true}}
	if HasBlock(c.Acts) {
		// a block payload: the run is made once for each size (around the sizes of the stream buffers)
		variants = nil
		for _, n := range BlockSizes(len(c.Pred.Starts) > 0) {
			variants = append(variants, RunOpts{Marks: true, Block: n})
		}
	}
	if c.Fam != "failure" && c.Cfg.FailAt < 0 && len(c.Pred.Starts) == 0 && len(c.Pred.Stdout.Prog) > 0 {
		// no child process, something written to standard output: the run is also made with a buffered standard output
		variants = append(variants, RunOpts{Marks: true, WKind: "bufio4096", Block: variants[len(variants)/2].Block})
	}
	model := c
	for _, v := range variants {
		c := model
		if v.Block > 0 {
			c = *Expand(&model, v.Block)
		}
		obs, prog := Run(&c, v)
		if obs == nil {
			return hx.Outcome{Skipped: true, Note: "not renderable: " + prog}
		}
		vn := "plain-writer"
		if v.WKind != "" {
			vn = "bufio-writer"
		} else if c.Cfg.WKind != "" && c.Cfg.WKind != "plain" || c.Cfg.OMode == "csv" || c.Cfg.OMode == "tsv" {
			vn = c.Cfg.WKind + "-writer" + modeClass(c.Cfg)
		}
		vn += nlClass(c.Cfg)
		if v.Block > 0 {
			prog = fmt.Sprintf("# blk(s): %d copies of s\n", v.Block) + prog
		}
		if obs.Unsynced {
			return hx.Outcome{Skipped: true, Note: "command did not report in time"}
		}
		d := Compare(&c, obs, vn)
		// Timing guard: the interpreter gives the copier of a child's output 250 ms after the child's exit
		// (cmd.WaitDelay); on an overloaded machine that can expire.  A disagreement in a run with child
		// processes is reported only if it shows in three runs out of three.
		for try := 0; d != nil && len(c.Pred.Starts) > 0 && try < 2; try++ {
			obs, prog = Run(&c, v)
			if obs.Unsynced {
				return hx.Outcome{Skipped: true, Note: "command did not report in time"}
			}
			d = Compare(&c, obs, vn)
		}
		if d != nil {
			return hx.Fail(d.sig, "["+vn+"] "+d.what, d.exp, d.got, prog)
		}
	}
	return hx.OK(nontrivial(&c))
}
