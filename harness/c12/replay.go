package c12

import (
	"bytes"
	"encoding/json"
	"fmt"
	"reflect"
	"strings"

	"github.com/benhoyt/goawk/verifharness/hx"
)

// opName names the I/O form of an action (the "mechanism" part of signatures).
func opName(a Act) string {
	switch a.Op {
	case "print":
		switch a.Dest {
		case "stdout":
			return "print-stdout"
		case "cmd":
			return "print-pipe"
		}
		if strings.HasPrefix(a.Name, "/dev/") || a.Name == "-" {
			return "print-to-" + strings.TrimPrefix(a.Name, "/dev/")
		}
		if a.Mode == "append" {
			return "print-append"
		}
		return "print-trunc"
	case "getline_file":
		if a.Name == "-" {
			return "getline-stdin"
		}
		return "getline-file"
	case "getline_cmd":
		return "getline-pipe"
	}
	return a.Op
}

func flagClass(c Cfg) string {
	var p []string
	if c.NE {
		p = append(p, "NoExec")
	}
	if c.NW {
		p = append(p, "NoFileWrites")
	}
	if c.NR {
		p = append(p, "NoFileReads")
	}
	if len(p) == 0 {
		return "noflags"
	}
	return strings.Join(p, "+")
}

// lastIO returns the last action that is not an ending (the action a
// disagreement is attributed to when nothing more specific is known).
func lastIO(c *Case) Act {
	for i := len(c.Acts) - 1; i >= 0; i-- {
		switch c.Acts[i].Op {
		case "finish", "exit", "rterror":
		default:
			return c.Acts[i]
		}
	}
	return Act{Op: "none"}
}

func ending(c *Case) string {
	if len(c.Acts) == 0 {
		return "finish"
	}
	switch op := c.Acts[len(c.Acts)-1].Op; op {
	case "exit", "rterror":
		return op
	}
	return "finish"
}

// actFor finds the action that opens / uses the given name (for signatures).
func actFor(c *Case, name string, pred func(Act) bool) Act {
	for _, a := range c.Acts {
		if a.Name == name && pred(a) {
			return a
		}
	}
	return lastIO(c)
}

// failedAct is the action the real run stopped in: the first one with a
// statement of its own whose mark() was not reached.
func failedAct(c *Case, o *Obs) Act {
	reached := 0
	for _, m := range o.Marks {
		if m.I > reached {
			reached = m.I
		}
	}
	for i, a := range c.Acts {
		if i+1 > reached && a.Op != "finish" && a.Op != "operand" {
			return a
		}
	}
	for _, a := range c.Acts {
		if a.Op == "operand" {
			return a
		}
	}
	return lastIO(c)
}

func isWriteAct(a Act) bool { return a.Op == "print" }
func isReadAct(a Act) bool  { return a.Op == "getline_file" || a.Op == "operand" }
func isExecAct(a Act) bool {
	return a.Op == "system" || a.Op == "getline_cmd" || (a.Op == "print" && a.Dest == "cmd")
}

func prop(c *Case) string {
	if c.Fam == "sandbox" {
		return "C12"
	}
	return "C13"
}

type diff struct {
	sig, what string
	exp, got  any
}

// Compare checks the observation of one run against the prediction.
func Compare(c *Case, o *Obs, variant string) *diff {
	p := &c.Pred
	P := prop(c)
	fc := flagClass(c.Cfg)
	if o.Panic != nil {
		return &diff{P + "/" + opName(lastIO(c)) + "/panic/" + fc, fmt.Sprintf("panic: %v", o.Panic), nil, o.Stack}
	}
	if o.Timeout {
		return &diff{P + "/" + opName(lastIO(c)) + "/hang/" + fc, "run did not finish", nil, "timeout"}
	}
	gotErr := o.Err != nil
	if p.OnlyErr {
		// failure family: only "the run fails" is stated
		if p.Err != gotErr {
			what := "silent-success"
			if gotErr {
				what = "unexpected-error"
			}
			cls := "plain"
			if c.Cfg.Buffered {
				cls = "buffered"
			}
			return &diff{"C13/stdout-write-failure/" + what + "/" + cls,
				fmt.Sprintf("standard output writer fails at byte %d (%s writer, ending %s): spec error=%v, real error=%v",
					c.Cfg.FailAt, cls, ending(c), p.Err, o.Err), p.Err, fmt.Sprint(o.Err)}
		}
		return nil
	}
	// process starts (multiset)
	if !reflect.DeepEqual(sortedCopy(p.Starts), sortedCopy(o.Starts)) {
		what := "process-count"
		if c.Cfg.NE && len(o.Starts) > 0 {
			what = "process-started"
		}
		culprit := lastIO(c)
		for _, a := range c.Acts {
			if isExecAct(a) {
				culprit = a
				if c.Cfg.NE {
					break
				}
			}
		}
		return &diff{P + "/" + opName(culprit) + "/" + what + "/" + fc, "process starts differ", p.Starts, o.Starts}
	}
	// open-file calls
	if c.Cfg.Custom {
		po, oo := p.Opens, o.Opens
		if po == nil {
			po = []Open{}
		}
		if oo == nil {
			oo = []Open{}
		}
		if !reflect.DeepEqual(po, oo) {
			what, culprit := "opens-differ", lastIO(c)
			byMode := func(m string) func(Act) bool {
				if m == "read" {
					return isReadAct
				}
				return isWriteAct
			}
			// the first call that differs names the action
			k := 0
			for k < len(po) && k < len(oo) && po[k] == oo[k] {
				k++
			}
			switch {
			case k < len(oo) && ((c.Cfg.NW && oo[k].Mode != "read") || (c.Cfg.NR && oo[k].Mode == "read")):
				what, culprit = "file-opened", actFor(c, oo[k].Name, byMode(oo[k].Mode))
			case k < len(po) && k < len(oo) && po[k].Name == oo[k].Name:
				what, culprit = "open-mode-"+oo[k].Mode+"-for-"+po[k].Mode, actFor(c, po[k].Name, byMode(po[k].Mode))
			case k < len(po) && k >= len(oo):
				what, culprit = "not-through-openfile", actFor(c, po[k].Name, byMode(po[k].Mode))
			case k < len(oo):
				what, culprit = "extra-open", actFor(c, oo[k].Name, byMode(oo[k].Mode))
			}
			return &diff{P + "/" + opName(culprit) + "/" + what + "/" + fc, "calls of the open-file function differ", po, oo}
		}
	}
	// directory
	if len(o.Extra) > 0 {
		return &diff{P + "/" + opName(lastIO(c)) + "/unexpected-file/" + fc, "unexpected directory entries", nil, o.Extra}
	}
	for _, n := range FileNames {
		pf, of := p.Files[n], o.Files[n]
		if pf.Ex != of.Ex || !bytes.Equal(pf.C.Bytes(), of.C.Bytes()) {
			a := actFor(c, n, isWriteAct)
			what := "file-content"
			if pf.Ex != of.Ex {
				what = "file-existence"
			}
			return &diff{P + "/" + opName(a) + "/" + what + "/" + fc, "file " + n + " differs",
				map[string]any{"exists": pf.Ex, "content": pf.C.String()}, map[string]any{"exists": of.Ex, "content": of.C.String()}}
		}
	}
	// error outcome
	if p.ErrJudged && p.Err != gotErr {
		what, culprit := "missing-error", lastIO(c)
		if gotErr {
			what, culprit = "unexpected-error", failedAct(c, o)
		}
		return &diff{P + "/" + opName(culprit) + "/" + what + "/" + fc + "/" + ending(c),
			fmt.Sprintf("spec error=%v, real error=%v", p.Err, o.Err), p.Err, fmt.Sprint(o.Err)}
	}
	// values the program saw
	n := len(p.Notes)
	if len(o.Notes) != n && p.ErrJudged {
		return &diff{P + "/" + opName(lastIO(c)) + "/result-count/" + fc, "number of observed results differs", p.Notes, o.Notes}
	}
	if len(o.Notes) < n {
		n = len(o.Notes)
	}
	for i := 0; i < n; i++ {
		pn, on := p.Notes[i], o.Notes[i]
		if pn.K != on.K {
			return &diff{P + "/" + opName(lastIO(c)) + "/result-kind/" + fc, "sequence of observed results differs", p.Notes, o.Notes}
		}
		if pn.J && (pn.V != on.V || !bytes.Equal(pn.S.Bytes(), on.S.Bytes())) {
			what := pn.K + "-value"
			if pn.K == "close" {
				what = "close-status"
			}
			return &diff{P + "/" + pn.K + "/" + what + "/" + fc, fmt.Sprintf("result %d (%s) differs", i+1, pn.K), pn, on}
		}
	}
	if p.StdoutJudged {
		if !AllowedStdout(o.Stdout, p.Stdout.Prog.Bytes(), p.Stdout.Kids) {
			cls := "no-children"
			if len(p.Stdout.Kids) > 0 {
				cls = "with-children"
			}
			return &diff{P + "/stdout/content/" + cls + "/" + variant + "/" + ending(c), "standard output is not an allowed interleaving",
				map[string]any{"program": p.Stdout.Prog.String(), "children": p.Stdout.Kids}, string(o.Stdout)}
		}
	}
	if p.SerrJudged && !bytes.Equal(o.Stderr, p.Serr.Bytes()) {
		return &diff{P + "/print-to-stderr/content/" + fc, "error output differs", p.Serr.String(), string(o.Stderr)}
	}
	return nil
}

func nontrivial(c *Case) bool {
	if c.Fam == "sandbox" {
		return (c.Cfg.NE || c.Cfg.NW || c.Cfg.NR) && lastIO(c).Op != "none"
	}
	if c.Fam == "failure" {
		return true
	}
	// delivery: writes to a destination other than plain stdout, or mixes destinations
	for _, a := range c.Acts {
		if a.Op == "print" && a.Dest != "stdout" {
			return true
		}
	}
	return false
}

// replayTrace re-runs a recorded run that Trace_IOStreams rejected (the
// verdict was TLC's): it reports whether the real code still shows the
// rejected observation.
func replayTrace(raw json.RawMessage) hx.Outcome {
	var t struct {
		Events []struct {
			Ev  string `json:"ev"`
			Act struct {
				Act
				Cfg *Cfg `json:"cfg"`
			} `json:"act"`
			Obs json.RawMessage `json:"obs"`
		} `json:"events"`
	}
	if err := json.Unmarshal(raw, &t); err != nil {
		return hx.Outcome{Skipped: true, Note: "bad trace case"}
	}
	c := &Case{Fam: "trace"}
	for _, e := range t.Events {
		switch {
		case e.Ev != "step" || e.Act.Op == "end":
		case e.Act.Op == "config" && e.Act.Cfg != nil:
			c.Cfg = *e.Act.Cfg
		default:
			c.Acts = append(c.Acts, e.Act.Act)
		}
	}
	if len(c.Acts) == 0 {
		return hx.Outcome{Skipped: true, Note: "no actions"}
	}
	obs, prog := Run(c, RunOpts{Marks: true})
	if obs == nil {
		return hx.Outcome{Skipped: true, Note: "not renderable"}
	}
	now := EventsOf(c, obs)
	if len(t.Events) > 0 && t.Events[0].Ev != "reset" {
		now = now[1:] // the recorded slice starts after the reset event
	}
	// compare the observation of the rejected (last recorded) event with the new run
	k := len(t.Events) - 1
	if k >= len(now) {
		return hx.OK(true)
	}
	nb, _ := json.Marshal(now[k]["obs"])
	var x, y any
	_ = json.Unmarshal(nb, &x)
	_ = json.Unmarshal(t.Events[k].Obs, &y)
	if reflect.DeepEqual(x, y) {
		return hx.Fail("trace/"+opName(lastIO(c))+"/rejected-observation-reproduced", "the real code still produces the observation that Trace_IOStreams rejected",
			"see the replay file (info.expected)", string(nb), prog)
	}
	return hx.OK(true)
}

// Replay is the hx.Replayer for Gen_IOStreams exports.
func Replay(raw json.RawMessage) hx.Outcome {
	var head struct {
		Fam string `json:"fam"`
	}
	_ = json.Unmarshal(raw, &head)
	if head.Fam == "trace" {
		return replayTrace(raw)
	}
	var c Case
	if err := json.Unmarshal(raw, &c); err != nil || len(c.Acts) == 0 {
		return hx.Outcome{Skipped: true, Note: "bad case"}
	}
	variants := []RunOpts{{Marks: true}}
	if c.Cfg.FailAt < 0 && len(c.Pred.Starts) == 0 && len(c.Pred.Stdout.Prog) > 0 {
		// no child process, something written to standard output: the run is also made with a buffered standard output
		variants = append(variants, RunOpts{Marks: true, Bufio: true})
	}
	for _, v := range variants {
		obs, prog := Run(&c, v)
		if obs == nil {
			return hx.Outcome{Skipped: true, Note: "not renderable: " + prog}
		}
		vn := "plain-writer"
		if v.Bufio {
			vn = "bufio-writer"
		}
		d := Compare(&c, obs, vn)
		// Timing guard: the interpreter gives the copier of a child's output 250 ms after the child's exit
		// (cmd.WaitDelay); on an overloaded machine that can expire.  A disagreement in a run with child
		// processes is reported only if it shows in three runs out of three.
		for try := 0; d != nil && len(c.Pred.Starts) > 0 && try < 2; try++ {
			obs, prog = Run(&c, v)
			d = Compare(&c, obs, vn)
		}
		if d != nil {
			return hx.Fail(d.sig, "["+vn+"] "+d.what, d.exp, d.got, prog)
		}
	}
	return hx.OK(nontrivial(&c))
}
