package c05

import (
	"bufio"
	"bytes"
	"encoding/json"
	"fmt"
	"math"
	"math/rand"
	"os"
	"strconv"
	"strings"

	"github.com/benhoyt/goawk/interp"
	"github.com/benhoyt/goawk/verifharness/hx"
)

// The CONVFMT / OFMT settings of spec/ValuesCases.tla (CFs), by index.
var cfTexts = []string{"%.6g", "%.1g", "%.1f", "%.2e", "%.10g", "%.0f"}

var digitsAll = "0123456789"

func pick(r *rand.Rand, s string) byte { return s[r.Intn(len(s))] }

func randDigits(r *rand.Rand, min, max int) string {
	n := min + r.Intn(max-min+1)
	b := make([]byte, n)
	for i := range b {
		b[i] = pick(r, digitsAll)
	}
	return string(b)
}

func randBlank(r *rand.Rand) string {
	switch r.Intn(12) {
	case 0, 1, 2:
		return " "
	case 3:
		return "\t"
	case 4:
		return " \t "
	case 5:
		return "\xc2\xa0"
	case 6, 7:
		return "\v\f"
	}
	return ""
}

// randNumeric builds a string around a numeric token: decimal, hexadecimal,
// inf/nan spellings, with blanks, signs, exponents and deliberate damage.
func randNumeric(r *rand.Rand) []byte {
	var sb strings.Builder
	sb.WriteString(randBlank(r))
	if r.Intn(3) == 0 {
		sb.WriteByte(pick(r, "+-"))
	}
	switch k := r.Intn(20); {
	case k < 9: // decimal
		switch r.Intn(4) {
		case 0:
			sb.WriteString(randDigits(r, 1, 6))
		case 1:
			sb.WriteString(randDigits(r, 1, 4) + "." + randDigits(r, 0, 4))
		case 2:
			sb.WriteString("." + randDigits(r, 0, 4))
		case 3:
			sb.WriteString(randDigits(r, 0, 2) + "." + randDigits(r, 1, 3))
		}
		if r.Intn(3) == 0 {
			sb.WriteByte(pick(r, "eE"))
			if r.Intn(2) == 0 {
				sb.WriteByte(pick(r, "+-"))
			}
			sb.WriteString([]string{"", "0", "1", "2", "5", "10", "15", "22", "30", "99", "200", "400", "999", "00003"}[r.Intn(14)])
		}
	case k < 13: // hexadecimal
		sb.WriteString("0" + string(pick(r, "xX")))
		hd := "0123456789abcdefABCDEF"
		n := r.Intn(4)
		for i := 0; i < n; i++ {
			sb.WriteByte(pick(r, hd))
		}
		if r.Intn(3) == 0 {
			sb.WriteByte('.')
			for i := r.Intn(3); i > 0; i-- {
				sb.WriteByte(pick(r, hd))
			}
		}
		if r.Intn(3) == 0 {
			sb.WriteByte(pick(r, "pP"))
			if r.Intn(2) == 0 {
				sb.WriteByte(pick(r, "+-"))
			}
			sb.WriteString([]string{"", "0", "1", "3", "4", "10", "20"}[r.Intn(7)])
		}
	case k < 16: // inf / nan
		sb.WriteString([]string{"inf", "INF", "Inf", "infinity", "Infinity", "nan", "NaN", "NAN", "in", "na", "infin", "nano"}[r.Intn(12)])
	case k < 18: // large integers around the float64 / int64 boundaries
		sb.WriteString([]string{"9007199254740991", "9007199254740992", "9007199254740993", "9007199254740994",
			"9223372036854775807", "9223372036854775808", "9223372036854774784", "4611686018427387904",
			"18446744073709551616", "1000000000000000000", "999999999999999", "123456789012345"}[r.Intn(12)])
	default: // text
		n := 1 + r.Intn(4)
		for i := 0; i < n; i++ {
			sb.WriteByte(pick(r, "abzx_19. -+e"))
		}
	}
	// damage / suffix
	switch r.Intn(8) {
	case 0:
		sb.WriteByte(pick(r, "xzeE.+-_p"))
	case 1:
		sb.WriteString(randBlank(r) + string(pick(r, "1a")))
	}
	sb.WriteString(randBlank(r))
	b := []byte(sb.String())
	// occasional single-byte mutation
	if len(b) > 0 && r.Intn(10) == 0 {
		b[r.Intn(len(b))] = pick(r, "0159.eE+- \txXaAfFnNiIpP_z")
	}
	return b
}

type numRec struct {
	T   string `json:"t"`
	Neg bool   `json:"neg"`
	D   []int  `json:"d"`
	X   int    `json:"x"`
	Ed  []int  `json:"ed"`
	Ex  int    `json:"ex"`
}

func digitsOf(s string) []int {
	d := make([]int, 0, len(s))
	for i := 0; i < len(s); i++ {
		d = append(d, int(s[i]-'0'))
	}
	return d
}

// splitDigits normalises an integer text with an exponent to (digits without
// leading/trailing zeros, exponent of the last digit).
func splitDigits(ds string, x int) ([]int, int) {
	ds = strings.TrimLeft(ds, "0")
	for len(ds) > 0 && ds[len(ds)-1] == '0' {
		ds = ds[:len(ds)-1]
		x++
	}
	if ds == "" {
		return []int{}, 0
	}
	return digitsOf(ds), x
}

// describeFloat renders a float64 observed from the real code in the shape of
// the specification's numbers: shortest round-trip decimal (d, x) and, for
// integral values, the exact integer digits (ed, ex).
func describeFloat(f float64) numRec {
	switch {
	case math.IsNaN(f):
		return numRec{T: "nan", D: []int{}, Ed: []int{}}
	case math.IsInf(f, 1):
		return numRec{T: "inf", D: []int{}, Ed: []int{}}
	case math.IsInf(f, -1):
		return numRec{T: "inf", Neg: true, D: []int{}, Ed: []int{}}
	case f == 0:
		return numRec{T: "fin", D: []int{}, Ed: []int{}}
	}
	nr := numRec{T: "fin", Neg: f < 0, Ed: []int{}}
	a := math.Abs(f)
	s := strconv.FormatFloat(a, 'e', -1, 64) // d.ddddde±xx
	mant, exp, _ := strings.Cut(s, "e")
	e, _ := strconv.Atoi(exp)
	ip, fp, _ := strings.Cut(mant, ".")
	nr.D, nr.X = splitDigits(ip+fp, e-len(fp))
	if a == math.Trunc(a) && a < 1e21 {
		nr.Ed, nr.Ex = splitDigits(strconv.FormatFloat(a, 'f', 0, 64), 0)
	}
	return nr
}

func bitsOf(s string) []int {
	out := make([]int, len(s))
	for i := range s {
		out[i] = int(s[i] - '0')
	}
	return out
}

// Record runs the probe program on n random strings and writes, per string,
// one event for every distinct observation of each provenance class.
func Record(seed int64, n int, out string) (int, error) {
	r := rand.New(rand.NewSource(seed))
	f, err := os.Create(out)
	if err != nil {
		return 0, err
	}
	defer f.Close()
	w := bufio.NewWriter(f)
	defer w.Flush()
	emit := func(v any) {
		b, _ := json.Marshal(v)
		w.Write(b)
		w.WriteByte('\n')
	}
	count := 0
	for i := 0; i < n; i++ {
		s := randNumeric(r)
		if bytes.ContainsAny(s, "\n,=") {
			continue
		}
		cfi, ofi := r.Intn(len(cfTexts)), r.Intn(len(cfTexts))
		prog := sProgram(s, []byte(cfTexts[cfi]), []byte(cfTexts[ofi]))
		var in bytes.Buffer
		in.WriteString("1.0\n")
		for j := 0; j < 4; j++ {
			in.Write(s)
			in.WriteByte('\n')
		}
		cfg := &interp.Config{Args: []string{string(s)}, Environ: []string{"V", string(s)}, Vars: []string{"vv", string(s)}}
		res := hx.RunAwk(prog, in.Bytes(), cfg, nil)
		if res.Panic != nil || res.ParseErr != nil || res.Err != nil {
			return count, fmt.Errorf("probe program failed on %q: panic=%v parse=%v err=%v", s, res.Panic, res.ParseErr, res.Err)
		}
		lines, err := parseProbe(res.Stdout)
		if err != nil {
			return count, fmt.Errorf("probe output on %q: %v", s, err)
		}
		emit(map[string]any{"ev": "reset"})
		type key struct{ class, line string }
		seen := map[key]int{}
		var events []map[string]any
		for _, pl := range lines {
			class := ""
			for _, pv := range provs {
				if pv.name == pl.name {
					class = pv.class
				}
			}
			k := key{class, fmt.Sprintf("%s %s %s %d %v %q %q", pl.eq, pl.lt, pl.gt, pl.not, math.Float64bits(pl.num), pl.cat, pl.prt)}
			if math.IsNaN(pl.num) {
				k.line = fmt.Sprintf("%s %s %s %d nan %q %q", pl.eq, pl.lt, pl.gt, pl.not, pl.cat, pl.prt)
			}
			if idx, ok := seen[k]; ok {
				events[idx]["provs"] = append(events[idx]["provs"].([]string), pl.name)
				continue
			}
			seen[k] = len(events)
			events = append(events, map[string]any{
				"ev": "step", "s": hx.FromBytes(s), "class": class, "provs": []string{pl.name}, "cfi": cfi + 1, "ofi": ofi + 1,
				"obs": map[string]any{"eq": bitsOf(pl.eq), "lt": bitsOf(pl.lt), "gt": bitsOf(pl.gt), "not": pl.not,
					"num": describeFloat(pl.num), "cat": hx.FromBytes(pl.cat), "prt": hx.FromBytes(pl.prt)},
			})
		}
		for _, e := range events {
			emit(e)
		}
		count++
	}
	return count, nil
}
