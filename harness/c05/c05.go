// Package c05 binds spec/Values.tla (the AWK value model) to the real
// interpreter.  Cases exported by TLC from Gen_Values carry the observables the
// specification predicts; Replay renders each case to a probe program, runs the
// real code and compares.  Families:
//
//	"s"  one string in every provenance (field, $0, getline var, split element,
//	     ARGV, ENVIRON, -v/Config.Vars: numeric-string input; constant and
//	     concatenation: string; s+0 and +s: computed number), probed with
//	     ==, <, > against the comparators, !v, v+0, v "" and print v
//	"p"  an ordered pair of values under the six comparison operators
//	"v"  a number converted to a string through CONVFMT and OFMT
//
// On the forms POSIX leaves open (hex, inf/nan, non-ASCII blanks) a case lists
// the predictions of every self-consistent dialect; the real code must agree
// with one of them (only consistency is judged there).
package c05

import (
	"bytes"
	"encoding/json"
	"fmt"
	"math"
	"regexp"
	"strconv"
	"strings"

	"github.com/benhoyt/goawk/interp"
	"github.com/benhoyt/goawk/verifharness/hx"
)

type NumJ struct {
	T   string `json:"t"`
	Neg bool   `json:"neg"`
	D   []int  `json:"d"`
	X   int    `json:"x"`
}

type Obs struct {
	Eq  []int `json:"eq"`
	Lt  []int `json:"lt"`
	Gt  []int `json:"gt"`
	Not int   `json:"not"`
	Num NumJ  `json:"num"`
	Cat []int `json:"cat"`
	Prt []int `json:"prt"`
}

type SPred struct {
	Looks bool `json:"looks"`
	Sn    Obs  `json:"sn"`
	St    Obs  `json:"st"`
	Nm    Obs  `json:"nm"`
}

type ValJ struct {
	Tag string `json:"tag"`
	S   hx.BS  `json:"s"`
	N   NumJ   `json:"n"`
}

type PPred struct {
	Ops     []int `json:"ops"`
	Numeric bool  `json:"numeric"`
}

type Case struct {
	Fam string `json:"fam"`
	Cls string `json:"cls"`
	Cf  hx.BS  `json:"cf"`
	Of  hx.BS  `json:"of"`
	// fam s
	S     hx.BS           `json:"s"`
	Main  json.RawMessage `json:"main"`
	Alts  json.RawMessage `json:"alts"`
	// fam p
	A ValJ `json:"a"`
	B ValJ `json:"b"`
	// fam v
	N        NumJ  `json:"n"`
	Cat      []int `json:"cat"`
	Prt      []int `json:"prt"`
	Integral bool  `json:"integral"`
	// fam t (a rejected recorded observation, for --replay)
	Class    string `json:"class"`
	Expected *Obs   `json:"expected"`
}

// ---------------------------------------------------------------- numbers

func digitsText(d []int) string {
	var sb strings.Builder
	for _, v := range d {
		sb.WriteByte(byte('0' + v))
	}
	return sb.String()
}

// Literal renders a finite number of the specification as AWK source text.
func (n NumJ) Literal() string {
	if len(n.D) == 0 {
		return "0"
	}
	s := digitsText(n.D)
	if n.X != 0 {
		s += "e" + strconv.Itoa(n.X)
	}
	return s
}

// Expr renders any number of the model as an AWK expression.
func (n NumJ) Expr() string {
	switch n.T {
	case "inf":
		if n.Neg {
			return "log(0)"
		}
		return "(-log(0))"
	case "nan":
		return "log(-1)"
	}
	if n.Neg {
		return "(-" + n.Literal() + ")"
	}
	return n.Literal()
}

// Float converts the exact decimal of the specification to the float64 it
// denotes (correctly rounded by strconv; the specification only predicts
// decimals of at most 15 digits or integers that are exactly float64 values).
func (n NumJ) Float() (float64, bool) {
	switch n.T {
	case "inf":
		if n.Neg {
			return math.Inf(-1), true
		}
		return math.Inf(1), true
	case "nan":
		return math.NaN(), true
	case "fin":
		f, err := strconv.ParseFloat(n.Literal(), 64)
		if err != nil {
			return 0, false
		}
		if n.Neg {
			f = -f
		}
		return f, true
	}
	return 0, false
}

func sameFloat(a, b float64) bool {
	if math.IsNaN(a) || math.IsNaN(b) {
		return math.IsNaN(a) && math.IsNaN(b)
	}
	return a == b
}

func hasNeg(b []int) bool {
	for _, v := range b {
		if v < 0 {
			return true
		}
	}
	return false
}

func toBytes(b []int) []byte {
	out := make([]byte, len(b))
	for i, v := range b {
		out[i] = byte(v)
	}
	return out
}

// ---------------------------------------------------------------- family s

const probeFunc = `
function pr(name, v,    e, l, g, c) {
  e = (v==0) (v==1) (v==10) (v=="1") (v==un) (v==k6)
  l = ""
  if (v<0) l = l "1"; else l = l "0"
  if (v<1) l = l "1"; else l = l "0"
  if (v<10) l = l "1"; else l = l "0"
  if (v<"1") l = l "1"; else l = l "0"
  if (v<un) l = l "1"; else l = l "0"
  if (v<k6) l = l "1"; else l = l "0"
  g = (v>0 ? 1 : 0) (v>1 ? 1 : 0) (v>10 ? 1 : 0) (v>"1" ? 1 : 0) (v>un ? 1 : 0) (v>k6 ? 1 : 0)
  c = v ""
  printf "%s %s %s %s %d %.17g C%d:%s P", name, e, l, g, !v, v+0, length(c), c
  print v
}
`

// provenance name -> class of the prediction it is compared with
var provs = []struct{ name, class string }{
	{"field", "sn"}, {"dollar0", "sn"}, {"fieldcopy", "sn"}, {"getlinevar", "sn"}, {"split", "sn"},
	{"argv", "sn"}, {"environ", "sn"}, {"dashv", "sn"},
	{"const", "st"}, {"concat", "st"},
	{"computed", "nm"}, {"uplus", "nm"},
	// the same field position of a LATER record, after the program assigned fields of the previous record
	// (an assigned field is a string; the next record's field is input-derived text again)
	{"fieldafter", "sn"},
}

func sProgram(s []byte, cf, of []byte) string {
	var sb strings.Builder
	sb.WriteString("BEGIN {\n")
	fmt.Fprintf(&sb, "  CONVFMT = %s; OFMT = %s; FS = \",\"\n", hx.AwkString(cf), hx.AwkString(of))
	sb.WriteString("  av = ARGV[1]; ARGV[1] = \"\"\n") // an empty operand is skipped: getline reads standard input
	sb.WriteString("  getline k6\n")
	sb.WriteString("  getline; fld = $1\n")
	if len(s) > 0 {
		sb.WriteString("  pr(\"field\", $1); pr(\"fieldcopy\", fld)\n")
	}
	// (for the empty record $1 does not exist; POSIX makes it the uninitialized value, GoAWK an empty
	// string: not what this property is about, so it is not probed)
	sb.WriteString("  pr(\"dollar0\", $0)\n")
	sb.WriteString("  getline gv; pr(\"getlinevar\", gv)\n")
	sb.WriteString("  getline l5; n = split(l5, arr, \",\"); if (n > 0) pr(\"split\", arr[1])\n")
	sb.WriteString("  pr(\"argv\", av); pr(\"environ\", ENVIRON[\"V\"]); pr(\"dashv\", vv)\n")
	fmt.Fprintf(&sb, "  pr(\"const\", %s); pr(\"concat\", gv \"\")\n", hx.AwkString(s))
	sb.WriteString("  pr(\"computed\", gv + 0); pr(\"uplus\", +gv)\n")
	sb.WriteString("  $1 = \"x\"; $2 = \"zz\"; getline\n")
	if len(s) > 0 {
		sb.WriteString("  pr(\"fieldafter\", $1)\n")
	}
	sb.WriteString("}\n")
	sb.WriteString(probeFunc)
	return sb.String()
}

// probeLine is what one pr() call printed.
type probeLine struct {
	name       string
	eq, lt, gt string
	not        int
	num        float64
	cat, prt   []byte
}

func parseProbe(out []byte) ([]probeLine, error) {
	var res []probeLine
	for len(out) > 0 {
		var pl probeLine
		// five space separated tokens, then the number, then C<len>:<bytes> P<print>\n
		tok := make([]string, 0, 6)
		for len(tok) < 6 {
			i := bytes.IndexByte(out, ' ')
			if i < 0 {
				return nil, fmt.Errorf("truncated probe line %q", out)
			}
			tok = append(tok, string(out[:i]))
			out = out[i+1:]
		}
		pl.name, pl.eq, pl.lt, pl.gt = tok[0], tok[1], tok[2], tok[3]
		n, err := strconv.Atoi(tok[4])
		if err != nil {
			return nil, fmt.Errorf("bad !v token %q", tok[4])
		}
		pl.not = n
		f, err := strconv.ParseFloat(tok[5], 64)
		if err != nil {
			return nil, fmt.Errorf("bad number token %q", tok[5])
		}
		pl.num = f
		if len(out) == 0 || out[0] != 'C' {
			return nil, fmt.Errorf("missing C marker in %q", out)
		}
		i := bytes.IndexByte(out, ':')
		if i < 0 {
			return nil, fmt.Errorf("missing length in %q", out)
		}
		ln, err := strconv.Atoi(string(out[1:i]))
		if err != nil || i+1+ln+2 > len(out) {
			return nil, fmt.Errorf("bad length in %q", out)
		}
		pl.cat = append([]byte{}, out[i+1:i+1+ln]...)
		out = out[i+1+ln:]
		if !bytes.HasPrefix(out, []byte(" P")) {
			return nil, fmt.Errorf("missing P marker in %q", out)
		}
		out = out[2:]
		j := bytes.IndexByte(out, '\n')
		if j < 0 {
			return nil, fmt.Errorf("missing newline in %q", out)
		}
		pl.prt = append([]byte{}, out[:j]...)
		out = out[j+1:]
		res = append(res, pl)
	}
	return res, nil
}

func bitsMatch(pred []int, got string) bool {
	if len(pred) != len(got) {
		return false
	}
	for i, p := range pred {
		if p < 0 {
			continue
		}
		if int(got[i]-'0') != p {
			return false
		}
	}
	return true
}

// diffObs names the first kind of observable on which a probe line differs
// from a prediction ("" if it agrees): compare, truth, arith, tostr.
func diffObs(o *Obs, pl *probeLine) string {
	if !bitsMatch(o.Eq, pl.eq) || !bitsMatch(o.Lt, pl.lt) || !bitsMatch(o.Gt, pl.gt) {
		return "compare"
	}
	if o.Not >= 0 && o.Not != pl.not {
		return "truth"
	}
	if f, ok := o.Num.Float(); ok && !sameFloat(f, pl.num) {
		return "arith"
	}
	if !hasNeg(o.Cat) && !bytes.Equal(toBytes(o.Cat), pl.cat) {
		return "tostr"
	}
	if !hasNeg(o.Prt) && !bytes.Equal(toBytes(o.Prt), pl.prt) {
		return "tostr"
	}
	return ""
}

func classObs(p *SPred, class string) *Obs {
	switch class {
	case "sn":
		return &p.Sn
	case "st":
		return &p.St
	}
	return &p.Nm
}

var className = map[string]string{"sn": "strnum", "st": "str", "nm": "num"}

// matchPred compares all probe lines with one dialect's prediction; returns
// the provenance and kind of the first difference.
func matchPred(p *SPred, lines []probeLine) (prov, class, what string) {
	for i := range lines {
		pl := &lines[i]
		cl := ""
		for _, pv := range provs {
			if pv.name == pl.name {
				cl = pv.class
			}
		}
		if w := diffObs(classObs(p, cl), pl); w != "" {
			return pl.name, cl, w
		}
	}
	return "", "", ""
}

func expectObs(o *Obs) map[string]any {
	m := map[string]any{"eq": o.Eq, "lt": o.Lt, "gt": o.Gt, "not": o.Not}
	if f, ok := o.Num.Float(); ok {
		m["num"] = strconv.FormatFloat(f, 'g', 17, 64)
	}
	if !hasNeg(o.Cat) {
		m["cat"] = string(toBytes(o.Cat))
	}
	if !hasNeg(o.Prt) {
		m["print"] = string(toBytes(o.Prt))
	}
	return m
}

// independent reference for the sanity gate on the specification (documented GoAWK dialect)
const wsClass = `[ \t\n\v\f\r]*`
const numTok = `[+-]?(?:0[xX](?:[0-9a-fA-F]+\.?[0-9a-fA-F]*|\.[0-9a-fA-F]+)(?:[pP][+-]?[0-9]+)?|(?:[0-9]+\.?[0-9]*|\.[0-9]+)(?:[eE][+-]?[0-9]+)?|(?i:inf(?:inity)?|nan))`

var reWhole = regexp.MustCompile(`^` + wsClass + numTok + wsClass + `$`)
var rePrefix = func() *regexp.Regexp { r := regexp.MustCompile(`^` + wsClass + numTok); r.Longest(); return r }()

func refValue(tok string) float64 {
	t := strings.TrimLeft(tok, " \t\n\v\f\r")
	t = strings.TrimRight(t, " \t\n\v\f\r")
	low := strings.ToLower(t)
	body := strings.TrimLeft(low, "+-")
	neg := strings.HasPrefix(low, "-")
	var f float64
	switch {
	case body == "nan":
		return math.NaN()
	case strings.HasPrefix(body, "inf"):
		f = math.Inf(1)
	case strings.HasPrefix(body, "0x"):
		if !strings.Contains(body, "p") {
			body += "p0"
		}
		f, _ = strconv.ParseFloat(body, 64)
	default:
		f, _ = strconv.ParseFloat(body, 64) // +-Inf on overflow, as C strtod gives HUGE_VAL
	}
	if neg {
		f = -f
	}
	return f
}

// gateS checks the specification's main-dialect prediction for a string
// against the regexp/strconv reference.  A disagreement is a defect of the
// SPECIFICATION (or of this reference), never a verdict on the code.
func gateS(s []byte, p *SPred) string {
	if bytes.Contains(s, []byte{0xc2, 0xa0}) {
		// the reference treats NBSP as an ordinary byte, as the main dialect does
	}
	looks := reWhole.Match(s)
	if looks != p.Looks {
		return fmt.Sprintf("LooksNumeric(%q): spec %v, reference %v", s, p.Looks, looks)
	}
	var ref float64
	if m := rePrefix.Find(s); m != nil {
		ref = refValue(string(m))
	}
	if f, ok := p.Sn.Num.Float(); ok && !sameFloat(f, ref) {
		return fmt.Sprintf("PrefixValue(%q): spec %v, reference %v", s, f, ref)
	}
	return ""
}

func sNontrivial(c *Case, main *SPred, alts []SPred) bool {
	if main.Looks || len(alts) > 0 {
		return true
	}
	f, ok := main.Sn.Num.Float()
	return ok && f != 0
}

func replayS(c *Case) hx.Outcome {
	var main SPred
	var alts []SPred
	if err := json.Unmarshal(c.Main, &main); err != nil {
		return hx.Outcome{Skipped: true, Note: "bad main"}
	}
	if err := json.Unmarshal(c.Alts, &alts); err != nil {
		return hx.Outcome{Skipped: true, Note: "bad alts"}
	}
	s := c.S.Bytes()
	if g := gateS(s, &main); g != "" {
		return hx.Fail("SPEC-GATE/C05/s", g, nil, nil, "")
	}
	prog := sProgram(s, c.Cf.Bytes(), c.Of.Bytes())
	var in bytes.Buffer
	in.WriteString("1.0\n")
	for i := 0; i < 4; i++ {
		in.Write(s)
		in.WriteByte('\n')
	}
	cfg := &interp.Config{
		Args:    []string{string(s)},
		Environ: []string{"V", string(s)},
		Vars:    []string{"vv", string(s)},
	}
	res := hx.RunAwk(prog, in.Bytes(), cfg, nil)
	if res.Panic != nil {
		return hx.Fail("C05/panic", fmt.Sprintf("panic: %v", res.Panic), nil, res.PanicStk, prog)
	}
	if res.ParseErr != nil {
		return hx.Outcome{Skipped: true, Note: "probe program rejected: " + res.ParseErr.Error()}
	}
	if res.Err != nil {
		return hx.Fail("C05/probe-error/"+c.Cls, fmt.Sprintf("probe program failed: %v", res.Err), nil, string(res.Stdout), prog)
	}
	lines, err := parseProbe(res.Stdout)
	if err != nil {
		return hx.Fail("C05/probe-output/"+c.Cls, "unparsable probe output: "+err.Error(), nil, string(res.Stdout), prog)
	}
	want := len(provs)
	if len(s) == 0 {
		want -= 4 // split("") has no element; $1 of the empty record does not exist
	}
	if len(lines) != want {
		return hx.Fail("C05/probe-output/"+c.Cls, fmt.Sprintf("%d probe lines, expected %d", len(lines), want), nil, string(res.Stdout), prog)
	}
	prov, class, what := matchPred(&main, lines)
	if what == "" {
		return hx.OK(sNontrivial(c, &main, alts))
	}
	for i := range alts {
		if _, _, w := matchPred(&alts[i], lines); w == "" {
			return hx.OK(true)
		}
	}
	// is the difference common to all provenances of the class?  then name the class, else the provenance
	who := className[class]
	for i := range lines {
		cl := ""
		for _, pv := range provs {
			if pv.name == lines[i].name {
				cl = pv.class
			}
		}
		if cl == class && diffObs(classObs(&main, class), &lines[i]) == "" {
			who = className[class] + "-" + prov
			break
		}
	}
	sig := fmt.Sprintf("C05/%s/%s/%s", who, what, c.Cls)
	var got *probeLine
	for i := range lines {
		if lines[i].name == prov {
			got = &lines[i]
		}
	}
	observed := map[string]any{"provenance": prov, "eq": got.eq, "lt": got.lt, "gt": got.gt, "not": got.not,
		"num": strconv.FormatFloat(got.num, 'g', 17, 64), "cat": string(got.cat), "print": string(got.prt)}
	return hx.Fail(sig, fmt.Sprintf("string %q as %s (%s): %s observable differs from every consistent dialect of the specification",
		s, prov, className[class], what), expectObs(classObs(&main, class)), observed, prog)
}

// ---------------------------------------------------------------- family p

func valSetup(v *ValJ, name string, in *bytes.Buffer) string {
	switch v.Tag {
	case "null":
		return ""
	case "num":
		return fmt.Sprintf("  %s = %s\n", name, v.N.Expr())
	case "str":
		return fmt.Sprintf("  %s = %s\n", name, hx.AwkString(v.S.Bytes()))
	case "strnum":
		in.Write(v.S.Bytes())
		in.WriteByte('\n')
		return fmt.Sprintf("  getline %s\n", name)
	}
	return ""
}

// pProgram: the operands are the variables a and b, or (elems) the array elements E["a"] and E["b"] -- an operand
// that is never assigned is then an element that the first reference creates.
func pProgram(c *Case, elems bool) (string, []byte) {
	a, b := "a", "b"
	if elems {
		a, b = `E["a"]`, `E["b"]`
	}
	var sb strings.Builder
	var in bytes.Buffer
	sb.WriteString("BEGIN {\n")
	fmt.Fprintf(&sb, "  CONVFMT = %s\n", hx.AwkString(c.Cf.Bytes()))
	sb.WriteString(valSetup(&c.A, a, &in))
	sb.WriteString(valSetup(&c.B, b, &in))
	fmt.Fprintf(&sb, "  printf \"%%d%%d%%d%%d%%d%%d \", (%[1]s<%[2]s), (%[1]s<=%[2]s), (%[1]s==%[2]s), (%[1]s!=%[2]s), (%[1]s>%[2]s), (%[1]s>=%[2]s)\n", a, b)
	for _, op := range []string{"<", "<=", "==", "!=", ">", ">="} {
		fmt.Fprintf(&sb, "  if (%s %s %s) r = r \"1\"; else r = r \"0\"\n", a, op, b)
	}
	sb.WriteString("  printf \"%s \", r\n")
	fmt.Fprintf(&sb, "  w = \"\"; i = 0; while (%s < %s) { w = \"1\"; if (i++ >= 0) break }\n", a, b)
	fmt.Fprintf(&sb, "  printf \"%%s%%s\\n\", (w == \"\" ? 0 : 1), (!(%s == %s) ? 1 : 0)\n", a, b)
	sb.WriteString("}\n")
	return sb.String(), in.Bytes()
}

func pMatch(p *PPred, got []string) string {
	if !bitsMatch(p.Ops, got[0]) {
		return "expression"
	}
	if !bitsMatch(p.Ops, got[1]) {
		return "branch"
	}
	if !bitsMatch([]int{p.Ops[0], p.Ops[3]}, got[2]) {
		return "loop-or-negation"
	}
	return ""
}

func valDesc(v *ValJ) string {
	switch v.Tag {
	case "null":
		return "unset"
	case "num":
		return "number " + v.N.Expr()
	case "str":
		return fmt.Sprintf("string %q", v.S.Bytes())
	}
	return fmt.Sprintf("input %q", v.S.Bytes())
}

func replayP(c *Case) hx.Outcome {
	var main PPred
	var alts []PPred
	if json.Unmarshal(c.Main, &main) != nil || json.Unmarshal(c.Alts, &alts) != nil || len(main.Ops) != 6 {
		return hx.Outcome{Skipped: true, Note: "bad pair case"}
	}
	if o := replayPWith(c, &main, alts, false); o.Fail != nil || o.Skipped {
		return o
	}
	return replayPWith(c, &main, alts, true)
}

func replayPWith(c *Case, mainp *PPred, alts []PPred, elems bool) hx.Outcome {
	main := *mainp
	prog, in := pProgram(c, elems)
	res := hx.RunAwk(prog, in, nil, nil)
	if res.Panic != nil {
		return hx.Fail("C05/panic", fmt.Sprintf("panic: %v", res.Panic), nil, res.PanicStk, prog)
	}
	if res.ParseErr != nil {
		return hx.Outcome{Skipped: true, Note: "probe program rejected: " + res.ParseErr.Error()}
	}
	got := strings.Fields(string(res.Stdout))
	if res.Err != nil || len(got) != 3 {
		return hx.Fail("C05/probe-error/pair", fmt.Sprintf("probe program failed: %v", res.Err), nil, string(res.Stdout), prog)
	}
	what := pMatch(&main, got)
	if what == "" {
		return hx.OK(c.A.Tag != c.B.Tag || c.A.Tag == "strnum")
	}
	for i := range alts {
		if pMatch(&alts[i], got) == "" {
			return hx.OK(true)
		}
	}
	mode := "string-mode"
	if main.Numeric {
		mode = "numeric-mode"
	}
	sig := fmt.Sprintf("C05/pair/%s-%s/%s", what, mode, c.Cls)
	if elems {
		sig = fmt.Sprintf("C05/pair-of-array-elements/%s-%s/%s", what, mode, c.Cls)
	}
	return hx.Fail(sig, fmt.Sprintf("%s against %s: operators < <= == != > >= differ from the specification (%s comparison expected)",
		valDesc(&c.A), valDesc(&c.B), mode), main.Ops, got, prog)
}

// ---------------------------------------------------------------- family v

// gateV: the specification's rendering through a %.Ng / %.Nf / %.Ne format
// against strconv.FormatFloat (C-compatible for these three verbs).
func gateV(n NumJ, cf []byte, pred []int, integral bool) string {
	if hasNeg(pred) {
		return ""
	}
	f, ok := n.Float()
	if !ok {
		return ""
	}
	var ref string
	if integral {
		ref = strconv.FormatFloat(f, 'f', 0, 64)
	} else {
		prec, err := strconv.Atoi(string(cf[2 : len(cf)-1]))
		if err != nil {
			return "unreadable format " + string(cf)
		}
		ref = strconv.FormatFloat(f, cf[len(cf)-1], prec, 64)
	}
	if ref != string(toBytes(pred)) {
		return fmt.Sprintf("NumToStr(%s, %s): spec %q, reference %q", n.Expr(), cf, toBytes(pred), ref)
	}
	return ""
}

func numClass(n NumJ, integral bool) string {
	switch {
	case n.T != "fin":
		return "nonfinite"
	case integral && len(n.D)+n.X > 15:
		return "big-integer"
	case integral:
		return "integer"
	case n.X >= 0:
		return "beyond-int64"
	}
	return "fraction"
}

func replayV(c *Case) hx.Outcome {
	if hasNeg(c.Cat) && hasNeg(c.Prt) {
		return hx.OK(false) // nothing predicted (non-finite spelling / unmodelled): not judged
	}
	for _, g := range []string{gateV(c.N, c.Cf.Bytes(), c.Cat, c.Integral), gateV(c.N, c.Of.Bytes(), c.Prt, c.Integral)} {
		if g != "" {
			return hx.Fail("SPEC-GATE/C05/v", g, nil, nil, "")
		}
	}
	var sb strings.Builder
	sb.WriteString("BEGIN {\n")
	fmt.Fprintf(&sb, "  CONVFMT = %s; OFMT = %s\n", hx.AwkString(c.Cf.Bytes()), hx.AwkString(c.Of.Bytes()))
	fmt.Fprintf(&sb, "  x = %s\n", c.N.Expr())
	sb.WriteString("  c = x \"\"; printf \"C%d:%s P\", length(c), c; print x\n")
	sb.WriteString("  y = x; printf \"Q\"; print y, y\n")
	sb.WriteString("}\n")
	prog := sb.String()
	res := hx.RunAwk(prog, nil, nil, nil)
	if res.Panic != nil {
		return hx.Fail("C05/panic", fmt.Sprintf("panic: %v", res.Panic), nil, res.PanicStk, prog)
	}
	if res.ParseErr != nil {
		return hx.Outcome{Skipped: true, Note: "probe program rejected: " + res.ParseErr.Error()}
	}
	cls := numClass(c.N, c.Integral)
	want := ""
	var parts []string
	if !hasNeg(c.Cat) {
		parts = append(parts, fmt.Sprintf("C%d:%s", len(c.Cat), toBytes(c.Cat)))
	}
	out := string(res.Stdout)
	if res.Err != nil {
		return hx.Fail("C05/probe-error/tostr", fmt.Sprintf("probe program failed: %v", res.Err), nil, out, prog)
	}
	// C<len>:<cat> P<print>\nQ<print> <print>\n
	i := strings.Index(out, " P")
	j := strings.Index(out, "\nQ")
	if i < 0 || j < i || !strings.HasSuffix(out, "\n") {
		return hx.Fail("C05/probe-output/tostr", "unparsable probe output", nil, out, prog)
	}
	gotCat, gotPrt, gotQ := out[:i], out[i+2:j], out[j+2:len(out)-1]
	_ = parts
	if !hasNeg(c.Cat) {
		want = fmt.Sprintf("C%d:%s", len(c.Cat), toBytes(c.Cat))
		if gotCat != want {
			return hx.Fail("C05/num-to-string/convfmt/"+cls, fmt.Sprintf("%s \"\" with CONVFMT=%s", c.N.Expr(), c.Cf.Bytes()), want, gotCat, prog)
		}
	}
	if !hasNeg(c.Prt) {
		p := string(toBytes(c.Prt))
		if gotPrt != p {
			return hx.Fail("C05/num-to-string/print-ofmt/"+cls, fmt.Sprintf("print %s with OFMT=%s", c.N.Expr(), c.Of.Bytes()), p, gotPrt, prog)
		}
		if gotQ != p+" "+p {
			return hx.Fail("C05/num-to-string/print-ofmt-list/"+cls, fmt.Sprintf("print y, y for y = %s with OFMT=%s", c.N.Expr(), c.Of.Bytes()), p+" "+p, gotQ, prog)
		}
	}
	return hx.OK(!c.Integral || len(c.N.D)+c.N.X > 9)
}

// Replay is the hx.Replayer for Gen_Values exports.
func Replay(raw json.RawMessage) hx.Outcome {
	var c Case
	if err := json.Unmarshal(raw, &c); err != nil {
		return hx.Outcome{Skipped: true, Note: "bad case: " + err.Error()}
	}
	switch c.Fam {
	case "s":
		return replayS(&c)
	case "p":
		return replayP(&c)
	case "v":
		return replayV(&c)
	case "t":
		return replayT(&c)
	case "c":
		return replayC(&c)
	}
	return hx.Outcome{Skipped: true, Note: "unknown family"}
}

// replayC: a long decimal (its float64 is not predicted): comparison and arithmetic must read the same
// number out of it, in every numeric-string provenance.
func replayC(c *Case) hx.Outcome {
	s := c.S.Bytes()
	prog := `function probe(tag, v,   x) { x = v + 0; printf "%s %d %d %d %d\n", tag, (v == x), (v < x), (v > x), (v == x "") }
{ probe("field", $1); split($0, arr, ";"); probe("split", arr[1]); probe("var", vv); probe("environ", ENVIRON["V"])
  if ((getline gl) > 0) probe("getline", gl) }
`
	var in bytes.Buffer
	in.Write(s)
	in.WriteByte('\n')
	in.Write(s)
	in.WriteByte('\n')
	cfg := &interp.Config{Environ: []string{"V", string(s)}, Vars: []string{"vv", string(s)}}
	res := hx.RunAwk(prog, in.Bytes(), cfg, nil)
	if res.Panic != nil || res.ParseErr != nil || res.Err != nil {
		return hx.Fail("C05/probe-error/"+c.Cls, fmt.Sprintf("probe program failed: %v %v %v", res.Panic, res.ParseErr, res.Err), nil, string(res.Stdout), prog)
	}
	for _, line := range strings.Split(strings.TrimSpace(string(res.Stdout)), "\n") {
		f := strings.Fields(line)
		if len(f) != 5 {
			return hx.Fail("C05/probe-output/"+c.Cls, "garbled probe line", nil, string(res.Stdout), prog)
		}
		if f[1] != "1" || f[2] != "0" || f[3] != "0" {
			return hx.Fail("C05/strnum-"+f[0]+"/compare-vs-arithmetic/"+c.Cls,
				fmt.Sprintf("numeric string %q (%s): v == v+0, v < v+0, v > v+0 are %s %s %s; comparison and arithmetic must read the same number (1 0 0)", s, f[0], f[1], f[2], f[3]),
				"1 0 0", strings.Join(f[1:4], " "), prog)
		}
	}
	return hx.OK(true)
}

// replayT re-runs a recorded observation that Trace_Values rejected: the probe
// program on the string, compared with the prediction TLC printed for the
// documented dialect.
func replayT(c *Case) hx.Outcome {
	if c.Expected == nil {
		return hx.Outcome{Skipped: true, Note: "no expectation"}
	}
	s := c.S.Bytes()
	prog := sProgram(s, c.Cf.Bytes(), c.Of.Bytes())
	var in bytes.Buffer
	in.WriteString("1.0\n")
	for i := 0; i < 4; i++ {
		in.Write(s)
		in.WriteByte('\n')
	}
	cfg := &interp.Config{Args: []string{string(s)}, Environ: []string{"V", string(s)}, Vars: []string{"vv", string(s)}}
	res := hx.RunAwk(prog, in.Bytes(), cfg, nil)
	if res.Panic != nil || res.ParseErr != nil || res.Err != nil {
		return hx.Fail("C05/probe-error/"+c.Cls, fmt.Sprintf("probe program failed: %v %v %v", res.Panic, res.ParseErr, res.Err), nil, string(res.Stdout), prog)
	}
	lines, err := parseProbe(res.Stdout)
	if err != nil {
		return hx.Fail("C05/probe-output/"+c.Cls, err.Error(), nil, string(res.Stdout), prog)
	}
	for i := range lines {
		cl := ""
		for _, pv := range provs {
			if pv.name == lines[i].name {
				cl = pv.class
			}
		}
		if cl != c.Class {
			continue
		}
		if w := diffObs(c.Expected, &lines[i]); w != "" {
			got := &lines[i]
			observed := map[string]any{"provenance": got.name, "eq": got.eq, "lt": got.lt, "gt": got.gt, "not": got.not,
				"num": strconv.FormatFloat(got.num, 'g', 17, 64), "cat": string(got.cat), "print": string(got.prt)}
			return hx.Fail(fmt.Sprintf("C05/%s/recorded/%s", className[c.Class], c.Cls),
				fmt.Sprintf("string %q as %s: %s observable differs from the specification", s, got.name, w), expectObs(c.Expected), observed, prog)
		}
	}
	return hx.OK(true)
}
