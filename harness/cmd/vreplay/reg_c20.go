package main

import "github.com/benhoyt/goawk/verifharness/c20"

func init() {
	props["C20"] = &Prop{Replay: c20.Replay, Record: c20.Record, Modes: map[string]func([]string) int{"corpus": c20.CorpusMode}}
}
