package main

import "github.com/benhoyt/goawk/verifharness/c17"

func init() { props["C17"] = &Prop{Replay: c17.Replay, Record: c17.Record} }
