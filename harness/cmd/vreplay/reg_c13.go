package main

import (
	"github.com/benhoyt/goawk/verifharness/c12"
	"github.com/benhoyt/goawk/verifharness/c13"
)

func init() {
	props["C13"] = &Prop{Replay: c13.Replay, Record: c12.RecordDelivery, Modes: map[string]func([]string) int{"race": c13.RaceMode}}
}
