package main

import "github.com/benhoyt/goawk/verifharness/c08"

func init() { props["C08"] = &Prop{Replay: c08.Replay, Record: c08.Record} }
