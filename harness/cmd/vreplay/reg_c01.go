package main

import "github.com/benhoyt/goawk/verifharness/c01"

func init() {
	props["C01"] = &Prop{Replay: c01.Replay, Record: c01.Record, Finish: c01.Finish,
		Modes: map[string]func([]string) int{"vmdump": c01.VMDumpMode}}
}
