package main

import "github.com/benhoyt/goawk/verifharness/c07"

func init() { props["C07"] = &Prop{Replay: c07.Replay, Record: c07.Record} }
