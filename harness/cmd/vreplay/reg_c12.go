package main

import "github.com/benhoyt/goawk/verifharness/c12"

func init() {
	props["C12"] = &Prop{Replay: c12.Replay, Record: c12.RecordSandbox, Modes: map[string]func([]string) int{"scan": c12.ScanMode}}
}
