package main

import "github.com/benhoyt/goawk/verifharness/c18"

func init() { props["C18"] = &Prop{Replay: c18.Replay} }
