package main

import "github.com/benhoyt/goawk/verifharness/c15"

func init() {
	props["C15"] = &Prop{Replay: c15.Replay, Record: c15.Record, Finish: c15.Finish, Modes: map[string]func([]string) int{"probe": c15.Probe}}
}
