package main

import "github.com/benhoyt/goawk/verifharness/c14"

func init() { props["C14"] = &Prop{Replay: c14.Replay, Record: c14.Record} }
