// vreplay is the conformance harness binary: one sub-command per property.
//
//	vreplay <prop> replay  -in cases.ndjson -out summary.json
//	vreplay <prop> record  -seed S -n N -out trace.ndjson
//	vreplay <prop> <other property-specific mode> ...
package main

import (
	"flag"
	"fmt"
	"os"

	"github.com/benhoyt/goawk/verifharness/hx"
)

// Prop is what a property package registers.
type Prop struct {
	Replay hx.Replayer
	// Record runs a seeded driver against the real code and writes an ndjson
	// trace for TLC to validate; returns the number of traces written.
	Record func(seed int64, n int, out string) (int, error)
	// Finish, if set, is called after a replay run and may add to Summary.Extra.
	Finish func(sum *hx.Summary)
	// Extra modes (property specific): name -> func(args) exit code
	Modes map[string]func(args []string) int
}

var props = map[string]*Prop{}

func main() {
	if len(os.Args) < 3 {
		fmt.Fprintln(os.Stderr, "usage: vreplay <prop> <mode> [flags]")
		os.Exit(2)
	}
	p, ok := props[os.Args[1]]
	if !ok {
		fmt.Fprintln(os.Stderr, "unknown property", os.Args[1])
		os.Exit(2)
	}
	mode := os.Args[2]
	fs := flag.NewFlagSet(mode, flag.ExitOnError)
	in := fs.String("in", "", "input ndjson")
	out := fs.String("out", "", "output file")
	seed := fs.Int64("seed", 1, "seed")
	n := fs.Int("n", 100, "number of traces")
	maxPerSig := fs.Int("maxfail", 5, "failures kept per signature")
	switch mode {
	case "replay":
		fs.Parse(os.Args[3:])
		if p.Replay == nil {
			fmt.Fprintln(os.Stderr, "no replayer")
			os.Exit(2)
		}
		f, err := os.Open(*in)
		if err != nil {
			fmt.Fprintln(os.Stderr, err)
			os.Exit(2)
		}
		sum := hx.RunReplay(f, p.Replay, *maxPerSig)
		if p.Finish != nil {
			p.Finish(sum)
		}
		if err := hx.WriteJSON(*out, sum); err != nil {
			fmt.Fprintln(os.Stderr, err)
			os.Exit(2)
		}
		fmt.Printf("replayed %d cases (%d distinct, %d non-trivial, %d skipped), %d failing signatures, %.1fs\n",
			sum.N, sum.Distinct, sum.Nontrivial, sum.Skipped, len(sum.SigCounts), sum.WallS)
	case "record":
		fs.Parse(os.Args[3:])
		if p.Record == nil {
			fmt.Fprintln(os.Stderr, "no recorder")
			os.Exit(2)
		}
		k, err := p.Record(*seed, *n, *out)
		if err != nil {
			fmt.Fprintln(os.Stderr, err)
			os.Exit(2)
		}
		fmt.Printf("recorded %d traces\n", k)
	default:
		if m, ok := p.Modes[mode]; ok {
			os.Exit(m(os.Args[3:]))
		}
		fmt.Fprintln(os.Stderr, "unknown mode", mode)
		os.Exit(2)
	}
}
