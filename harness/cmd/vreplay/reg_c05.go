package main

import "github.com/benhoyt/goawk/verifharness/c05"

func init() { props["C05"] = &Prop{Replay: c05.Replay, Record: c05.Record} }
