package main

import "github.com/benhoyt/goawk/verifharness/c04"

func init() { props["C04"] = &Prop{Replay: c04.Replay, Record: c04.Record} }
