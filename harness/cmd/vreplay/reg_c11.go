package main

import "github.com/benhoyt/goawk/verifharness/c11"

func init() { props["C11"] = &Prop{Replay: c11.Replay, Record: c11.Record, Finish: c11.Finish} }
