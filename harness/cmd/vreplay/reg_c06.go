package main

import "github.com/benhoyt/goawk/verifharness/c06"

func init() { props["C06"] = &Prop{Replay: c06.Replay, Record: c06.Record} }
