package main

import "github.com/benhoyt/goawk/verifharness/c16"

func init() { props["C16"] = &Prop{Replay: c16.Replay, Record: c16.Record} }
