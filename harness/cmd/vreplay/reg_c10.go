package main

import "github.com/benhoyt/goawk/verifharness/c10"

func init() {
	props["C10"] = &Prop{Replay: c10.Replay, Record: c10.Record,
		Modes: map[string]func([]string) int{"recordcore": c10.RecordCore}}
}
