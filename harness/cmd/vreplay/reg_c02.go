package main

import "github.com/benhoyt/goawk/verifharness/c02"

func init() {
	props["C02"] = &Prop{Replay: c02.ReplayGuard, Modes: map[string]func([]string) int{"stack": c02.StackMode}}
}
