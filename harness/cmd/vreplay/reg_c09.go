package main

import "github.com/benhoyt/goawk/verifharness/c09"

func init() {
	props["C09"] = &Prop{Replay: c09.Replay, Record: c09.Record, Modes: map[string]func([]string) int{"gate": c09.Gate, "cgate-source": c09.WriteCGate}}
}
