package main

import "github.com/benhoyt/goawk/verifharness/c03"

func init() {
	props["C03"] = &Prop{Replay: c03.Replay, Record: c03.Record,
		Modes: map[string]func([]string) int{"corpus": c03.CorpusMode}}
	props["C03PARSE"] = &Prop{Replay: c03.ReplayParse}
	// the command line tool on rejected programs (binary given by $C03_GOAWK)
	props["C03CLI"] = &Prop{Replay: c03.ReplayCLI}
}
