package main

import "github.com/benhoyt/goawk/verifharness/c19"

func init() {
	props["C19"] = &Prop{Replay: c19.Replay, Record: c19.Record, Modes: map[string]func([]string) int{
		// parse the text on standard input once, in a process of its own (confirmation of parse-history deviations)
		"freshparse": c19.FreshParseMode,
		// histories of parses recorded for Trace_ParseHistory.tla
		"record-history": c19.RecordHistories,
	}}
}
