package main

import "github.com/benhoyt/goawk/verifharness/c19"

func init() { props["C19"] = &Prop{Replay: c19.Replay, Record: c19.Record} }
