// Package c07 binds spec/RecordReader.tla to the real record reader: every
// (input, RS) case exported by TLC (Gen_RecordReader) is delivered to the real
// interpreter through a Stdin reader that returns exactly the scheduled
// chunks, under every delivery schedule of the model, and the records the
// program sees are compared with the specification's Records(input, RS).
package c07

import "io"

// ChunkReader is an io.Reader that hands out data in the scheduled chunk
// sizes (a chunk larger than the caller's buffer is continued on the next
// call; when the schedule is used up the rest is delivered in one piece).
// OnRead, if set, is called with the number of bytes returned (0 = EOF).
type ChunkReader struct {
	Data   []byte
	Sched  []int
	OnRead func(n int)
	pos    int
	idx    int
	left   int // rest of the current chunk
}

func (c *ChunkReader) Read(p []byte) (int, error) {
	if len(p) == 0 {
		return 0, nil
	}
	if c.pos >= len(c.Data) {
		if c.OnRead != nil {
			c.OnRead(0)
		}
		return 0, io.EOF
	}
	if c.left == 0 {
		if c.idx < len(c.Sched) {
			c.left = c.Sched[c.idx]
			c.idx++
		}
		if c.left <= 0 {
			c.left = len(c.Data) - c.pos
		}
	}
	n := c.left
	if n > len(p) {
		n = len(p)
	}
	if n > len(c.Data)-c.pos {
		n = len(c.Data) - c.pos
	}
	copy(p, c.Data[c.pos:c.pos+n])
	c.pos += n
	c.left -= n
	if c.OnRead != nil {
		c.OnRead(n)
	}
	return n, nil
}

// Compositions calls f with every composition of n (every way of cutting n
// bytes into consecutive non-empty chunks), whole delivery first.  f returns
// false to stop.
func Compositions(n int, f func(sched []int) bool) {
	if n <= 0 {
		f(nil)
		return
	}
	buf := make([]int, 0, n)
	for mask := 0; mask < 1<<(n-1); mask++ {
		buf = buf[:0]
		run := 1
		for g := 0; g < n-1; g++ {
			if mask&(1<<g) != 0 {
				buf = append(buf, run)
				run = 1
			} else {
				run++
			}
		}
		buf = append(buf, run)
		if !f(buf) {
			return
		}
	}
}

// Schedules returns the delivery schedules used for an input of n bytes:
// every composition when n <= maxAll, otherwise whole delivery, one byte at a
// time, every single split point, and a few seeded random schedules.
func Schedules(n, maxAll int, seed uint64) [][]int {
	var out [][]int
	if n <= maxAll {
		Compositions(n, func(s []int) bool {
			out = append(out, append([]int(nil), s...))
			return true
		})
		return out
	}
	out = append(out, []int{n})
	ones := make([]int, n)
	for i := range ones {
		ones[i] = 1
	}
	out = append(out, ones)
	for k := 1; k < n; k++ {
		out = append(out, []int{k, n - k})
	}
	x := seed*6364136223846793005 + 1442695040888963407
	for r := 0; r < 8; r++ {
		var s []int
		rest := n
		for rest > 0 {
			x = x*6364136223846793005 + 1442695040888963407
			k := 1 + int((x>>33)%5)
			if k > rest {
				k = rest
			}
			s = append(s, k)
			rest -= k
		}
		out = append(out, s)
	}
	return out
}
