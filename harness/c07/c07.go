package c07

import (
	"bytes"
	"encoding/json"
	"fmt"
	"hash/fnv"
	"os"
	"strconv"

	"github.com/benhoyt/goawk/interp"
	"github.com/benhoyt/goawk/parser"
	"github.com/benhoyt/goawk/verifharness/hx"
)

type Rec struct {
	Rec hx.BS `json:"rec"`
	RT  hx.BS `json:"rt"`
}

// Case is one line exported by Gen_RecordReader.
type Case struct {
	Fam      string `json:"fam"`
	Name     string `json:"name"`
	Kind     string `json:"kind"`
	Cls      string `json:"cls"`
	RsText   hx.BS  `json:"rstext"`
	Input    hx.BS  `json:"input"`
	Recs     []Rec  `json:"recs"`
	Judge    bool   `json:"judge"`
	JudgeRT  bool   `json:"judgert"`
	PrefixOK bool   `json:"prefixok"`
	// RsText2/After: the program assigns RS = RsText2 in the action of record number After (0: RS is never reassigned).
	RsText2 hx.BS `json:"rstext2,omitempty"`
	After   int   `json:"after,omitempty"`
	// Sched, if present, is one more delivery schedule to try (cases made from a recorded run carry theirs).
	Sched []int `json:"sched,omitempty"`
}

// Seen is one record as the AWK program saw it.
type Seen struct {
	NR, FNR int
	Rec, RT []byte
}

// Program prints NR, FNR, $0 and RT of every record, length-prefixed.
func Program(rstext []byte) string {
	return "BEGIN { RS = " + hx.AwkString(rstext) + " }\n" +
		`{ printf "%d:%d:%d:%s%d:%s\n", NR, FNR, length($0), $0, length(RT), RT }` + "\n"
}

// SwitchProgram is Program with RS reassigned in the action of record number after.
func SwitchProgram(rstext, rstext2 []byte, after int) string {
	return "BEGIN { RS = " + hx.AwkString(rstext) + " }\n" +
		`{ printf "%d:%d:%d:%s%d:%s\n", NR, FNR, length($0), $0, length(RT), RT }` + "\n" +
		fmt.Sprintf("NR == %d { RS = %s }\n", after, hx.AwkString(rstext2))
}

// SwitchGetlineProgram is GetlineProgram with the same reassignment.
func SwitchGetlineProgram(rstext, rstext2 []byte, after int) string {
	return "BEGIN { RS = " + hx.AwkString(rstext) + "\n" +
		`  while ((getline line) > 0) { printf "%d:%d:%d:%s%d:%s\n", NR, FNR, length(line), line, length(RT), RT` + "\n" +
		fmt.Sprintf("    if (NR == %d) RS = %s }\n}\n", after, hx.AwkString(rstext2))
}

func readInt(b []byte, off int) (int, int, bool) {
	j := bytes.IndexByte(b[off:], ':')
	if j <= 0 {
		return 0, off, false
	}
	n, err := strconv.Atoi(string(b[off : off+j]))
	if err != nil || n < 0 {
		return 0, off, false
	}
	return n, off + j + 1, true
}

// ParseEntry reads one printed record at b[off:]; ok=false if incomplete/garbled.
func ParseEntry(b []byte, off int) (s Seen, next int, ok bool) {
	var n int
	if s.NR, off, ok = readInt(b, off); !ok {
		return
	}
	if s.FNR, off, ok = readInt(b, off); !ok {
		return
	}
	if n, off, ok = readInt(b, off); !ok || off+n > len(b) {
		return s, off, false
	}
	s.Rec = b[off : off+n]
	off += n
	if n, off, ok = readInt(b, off); !ok || off+n+1 > len(b) || b[off+n] != '\n' {
		return s, off, false
	}
	s.RT = b[off : off+n]
	return s, off + n + 1, true
}

func ParseOutput(b []byte) ([]Seen, bool) {
	var out []Seen
	off := 0
	for off < len(b) {
		s, no, ok := ParseEntry(b, off)
		if !ok {
			return out, false
		}
		out = append(out, s)
		off = no
	}
	return out, true
}

func render(ss []Seen) string {
	var sb bytes.Buffer
	for _, s := range ss {
		fmt.Fprintf(&sb, "NR=%d FNR=%d $0=%q RT=%q\n", s.NR, s.FNR, s.Rec, s.RT)
	}
	return sb.String()
}

func renderSpec(rs []Rec, withRT bool) string {
	var sb bytes.Buffer
	for i, r := range rs {
		if withRT {
			fmt.Fprintf(&sb, "NR=%d FNR=%d $0=%q RT=%q\n", i+1, i+1, r.Rec.Bytes(), r.RT.Bytes())
		} else {
			fmt.Fprintf(&sb, "NR=%d FNR=%d $0=%q\n", i+1, i+1, r.Rec.Bytes())
		}
	}
	return sb.String()
}

const bufSize = 64 * 1024 // the reader's initial buffer (interp.inputBufSize)

var maxAll = envInt("C07_MAXALL", 8)    // all compositions up to this input length
var edgeMod = envInt("C07_EDGEMOD", 16) // every edgeMod-th case is also placed at the 64 KiB edge (0 = never)

func envInt(name string, def int) int {
	if s := os.Getenv(name); s != "" {
		if v, err := strconv.Atoi(s); err == nil {
			return v
		}
	}
	return def
}

func caseHash(raw []byte) uint64 {
	h := fnv.New64a()
	h.Write(raw)
	return h.Sum64()
}

func schedClass(sched []int, n int) string {
	if len(sched) <= 1 {
		return "whole"
	}
	return "chunked"
}

// paraClass names the mechanism class of an RT difference in paragraph mode.
func paraClass(input []byte) string {
	if len(input) > 0 && (input[0] == '\n' || input[0] == '\r') {
		return "leading-newlines"
	}
	return "newline-run"
}

type runner struct {
	prog *parser.Program
	src  string
}

func (r *runner) run(data []byte, sched []int) *hx.RunResult {
	cr := &ChunkReader{Data: data, Sched: sched}
	return hx.RunProg(r.prog, nil, &interp.Config{Stdin: cr})
}

// GetlineProgram reads the same records with getline in BEGIN instead of the
// main loop (the other way a program sees records).
func GetlineProgram(rstext []byte) string {
	return "BEGIN { RS = " + hx.AwkString(rstext) + "\n" +
		`  while ((getline line) > 0) printf "%d:%d:%d:%s%d:%s\n", NR, FNR, length(line), line, length(RT), RT` + "\n}\n"
}

// Replay is the hx.Replayer for Gen_RecordReader exports.
func Replay(raw json.RawMessage) hx.Outcome {
	var c Case
	if err := json.Unmarshal(raw, &c); err != nil || c.Fam != "rr" {
		return hx.Outcome{Skipped: true, Note: "bad case"}
	}
	input := c.Input.Bytes()
	src := Program(c.RsText.Bytes())
	if c.After > 0 {
		src = SwitchProgram(c.RsText.Bytes(), c.RsText2.Bytes(), c.After)
	}
	prog, perr := parser.ParseProgram([]byte(src), nil)
	if perr != nil {
		return hx.Outcome{Skipped: true, Note: "generated program rejected: " + perr.Error()}
	}
	rn := &runner{prog, src}
	n := len(input)
	h := caseHash(raw)

	var whole []Seen
	check := func(data []byte, sched []int, filler int, label string) *hx.Outcome {
		res := rn.run(data, sched)
		sc := schedClass(sched, n)
		desc := fmt.Sprintf("RS=%q input=%q %s schedule=%v", c.RsText.Bytes(), input, label, sched)
		if c.After > 0 {
			desc = fmt.Sprintf("RS=%q, then RS=%q assigned in the action of record %d, input=%q %s schedule=%v",
				c.RsText.Bytes(), c.RsText2.Bytes(), c.After, input, label, sched)
		}
		if res.Panic != nil {
			o := hx.Fail(fmt.Sprintf("C07/%s/panic/%s", c.Cls, sc), fmt.Sprintf("panic: %v; %s", res.Panic, desc), nil, res.PanicStk, src)
			return &o
		}
		if res.Err != nil {
			o := hx.Fail(fmt.Sprintf("C07/%s/error/%s", c.Cls, sc), fmt.Sprintf("run failed: %v; %s", res.Err, desc), nil, res.Err.Error(), src)
			return &o
		}
		seen, ok := ParseOutput(res.Stdout)
		if !ok {
			o := hx.Fail(fmt.Sprintf("C07/%s/output/%s", c.Cls, sc), "program output is garbled; "+desc, nil, string(res.Stdout), src)
			return &o
		}
		if filler > 0 {
			// the first record carries the filler prefix: check and remove it
			if len(seen) == 0 || len(seen[0].Rec) < filler || bytes.IndexFunc(seen[0].Rec[:filler], func(r rune) bool { return r != 'z' }) >= 0 {
				o := hx.Fail(fmt.Sprintf("C07/%s/records/%s", c.Cls, sc), "first record lost (part of) its long prefix; "+desc,
					renderSpec(c.Recs, c.JudgeRT), fmt.Sprintf("%d records, first has %d bytes", len(seen), lenFirst(seen)), src)
				return &o
			}
			seen[0].Rec = seen[0].Rec[filler:]
		}
		// NR and FNR count the records
		for i, s := range seen {
			if s.NR != i+1 || s.FNR != i+1 {
				o := hx.Fail(fmt.Sprintf("C07/%s/nr/%s", c.Cls, sc), fmt.Sprintf("record %d has NR=%d FNR=%d; %s", i+1, s.NR, s.FNR, desc),
					nil, render(seen), src)
				return &o
			}
		}
		// against the specification
		if c.Judge {
			bad := len(seen) != len(c.Recs)
			for i := 0; !bad && i < len(seen); i++ {
				bad = !bytes.Equal(seen[i].Rec, c.Recs[i].Rec.Bytes())
			}
			if bad {
				o := hx.Fail(fmt.Sprintf("C07/%s/records/%s", c.Cls, sc), "records differ from Records(input, RS); "+desc,
					renderSpec(c.Recs, c.JudgeRT), render(seen), src)
				return &o
			}
			if c.JudgeRT {
				for i := range seen {
					if !bytes.Equal(seen[i].RT, c.Recs[i].RT.Bytes()) {
						o := hx.Fail(fmt.Sprintf("C07/%s/rt/%s", c.Cls, sc), fmt.Sprintf("RT of record %d differs from the matched text; %s", i+1, desc),
							renderSpec(c.Recs, true), render(seen), src)
						return &o
					}
				}
			}
		}
		// the statement's equations, directly
		if c.Kind == "re" && filler == 0 {
			var cat []byte
			for _, s := range seen {
				cat = append(append(cat, s.Rec...), s.RT...)
			}
			if !bytes.Equal(cat, input) {
				o := hx.Fail(fmt.Sprintf("C07/%s/lossless/%s", c.Cls, sc), "records and RTs concatenated do not reproduce the input; "+desc,
					string(input), render(seen), src)
				return &o
			}
		}
		// against whole delivery of the same bytes (records when the specification does not pin them, RT always)
		if whole == nil {
			whole = seen
			if whole == nil {
				whole = []Seen{}
			}
			return nil
		}
		if len(seen) != len(whole) {
			o := hx.Fail(fmt.Sprintf("C07/%s/records-vs-whole/%s", c.Cls, sc), "number of records depends on the delivery schedule; "+desc,
				render(whole), render(seen), src)
			return &o
		}
		for i := range seen {
			if !bytes.Equal(seen[i].Rec, whole[i].Rec) {
				o := hx.Fail(fmt.Sprintf("C07/%s/records-vs-whole/%s", c.Cls, sc), fmt.Sprintf("record %d depends on the delivery schedule; %s", i+1, desc),
					render(whole), render(seen), src)
				return &o
			}
		}
		for i := range seen {
			if !bytes.Equal(seen[i].RT, whole[i].RT) {
				cl, cls := sc, c.Cls
				if c.Kind == "para" {
					// one mechanism class per way the paragraph splitter decides RT early
					cl, cls = paraClass(input), "para"
				}
				o := hx.Fail(fmt.Sprintf("C07/%s/rt-vs-whole/%s", cls, cl), fmt.Sprintf("RT of record %d depends on the delivery schedule; %s", i+1, desc),
					render(whole), render(seen), src)
				return &o
			}
		}
		return nil
	}

	// 1. every schedule of the model (all compositions), or the reduced set for long inputs
	scheds := Schedules(n, maxAll, h)
	if len(c.Sched) > 0 {
		scheds = append(scheds[:1:1], append([][]int{c.Sched}, scheds[1:]...)...)
	}
	for _, sched := range scheds {
		if o := check(input, sched, 0, "delivered as"); o != nil {
			return *o
		}
	}
	// 1b. the same records reach a program that reads them with getline
	gsrc := GetlineProgram(c.RsText.Bytes())
	if c.After > 0 {
		gsrc = SwitchGetlineProgram(c.RsText.Bytes(), c.RsText2.Bytes(), c.After)
	}
	if n > 0 {
		gprog, gerr := parser.ParseProgram([]byte(gsrc), nil)
		if gerr != nil {
			return hx.Outcome{Skipped: true, Note: "generated program rejected: " + gerr.Error()}
		}
		main := whole
		for _, sched := range [][]int{{n}, ones(n)} {
			res := hx.RunProg(gprog, nil, &interp.Config{Stdin: &ChunkReader{Data: input, Sched: sched}})
			seen, ok := ParseOutput(res.Stdout)
			same := res.Panic == nil && res.Err == nil && ok && len(seen) == len(main)
			for i := 0; same && i < len(seen); i++ {
				same = seen[i].NR == main[i].NR && seen[i].FNR == main[i].FNR && bytes.Equal(seen[i].Rec, main[i].Rec) && bytes.Equal(seen[i].RT, main[i].RT)
			}
			if !same {
				return hx.Fail(fmt.Sprintf("C07/%s/getline-vs-mainloop/%s", c.Cls, schedClass(sched, n)),
					fmt.Sprintf("a getline loop sees other records than the main loop; RS=%q input=%q schedule=%v (panic=%v err=%v)",
						c.RsText.Bytes(), input, sched, res.Panic, res.Err), render(main), render(seen), gsrc)
			}
		}
	}
	// 2. the same input behind a long first record, so that the reader's buffer
	//    fills (and is grown) j bytes into the input
	if c.PrefixOK && edgeMod > 0 && h%uint64(edgeMod) == 0 && n > 0 {
		for j := 0; j <= n && j <= 6; j++ {
			fill := bufSize - j
			data := append(bytes.Repeat([]byte{'z'}, fill), input...)
			scheds := [][]int{{fill + n}, append([]int{fill}, ones(n)...)}
			if n <= 4 {
				scheds = scheds[:1]
				Compositions(n, func(s []int) bool {
					scheds = append(scheds, append([]int{fill}, s...))
					return true
				})
			}
			whole = nil
			for _, sched := range scheds {
				if o := check(data, sched, fill, fmt.Sprintf("behind a %d-byte prefix, delivered as", fill)); o != nil {
					return *o
				}
			}
		}
	}
	return hx.OK(len(c.Recs) >= 1 && n >= 2)
}

func ones(n int) []int {
	s := make([]int, n)
	for i := range s {
		s[i] = 1
	}
	return s
}

func lenFirst(ss []Seen) int {
	if len(ss) == 0 {
		return 0
	}
	return len(ss[0].Rec)
}
