package c07

import (
	"bufio"
	"encoding/json"
	"fmt"
	"math/rand"
	"os"

	"github.com/benhoyt/goawk/interp"
	"github.com/benhoyt/goawk/parser"
	"github.com/benhoyt/goawk/verifharness/hx"
)

// menuEntry mirrors RecordReader!RichMenu (name, RS text, alphabet);
// Trace_RecordReader asserts that the text recorded here is the
// specification's own rendering of the entry.
type menuEntry struct {
	name   string
	rstext string
	alpha  string
}

var traceMenu = []menuEntry{
	{"nl", "\n", "a\n\r"},
	{"byte-a", "a", "ab\n"},
	{"para", "", "a\nb"},
	{"eacute", "\xc3\xa9", "\xc3\xa9a"},
	{"ab+", "a(b)+", "abx"},
	{"a|ab", "(a|ab)", "abx"},
	{"b*a", "(b)*a", "abx"},
	{"nl+", "(\n)+", "a\n\r"},
	{"ab", "ab", "abx"},
	{"[ab]a", "[ab]a", "abx"},
	{"aab|b", "(aab|b)", "abx"},
	{"x|cr?nl", "(x|(\r)?\n)", "x\r\na"},
	{"abbb|b", "(abbb|b)", "abx"},
	{"byte-semi", ";", ";\n\ra"},
	{"b{2,}", "b{2,}", "abx"},
	{"ab{1,2}", "ab{1,2}", "abx"},
	{"byte-ff", "\xff", "\xffa\xc3"},
}

// eventWriter is the program's (unbuffered) output: it cuts the bytes written
// into the printed records and logs each one the moment it is complete.
type eventWriter struct {
	pending []byte
	emit    func(Seen)
	garbled bool
}

func (w *eventWriter) Write(p []byte) (int, error) {
	w.pending = append(w.pending, p...)
	for len(w.pending) > 0 {
		s, next, ok := ParseEntry(w.pending, 0)
		if !ok {
			break
		}
		cp := Seen{NR: s.NR, FNR: s.FNR, Rec: append([]byte(nil), s.Rec...), RT: append([]byte(nil), s.RT...)}
		w.emit(cp)
		w.pending = w.pending[next:]
	}
	return len(p), nil
}

// Record drives the real reader on n seeded random (input, RS, schedule)
// triples that are longer than the exhaustive model's, and writes the real
// interleaving of reads and records as events for Trace_RecordReader.
func Record(seed int64, n int, out string) (int, error) {
	r := rand.New(rand.NewSource(seed))
	f, err := os.Create(out)
	if err != nil {
		return 0, err
	}
	defer f.Close()
	w := bufio.NewWriter(f)
	defer w.Flush()
	put := func(v any) {
		b, _ := json.Marshal(v)
		w.Write(b)
		w.WriteByte('\n')
	}
	for t := 0; t < n; t++ {
		m := traceMenu[r.Intn(len(traceMenu))]
		ln := 6 + r.Intn(30)
		input := make([]byte, 0, ln+2)
		for len(input) < ln {
			if m.name == "eacute" && r.Intn(3) == 0 {
				input = append(input, 0xc3, 0xa9)
				continue
			}
			input = append(input, m.alpha[r.Intn(len(m.alpha))])
		}
		var sched []int
		rest := len(input)
		maxc := 1 + r.Intn(6)
		for rest > 0 {
			k := 1 + r.Intn(maxc)
			if k > rest {
				k = rest
			}
			sched = append(sched, k)
			rest -= k
		}
		src := Program([]byte(m.rstext))
		prog, perr := parser.ParseProgram([]byte(src), nil)
		if perr != nil {
			return t, fmt.Errorf("driver program rejected: %v", perr)
		}
		put(map[string]any{"ev": "reset"})
		put(map[string]any{"ev": "start", "name": m.name, "rstext": hx.FromBytes([]byte(m.rstext)), "input": hx.FromBytes(input)})
		cr := &ChunkReader{Data: input, Sched: sched, OnRead: func(k int) {
			if k == 0 {
				put(map[string]any{"ev": "eof"})
			} else {
				put(map[string]any{"ev": "read", "n": k})
			}
		}}
		ew := &eventWriter{emit: func(s Seen) {
			put(map[string]any{"ev": "step", "nr": s.NR, "rec": hx.FromBytes(s.Rec), "rt": hx.FromBytes(s.RT)})
		}}
		res := hx.RunProg(prog, nil, &interp.Config{Stdin: cr, Output: ew})
		if res.Panic != nil || res.Err != nil {
			// the run died: that is an observation about the code, not a driver problem
			put(map[string]any{"ev": "crash", "msg": fmt.Sprintf("%v %v", res.Panic, res.Err)})
			continue
		}
		if len(ew.pending) > 0 {
			return t, fmt.Errorf("driver output garbled: %q", ew.pending)
		}
		put(map[string]any{"ev": "end"})
	}
	return n, nil
}
