// Package c17 binds spec/Native.tla to the real native-function machinery
// (parser/resolver argument-count check, interp.Config.Funcs validation,
// toNative/fromNative): every (signature, argument list) exported by TLC is
// turned into a Go function synthesised with reflect.FuncOf/MakeFunc that
// records what it receives; it is put into a Funcs table with three other Go
// functions (aa, mm, zz); the program -- which may define an AWK function with
// the name of one of the others (shadowing it) and may set CONVFMT -- calls
// the others, prints the AWK string conversion (arg "") of every argument and
// then runs r = fn(args); print "R:" r.  The outcome class, WHICH Go functions
// ran and what the others returned, the received values (for string kinds the
// string form under the CONVFMT in force; where the specification says AwkText,
// the text the program itself printed for (arg "")), the printed result and the
// identity of the returned error are compared with the specification's
// prediction.  Everything runs under recover().
//
// Shapes "gen" (Native!MkGen) are synthesised from parts -- parameter and
// result types outside the documented kinds, second results of the type error
// or of concrete types that implement it -- and judged by the set-up verdict
// (accepted ones are then called).  Result mode "ext" returns the extreme
// value Native!ExtOf names; the program prints it with %.0f and %e and the
// NUMBER is compared with Native!ExtNum (exact digits where a float64 holds
// the value exactly, else sign and order of magnitude).  Family "session":
// several Execute calls on ONE interp.Interpreter, the first rejected at
// set-up, then the same Funcs again or the corrected function (session.go).
// Families "position" and "keep": calls inside whole programs (program.go).
package c17

import (
	"bytes"
	"encoding/json"
	"errors"
	"fmt"
	"math"
	"reflect"
	"strings"

	"github.com/benhoyt/goawk/interp"
	"github.com/benhoyt/goawk/parser"
	"github.com/benhoyt/goawk/verifharness/hx"
)

type Sig struct {
	Shape    string   `json:"shape"`
	Name     string   `json:"name"`
	Params   []string `json:"params"`
	Variadic bool     `json:"variadic"`
	Res      string   `json:"res"`
	Rk       string   `json:"rk"`
	Err      string   `json:"err"`
	Nres     int      `json:"nres,omitempty"` // shape "gen": number of results
	R2       string   `json:"r2,omitempty"`   // shape "gen": type of the second result (Native!SecondKinds)
	Xv       string   `json:"xv,omitempty"`   // res "ext": which extreme value the function returns (Native!ExtOf)
}

// NumPred is Native!ExtNum: the number an extreme result is.
type NumPred struct {
	Neg    bool   `json:"neg"`
	Int    bool   `json:"int"`    // integer-valued: Digits holds the decimal digits of the magnitude
	Digits string `json:"digits"` // "" when not integer-valued
	Exact  bool   `json:"exact"`  // a float64 holds the value exactly
	E10    int    `json:"e10"`    // decimal exponent of the leading digit
}

// GoVal is a Go value as the specification writes it.
type GoVal struct {
	K string `json:"k"`
	B bool   `json:"b,omitempty"`
	N int64  `json:"n,omitempty"`
	H int64  `json:"h,omitempty"`
	S string `json:"s,omitempty"`
}

type Pred struct {
	Ok  bool            `json:"ok"`
	Awk bool            `json:"awk,omitempty"` // printed text only: Native!AwkTextPrinted
	Val json.RawMessage `json:"val"`
}

type Outcome struct {
	O       string   `json:"o"`
	Recv    []Pred   `json:"recv,omitempty"`
	Printed *Pred    `json:"printed,omitempty"`
	Ran     []string `json:"ran,omitempty"`    // the Go functions that run, in order
	Dlines  []string `json:"dlines,omitempty"` // what the calls aa(7), mm("q"), zz(2, 3) print
	Num     *NumPred `json:"num,omitempty"`    // res "ext": the number the result is
}

type Case struct {
	Fam     string   `json:"fam"`
	Sig     Sig      `json:"sig"`
	Args    []string `json:"args"`
	Called  bool     `json:"called"`
	Shadow  string   `json:"shadow"` // "none" or the name of the Funcs entry that an AWK function shadows
	Cf      string   `json:"cf"`     // CONVFMT in force (DefaultCf: not assigned)
	Outcome Outcome  `json:"outcome"`
}

// DefaultCf is Native!DefaultCf.
const DefaultCf = "%.6g"

// Others mirrors Native!Others: the other entries of the Funcs table, the
// call the program makes of each and their definition as an AWK function
// when shadowed.
var Others = []string{"aa", "mm", "zz"}
var otherCall = map[string]string{"aa": "aa(7)", "mm": `mm("q")`, "zz": "zz(2, 3)"}
var otherAwkDef = map[string]string{
	"aa": `function aa(x) { return "awk:" x }`,
	"mm": `function mm(x) { return "awk:" x }`,
	"zz": `function zz(x, y) { return "awk:" x }`,
}

func shadowClass(sh string) string {
	switch sh {
	case "aa":
		return "shadow-first"
	case "mm":
		return "shadow-middle"
	case "zz":
		return "shadow-last"
	}
	return "no-shadow"
}

var kindTypes = map[string]reflect.Type{
	"bool": reflect.TypeOf(false), "int": reflect.TypeOf(int(0)), "int8": reflect.TypeOf(int8(0)),
	"int16": reflect.TypeOf(int16(0)), "int32": reflect.TypeOf(int32(0)), "int64": reflect.TypeOf(int64(0)),
	"uint": reflect.TypeOf(uint(0)), "uint8": reflect.TypeOf(uint8(0)), "uint16": reflect.TypeOf(uint16(0)),
	"uint32": reflect.TypeOf(uint32(0)), "uint64": reflect.TypeOf(uint64(0)),
	"float32": reflect.TypeOf(float32(0)), "float64": reflect.TypeOf(float64(0)),
	"string": reflect.TypeOf(""), "bytes": reflect.TypeOf([]byte(nil)),
}

var errorType = reflect.TypeOf((*error)(nil)).Elem()

// concrete types that IMPLEMENT error without being the type error
type errno int

func (e errno) Error() string { return fmt.Sprintf("errno %d", int(e)) }

type ptrErr struct{ msg string }

func (e *ptrErr) Error() string { return e.msg }

type errStruct struct{ code int }

func (e errStruct) Error() string { return fmt.Sprintf("code %d", e.code) }

// Native!BadKinds: parameter / result types outside the documented kinds
var badTypes = map[string]reflect.Type{
	"struct": reflect.TypeOf(st{}), "map": reflect.TypeOf(map[string]int(nil)), "chan": reflect.TypeOf((chan int)(nil)),
	"complex": reflect.TypeOf(complex128(0)), "func": reflect.TypeOf((func())(nil)), "intslice": reflect.TypeOf([]int(nil)),
	"strslice": reflect.TypeOf([]string(nil)), "pointer": reflect.TypeOf((*int)(nil)),
	"interface": reflect.TypeOf((*any)(nil)).Elem(), "array": reflect.TypeOf([2]byte{}),
}

// Native!SecondKinds
var secondTypes = map[string]reflect.Type{
	"error": errorType, "errno": reflect.TypeOf(errno(0)), "perr": reflect.TypeOf((*ptrErr)(nil)),
	"errstruct": reflect.TypeOf(errStruct{}), "int": reflect.TypeOf(int(0)), "string": reflect.TypeOf(""),
}

func anyType(k string) (reflect.Type, bool) {
	if t, ok := kindTypes[k]; ok {
		return t, true
	}
	t, ok := badTypes[k]
	return t, ok
}

// extValue is the Go value Native!ExtVal(k, x) names, of type t.
func extValue(k, x string, t reflect.Type) (reflect.Value, bool) {
	v := reflect.New(t).Elem()
	bits := uint(t.Bits())
	switch t.Kind() {
	case reflect.Int, reflect.Int8, reflect.Int16, reflect.Int32, reflect.Int64:
		switch x {
		case "min":
			v.SetInt(-1 << (bits - 1))
		case "max":
			v.SetInt(1<<(bits-1) - 1)
		case "minus1":
			v.SetInt(-1)
		case "p53p1":
			v.SetInt(1<<53 + 1)
		case "negp53p1":
			v.SetInt(-(1<<53 + 1))
		default:
			return v, false
		}
	case reflect.Uint, reflect.Uint8, reflect.Uint16, reflect.Uint32, reflect.Uint64:
		switch x {
		case "max":
			v.SetUint(^uint64(0) >> (64 - bits))
		case "p63":
			v.SetUint(1 << 63)
		case "p63m1":
			v.SetUint(1<<63 - 1)
		case "p63p1":
			v.SetUint(1<<63 + 1)
		case "p53p1":
			v.SetUint(1<<53 + 1)
		default:
			return v, false
		}
		if (x != "max") && bits != 64 {
			return v, false
		}
	case reflect.Float32, reflect.Float64:
		max, den := math.MaxFloat64, math.SmallestNonzeroFloat64
		if t.Kind() == reflect.Float32 {
			max, den = math.MaxFloat32, math.SmallestNonzeroFloat32
		}
		switch x {
		case "fmax":
			v.SetFloat(max)
		case "negfmax":
			v.SetFloat(-max)
		case "fden":
			v.SetFloat(den)
		case "negfden":
			v.SetFloat(-den)
		default:
			return v, false
		}
	default:
		return v, false
	}
	return v, true
}

// ErrSentinel is the error a recording function returns in mode "err".
var ErrSentinel = errors.New("c17: the native function's own error")

// AWK source text of the menu values (Native!Values); input record is "12 0".
var valueSrc = map[string]string{
	"three": "3", "negthree": "-3", "twohalf": "2.5", "n300": "300", "zero": "0",
	"abc": `"abc"`, "s12": `"12"`, "s0": `"0"`, "empty": `""`, "sn12": "$1", "sn0": "$2", "unset": "u",
	"huge": "1e30", "nan": "log(-1)", "big": "1000000", "inf": "-log(0)", "neginf": "log(0)",
}

const Input = "12 0\n"

type st struct{ A int }

// invalid shapes (Native!InvalidShapes)
var invalidFuncs = map[string]any{
	"struct-param":     func(st) {},
	"map-param":        func(map[string]int) {},
	"chan-param":       func(chan int) {},
	"complex-param":    func(complex128) {},
	"func-param":       func(func()) {},
	"intslice-param":   func([]int) {},
	"pointer-param":    func(*int) {},
	"interface-param":  func(any) {},
	"three-results":    func() (int, int, error) { return 0, 0, nil },
	"second-not-error": func() (int, int) { return 0, 0 },
	"struct-result":    func() st { return st{} },
	"variadic-struct":  func(...st) {},
}

// toGoVal renders a received reflect.Value the way the specification writes Go values.
func toGoVal(v reflect.Value) GoVal {
	switch v.Kind() {
	case reflect.Bool:
		return GoVal{K: "b", B: v.Bool()}
	case reflect.Int, reflect.Int8, reflect.Int16, reflect.Int32, reflect.Int64:
		return GoVal{K: "i", N: clamp(v.Int())}
	case reflect.Uint, reflect.Uint8, reflect.Uint16, reflect.Uint32, reflect.Uint64:
		u := v.Uint()
		if u > 1_000_000_000 {
			return GoVal{K: "i", N: 999_999_999}
		}
		return GoVal{K: "i", N: int64(u)}
	case reflect.Float32, reflect.Float64:
		h := v.Float() * 2
		if h != math.Trunc(h) || math.Abs(h) > 1e9 {
			return GoVal{K: "f", H: 999_999_999} // outside the model's numbers
		}
		return GoVal{K: "f", H: int64(h)}
	case reflect.String:
		return GoVal{K: "s", S: v.String()}
	case reflect.Slice:
		return GoVal{K: "s", S: string(v.Bytes())}
	}
	return GoVal{K: "?"}
}

func clamp(n int64) int64 {
	if n > 1_000_000_000 || n < -1_000_000_000 {
		return 999_999_999
	}
	return n
}

func fromGoVal(g GoVal, t reflect.Type) reflect.Value {
	v := reflect.New(t).Elem()
	switch t.Kind() {
	case reflect.Bool:
		v.SetBool(g.B)
	case reflect.Int, reflect.Int8, reflect.Int16, reflect.Int32, reflect.Int64:
		v.SetInt(g.N)
	case reflect.Uint, reflect.Uint8, reflect.Uint16, reflect.Uint32, reflect.Uint64:
		v.SetUint(uint64(g.N))
	case reflect.Float32, reflect.Float64:
		v.SetFloat(float64(g.H) / 2)
	case reflect.String:
		v.SetString(g.S)
	case reflect.Slice:
		v.SetBytes([]byte(g.S))
	}
	return v
}

// retConst mirrors Native!RetConst.
func retConst(k string) GoVal {
	switch {
	case k == "bool":
		return GoVal{K: "b", B: true}
	case strings.HasPrefix(k, "int"):
		return GoVal{K: "i", N: -5}
	case strings.HasPrefix(k, "uint"):
		return GoVal{K: "i", N: 5}
	case strings.HasPrefix(k, "float"):
		return GoVal{K: "f", H: 5}
	}
	return GoVal{K: "s", S: "ret"}
}

// Recorder is what a synthesised function leaves behind.
type Recorder struct {
	Calls int
	Recv  []GoVal
	Name  string    // appended to *Log on every call, if Log is set
	Log   *[]string // the order in which the functions of the table ran
}

// MakeFunc synthesises the Go function of a well-shaped signature.
func MakeFunc(sig *Sig, rec *Recorder) (any, bool) {
	gen := sig.Shape == "gen"
	var in []reflect.Type
	for i, k := range sig.Params {
		t, ok := kindTypes[k]
		if !ok && gen {
			t, ok = badTypes[k]
		}
		if !ok {
			return nil, false
		}
		if sig.Variadic && i == len(sig.Params)-1 {
			t = reflect.SliceOf(t)
		}
		in = append(in, t)
	}
	var out []reflect.Type
	var extV reflect.Value
	if gen {
		if sig.Nres >= 1 {
			t, ok := anyType(sig.Rk)
			if !ok {
				return nil, false
			}
			out = append(out, t)
		}
		if sig.Nres >= 2 {
			t, ok := secondTypes[sig.R2]
			if !ok {
				return nil, false
			}
			out = append(out, t)
		}
		if sig.Nres >= 3 {
			out = append(out, errorType)
		}
		if sig.Nres > 3 || sig.Nres < 0 || (sig.Variadic && len(in) == 0) {
			return nil, false
		}
	} else if sig.Res != "none" {
		t, ok := kindTypes[sig.Rk]
		if !ok {
			return nil, false
		}
		out = append(out, t)
		if sig.Err != "none" {
			out = append(out, errorType)
		}
		if sig.Res == "ext" {
			if extV, ok = extValue(sig.Rk, sig.Xv, t); !ok {
				return nil, false
			}
		}
	}
	ft := reflect.FuncOf(in, out, sig.Variadic)
	fn := reflect.MakeFunc(ft, func(args []reflect.Value) []reflect.Value {
		rec.Calls++
		if rec.Log != nil {
			*rec.Log = append(*rec.Log, rec.Name)
		}
		var first *reflect.Value
		for i, a := range args {
			if sig.Variadic && i == len(args)-1 {
				for j := 0; j < a.Len(); j++ {
					rec.Recv = append(rec.Recv, toGoVal(a.Index(j)))
				}
				continue
			}
			if i == 0 {
				first = &args[i]
			}
			rec.Recv = append(rec.Recv, toGoVal(a))
		}
		var res []reflect.Value
		if gen {
			// a function built from parts returns the constant of its first result kind (the zero value of an
			// undocumented one) and "no error": nil, errno(0), a nil pointer, a zero struct
			for j, t := range out {
				if _, ok := kindTypes[sig.Rk]; j == 0 && ok {
					res = append(res, fromGoVal(retConst(sig.Rk), t))
				} else {
					res = append(res, reflect.Zero(t))
				}
			}
			return res
		}
		if sig.Res == "ext" {
			res = append(res, extV)
			if sig.Err == "nil" {
				res = append(res, reflect.Zero(errorType))
			}
			return res
		}
		if sig.Res != "none" {
			if sig.Res == "echo" && first != nil {
				res = append(res, *first)
			} else {
				res = append(res, fromGoVal(retConst(sig.Rk), out[0]))
			}
			if sig.Err == "err" {
				res = append(res, reflect.ValueOf(&ErrSentinel).Elem())
			} else if sig.Err == "nil" {
				res = append(res, reflect.Zero(errorType))
			}
		}
		return res
	})
	return fn.Interface(), true
}

// Observed is what the real code did with one case.
type Observed struct {
	O        string  // parse-error | setup-error | not-called | ok | abort | other-error
	Recv     []GoVal // flattened received values
	Printed  string
	HasR     bool
	Err      error
	Panic    string // "", "parse", "execute" (before the function was entered), "call"
	PanicV   string
	Ran      []string // Go functions of the table that ran, in order
	Dlines   []string // text printed after "D:" by the calls of the other functions
	Awk      []string // text printed after "C:": the program's own (arg "") of every argument
	Ext      string   // text printed after "X:": the result through %.0f and %e
	Calls    int
	Program  string
	ErrIsOwn bool
}

// Program renders the AWK program of a case.
func Program(sig *Sig, srcArgs []string, called bool, shadow, cf string) string {
	var sb strings.Builder
	if cf != "" && cf != DefaultCf {
		fmt.Fprintf(&sb, "BEGIN { CONVFMT = %q }\n", cf)
	}
	if def, ok := otherAwkDef[shadow]; ok {
		sb.WriteString(def + "\n")
	} else {
		sb.WriteString("function ab(x) { return x }\n")
	}
	if !called {
		sb.WriteString("{ print \"R:\" }\n")
		return sb.String()
	}
	sb.WriteString("{\n")
	for _, o := range Others {
		fmt.Fprintf(&sb, "  print \"D:\" %s\n", otherCall[o])
	}
	for _, a := range srcArgs {
		fmt.Fprintf(&sb, "  print \"C:\" ((%s) \"\")\n", a)
	}
	fmt.Fprintf(&sb, "  r = %s(%s); print \"R:\" r\n", sig.Name, strings.Join(srcArgs, ", "))
	if sig.Res == "ext" {
		sb.WriteString("  printf \"X:%.0f %e\\n\", r, r\n")
	}
	sb.WriteString("}\n")
	return sb.String()
}

// makeTable builds the Funcs table of a case: the function of the signature under its name and the three others
// (Native!GoResultOf); every Go function that runs appends its name to *ran.
func makeTable(sig *Sig, rec *Recorder, ran *[]string) (map[string]any, bool) {
	rec.Name, rec.Log = sig.Name, ran
	var fn any
	if sig.Shape == "ok" || sig.Shape == "gen" {
		f, ok := MakeFunc(sig, rec)
		if !ok {
			return nil, false
		}
		fn = f
	} else {
		f, ok := invalidFuncs[sig.Shape]
		if !ok {
			return nil, false
		}
		fn = f
	}
	funcs := map[string]any{
		"aa": func(x int) int { *ran = append(*ran, "aa"); return x + 100 },
		"mm": func(s string) string { *ran = append(*ran, "mm"); return s + "!" },
		"zz": func(a, b int) int { *ran = append(*ran, "zz"); return 10*a + b },
	}
	funcs[sig.Name] = fn
	return funcs, true
}

func sourceArgs(args []string) ([]string, bool) {
	srcArgs := make([]string, len(args))
	for i, a := range args {
		s, ok := valueSrc[a]
		if !ok {
			return nil, false
		}
		srcArgs[i] = s
	}
	return srcArgs, true
}

// parse runs the real parser under recover(); a panic or an error is left in ob.
func parse(prog string, funcs map[string]any, ob *Observed) *parser.Program {
	var p *parser.Program
	var perr error
	func() {
		defer func() {
			if r := recover(); r != nil {
				ob.Panic, ob.PanicV = "parse", fmt.Sprint(r)
			}
		}()
		p, perr = parser.ParseProgram([]byte(prog), &parser.ParserConfig{Funcs: funcs})
	}()
	if ob.Panic != "" {
		return nil
	}
	if perr != nil {
		ob.O, ob.Err = "parse-error", perr
		return nil
	}
	return p
}

// execute makes one Execute call -- on the interpreter *in, created from p if nil (and left in *in for the next
// call of a session) -- with the Funcs table funcs, and fills ob with what happened.
func execute(in **interp.Interpreter, p *parser.Program, funcs map[string]any, rec *Recorder, ran *[]string, called bool, ob *Observed) {
	var out bytes.Buffer
	var err error
	func() {
		defer func() {
			if r := recover(); r != nil {
				ob.Panic, ob.PanicV = "execute", fmt.Sprint(r)
				if rec.Calls > 0 {
					ob.Panic = "call"
				}
			}
		}()
		if *in == nil {
			*in, err = interp.New(p)
			if err != nil {
				return
			}
		}
		_, err = (*in).Execute(&interp.Config{Stdin: strings.NewReader(Input), Output: &out, Error: &out, Environ: []string{}, Funcs: funcs})
	}()
	ob.Recv, ob.Calls, ob.Ran, ob.Err = rec.Recv, rec.Calls, *ran, err
	text := out.String()
	for _, line := range strings.Split(strings.TrimSuffix(text, "\n"), "\n") {
		switch {
		case strings.HasPrefix(line, "D:"):
			ob.Dlines = append(ob.Dlines, line[2:])
		case strings.HasPrefix(line, "C:"):
			ob.Awk = append(ob.Awk, line[2:])
		case strings.HasPrefix(line, "X:") && strings.HasSuffix(text, "\n"):
			ob.Ext = line[2:]
		case strings.HasPrefix(line, "R:") && strings.HasSuffix(text, "\n"):
			ob.HasR, ob.Printed = true, line[2:]
		}
	}
	if ob.Panic != "" {
		return
	}
	switch {
	case err != nil && rec.Calls == 0 && text == "":
		ob.O = "setup-error"
	case err != nil && rec.Calls > 0:
		ob.O = "abort"
		ob.ErrIsOwn = err == ErrSentinel
	case err != nil:
		ob.O = "other-error"
	case !called:
		ob.O = "not-called"
	default:
		ob.O = "ok"
	}
}

// Run executes one case against the real code.
func Run(sig *Sig, args []string, called bool, shadow, cf string) (*Observed, bool) {
	var ran []string
	rec := &Recorder{}
	funcs, ok := makeTable(sig, rec, &ran)
	if !ok {
		return nil, false
	}
	if shadow != "none" && shadow != "" {
		if _, ok := otherAwkDef[shadow]; !ok {
			return nil, false
		}
	}
	srcArgs, ok := sourceArgs(args)
	if !ok {
		return nil, false
	}
	prog := Program(sig, srcArgs, called, shadow, cf)
	ob := &Observed{Program: prog}
	p := parse(prog, funcs, ob)
	if p == nil {
		return ob, true
	}
	var in *interp.Interpreter
	execute(&in, p, funcs, rec, &ran, called, ob)
	return ob, true
}

func sigClass(sig *Sig) string {
	if sig.Shape != "ok" && sig.Shape != "gen" {
		return sig.Shape
	}
	if sig.Name != "fn" {
		return "keyword-name"
	}
	if sig.Shape == "gen" {
		// the part that makes the shape an undocumented one, if any
		for i, k := range sig.Params {
			if _, ok := kindTypes[k]; !ok {
				c := "param-" + k
				if sig.Variadic && i == len(sig.Params)-1 {
					c = "variadic-" + k
				} else if len(sig.Params) > 1 {
					c += fmt.Sprintf("-at-%d-of-%d", i+1, len(sig.Params))
				}
				return c
			}
		}
		if sig.Nres >= 3 {
			return "three-results"
		}
		if _, ok := kindTypes[sig.Rk]; sig.Nres >= 1 && !ok {
			return "result-" + sig.Rk
		}
		if sig.Nres == 2 && sig.R2 != "error" {
			return "second-result-" + sig.R2
		}
	}
	if sig.Res == "ext" {
		return "result-extreme-" + sig.Rk + "-" + sig.Xv
	}
	s := fmt.Sprintf("%dparams", len(sig.Params))
	if sig.Variadic {
		s += "-variadic"
	}
	return s
}

// Compare checks an observation against a predicted outcome; returns a
// failure signature and text, or "".
func Compare(c *Case, ob *Observed) (string, string) {
	cls := sigClass(&c.Sig)
	if c.Outcome.O == "ok" || c.Outcome.O == "abort" {
		// which Go functions ran: whatever happened later, the sequence must be a prefix of the predicted one
		// (a panic or an error cuts it short), and the whole of it when the run got to the end
		for i, name := range ob.Ran {
			if i >= len(c.Outcome.Ran) || c.Outcome.Ran[i] != name {
				what := fmt.Sprintf("the Go functions that ran are %v, the specification says %v", ob.Ran, c.Outcome.Ran)
				if ob.Panic != "" {
					what += " (then panic: " + ob.PanicV + ")"
				}
				return "C17/dispatch/wrong-function/" + shadowClass(c.Shadow), what
			}
		}
	}
	if ob.Panic != "" {
		if c.Shadow != "none" && len(ob.Ran) < len(c.Outcome.Ran) {
			// the run died while the calls of the table's functions were being dispatched
			return "C17/dispatch/panic/" + shadowClass(c.Shadow), fmt.Sprintf("panic after the Go functions %v of %v had run: %s", ob.Ran, c.Outcome.Ran, ob.PanicV)
		}
		return "C17/panic/" + ob.Panic + "/" + cls, "panic: " + ob.PanicV
	}
	if ob.O != c.Outcome.O {
		return fmt.Sprintf("C17/outcome/spec-%s-real-%s/%s", c.Outcome.O, ob.O, cls),
			fmt.Sprintf("outcome class differs (real error: %v)", ob.Err)
	}
	if c.Outcome.O == "ok" || c.Outcome.O == "abort" {
		if len(ob.Ran) != len(c.Outcome.Ran) {
			return "C17/dispatch/wrong-function/" + shadowClass(c.Shadow),
				fmt.Sprintf("the Go functions that ran are %v, the specification says %v", ob.Ran, c.Outcome.Ran)
		}
		if strings.Join(ob.Dlines, "\n") != strings.Join(c.Outcome.Dlines, "\n") {
			return "C17/dispatch/other-result/" + shadowClass(c.Shadow),
				fmt.Sprintf("the calls aa(7), mm(\"q\"), zz(2, 3) printed %q, the specification says %q", ob.Dlines, c.Outcome.Dlines)
		}
	}
	switch c.Outcome.O {
	case "abort":
		if !ob.ErrIsOwn {
			return "C17/abort/error-identity/" + cls, fmt.Sprintf("Execute returned %v, not the function's own error value", ob.Err)
		}
		if ob.HasR {
			return "C17/abort/continued/" + cls, "the program went on after the function returned an error"
		}
	}
	if c.Outcome.O == "ok" || c.Outcome.O == "abort" {
		if ob.Calls != 1 {
			return "C17/dispatch/call-count/" + cls, fmt.Sprintf("function called %d times", ob.Calls)
		}
		if len(ob.Recv) != len(c.Outcome.Recv) {
			what := "zero-fill"
			if c.Sig.Variadic {
				what = "variadic-spread"
			}
			return "C17/" + what + "/count/" + cls, fmt.Sprintf("function received %d values, specification says %d", len(ob.Recv), len(c.Outcome.Recv))
		}
		for j, pr := range c.Outcome.Recv {
			if !pr.Ok {
				continue // out-of-range or non-finite: only "no panic" is required
			}
			var want GoVal
			if err := json.Unmarshal(pr.Val, &want); err != nil {
				return "HARNESS/bad-prediction", err.Error()
			}
			if want.K == "awk" {
				// Native!AwkText: the text the program itself printed for (arg "")
				if j >= len(ob.Awk) {
					return "HARNESS/bad-prediction", "no C: line for the argument"
				}
				want = GoVal{K: "s", S: ob.Awk[j]}
			}
			if ob.Recv[j] != want {
				kind := c.Sig.Params[len(c.Sig.Params)-1]
				if j < len(c.Sig.Params) {
					kind = c.Sig.Params[j]
				}
				if j >= len(c.Args) {
					return "C17/zero-fill/value/" + kind, fmt.Sprintf("missing argument %d: received %+v, want zero value %+v", j+1, ob.Recv[j], want)
				}
				sg := "C17/convert/arg/" + kind + "/" + c.Args[j]
				if c.Cf != "" && c.Cf != DefaultCf {
					sg += "/convfmt-changed"
				}
				return sg, fmt.Sprintf("argument %d (%s as %s, CONVFMT %s): received %+v, want %+v", j+1, c.Args[j], kind, c.Cf, ob.Recv[j], want)
			}
		}
	}
	if c.Outcome.O == "ok" && c.Outcome.Printed != nil && c.Outcome.Printed.Ok {
		var want string
		if err := json.Unmarshal(c.Outcome.Printed.Val, &want); err != nil {
			return "HARNESS/bad-prediction", err.Error()
		}
		if c.Outcome.Printed.Awk {
			if len(ob.Awk) == 0 {
				return "HARNESS/bad-prediction", "no C: line for the echoed argument"
			}
			want = ob.Awk[0] // the echoed AwkText
		}
		if !ob.HasR || ob.Printed != want {
			sg := "C17/convert/result/" + c.Sig.Rk + "/" + c.Sig.Res
			if c.Cf != "" && c.Cf != DefaultCf {
				sg += "/convfmt-changed"
			}
			return sg, fmt.Sprintf("printed result %q, want %q", ob.Printed, want)
		}
	}
	if c.Outcome.O == "ok" && c.Outcome.Num != nil {
		if what := compareNum(c.Outcome.Num, ob.Ext); what != "" {
			return "C17/convert/result-extreme/" + c.Sig.Rk + "/" + c.Sig.Xv, what
		}
	}
	return "", ""
}

// compareNum checks the text "<%.0f> <%e>" the program printed for an extreme result against Native!ExtNum: the sign,
// the order of magnitude, and -- where a float64 holds the value exactly -- every digit.
func compareNum(want *NumPred, ext string) string {
	f := strings.Fields(ext)
	if len(f) != 2 {
		return fmt.Sprintf("the program printed %q for printf \"%%.0f %%e\"", ext)
	}
	fix, sci := f[0], f[1]
	neg := strings.HasPrefix(sci, "-")
	if neg != want.Neg {
		return fmt.Sprintf("the result is %s in AWK: the sign differs from the value the function returned (%s)", sci, describeNum(want))
	}
	ei := strings.LastIndexAny(sci, "eE")
	if ei < 0 {
		return fmt.Sprintf("the result is %s in AWK, not a finite number; the function returned %s", sci, describeNum(want))
	}
	var e10 int
	if _, err := fmt.Sscanf(sci[ei+1:], "%d", &e10); err != nil {
		return fmt.Sprintf("the result is %s in AWK, not a finite number; the function returned %s", sci, describeNum(want))
	}
	// %e rounds to 7 significant digits: 9.9999995e18 would print as 1.000000e+19; none of the extremes is that
	// close to a power of ten
	if e10 != want.E10 {
		return fmt.Sprintf("the result is %s in AWK: the order of magnitude differs from the value the function returned (%s)", sci, describeNum(want))
	}
	if want.Int && want.Exact {
		digits := strings.TrimPrefix(fix, "-")
		if digits != want.Digits {
			return fmt.Sprintf("the result is %s in AWK, the function returned %s, which a float64 holds exactly", fix, describeNum(want))
		}
	}
	return ""
}

func describeNum(n *NumPred) string {
	s := ""
	if n.Neg {
		s = "-"
	}
	if n.Int {
		return s + n.Digits
	}
	return fmt.Sprintf("%sd.ddd * 10^%d", s, n.E10)
}

// Replay is the hx.Replayer for Gen_Native exports.
func Replay(raw json.RawMessage) hx.Outcome {
	var probe struct {
		Fam string `json:"fam"`
	}
	if err := json.Unmarshal(raw, &probe); err == nil {
		switch probe.Fam {
		case "session":
			return ReplaySession(raw)
		case "position":
			return ReplayPosition(raw)
		case "keep":
			return ReplayKeep(raw)
		}
	}
	var c Case
	if err := json.Unmarshal(raw, &c); err != nil || c.Outcome.O == "" {
		return hx.Outcome{Skipped: true, Note: "bad case"}
	}
	if c.Shadow == "" {
		c.Shadow = "none"
	}
	if c.Cf == "" {
		c.Cf = DefaultCf
	}
	ob, ok := Run(&c.Sig, c.Args, c.Called, c.Shadow, c.Cf)
	if !ok {
		return hx.Outcome{Skipped: true, Note: "unknown kind/shape/value"}
	}
	if sig, what := Compare(&c, ob); sig != "" {
		if strings.HasPrefix(sig, "HARNESS/") {
			return hx.Outcome{Skipped: true, Note: what}
		}
		return hx.Fail(sig, what, c.Outcome, map[string]any{"o": ob.O, "recv": ob.Recv, "printed": ob.Printed, "ran": ob.Ran, "dlines": ob.Dlines, "awk": ob.Awk, "ext": ob.Ext, "err": fmt.Sprint(ob.Err)}, ob.Program)
	}
	return hx.OK(c.Called && (c.Outcome.O == "ok" || c.Outcome.O == "abort") && (len(c.Args) > 0 || c.Sig.Res != "none") || c.Outcome.O == "setup-error" || c.Outcome.O == "parse-error")
}

// reflectWrap returns a function of the same type as fn that calls fn and
// then after().
func reflectWrap(fn any, after func()) any {
	v := reflect.ValueOf(fn)
	return reflect.MakeFunc(v.Type(), func(args []reflect.Value) []reflect.Value {
		var res []reflect.Value
		if v.Type().IsVariadic() {
			res = v.CallSlice(args)
		} else {
			res = v.Call(args)
		}
		after()
		return res
	}).Interface()
}
