package c17

import (
	"encoding/json"
	"fmt"
	"strings"

	"github.com/benhoyt/goawk/interp"
	"github.com/benhoyt/goawk/verifharness/hx"
)

// SessionRun is Native!SessionOutcomes[j]: the predicted outcome of one Execute call of a history; OrSetup: "this
// outcome, or a set-up error" (a corrected Funcs after a rejected one: the documentation says Funcs must not change).
type SessionRun struct {
	OrSetup bool    `json:"orsetup"`
	Outcome Outcome `json:"outcome"`
}

// SessionCase is one history of Execute calls on ONE interp.Interpreter (Gen_Native!ExportSession).
type SessionCase struct {
	Fam      string       `json:"fam"`
	Sig      Sig          `json:"sig"`   // the invalid function
	Fixed    Sig          `json:"fixed"` // the corrected function (Native!Fixed), same name
	Args     []string     `json:"args"`
	Called   bool         `json:"called"`
	Runs     []string     `json:"runs"` // "bad" | "fixed"
	Outcomes []SessionRun `json:"outcomes"`
}

// ReplaySession parses the program once (with the Funcs of the first run, as documented), creates one interpreter and
// makes the Execute calls of the history on it, each under recover(); every call is compared with the specification.
func ReplaySession(raw json.RawMessage) hx.Outcome {
	var c SessionCase
	if err := json.Unmarshal(raw, &c); err != nil || len(c.Runs) == 0 || len(c.Runs) != len(c.Outcomes) {
		return hx.Outcome{Skipped: true, Note: "bad session case"}
	}
	srcArgs, ok := sourceArgs(c.Args)
	if !ok {
		return hx.Outcome{Skipped: true, Note: "unknown value"}
	}
	prog := Program(&c.Sig, srcArgs, c.Called, "none", DefaultCf)
	var in *interp.Interpreter
	var observed []map[string]any
	cls := sigClass(&c.Sig)
	hist := strings.Join(c.Runs, "-")
	// one Funcs value per kind of run: the calls that are given "the same Funcs" are given the same map (the
	// documentation: Funcs must not change between calls), with the recorder emptied before each call
	type tab struct {
		funcs map[string]any
		rec   *Recorder
		ran   *[]string
	}
	tabs := map[string]*tab{}
	for j, kind := range c.Runs {
		sig := &c.Sig
		if kind == "fixed" {
			sig = &c.Fixed
		} else if kind != "bad" {
			return hx.Outcome{Skipped: true, Note: "unknown run kind"}
		}
		if tabs[kind] == nil {
			t := &tab{rec: &Recorder{}, ran: new([]string)}
			var ok bool
			if t.funcs, ok = makeTable(sig, t.rec, t.ran); !ok {
				return hx.Outcome{Skipped: true, Note: "unknown kind/shape"}
			}
			tabs[kind] = t
		}
		funcs, rec, ranp := tabs[kind].funcs, tabs[kind].rec, tabs[kind].ran
		rec.Calls, rec.Recv, *ranp = 0, nil, nil
		ob := &Observed{Program: prog}
		if j == 0 {
			p := parse(prog, funcs, ob)
			if p == nil {
				return hx.Outcome{Skipped: true, Note: "the program of a session does not parse: " + fmt.Sprint(ob.Err, ob.PanicV)}
			}
			var err error
			if in, err = interp.New(p); err != nil {
				return hx.Outcome{Skipped: true, Note: "interp.New: " + err.Error()}
			}
		}
		execute(&in, nil, funcs, rec, ranp, c.Called, ob)
		real := ob.O
		if ob.Panic != "" {
			real = "panic"
		}
		observed = append(observed, map[string]any{"run": j + 1, "funcs": kind, "o": real, "panic": ob.PanicV, "recv": ob.Recv, "printed": ob.Printed,
			"ran": ob.Ran, "dlines": ob.Dlines, "err": fmt.Sprint(ob.Err)})
		want := c.Outcomes[j]
		fail := func(sg, what string) hx.Outcome {
			return hx.Fail(sg, fmt.Sprintf("Execute call %d of the history %s on one Interpreter: %s", j+1, hist, what), c.Outcomes, observed, prog)
		}
		nth := "first"
		if j > 0 {
			nth = "later"
		}
		if kind == "bad" {
			// an invalid function: rejected at set-up, by every call
			if want.Outcome.O != "setup-error" {
				// not what Native.tla says of an invalid function (a corrupted prediction of the binding self-test)
				if real != want.Outcome.O {
					return fail("C17/session/outcome/spec-"+want.Outcome.O+"-real-"+real+"/"+cls, "outcome class differs")
				}
				continue
			}
			if real != "setup-error" {
				return fail(fmt.Sprintf("C17/session/invalid-function-not-rejected-by-%s-execute/real-%s/%s", nth, real, cls),
					fmt.Sprintf("the Funcs table holds an invalid function, the call must return the set-up error; it did: %s (error %v, panic %q, output R:%q)", real, ob.Err, ob.PanicV, ob.Printed))
			}
			continue
		}
		// the corrected function: like the first Execute of a fresh interpreter (or still a set-up error)
		if want.OrSetup && real == "setup-error" {
			continue
		}
		cc := &Case{Fam: "native", Sig: *sig, Args: c.Args, Called: c.Called, Shadow: "none", Cf: DefaultCf, Outcome: want.Outcome}
		if sg, what := Compare(cc, ob); sg != "" {
			if strings.HasPrefix(sg, "HARNESS/") {
				return hx.Outcome{Skipped: true, Note: what}
			}
			return fail("C17/session/corrected-funcs-after-rejected-setup/"+strings.TrimPrefix(sg, "C17/")+"/after-"+cls, what)
		}
	}
	return hx.OK(true)
}
