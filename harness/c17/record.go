package c17

import (
	"bufio"
	"bytes"
	"encoding/json"
	"fmt"
	"math/rand"
	"os"
	"sort"
	"strings"

	"github.com/benhoyt/goawk/interp"
	"github.com/benhoyt/goawk/parser"
)

var kindNames = []string{"bool", "int", "int8", "int16", "int32", "int64", "uint", "uint8", "uint16", "uint32", "uint64",
	"float32", "float64", "string", "bytes"}
var valueNames = []string{"three", "negthree", "twohalf", "n300", "zero", "abc", "s12", "s0", "empty", "sn12", "sn0", "unset", "huge", "nan",
	"big", "inf", "neginf"}
var convFmts = []string{DefaultCf, "%.2f", "%.3e"}
var namePool = []string{"b", "m1", "zed", "Aa", "conv", "a_b", "f9", "yy", "lengthy", "ins", "Print", "q"}

func goValJSON(g GoVal) map[string]any {
	switch g.K {
	case "b":
		return map[string]any{"k": "b", "b": g.B}
	case "i":
		return map[string]any{"k": "i", "n": g.N}
	case "f":
		return map[string]any{"k": "f", "h": g.H}
	}
	return map[string]any{"k": "s", "s": g.S}
}

func sigJSON(s *Sig) map[string]any {
	ps := []any{}
	for _, p := range s.Params {
		ps = append(ps, p)
	}
	m := map[string]any{"shape": s.Shape, "name": s.Name, "params": ps, "variadic": s.Variadic, "res": s.Res, "rk": s.Rk, "err": s.Err}
	if s.Res == "ext" {
		m["xv"] = s.Xv
	}
	return m
}

// extOf mirrors Native!ExtOf: the extreme values of a result kind.
func extOf(k string) []string {
	switch k {
	case "int", "int64":
		return []string{"min", "max", "minus1", "p53p1", "negp53p1"}
	case "int8", "int16", "int32":
		return []string{"min", "max", "minus1"}
	case "uint", "uint64":
		return []string{"max", "p63", "p63m1", "p63p1", "p53p1"}
	case "uint8", "uint16", "uint32":
		return []string{"max"}
	case "float32", "float64":
		return []string{"fmax", "negfmax", "fden", "negfden"}
	}
	return nil
}

// parseExt turns the text "<%.0f> <%e>" of an extreme result into sign, decimal exponent and integer digits.
func parseExt(text string) map[string]any {
	m := map[string]any{"neg": false, "e10": 0, "digits": "", "ok": false}
	f := strings.Fields(text)
	if len(f) != 2 {
		return m
	}
	ei := strings.LastIndexAny(f[1], "eE")
	var e10 int
	if ei < 0 {
		return m
	}
	if _, err := fmt.Sscanf(f[1][ei+1:], "%d", &e10); err != nil {
		return m
	}
	m["neg"], m["e10"], m["digits"], m["ok"] = strings.HasPrefix(f[1], "-"), e10, strings.TrimPrefix(f[0], "-"), true
	return m
}

func randSig(r *rand.Rand, name string, allowErr bool) *Sig {
	s := &Sig{Shape: "ok", Name: name, Params: []string{}, Res: "none", Rk: "int", Err: "none"}
	np := r.Intn(4)
	for i := 0; i < np; i++ {
		s.Params = append(s.Params, kindNames[r.Intn(len(kindNames))])
	}
	s.Variadic = np > 0 && r.Intn(3) == 0
	switch r.Intn(5) {
	case 0:
	case 4: // an extreme value of a numeric kind
		for {
			s.Rk = kindNames[r.Intn(len(kindNames))]
			if xs := extOf(s.Rk); xs != nil {
				s.Res, s.Xv = "ext", xs[r.Intn(len(xs))]
				break
			}
		}
	case 1:
		if np > 0 && !(s.Variadic && np == 1) {
			s.Res, s.Rk = "echo", s.Params[0]
			break
		}
		fallthrough
	default:
		s.Res, s.Rk = "const", kindNames[r.Intn(len(kindNames))]
	}
	if s.Res != "none" {
		s.Err = []string{"none", "nil"}[r.Intn(2)]
		if allowErr && s.Res != "ext" && r.Intn(3) == 0 {
			s.Err = "err"
		}
	}
	return s
}

type callLog struct {
	name string
	recv []GoVal
}

// Record: n traces; each is one interpreter run over a Funcs table of 2-5
// recording functions (names in random alphabetical positions) and a program
// that sets CONVFMT to one of the model's settings, defines an AWK function --
// in half of the traces under the name of one of the table's entries, which
// it thereby shadows and which is then not called -- and makes 3-6 calls,
// printing the AWK string conversion of every argument before each call;
// one event per call.
func Record(seed int64, n int, out string) (int, error) {
	r := rand.New(rand.NewSource(seed))
	f, err := os.Create(out)
	if err != nil {
		return 0, err
	}
	defer f.Close()
	w := bufio.NewWriter(f)
	defer w.Flush()
	emit := func(v any) {
		b, _ := json.Marshal(v)
		w.Write(b)
		w.WriteByte('\n')
	}
	for t := 0; t < n; t++ {
		// every fourth trace is a call inside a whole program: a call position, or kept results (program.go)
		if t%4 == 3 {
			emit(map[string]any{"ev": "reset"})
			if t%8 == 3 {
				emit(recordPos(r))
			} else {
				emit(recordKeep(r))
			}
			continue
		}
		nfun := 2 + r.Intn(4)
		perm := r.Perm(len(namePool))[:nfun]
		var log []callLog
		funcs := map[string]any{}
		sigs := map[string]*Sig{}
		var names []string
		for i, pi := range perm {
			name := namePool[pi]
			// only the function called last may return an error (it ends the run)
			s := randSig(r, name, i == nfun-1)
			rec := &Recorder{}
			fn, _ := MakeFunc(s, rec)
			// wrap the recorder: log every call in order
			nm := name
			wrapped := reflectWrap(fn, func() { log = append(log, callLog{nm, append([]GoVal{}, rec.Recv...)}); rec.Recv = nil })
			funcs[name] = wrapped
			sigs[name] = s
			names = append(names, name)
		}
		errName := names[nfun-1]
		sort.Strings(names)
		// the AWK function of the program: its own name, or the name of a table entry (first, middle or last in
		// name order, as it comes) that is not the one allowed to return an error
		shadow := "none"
		if r.Intn(2) == 0 {
			cand := names[r.Intn(len(names))]
			if sigs[cand].Err != "err" {
				shadow = cand
			}
		}
		cf := convFmts[r.Intn(len(convFmts))]
		ncalls := 3 + r.Intn(4)
		type call struct {
			name string
			args []string
		}
		var calls []call
		var sb strings.Builder
		if cf != DefaultCf {
			fmt.Fprintf(&sb, "BEGIN { CONVFMT = %q }\n", cf)
		}
		if shadow != "none" {
			fmt.Fprintf(&sb, "function %s(x) { return x }\n{\n", shadow)
		} else {
			sb.WriteString("function mid(x) { return x }\n{\n")
		}
		for c := 0; c < ncalls; c++ {
			name := names[r.Intn(len(names))]
			if sigs[name].Err == "err" && c != ncalls-1 {
				continue
			}
			if name == shadow {
				continue
			}
			s := sigs[name]
			max := len(s.Params)
			if s.Variadic {
				max += 2
			}
			na := r.Intn(max + 1)
			cl := call{name: name}
			srcs := []string{}
			for j := 0; j < na; j++ {
				v := valueNames[r.Intn(len(valueNames))]
				cl.args = append(cl.args, v)
				srcs = append(srcs, valueSrc[v])
			}
			calls = append(calls, cl)
			for _, a := range srcs {
				fmt.Fprintf(&sb, "  print \"C:\" ((%s) \"\")\n", a)
			}
			fmt.Fprintf(&sb, "  r = %s(%s); print \"R:\" r\n", name, strings.Join(srcs, ", "))
			if s.Res == "ext" {
				sb.WriteString("  printf \"X:%.0f %e\\n\", r, r\n")
			}
		}
		_ = errName
		sb.WriteString("}\n")
		src := sb.String()
		var outb bytes.Buffer
		var perr, xerr error
		var pv any
		func() {
			defer func() { pv = recover() }()
			var p *parser.Program
			p, perr = parser.ParseProgram([]byte(src), &parser.ParserConfig{Funcs: funcs})
			if perr != nil {
				return
			}
			var in *interp.Interpreter
			in, xerr = interp.New(p)
			if xerr != nil {
				return
			}
			_, xerr = in.Execute(&interp.Config{Stdin: strings.NewReader(Input), Output: &outb, Error: &outb, Environ: []string{}, Funcs: funcs})
		}()
		if perr != nil {
			return t, fmt.Errorf("driver program rejected: %v\n%s", perr, src)
		}
		emit(map[string]any{"ev": "reset"})
		lines := strings.Split(strings.TrimSuffix(outb.String(), "\n"), "\n")
		if outb.Len() == 0 {
			lines = nil
		}
		li := 0 // next unread output line
		for ci, cl := range calls {
			ev := map[string]any{"ev": "step", "op": "call", "sig": sigJSON(sigs[cl.name]), "args": append([]string{}, cl.args...),
				"called": true, "src": src, "o": "missing", "got": "", "recv": []any{}, "printed": "", "cf": cf, "shadow": shadow,
				"xnum": parseExt("")}
			awk := []string{}
			for range cl.args {
				if li < len(lines) && strings.HasPrefix(lines[li], "C:") {
					awk = append(awk, lines[li][2:])
					li++
				}
			}
			for len(awk) < len(cl.args) {
				awk = append(awk, "<missing>")
			}
			ev["awk"] = awk
			if cl.args == nil {
				ev["args"] = []string{}
			}
			if pv != nil {
				ev["o"] = "panic"
				ev["panic"] = fmt.Sprint(pv)
				emit(ev)
				break
			}
			if ci < len(log) {
				ev["got"] = log[ci].name
				rv := []any{}
				for _, g := range log[ci].recv {
					rv = append(rv, goValJSON(g))
				}
				ev["recv"] = rv
				if li < len(lines) && strings.HasPrefix(lines[li], "R:") {
					ev["o"] = "ok"
					ev["printed"] = lines[li][2:]
					li++
					if li < len(lines) && strings.HasPrefix(lines[li], "X:") {
						ev["xnum"] = parseExt(lines[li][2:]) // the result through %.0f and %e: sign, exponent, digits
						li++
					}
				} else if xerr != nil && ci == len(log)-1 {
					ev["o"] = "abort"
					ev["own"] = xerr == ErrSentinel
				}
			}
			emit(ev)
		}
	}
	return n, nil
}

var posNames = []string{"begin", "action", "pattern", "range-start", "range-stop", "func-body", "end", "getline-file", "cond",
	"subscript", "builtin-arg", "user-arg", "printf-arg"}
var plainValueNames = []string{"three", "negthree", "twohalf", "n300", "zero", "abc", "s12", "s0", "empty", "sn12", "sn0", "unset", "big"}

// recordPos: one run of a program whose one native call -- a function of 0-3 parameters of any kinds (variadic or
// not), a constant result of any kind, any error mode, called with any menu values -- is written in a random position.
func recordPos(r *rand.Rand) map[string]any {
	s := &Sig{Shape: "ok", Name: namePool[r.Intn(len(namePool))], Params: []string{}, Res: "const", Rk: kindNames[r.Intn(len(kindNames))],
		Err: []string{"none", "nil", "err"}[r.Intn(3)]}
	np := r.Intn(4)
	for i := 0; i < np; i++ {
		s.Params = append(s.Params, kindNames[r.Intn(len(kindNames))])
	}
	s.Variadic = np > 0 && r.Intn(3) == 0
	max := np
	if s.Variadic {
		max += 2
	}
	args, srcs := []string{}, []string{}
	for j, na := 0, r.Intn(max+1); j < na; j++ {
		v := valueNames[r.Intn(len(valueNames))]
		args = append(args, v)
		srcs = append(srcs, valueSrc[v])
	}
	pos := posNames[r.Intn(len(posNames))]
	rec := &Recorder{}
	fn, _ := MakeFunc(s, rec)
	prog, _ := PosProgram(pos, s.Name+"("+strings.Join(srcs, ", ")+")")
	out, stage, err, pv := runProgram(prog, map[string]any{s.Name: fn})
	o := "ok"
	switch {
	case pv != "":
		o = "panic"
	case stage == "parse":
		o = "parse-error"
	case err != nil && rec.Calls > 0:
		o = "abort"
	case err != nil:
		o = "other-error"
	}
	return map[string]any{"ev": "step", "op": "pos", "sig": sigJSON(s), "args": args, "pos": pos, "o": o, "calls": rec.Calls,
		"after": hasLine(out, "A:"), "endmark": hasLine(out, "E:end"), "own": err == ErrSentinel, "src": prog, "panic": pv, "err": fmt.Sprint(err)}
}

// recordKeep: one run of a program that keeps the results of 2-5 calls (any plain menu value as argument).
func recordKeep(r *rand.Rand) map[string]any {
	rk, policy := "bytes", []string{"fresh", "scratch", "wipe"}[r.Intn(3)]
	if r.Intn(4) == 0 {
		rk, policy = "string", "fresh"
	}
	hold := []string{"var", "elem", "field", "subscript"}[r.Intn(4)]
	args, srcs := []string{}, []string{}
	for j, na := 0, 2+r.Intn(4); j < na; j++ {
		v := plainValueNames[r.Intn(len(plainValueNames))]
		args = append(args, v)
		srcs = append(srcs, valueSrc[v])
	}
	calls := 0
	fn, _ := keepFunc(rk, policy, &calls)
	prog, _ := KeepProgram(hold, srcs)
	out, stage, err, pv := runProgram(prog, map[string]any{"fn": fn})
	o := "ok"
	switch {
	case pv != "":
		o = "panic"
	case stage != "":
		o = stage + "-error"
	}
	kept := []any{}
	for _, l := range strings.Split(out, "\n") {
		if strings.HasPrefix(l, "K:") {
			if i := strings.Index(l[2:], ":"); i >= 0 {
				kept = append(kept, map[string]any{"key": l[2 : 2+i], "val": l[3+i:]})
			}
		}
	}
	return map[string]any{"ev": "step", "op": "keep", "rk": rk, "policy": policy, "hold": hold, "args": args, "o": o, "calls": calls,
		"kept": kept, "src": prog, "panic": pv, "err": fmt.Sprint(err)}
}
