package c17

// Native calls inside WHOLE PROGRAMS (spec/NativeProgram.tla; Native!PosOutcome, Native!KeepOutcome).
//
// Family "position": the one call of the program is written in a syntactic position (BEGIN, action, pattern, either
// expression of a range pattern, function body, END, file name of a getline, condition, subscript, argument of a
// builtin / an AWK function / printf); a statement right after it prints "A:", the program ends with
// END { print "E:end" }.  An error of the function must abort the run THERE: Execute returns exactly that error, the
// END marker is never printed, the function is not called again.
//
// Family "keep": fn(s string) returns the text of s as []byte / string -- in fresh memory, in ONE buffer that every
// call overwrites, or in fresh memory after wiping what it returned the last time -- and the program keeps the results
// of 2-3 calls (variables, array elements, fields, array subscripts) before it prints them.  A result is a value: it is
// the text the function returned for ITS call, whatever the function did with its memory afterwards.

import (
	"bytes"
	"encoding/json"
	"fmt"
	"sort"
	"strings"

	"github.com/benhoyt/goawk/interp"
	"github.com/benhoyt/goawk/parser"
	"github.com/benhoyt/goawk/verifharness/hx"
)

// PosOutcome is Native!PosOutcome.
type PosOutcome struct {
	O           string `json:"o"`
	Calls       int    `json:"calls"`
	After       bool   `json:"after"`
	AfterJudged bool   `json:"afterJudged"`
	Endmark     bool   `json:"endmark"`
}

type PosCase struct {
	Fam     string     `json:"fam"`
	Sig     Sig        `json:"sig"`
	Args    []string   `json:"args"`
	Pos     string     `json:"pos"`
	Outcome PosOutcome `json:"outcome"`
}

// PosProgram renders the program of Native!Positions; call is the text fn(args).
func PosProgram(pos, call string) (string, bool) {
	var body string
	switch pos {
	case "begin":
		body = "BEGIN { x = " + call + "; print \"A:\" x }"
	case "action":
		body = "{ x = " + call + "; print \"A:\" x }"
	case "pattern":
		body = call + " { print \"A:\" }"
	case "range-start":
		body = call + ", 0 { print \"A:\" }"
	case "range-stop":
		body = "1, " + call + " { print \"A:\" }"
	case "func-body":
		body = "function w(a) { a = " + call + "; return a }\n{ x = w(1); print \"A:\" x }"
	case "end":
		body = "END { x = " + call + "; print \"A:\" x }"
	case "getline-file":
		body = "{ getline ln < (\"/nonexistent-c17/\" " + call + "); print \"A:\" }"
	case "cond":
		body = "{ if (" + call + ") print \"A:\" }"
	case "subscript":
		body = "{ arr[" + call + "] = 1; print \"A:\" }"
	case "builtin-arg":
		body = "{ x = length(" + call + "); print \"A:\" x }"
	case "user-arg":
		body = "function w(a) { return a }\n{ x = w(" + call + "); print \"A:\" x }"
	case "printf-arg":
		body = "{ printf \"A:%s\\n\", " + call + " }"
	default:
		return "", false
	}
	return body + "\nEND { print \"E:end\" }\n", true
}

// runProgram parses and executes prog with funcs under recover(); returns the output, the error of the stage that
// failed ("parse" | "execute" | ""), and the text of a panic.
func runProgram(prog string, funcs map[string]any) (out string, stage string, err error, panicked string) {
	var buf bytes.Buffer
	func() {
		defer func() {
			if r := recover(); r != nil {
				panicked = fmt.Sprint(r)
			}
		}()
		var p *parser.Program
		p, err = parser.ParseProgram([]byte(prog), &parser.ParserConfig{Funcs: funcs})
		if err != nil {
			stage = "parse"
			return
		}
		_, err = interp.ExecProgram(p, &interp.Config{Stdin: strings.NewReader(Input), Output: &buf, Error: &buf, Environ: []string{}, Funcs: funcs})
		if err != nil {
			stage = "execute"
		}
	}()
	return buf.String(), stage, err, panicked
}

func hasLine(out, prefix string) bool {
	for _, l := range strings.Split(out, "\n") {
		if strings.HasPrefix(l, prefix) {
			return true
		}
	}
	return false
}

// ReplayPosition replays one case of the family "position".
func ReplayPosition(raw json.RawMessage) hx.Outcome {
	var c PosCase
	if err := json.Unmarshal(raw, &c); err != nil || c.Outcome.O == "" {
		return hx.Outcome{Skipped: true, Note: "bad position case"}
	}
	srcArgs, ok := sourceArgs(c.Args)
	if !ok {
		return hx.Outcome{Skipped: true, Note: "unknown value"}
	}
	rec := &Recorder{}
	fn, ok := MakeFunc(&c.Sig, rec)
	if !ok || c.Sig.Shape != "ok" {
		return hx.Outcome{Skipped: true, Note: "unknown kind/shape"}
	}
	prog, ok := PosProgram(c.Pos, c.Sig.Name+"("+strings.Join(srcArgs, ", ")+")")
	if !ok {
		return hx.Outcome{Skipped: true, Note: "unknown position"}
	}
	out, stage, err, pv := runProgram(prog, map[string]any{c.Sig.Name: fn})
	real := "ok"
	switch {
	case pv != "":
		real = "panic"
	case stage == "parse":
		real = "parse-error"
	case err != nil && rec.Calls > 0:
		real = "abort"
	case err != nil:
		real = "other-error"
	}
	after, endmark := hasLine(out, "A:"), hasLine(out, "E:end")
	observed := map[string]any{"o": real, "calls": rec.Calls, "after": after, "endmark": endmark, "err": fmt.Sprint(err), "panic": pv, "output": out}
	cls := c.Pos + "/" + c.Sig.Rk
	fail := func(sg, what string) hx.Outcome {
		return hx.Fail(sg, fmt.Sprintf("call written in position %s: %s", c.Pos, what), c.Outcome, observed, prog)
	}
	if real == "panic" {
		return fail("C17/position/panic/"+cls, "panic: "+pv)
	}
	if real != c.Outcome.O {
		return fail(fmt.Sprintf("C17/position/outcome/spec-%s-real-%s/%s", c.Outcome.O, real, cls),
			fmt.Sprintf("the specification says %s, the run ended with %s (Execute error: %v)", c.Outcome.O, real, err))
	}
	if c.Outcome.O == "abort" && err != ErrSentinel {
		return fail("C17/position/error-identity/"+cls, fmt.Sprintf("Execute returned %v, not the function's own error value", err))
	}
	if rec.Calls != c.Outcome.Calls {
		return fail("C17/position/call-count/"+cls, fmt.Sprintf("the function was called %d times, the specification says %d", rec.Calls, c.Outcome.Calls))
	}
	if endmark != c.Outcome.Endmark {
		return fail("C17/position/end-marker/"+cls, fmt.Sprintf("END marker printed: %v, the specification says %v", endmark, c.Outcome.Endmark))
	}
	if c.Outcome.AfterJudged && after != c.Outcome.After {
		return fail("C17/position/statement-after-call/"+cls, fmt.Sprintf("the statement after the call ran: %v, the specification says %v", after, c.Outcome.After))
	}
	return hx.OK(true)
}

// KeepOutcome is Native!KeepOutcome: for the holds var / elem / field, kept[j] = (j, text of result j); for the hold
// subscript, one (subscript, number of the last call that gave it) per distinct subscript.
type KeepPair struct {
	Key string `json:"key"`
	Val string `json:"val"`
}

type KeepOutcome struct {
	O     string     `json:"o"`
	Calls int        `json:"calls"`
	Kept  []KeepPair `json:"kept"`
}

type KeepCase struct {
	Fam     string      `json:"fam"`
	Rk      string      `json:"rk"`
	Policy  string      `json:"policy"`
	Hold    string      `json:"hold"`
	Args    []string    `json:"args"`
	Outcome KeepOutcome `json:"outcome"`
}

// keepFunc is the Go function of a keep case (Native!KeepPolicies); *calls counts its calls.
func keepFunc(rk, policy string, calls *int) (any, bool) {
	switch {
	case rk == "string" && policy == "fresh":
		return func(s string) string { *calls++; return s }, true
	case rk == "bytes" && policy == "fresh":
		return func(s string) []byte { *calls++; return []byte(s) }, true
	case rk == "bytes" && policy == "scratch":
		buf := make([]byte, 0, 64)
		return func(s string) []byte {
			*calls++
			buf = append(buf[:0], s...)
			return buf
		}, true
	case rk == "bytes" && policy == "wipe":
		var last []byte
		return func(s string) []byte {
			*calls++
			for i := range last {
				last[i] = '#'
			}
			last = []byte(s)
			return last
		}, true
	}
	return nil, false
}

// KeepProgram renders the program of a keep case.
func KeepProgram(hold string, srcArgs []string) (string, bool) {
	var sb strings.Builder
	sb.WriteString("{\n")
	for j, a := range srcArgs {
		switch hold {
		case "var":
			fmt.Fprintf(&sb, "  r%d = fn(%s)\n", j+1, a)
		case "elem":
			fmt.Fprintf(&sb, "  h[%d] = fn(%s)\n", j+1, a)
		case "field":
			fmt.Fprintf(&sb, "  $%d = fn(%s)\n", j+5, a)
		case "subscript":
			fmt.Fprintf(&sb, "  s[fn(%s)] = %d\n", a, j+1)
		default:
			return "", false
		}
	}
	for j := range srcArgs {
		switch hold {
		case "var":
			fmt.Fprintf(&sb, "  print \"K:%d:\" r%d\n", j+1, j+1)
		case "elem":
			fmt.Fprintf(&sb, "  print \"K:%d:\" h[%d]\n", j+1, j+1)
		case "field":
			fmt.Fprintf(&sb, "  print \"K:%d:\" $%d\n", j+1, j+5)
		}
	}
	if hold == "subscript" {
		sb.WriteString("  for (k in s) print \"K:\" k \":\" s[k]\n")
	}
	sb.WriteString("}\n")
	return sb.String(), true
}

// ReplayKeep replays one case of the family "keep".
func ReplayKeep(raw json.RawMessage) hx.Outcome {
	var c KeepCase
	if err := json.Unmarshal(raw, &c); err != nil || c.Outcome.O == "" {
		return hx.Outcome{Skipped: true, Note: "bad keep case"}
	}
	srcArgs, ok := sourceArgs(c.Args)
	if !ok {
		return hx.Outcome{Skipped: true, Note: "unknown value"}
	}
	calls := 0
	fn, ok := keepFunc(c.Rk, c.Policy, &calls)
	if !ok {
		return hx.Outcome{Skipped: true, Note: "unknown result kind / policy"}
	}
	prog, ok := KeepProgram(c.Hold, srcArgs)
	if !ok {
		return hx.Outcome{Skipped: true, Note: "unknown hold"}
	}
	out, stage, err, pv := runProgram(prog, map[string]any{"fn": fn})
	var got []string
	for _, l := range strings.Split(out, "\n") {
		if strings.HasPrefix(l, "K:") {
			got = append(got, l[2:])
		}
	}
	var want []string
	for _, kp := range c.Outcome.Kept {
		want = append(want, kp.Key+":"+kp.Val)
	}
	if c.Hold == "subscript" { // for (k in s): in any order
		sort.Strings(got)
		sort.Strings(want)
	}
	observed := map[string]any{"calls": calls, "kept": got, "err": fmt.Sprint(err), "panic": pv, "output": out}
	cls := c.Rk + "-" + c.Policy + "/" + c.Hold
	fail := func(sg, what string) hx.Outcome {
		return hx.Fail(sg, fmt.Sprintf("%d calls of fn(string) %s (memory policy %s), results kept as %s: %s", len(c.Args), c.Rk, c.Policy, c.Hold, what),
			c.Outcome, observed, prog)
	}
	if pv != "" {
		return fail("C17/keep/panic/"+cls, "panic: "+pv)
	}
	if stage != "" || c.Outcome.O != "ok" {
		real := "ok"
		if stage != "" {
			real = stage + "-error"
		}
		if real != c.Outcome.O {
			return fail(fmt.Sprintf("C17/keep/outcome/spec-%s-real-%s/%s", c.Outcome.O, real, cls), fmt.Sprintf("the run ended with %s (%v)", real, err))
		}
	}
	if calls != c.Outcome.Calls {
		return fail("C17/keep/call-count/"+cls, fmt.Sprintf("the function was called %d times, the specification says %d", calls, c.Outcome.Calls))
	}
	if strings.Join(got, "\n") != strings.Join(want, "\n") {
		return fail("C17/keep/result-changed-after-return/"+cls,
			fmt.Sprintf("the kept results print as %q, the specification says %q (each the text its own call returned)", got, want))
	}
	return hx.OK(true)
}
