// Package c15 binds spec/Cancel.tla to Interpreter.ExecuteContext: scenarios
// exported by TLC (Gen_Cancel: nesting of execution contexts, blocked-in-child
// state, position of the poll counter, pending output, cancel vs deadline,
// before/after the first instruction) are rendered to AWK programs of that
// shape; the context is made done at the chosen point by a script-callable Go
// function, and the per-instruction hook (build tag verif) counts the VM
// instructions dispatched afterwards.  The lines printed before that point go
// to the destination the scenario names (unbuffered standard output, a
// bufio.Writer given as Config.Output, a file, a command) and must all be
// there when the call has returned; nothing is flushed by the harness.  Steps
// of an uncancelled ExecuteContext are compared with Execute, including what
// system() and close() return and write to the error stream for a child that
// exits 0, exits 3, is killed by a signal, or whose wait fails.
package c15

import (
	"bufio"
	"bytes"
	"context"
	"encoding/json"
	"errors"
	"fmt"
	"io"
	"os"
	"path/filepath"
	"strings"
	"sync"
	"sync/atomic"
	"time"

	"github.com/benhoyt/goawk/interp"
	"github.com/benhoyt/goawk/parser"
	"github.com/benhoyt/goawk/verifharness/hx"
)

// ---- exported-scenario shape ----

type Expect struct {
	Results      []string       `json:"results"`
	ErrID        string         `json:"errid"`
	MaxSince     int            `json:"maxsince"`     // in units of the model's CheckEvery
	MinDelivered map[string]int `json:"mindelivered"` // per destination, in printed units of the model
	Same         *bool          `json:"same"`         // nocancel family: ExecuteContext must behave like Execute
}

type Scenario struct {
	Fam        string         `json:"fam"`
	Kinds      []string       `json:"kinds"`
	Phase      string         `json:"phase"`
	Waiting    string         `json:"waiting"`
	OpsClass   string         `json:"opsclass"`
	Printed    map[string]int `json:"printed"` // per destination: direct, buffered, file, cmd
	Pending    map[string]int `json:"pending"` // of which still held in a buffer at the cancellation
	Why        string         `json:"why"`
	Started    bool           `json:"started"`
	CheckEvery int            `json:"checkevery"`
	Waited     string         `json:"waited"`  // nocancel: the wait that just completed ("none")
	Outcome    string         `json:"outcome"` // nocancel: what it handed to the program: none, zero, status, signal, fail
	Expect     Expect         `json:"expect"`
}

// One printed unit of the model is rendered as unitLines lines "L1".."L3" when
// it is still pending at the cancellation (fewer than a buffer-full), and as
// bigLines lines (about 78 KB: more than the 64 KiB buffers of the interpreter
// and of the harness's bufio.Writer) when the model says the buffer has been
// written out in between (BufferFull): the tail is pending all the same.
const (
	unitLines = 3
	bigLines  = 12000
	// how long the reader of a command destination is given to write what it was handed to its file
	cmdDrainTimeout = 20 * time.Second
)

var dests = []string{"direct", "buffered", "file", "cmd"}

// destOf names the one destination a scenario prints to ("" if nothing is
// printed); ok is false when more than one is used (not rendered).
func destOf(printed map[string]int) (dest string, units int, ok bool) {
	for _, d := range dests {
		if printed[d] > 0 {
			if dest != "" {
				return "", 0, false
			}
			dest, units = d, printed[d]
		}
	}
	return dest, units, true
}

func destClass(dest string, big bool) string {
	c := map[string]string{"": "direct", "direct": "direct", "buffered": "bufio", "file": "file", "cmd": "command"}[dest]
	if big {
		c += "-over-buffer"
	}
	return c
}

// ---- files of one run ----

// runFiles are the paths a program writes to besides standard output.
type runFiles struct{ dir, outf, cmdf, mark string }

func newRunFiles() *runFiles {
	cwd, err := os.Getwd()
	if err != nil {
		panic(err)
	}
	d, err := os.MkdirTemp(cwd, "c15-")
	if err != nil {
		panic(err)
	}
	return &runFiles{dir: d, outf: filepath.Join(d, "outf"), cmdf: filepath.Join(d, "cmdf"), mark: filepath.Join(d, "mark")}
}
func (f *runFiles) remove() { os.RemoveAll(f.dir) }

// vars gives the program OUTF and CMD.  survive: the command must outlive the
// kill of its shell by the context (cancel family): the shell forks a reader of
// the pipe into the background (announcing itself through the marker file) and
// exits; otherwise a plain `cat > file`, waited for by close.
func (f *runFiles) vars(survive bool) []string {
	cmd := "cat > " + f.cmdf
	if survive {
		cmd = fmt.Sprintf("exec 3<&0; (echo up > %s; exec cat <&3 > %s) >/dev/null 2>&1 &", f.mark, f.cmdf)
	}
	return []string{"OUTF", f.outf, "CMD", cmd}
}
func readFile(path string) []byte {
	b, _ := os.ReadFile(path)
	return b
}

// The statement: "at most a fixed small number (about a thousand) of further
// interpreter steps".  One poll interval of the code is 1000 instructions; the
// slack covers the dispatch that polls, off-by-one choices of a counter and a
// power-of-two interval (1024).
const (
	PollInterval = 1000
	Slack        = 32
	AbortAfter   = 25000 // the hook aborts a run that is still executing this long after the cancellation
	HangTimeout  = 60 * time.Second
)

// ---- a context that becomes done when told, as cancelled or as expired ----

type manualCtx struct {
	done     chan struct{}
	once     sync.Once
	mu       sync.Mutex
	err      error
	deadline bool
}

func newManualCtx(deadline bool) *manualCtx {
	return &manualCtx{done: make(chan struct{}), deadline: deadline}
}
func (c *manualCtx) Deadline() (time.Time, bool) {
	if c.deadline {
		return time.Now().Add(-time.Millisecond), true
	}
	return time.Time{}, false
}
func (c *manualCtx) Done() <-chan struct{} { return c.done }
func (c *manualCtx) Err() error {
	c.mu.Lock()
	defer c.mu.Unlock()
	return c.err
}
func (c *manualCtx) Value(any) any { return nil }
func (c *manualCtx) finish() {
	c.once.Do(func() {
		c.mu.Lock()
		if c.deadline {
			c.err = context.DeadlineExceeded
		} else {
			c.err = context.Canceled
		}
		c.mu.Unlock()
		close(c.done)
	})
}

// outBuf is the Config.Output of all runs: safe for concurrent use and without
// ReadFrom.  The interpreter hands Config.Output to child processes as their
// stdout, so os/exec copies into it from another goroutine; a bytes.Buffer
// there loses what the interpreter writes meanwhile (bytes.Buffer.ReadFrom
// truncates to the length it saw before blocking).  That is property C13's
// business; here it must not disturb the observation.
type outBuf struct {
	mu  sync.Mutex
	buf bytes.Buffer
}

func (o *outBuf) Write(p []byte) (int, error) {
	o.mu.Lock()
	defer o.mu.Unlock()
	return o.buf.Write(p)
}
func (o *outBuf) Bytes() []byte {
	o.mu.Lock()
	defer o.mu.Unlock()
	return append([]byte{}, o.buf.Bytes()...)
}

// ---- one observed run ----

type abortSentinel struct{ since int64 }

type Obs struct {
	Result    string // "ok", "error", "ctxerr", "aborted" (hook gave up), "hang"
	ErrID     string // "cancel", "deadline", "none"
	ErrText   string
	Status    int
	Out       []byte
	NAtCancel int64 // dispatches from the start of the call to the cancellation (hooked runs)
	Since     int64 // dispatches after the cancellation (hooked runs)
	Ticks     int64 // vtick() calls after the cancellation (wait family)
	Latency   time.Duration
	Panic     any
	NoMarker  bool // the command of a "cmd" destination did not come up (vwait gave up)
}

func classify(err error) (string, string) {
	switch {
	case err == nil:
		return "ok", "none"
	case errors.Is(err, context.Canceled):
		return "ctxerr", "cancel"
	case errors.Is(err, context.DeadlineExceeded):
		return "ctxerr", "deadline"
	}
	return "error", "none"
}

// The instruction hook is process-global and does not say which interpreter
// calls it: a run that counts with the hook must be the only interpreter
// executing in the process.  Hooked runs take hookMu exclusively, all other
// runs of this package share it.
var hookMu sync.RWMutex

type runOpts struct {
	src      string
	input    string
	vars     []string
	why      string // "cancel" | "deadline" | "never"
	pre      bool   // context done before the call
	hooked   bool   // count instructions with the hook (serialised)
	buffered bool   // Config.Output is a bufio.Writer the interpreter has to flush
	outside  bool   // wait family: the context is made done from outside, 40 ms after vmark()
	files    *runFiles
}

// run executes src once under ExecuteContext and observes it.
func run(o runOpts) (obs Obs) {
	var n, since, ticks, nAt int64
	var cancelled atomic.Bool
	mctx := newManualCtx(o.why == "deadline")
	marked := make(chan struct{}, 1)
	funcs := map[string]any{
		"vcancel": func() {
			if o.why == "never" {
				return
			}
			nAt = n
			cancelled.Store(true)
			mctx.finish()
		},
		"vmark": func() {
			select {
			case marked <- struct{}{}:
			default:
			}
		},
		"vtick": func() {
			if cancelled.Load() {
				ticks++
				if ticks > AbortAfter {
					panic(abortSentinel{ticks})
				}
			}
		},
		"vwait": func() {
			// returns when the command the program prints to is up (its marker file exists)
			if o.files == nil {
				return
			}
			for t0 := time.Now(); time.Since(t0) < 30*time.Second; time.Sleep(2 * time.Millisecond) {
				if _, err := os.Stat(o.files.mark); err == nil {
					return
				}
			}
			obs.NoMarker = true
		},
	}
	prog, err := parser.ParseProgram([]byte(o.src), &parser.ParserConfig{Funcs: funcs})
	if err != nil {
		obs.Result, obs.ErrText = "parse-error", err.Error()
		return obs
	}
	in, _ := interp.New(prog)
	var buf outBuf
	var out io.Writer = &buf
	var bw *bufio.Writer
	if o.buffered && !o.outside { // (a bufio.Writer shared with a child's copier would be the same C13 matter)
		bw = bufio.NewWriterSize(&buf, 1<<16)
		out = bw
	}
	cfg := &interp.Config{Stdin: strings.NewReader(o.input), Output: out, Error: io.Discard, Environ: []string{},
		Funcs: funcs, Vars: o.vars}
	if o.hooked {
		hookMu.Lock()
		defer hookMu.Unlock()
		interp.SetVerifStepHook(func(interp.VerifStepInfo) {
			n++
			if cancelled.Load() {
				since++
				if since > AbortAfter {
					panic(abortSentinel{since})
				}
			}
		})
		defer interp.SetVerifStepHook(nil)
	} else {
		hookMu.RLock()
		defer hookMu.RUnlock()
	}
	if o.pre {
		cancelled.Store(true)
		mctx.finish()
	}
	type ret struct {
		status int
		err    error
		pan    any
	}
	done := make(chan ret, 1)
	var tCancel time.Time
	go func() {
		var r ret
		defer func() {
			if p := recover(); p != nil {
				r.pan = p
			}
			done <- r
		}()
		r.status, r.err = in.ExecuteContext(mctx, cfg)
	}()
	if o.outside {
		select {
		case <-marked:
			time.Sleep(40 * time.Millisecond)
		case r := <-done: // ended before reaching the wait
			done <- r
		}
		tCancel = time.Now()
		cancelled.Store(true)
		mctx.finish()
	}
	select {
	case r := <-done:
		if !tCancel.IsZero() {
			obs.Latency = time.Since(tCancel)
		}
		obs.Status = r.status
		obs.Result, obs.ErrID = classify(r.err)
		if r.err != nil {
			obs.ErrText = r.err.Error()
		}
		if r.pan != nil {
			if _, ok := r.pan.(abortSentinel); ok {
				obs.Result = "aborted"
			} else {
				obs.Result, obs.Panic = "panic", r.pan
			}
		}
	case <-time.After(HangTimeout):
		obs.Result = "hang"
		mctx.finish()
	}
	// Nothing is flushed here: a Config.Output that has a Flush method is flushed by the interpreter when
	// the call returns (that is how its default, buffered os.Stdout, gets written at all); what is then
	// still in the bufio.Writer was NOT delivered.
	_ = bw
	obs.Out = buf.Bytes()
	obs.NAtCancel, obs.Since, obs.Ticks = nAt, since, ticks
	return obs
}

// ---- choosing K and pad so that the poll counter is where the scenario says ----

type calib struct{ n0, perPad int64 }

var (
	calibMu sync.Mutex
	calibs  = map[string]calib{}
)

const kCancel = 40 // the call of vcancel() at which the context becomes done

func calibrate(src, input string, k int, usesFiles bool) (calib, bool) {
	key := fmt.Sprintf("%d\x00%s", k, src)
	calibMu.Lock()
	c, ok := calibs[key]
	calibMu.Unlock()
	if ok {
		return c, true
	}
	// two trial runs (cancelled at the same call as the real one) measure the dispatch count at the cancellation
	// without padding and what one iteration of the padding loop adds
	trial := func(pad string) Obs {
		vars := []string{"K", fmt.Sprint(k), "pad", pad}
		var f *runFiles
		if usesFiles {
			f = newRunFiles()
			defer f.remove()
			vars = append(vars, f.vars(true)...)
		}
		return run(runOpts{src: src, input: input, vars: vars, why: "cancel", hooked: true, files: f})
	}
	a, b := trial("0"), trial("7")
	if a.NAtCancel == 0 || b.NAtCancel <= a.NAtCancel || (b.NAtCancel-a.NAtCancel)%7 != 0 {
		return calib{}, false
	}
	c = calib{a.NAtCancel, (b.NAtCancel - a.NAtCancel) / 7}
	calibMu.Lock()
	calibs[key] = c
	calibMu.Unlock()
	return c, true
}

// padFor returns the padding that puts the dispatch count at the cancellation on `target` modulo the poll interval
// (or as near as the padding loop's step allows).
func padFor(c calib, target int64) int {
	best, bestD := 0, int64(1<<62)
	for pad := 0; pad < 1000; pad++ {
		ph := (c.n0 + c.perPad*int64(pad)) % PollInterval
		d := (ph - target + PollInterval) % PollInterval
		if PollInterval-d < d {
			d = PollInterval - d
		}
		if target > PollInterval/2 && ph < target-PollInterval/2 || target < PollInterval/2 && ph > target+PollInterval/2 {
			d += PollInterval // do not wrap around the poll: "just before" must stay before, "just after" after
		}
		if d < bestD {
			best, bestD = pad, d
		}
		if d == 0 {
			break
		}
	}
	return best
}

func linesDelivered(out []byte, printed int) int {
	k := 0
	for k < printed && bytes.HasPrefix(out, []byte(fmt.Sprintf("L%d\n", k+1))) {
		out = out[len(fmt.Sprintf("L%d\n", k+1)):]
		k++
	}
	return k
}

func maxInt(a, b int) int {
	if a > b {
		return a
	}
	return b
}

func contains(ss []string, s string) bool {
	for _, x := range ss {
		if x == s {
			return true
		}
	}
	return false
}

var (
	shellOnce sync.Once
	shellOK   bool
	shellWhy  string
)

func haveShell() bool {
	shellOnce.Do(func() {
		o := run(runOpts{src: `BEGIN { r = system("sleep 0"); "echo hi" | getline x; print r, x }`, why: "never"})
		shellOK = o.Result == "ok" && string(o.Out) == "0 hi\n"
		shellWhy = fmt.Sprintf("%s %q %s", o.Result, o.Out, o.ErrText)
	})
	return shellOK
}

// Replay is the hx.Replayer for Gen_Cancel exports.
func Replay(raw json.RawMessage) hx.Outcome {
	var sc Scenario
	if err := json.Unmarshal(raw, &sc); err == nil && sc.Fam == "ordinary" {
		return ReplayOrdinary(raw)
	} else if err != nil || len(sc.Kinds) == 0 {
		return hx.Outcome{Skipped: true, Note: "bad case"}
	}
	dest, units, ok := destOf(sc.Printed)
	if !ok {
		return hx.Outcome{Skipped: true, Note: "more than one print destination: not rendered"}
	}
	if (sc.Waiting != "none" || dest == "cmd" || (sc.Waited != "" && sc.Waited != "none")) && !haveShell() {
		return hx.Outcome{Skipped: true, Note: "no usable /bin/sh + sleep: " + shellWhy}
	}
	if sc.Fam == "nocancel" {
		return replayNoCancel(&sc, dest, units)
	}
	oc := replayCancel(&sc, dest, units)
	// A command destination depends on the machine: os/exec closes the pipe to a command 250 ms (WaitDelay) after
	// its context is done, whether the interpreter has written the pending lines by then or not.  The interpreter
	// gets there within microseconds; under heavy load a failure counts only if it shows three times in a row.
	for try := 0; try < 2 && dest == "cmd" && oc.Fail != nil && strings.HasPrefix(oc.Fail.Sig, "C15/delivery/"); try++ {
		oc = replayCancel(&sc, dest, units)
	}
	return oc
}

func replayCancel(scp *Scenario, dest string, units int) hx.Outcome {
	sc := *scp
	// the buffer was written out before the cancellation (BufferFull in the model): more than a buffer-full was printed
	big := units > 0 && dest != "direct" && sc.Pending[dest] == 0
	perUnit := unitLines
	if big {
		perUnit = bigLines
	}
	shape := Shape{Kinds: sc.Kinds, Waiting: sc.Waiting, Printed: units * perUnit, Dest: dest}.Canon(false)
	src := shape.Source(false)
	input := shape.Input()
	inner := shape.Innermost()
	// Config.Output: a bufio.Writer when the scenario prints to buffered standard output; never when a child
	// shares it (a child's copier and the interpreter writing to one bufio.Writer is C13's matter)
	buffered := dest == "buffered" || ((dest == "" || dest == "file") && sc.Waiting == "none" && len(sc.Kinds)%2 == 0)
	limit := int64(sc.Expect.MaxSince)*PollInterval/int64(maxInt(sc.CheckEvery, 1)) + Slack
	kc := maxInt(kCancel, shape.Printed+10)
	files := newRunFiles()
	defer files.remove()
	fvars := files.vars(true)

	var o Obs
	prog := src
	switch {
	case sc.Waiting != "none":
		// every vtick() call is at least one dispatched instruction (its CallNative), so the bound on
		// instructions is also a bound on calls; how many instructions one loop iteration really is
		// is not assumed
		const ipt = int64(1)
		vars := append([]string{"K", "-1", "pad", "0"}, fvars...)
		o = run(runOpts{src: src, input: input, vars: vars, why: sc.Why, outside: true, buffered: buffered, files: files})
		if o.Result == "hang" { // once more, alone
			files.remove()
			files = newRunFiles()
			defer files.remove()
			vars = append([]string{"K", "-1", "pad", "0"}, files.vars(true)...)
			o = run(runOpts{src: src, input: input, vars: vars, why: sc.Why, outside: true, buffered: buffered, files: files})
			if o.Result == "hang" {
				return hx.Fail("C15/child-wait/not-interrupted/"+sc.Waiting,
					fmt.Sprintf("ExecuteContext still blocked in the child %v after the context was done", HangTimeout), "return with the context's error", "still running", prog)
			}
		}
		if o.Result == "aborted" || o.Ticks*ipt > limit {
			return hx.Fail("C15/poll/late-after-wait/"+sc.Waiting,
				fmt.Sprintf("%d loop iterations (each at least one instruction) ran after the child was killed", o.Ticks), fmt.Sprintf("<= %d instructions", limit), o.Ticks*ipt, prog)
		}
	case dest == "cmd":
		// not hooked (the program waits for its command to come up; several such runs go on at a time): the poll
		// phase is not placed, and the bound is applied to iterations (vtick) as after a killed child
		vars := append([]string{"K", fmt.Sprint(kc), "pad", fmt.Sprint(map[string]int{"after-poll": 0, "mid": 60, "before-poll": 120}[sc.OpsClass])}, fvars...)
		prog = fmt.Sprintf("# K=%s pad=%s why=%s pre=%v Config.Output=unbuffered OUTF=outf CMD=%q\n%s", vars[1], vars[3], sc.Why, !sc.Started, fvars[3], src)
		o = run(runOpts{src: src, input: input, vars: vars, why: sc.Why, pre: !sc.Started, files: files})
		if o.Result == "hang" {
			return hx.Fail("C15/poll/not-stopped/"+inner, fmt.Sprintf("ExecuteContext still running %v after the context was done", HangTimeout), "return with the context's error", "still running", prog)
		}
		if o.Result == "aborted" || o.Ticks > limit {
			return hx.Fail("C15/poll/late/"+inner,
				fmt.Sprintf("%d iterations (each at least one instruction) ran after the context was done", o.Ticks), fmt.Sprintf("<= %d instructions", limit), o.Ticks, prog)
		}
	default:
		vars := append([]string{"K", fmt.Sprint(kc), "pad", "0"}, fvars...)
		if sc.Started {
			c, ok := calibrate(src, input, kc, dest == "file")
			if !ok {
				return hx.Outcome{Skipped: true, Note: "calibration failed"}
			}
			target := map[string]int64{"after-poll": 0, "mid": 499, "before-poll": 999}[sc.OpsClass]
			vars[3] = fmt.Sprint(padFor(c, target))
		}
		prog = fmt.Sprintf("# K=%s pad=%s why=%s pre=%v Config.Output=%s OUTF=outf CMD=%q\n%s", vars[1], vars[3], sc.Why, !sc.Started,
			map[bool]string{true: "bufio.Writer", false: "unbuffered"}[buffered], fvars[3], src)
		o = run(runOpts{src: src, input: input, vars: vars, why: sc.Why, pre: !sc.Started, hooked: true, buffered: buffered, files: files})
		if o.Result == "aborted" {
			return hx.Fail("C15/poll/not-stopped/"+inner,
				fmt.Sprintf("still executing %d instructions after the context was done (cancelled at dispatch %d)", o.Since, o.NAtCancel),
				fmt.Sprintf("return within %d instructions", limit), fmt.Sprintf("> %d", AbortAfter), prog)
		}
		if o.Since > limit {
			return hx.Fail("C15/poll/late/"+inner,
				fmt.Sprintf("%d instructions dispatched after the context was done (cancelled at dispatch %d)", o.Since, o.NAtCancel),
				fmt.Sprintf("<= %d", limit), o.Since, prog)
		}
	}
	if o.Result == "parse-error" {
		return hx.Outcome{Skipped: true, Note: "generated program rejected: " + o.ErrText}
	}
	if o.Result == "panic" {
		return hx.Fail("C15/panic/"+inner, fmt.Sprintf("panic: %v", o.Panic), nil, fmt.Sprint(o.Panic), prog)
	}
	if o.NoMarker {
		return hx.Outcome{Skipped: true, Note: "the command the program prints to did not come up within 30 s"}
	}
	if !contains(sc.Expect.Results, o.Result) {
		return hx.Fail(fmt.Sprintf("C15/result/%s/%s", o.Result, innerOrWait(&sc, inner)),
			"the call did not end with the context's error: "+o.ErrText, sc.Expect.Results, o.Result, prog)
	}
	if o.Result == "ctxerr" && o.ErrID != sc.Expect.ErrID {
		return hx.Fail(fmt.Sprintf("C15/error-identity/%s-instead-of-%s/%s", o.ErrID, sc.Expect.ErrID, innerOrWait(&sc, inner)),
			"wrong context error: "+o.ErrText, sc.Expect.ErrID, o.ErrID, prog)
	}
	// everything printed before the cancellation has been delivered, at every destination
	for _, d := range dests {
		want := sc.Expect.MinDelivered[d] * unitLines
		if d == dest {
			want = sc.Expect.MinDelivered[d] * perUnit
		}
		if !sc.Started {
			want = 0 // the context was done before anything ran
		}
		if want == 0 {
			continue
		}
		var got int
		var where string
		var content []byte
		switch d {
		case "direct", "buffered":
			content, where = o.Out, "Config.Output"
			if buffered {
				where = "the writer underneath the bufio.Writer given as Config.Output"
			}
			got = linesDelivered(content, want)
		case "file":
			content, where = readFile(files.outf), "the file of print > OUTF"
			got = linesDelivered(content, want)
		case "cmd":
			// the reader writes what it was handed to its file and ends at the end of its input
			where = "what the command of print | CMD received"
			content, got = drained(files.cmdf, want)
			nCmdDestJudged.Add(1)
		}
		if got < want {
			if len(content) > 200 {
				content = append(content[:200:200], "..."...)
			}
			return hx.Fail("C15/delivery/missing-output/"+destClass(d, big && d == dest),
				fmt.Sprintf("%d of the %d lines printed before the cancellation are in %s when the call has returned", got, want, where), want, string(content), prog)
		}
	}
	return hx.OK(true)
}

// drained waits until the file holds the first `want` lines (or cmdDrainTimeout passes; once one case
// has waited that long in vain, later ones wait 2 s only: the signature is established).
var drainedInVain atomic.Bool

func drained(path string, want int) ([]byte, int) {
	limit := cmdDrainTimeout
	if drainedInVain.Load() {
		limit = 2 * time.Second
	}
	if v := os.Getenv("VERIF_C15_DRAIN_S"); v != "" { // self-test runs: the demand is corrupted, the wait is in vain by construction
		var sec int
		if _, err := fmt.Sscanf(v, "%d", &sec); err == nil && sec > 0 {
			limit = time.Duration(sec) * time.Second
		}
	}
	var b []byte
	got := 0
	for t0 := time.Now(); ; time.Sleep(3 * time.Millisecond) {
		b = readFile(path)
		got = linesDelivered(b, want)
		if got >= want {
			return b, got
		}
		if time.Since(t0) > limit {
			drainedInVain.Store(true)
			return b, got
		}
	}
}

func innerOrWait(sc *Scenario, inner string) string {
	if sc.Waiting != "none" {
		return sc.Waiting
	}
	return inner
}

// replayNoCancel: a context that is never cancelled must be invisible.
func replayNoCancel(sc *Scenario, dest string, units int) hx.Outcome {
	waiting, outcome := sc.Waiting, ""
	if sc.Waited != "" && sc.Waited != "none" {
		// the step is a child ending by itself: the program runs through that wait, the child ends as the
		// scenario says, and what system() / close() hand back is printed
		waiting = sc.Waited
		if sc.Outcome != "none" {
			outcome = sc.Outcome
		}
	}
	shape := Shape{Kinds: sc.Kinds, Waiting: waiting, Printed: units * unitLines, Dest: dest, Outcome: outcome}.Canon(true)
	src := shape.Source(true)
	input := ""
	if shape.UsesRecords() {
		input = strings.Repeat("r\n", 50)
	}
	class := shape.Innermost()
	if waiting != "none" {
		class = waiting
		if outcome != "" {
			class += "-" + outcome
		}
	}
	oc := compareWithExecute(src, input, []string{"K", "-1", "pad", "3"}, class, units*unitLines, dest, outcome)
	if sc.Expect.Same != nil && !*sc.Expect.Same && oc.Fail == nil && !oc.Skipped {
		return hx.Fail("C15/invisible/unexpectedly-equal/"+class, "the specification says the two runs differ, they do not", false, true, src)
	}
	return oc
}

// counters of a replay run, reported through Finish (Summary.Extra)
var nOutcomeJudged, nOutcomeSkipped, nFailJudged, nFailSkipped, nCmdDestJudged atomic.Int64

// Finish adds to the summary how many of the cases that depend on the
// environment producing a certain child ending were judged / skipped.
func Finish(sum *hx.Summary) {
	if sum.Extra == nil {
		sum.Extra = map[string]any{}
	}
	sum.Extra["child_ending_judged"] = nOutcomeJudged.Load()
	sum.Extra["child_ending_skipped"] = nOutcomeSkipped.Load()
	sum.Extra["wait_failure_judged"] = nFailJudged.Load()
	sum.Extra["wait_failure_skipped"] = nFailSkipped.Load()
	sum.Extra["command_destination_judged"] = nCmdDestJudged.Load()
}

// rcOf extracts what the program printed as `rc` (the value system() / close() returned).
func rcOf(out []byte) string {
	for _, ln := range strings.Split(string(out), "\n") {
		if strings.HasPrefix(ln, "rc ") {
			return ln[3:]
		}
	}
	return ""
}

// compareWithExecute runs src with Execute and with ExecuteContext (a
// WithCancel context that is never cancelled) on new interpreters; standard
// output, the file / command destination, the error stream, exit status and
// error class must be equal.  wantLines >= 0 additionally checks (as a sanity
// gate on the scenario binding) that the program printed the number of L-lines
// the scenario says at destination dest.  outcome != "": the program waits for
// a child that ends that way and prints the value it is handed; if the
// environment does not produce that ending under Execute (seen from the value
// printed), the case is skipped.
func compareWithExecute(src, input string, vars []string, class string, wantLines int, dest, outcome string) hx.Outcome {
	type rr struct {
		out    []byte
		errs   []byte
		file   []byte
		status int
		res    string
		text   string
		pan    any
	}
	one := func(useCtx bool) (r rr) {
		funcs := map[string]any{"vcancel": func() {}, "vmark": func() {}, "vtick": func() {}, "vwait": func() {}}
		prog, err := parser.ParseProgram([]byte(src), &parser.ParserConfig{Funcs: funcs})
		if err != nil {
			r.res, r.text = "parse-error", err.Error()
			return
		}
		in, _ := interp.New(prog)
		var buf, ebuf outBuf
		var out io.Writer = &buf
		if dest == "buffered" {
			out = bufio.NewWriterSize(&buf, 1<<16) // flushed by the interpreter, not here
		}
		v := vars
		var files *runFiles
		if dest == "file" || dest == "cmd" {
			files = newRunFiles()
			defer files.remove()
			v = append(append([]string{}, vars...), files.vars(false)...)
		}
		cfg := &interp.Config{Stdin: strings.NewReader(input), Output: out, Error: &ebuf, Environ: []string{}, Funcs: funcs, Vars: v}
		defer func() {
			if p := recover(); p != nil {
				r.pan, r.res = p, "panic"
			}
			r.out, r.errs = buf.Bytes(), ebuf.Bytes()
			switch dest {
			case "file":
				r.file = readFile(files.outf)
			case "cmd":
				r.file = readFile(files.cmdf)
			}
		}()
		var e error
		if useCtx {
			ctx, cancel := context.WithCancel(context.Background())
			defer cancel()
			r.status, e = in.ExecuteContext(ctx, cfg)
		} else {
			r.status, e = in.Execute(cfg)
		}
		r.res, _ = classify(e)
		if e != nil {
			r.text = e.Error()
		}
		return
	}
	differ := func(a, b rr) bool {
		return !bytes.Equal(a.out, b.out) || !bytes.Equal(a.errs, b.errs) || !bytes.Equal(a.file, b.file) || a.status != b.status || a.res != b.res
	}
	hookMu.RLock()
	a, b := one(false), one(true)
	// Programs with child processes depend on the environment (a fork that fails under load, exec's
	// WaitDelay): a difference counts only if it shows in three consecutive pairs of runs.
	for try := 0; try < 2 && a.pan == nil && b.pan == nil && differ(a, b); try++ {
		a, b = one(false), one(true)
	}
	hookMu.RUnlock()
	if a.res == "parse-error" {
		return hx.Outcome{Skipped: true, Note: "generated program rejected: " + a.text}
	}
	if a.res == "panic" {
		return hx.Outcome{Skipped: true, Note: "Execute itself panics (not about contexts)"}
	}
	if wantLines >= 0 {
		where := a.out
		if dest == "file" || dest == "cmd" {
			where = a.file
		}
		if linesDelivered(where, wantLines) != wantLines {
			return hx.Fail("C15-MODEL/nocancel/lines", "the generated program does not print the lines the scenario says", wantLines, string(where), src)
		}
	}
	if b.res == "panic" {
		return hx.Fail("C15/invisible/panic/"+class, fmt.Sprintf("ExecuteContext panics where Execute does not: %v", b.pan), a.res, "panic", src)
	}
	if !bytes.Equal(a.out, b.out) {
		return hx.Fail("C15/invisible/output/"+class, "ExecuteContext with a never-cancelled context prints something else than Execute", string(a.out), string(b.out), src)
	}
	if !bytes.Equal(a.file, b.file) {
		return hx.Fail("C15/invisible/redirected-output/"+class, "ExecuteContext with a never-cancelled context writes something else to the file / command than Execute", string(a.file), string(b.file), src)
	}
	if !bytes.Equal(a.errs, b.errs) {
		return hx.Fail("C15/invisible/error-stream/"+class, "ExecuteContext with a never-cancelled context writes something else to Config.Error than Execute", string(a.errs), string(b.errs), src)
	}
	if a.status != b.status {
		return hx.Fail("C15/invisible/status/"+class, "exit status differs between Execute and ExecuteContext", a.status, b.status, src)
	}
	if a.res != b.res {
		return hx.Fail("C15/invisible/error/"+class, "error class differs between Execute and ExecuteContext: "+a.text+" / "+b.text, a.res, b.res, src)
	}
	// the two runs agree.  Whether the case exercised the child ending the scenario names depends on the environment:
	// if it did not, the case is counted as skipped (not judged for that ending).
	if outcome != "" {
		// the value classes of Cancel.tla (RetOf): 0 / the status / 256 + signal / -1 with a diagnostic
		want := map[string]string{"zero": "0", "status": "3", "signal": "265", "fail": "-1"}[outcome]
		skip := func() {
			nOutcomeSkipped.Add(1)
			if outcome == "fail" {
				nFailSkipped.Add(1)
			}
		}
		if got := rcOf(a.out); got != want {
			skip()
			return hx.Outcome{Skipped: true, Note: fmt.Sprintf("under Execute the child did not end as the scenario says (%s): rc=%q, want %s", outcome, got, want)}
		}
		if outcome == "fail" && len(a.errs) == 0 {
			skip()
			return hx.Outcome{Skipped: true, Note: "under Execute the failed wait left no diagnostic on the error stream"}
		}
		nOutcomeJudged.Add(1)
		if outcome == "fail" {
			nFailJudged.Add(1)
		}
	}
	return hx.OK(true)
}

// ReplayOrdinary is used for the family of everyday programs ({"fam":"ordinary","i":k}).
func ReplayOrdinary(raw json.RawMessage) hx.Outcome {
	var c struct {
		I int `json:"i"`
	}
	if err := json.Unmarshal(raw, &c); err != nil || c.I < 0 || c.I >= len(Ordinary) {
		return hx.Outcome{Skipped: true, Note: "bad case"}
	}
	p := Ordinary[c.I]
	return compareWithExecute(p.Src, p.In, nil, "ordinary", -1, "", "")
}

// runWithCtx runs src (hooked) under a context of the caller; counting after
// the cancellation starts at the first dispatch at which ctx.Err() != nil.
func runWithCtx(src, input string, ctx context.Context) (obs Obs) {
	var n, since, nAt int64
	seen := false
	funcs := map[string]any{"vcancel": func() {}, "vmark": func() {}, "vtick": func() {}}
	prog, err := parser.ParseProgram([]byte(src), &parser.ParserConfig{Funcs: funcs})
	if err != nil {
		obs.Result, obs.ErrText = "parse-error", err.Error()
		return obs
	}
	in, _ := interp.New(prog)
	var buf outBuf
	cfg := &interp.Config{Stdin: strings.NewReader(input), Output: &buf, Error: io.Discard, Environ: []string{},
		Funcs: funcs, Vars: []string{"K", "-1", "pad", "0"}}
	hookMu.Lock()
	defer hookMu.Unlock()
	interp.SetVerifStepHook(func(interp.VerifStepInfo) {
		if !seen {
			if ctx.Err() != nil {
				seen, nAt = true, n
			}
		}
		n++
		if seen {
			since++
			if since > AbortAfter {
				panic(abortSentinel{since})
			}
		}
	})
	defer interp.SetVerifStepHook(nil)
	func() {
		defer func() {
			if p := recover(); p != nil {
				if _, ok := p.(abortSentinel); ok {
					obs.Result = "running"
				} else {
					obs.Result, obs.Panic = "panic", p
				}
			}
		}()
		var e error
		obs.Status, e = in.ExecuteContext(ctx, cfg)
		obs.Result, obs.ErrID = classify(e)
	}()
	obs.Out = buf.Bytes()
	obs.NAtCancel, obs.Since = nAt, since
	return obs
}

// Probe prints, for a few shapes and poll-counter positions, the instruction
// counts the hook observes (diagnostic mode `vreplay C15 probe`).
func Probe(args []string) int {
	for _, kinds := range [][]string{{"begin"}, {"action"}, {"pattern"}, {"end", "func", "func"}, {"action", "forin"}, {"begin", "func", "forin", "func"}} {
		sh := Shape{Kinds: kinds, Waiting: "none", Printed: 3}.Canon(false)
		src := sh.Source(false)
		input := sh.Input()
		c, ok := calibrate(src, input, kCancel, false)
		fmt.Printf("%v calibrated=%v n0=%d perPad=%d\n", kinds, ok, c.n0, c.perPad)
		for _, t := range []int64{0, 1, 499, 999} {
			pad := padFor(c, t)
			o := run(runOpts{src: src, input: input, vars: []string{"K", fmt.Sprint(kCancel), "pad", fmt.Sprint(pad)}, why: "cancel", hooked: true})
			fmt.Printf("   target phase %3d: pad=%d cancelled at dispatch %d (phase %d), %d dispatched afterwards, result %s/%s, %d lines delivered\n",
				t, pad, o.NAtCancel, o.NAtCancel%PollInterval, o.Since, o.Result, o.ErrID, linesDelivered(o.Out, 3))
		}
	}
	o := run(runOpts{src: Shape{Kinds: []string{"begin"}, Waiting: "none"}.Source(false), vars: []string{"K", "40", "pad", "0"}, why: "deadline", pre: true, hooked: true})
	fmt.Printf("done before the call: %d dispatched, result %s/%s\n", o.Since, o.Result, o.ErrID)
	for _, w := range []string{"system", "piperead", "pipeclose"} {
		o := run(runOpts{src: Shape{Kinds: []string{"begin", "func"}, Waiting: w, Printed: 2}.Source(false), vars: []string{"K", "-1", "pad", "0"}, why: "cancel", outside: true})
		fmt.Printf("blocked in %s: returned %v after the cancellation, %d vtick() calls afterwards, result %s/%s\n", w, o.Latency, o.Ticks, o.Result, o.ErrID)
	}
	return 0
}
