package c15

import (
	"fmt"
	"strings"
)

// Shape is what a scenario of spec/Cancel.tla says about the program at the
// moment the context becomes done: the nesting of execution contexts
// (outermost first) and whether the innermost one is blocked in a child.
type Shape struct {
	Kinds   []string // "begin" | "pattern" | "action" | "end", then "func" | "forin" ...
	Waiting string   // "none" | "system" | "piperead" | "pipeclose"
	Printed int      // lines printed before the cancellation point
	// Dest is where they are printed: "" / "direct" / "buffered" = standard
	// output (print), "file" = print > OUTF, "cmd" = print | CMD (OUTF and CMD
	// are variables given through Config.Vars).
	Dest string
	// Outcome (finite programs that wait for a child): how the child ends --
	// "" = by itself, what system() / close() return is not looked at;
	// "zero", "status" (exit 3), "signal" (kill -9), "fail" (the wait itself
	// fails: a background descendant keeps the inherited output open past
	// os/exec's WaitDelay).  The value returned is printed.
	Outcome string
}

// holdOpen is how long the background descendant of an Outcome "fail" command
// keeps the inherited output open, in seconds.  execShell's WaitDelay is
// 250 ms: the margin is a factor of 20 (nothing here depends on tight timing;
// if the wait does not fail after all, the case is skipped, not judged).
const holdOpen = 5

// redir is the redirection of the program's print statements.
func (s Shape) redir() string {
	switch s.Dest {
	case "file":
		return " > OUTF"
	case "cmd":
		return " | CMD"
	}
	return ""
}

// Canon maps a model shape to one AWK can express and the harness can run
// deterministically:
//   - a for-in cannot stand directly in a pattern: a function is put between;
//   - programs that wait for a child and read records are built around BEGIN
//     or END, because a child inherits Config.Stdin and would compete with the
//     record loop for it.
func (s Shape) Canon(finite bool) Shape {
	k := append([]string{}, s.Kinds...)
	if len(k) == 0 {
		k = []string{"begin"}
	}
	// In the cancel family an action that waits loops for ever on its first record, so what the child
	// takes from stdin does not matter; a pattern cannot hold a loop.
	if s.Waiting != "none" && (k[0] == "pattern" || (finite && k[0] == "action")) {
		k[0] = "begin"
	}
	if k[0] == "pattern" && len(k) > 1 && k[1] == "forin" {
		k = append([]string{"pattern", "func"}, k[1:]...)
	}
	return Shape{k, s.Waiting, s.Printed, s.Dest, s.Outcome}
}

func (s Shape) Innermost() string { return s.Kinds[len(s.Kinds)-1] }

const (
	forinKeys  = 5000             // keys of the array for-in loops range over
	numRecords = 300000           // records of the main loop (tiny actions)
	childCmd   = "exec sleep 300" // exec: the shell becomes the sleeper, so that killing the child leaves no orphan
)

// Records is the input of programs whose outermost context is the record loop.
var Records = strings.Repeat("r\n", numRecords)

// Source renders the shape as an AWK program.
//
// Cancel family (finite == false): the innermost context calls vcancel() at
// its K-th execution (K is the variable `K`, given through Config.Vars) after
// printing `Printed` lines, and everything keeps running afterwards: the
// outermost BEGIN/END block loops for ever, the record loop has 300000
// records, inner functions and for-in bodies are short and entered again and
// again.  With Waiting != "none" the innermost context, at its first
// execution, prints, calls vmark() and blocks in a child ("sleep 300"); every
// later execution calls vtick().  When the lines go to a command, vwait() is
// called after the first one: it returns when the command is up (the context
// kills the shell it starts; the reader must have been forked by then).
//
// No-cancel family (finite == true): the same nesting with bounded loops and
// children that end by themselves; it runs to completion and prints what it
// computed.
func (s Shape) Source(finite bool) string {
	var sb strings.Builder
	hasForin := false
	for _, k := range s.Kinds {
		if k == "forin" {
			hasForin = true
		}
	}
	keys := forinKeys
	if finite {
		// nested for-in loops multiply: keep the finite program at a few thousand innermost executions
		nf := 0
		for _, k := range s.Kinds {
			if k == "forin" {
				nf++
			}
		}
		keys = []int{60, 60, 12, 6, 4, 3, 3}[minInt(nf, 6)]
	}
	// innermost work
	var w string
	switch {
	case s.Waiting == "none" && !finite && s.Dest == "cmd":
		// (these programs run without the instruction hook, several at a time: vtick() counts the iterations after the
		// cancellation instead, and stops a run that does not stop)
		w = fmt.Sprintf(`n++; if (n <= %d) { print "L" n%s; if (n == 1) vwait() } if (n == K) vcancel(); vtick()`, s.Printed, s.redir())
	case s.Waiting == "none" && !finite:
		w = fmt.Sprintf(`n++; if (n <= %d) print "L" n%s; if (n == K) vcancel()`, s.Printed, s.redir())
	case s.Waiting == "none" && finite:
		w = fmt.Sprintf(`n++; if (n <= %d) print "L" n%s; s += n %% 7`, s.Printed, s.redir())
	default:
		var wait string
		cmd := childCmd
		switch s.Waiting {
		case "system":
			if finite {
				cmd = map[string]string{"": "exit 3", "zero": "exit 0", "status": "exit 3", "signal": "kill -9 $$",
					"fail": fmt.Sprintf("sleep %d &", holdOpen)}[s.Outcome]
			}
			wait = fmt.Sprintf(`rc = system("%s")`, cmd)
		case "piperead":
			if finite {
				cmd = "echo hi"
			}
			wait = fmt.Sprintf(`rc = ("%s" | getline x)`, cmd)
		case "pipeclose":
			if finite {
				cmd = map[string]string{"": "cat >/dev/null", "zero": "cat >/dev/null", "status": "cat >/dev/null; exit 3",
					"signal": "cat >/dev/null; kill -9 $$", "fail": fmt.Sprintf("cat >/dev/null; sleep %d &", holdOpen)}[s.Outcome]
			}
			wait = fmt.Sprintf(`print "x" | "%s"; rc = close("%s")`, cmd, cmd)
		case "pipewrite":
			// keeps writing to a child that does not read: blocks once bufio's and the kernel's buffers are full
			if finite {
				cmd = "cat >/dev/null"
			}
			wait = fmt.Sprintf(`print "%s" | "%s"`, strings.Repeat("0123456789", 10), cmd)
		}
		pr := fmt.Sprintf(`for (q = 1; q <= %d; q++) print "L" q%s; `, s.Printed, s.redir())
		if s.Dest == "cmd" && !finite && s.Printed > 0 {
			pr += "vwait(); "
		}
		// what system() / close() return is printed only when the scenario says how the child ends (Outcome):
		// otherwise it depends on the environment (a fork that fails under load), not on the context
		rcOut := ""
		if s.Outcome != "" {
			rcOut = `; print "rc", rc`
		}
		switch {
		case finite && s.Waiting == "pipewrite":
			w = fmt.Sprintf(`if (n++ == 0) { %s} %s; s += n %% 7`, pr, wait)
		case finite:
			w = fmt.Sprintf(`if (n++ == 0) { %s%s; print "x", x%s } else s += n %% 7`, pr, wait, rcOut)
		case s.Waiting == "pipewrite":
			w = fmt.Sprintf(`if (n++ == 0) { %svmark() } vtick(); %s`, pr, wait)
		default:
			w = fmt.Sprintf(`if (n++ == 0) { %svmark(); %s } else vtick()`, pr, wait)
		}
	}
	// nested contexts, innermost first
	body := w
	nfunc := 0
	var defs []string
	for j := len(s.Kinds) - 1; j >= 1; j-- {
		switch s.Kinds[j] {
		case "func":
			nfunc++
			name := fmt.Sprintf("f%d", nfunc)
			defs = append(defs, fmt.Sprintf("function %s() { %s }\n", name, body))
			body = name + "()"
		case "forin":
			body = fmt.Sprintf("for (k%d in A) { %s }", j, body)
		}
	}
	for _, d := range defs {
		sb.WriteString(d)
	}
	// prelude: padding loop (moves the poll counter), array for for-in
	sb.WriteString("BEGIN { for (i = 0; i < pad; i++) ; ")
	if hasForin {
		fmt.Fprintf(&sb, "for (i = 0; i < %d; i++) A[i] = 1; ", keys)
	}
	outer := s.Kinds[0]
	loopOpen, loopClose := "while (1) { ", " }"
	if finite {
		loopOpen, loopClose = "for (r = 0; r < 40; r++) { ", " }"
	}
	switch outer {
	case "begin":
		sb.WriteString(loopOpen + body + loopClose + " }\n")
	case "end":
		sb.WriteString("}\nEND { " + loopOpen + body + loopClose + " }\n")
	case "action":
		if s.Waiting != "none" && !finite {
			sb.WriteString("}\n{ " + loopOpen + body + loopClose + " }\n")
		} else {
			sb.WriteString("}\n{ " + body + " }\n")
		}
	case "pattern":
		if len(s.Kinds) == 1 {
			// a pattern-only rule: the work must be an expression; lines are printed in BEGIN
			fmt.Fprintf(&sb, `for (q = 1; q <= %d; q++) print "L" q%s; `, s.Printed, s.redir())
			if s.Dest == "cmd" && !finite && s.Printed > 0 {
				sb.WriteString("vwait() ")
			}
			sb.WriteString("}\n")
			if finite {
				sb.WriteString("(++n % 7 == 9) || (s += n % 7) < 0\n")
			} else {
				if s.Dest == "cmd" {
					sb.WriteString("(++n == K ? vcancel() : vtick()) < 0\n")
				} else {
					sb.WriteString("(++n == K ? vcancel() : 0) < 0\n")
				}
			}
		} else {
			sb.WriteString("}\n" + body + " < 0\n")
		}
	}
	if finite {
		sb.WriteString("END { print \"n\", n, \"s\", s }\n")
	}
	return sb.String()
}

func minInt(a, b int) int {
	if a < b {
		return a
	}
	return b
}

// UsesRecords says whether the program reads the long record input.
func (s Shape) UsesRecords() bool { return s.Kinds[0] == "action" || s.Kinds[0] == "pattern" }

// Input is the standard input of the cancel-family program of this shape.
func (s Shape) Input() string {
	switch {
	case !s.UsesRecords():
		return ""
	case s.Waiting != "none":
		return "r\n" // the action loops for ever on this record
	}
	return Records
}

// Ordinary is a family of everyday programs for the never-cancelled direction.
var Ordinary = []struct{ Src, In string }{
	{`{ print $2, $1 }`, "a b\nc d\n"},
	{`BEGIN { for (i = 0; i < 3000; i++) s += i; print s }`, ""},
	{`{ n[$1]++ } END { for (k in n) t += n[k]; print t, length(n) }`, "a\nb\na\nc\n"},
	{`function f(n) { return n <= 1 ? 1 : n * f(n - 1) } BEGIN { print f(10); exit 4 }`, ""},
	{`BEGIN { while ((getline line) > 0) c++; print c, NR }`, "1\n2\n3\n"},
	{`/b/ { print NR ": " $0; next } { print "no" } END { print NR }`, "abc\nxyz\nb\n"},
	{`BEGIN { printf "%5.2f|%-4s|%03d\n", 3.14159, "ab", 7 }`, ""},
	{`{ $3 = "x"; print; print NF }`, "a b\n"},
	{`BEGIN { x = 1 / zero }`, ""},
	{`function g(a, i) { a[i] = i; if (i < 400) g(a, i + 1) } BEGIN { g(arr, 0); print length(arr) }`, ""},
	{`BEGIN { s = "hello world"; gsub(/o/, "0", s); print s, substr(s, 2, 3), index(s, "w"), toupper(s) }`, ""},
	{`BEGIN { n = split("a:b:c", p, ":"); for (i = n; i > 0; i--) printf "%s ", p[i]; print "" }`, ""},
	{`NR == 2 { exit 7 } { print } END { print "end" }`, "l1\nl2\nl3\n"},
	{`BEGIN { FS = "," } { s += $2 } END { print s, NR, NF }`, "a,1\nb,2\nc,3.5\n"},
	{`{ for (i = NF; i > 0; i--) for (j = 0; j < 200; j++) c++ } END { print c }`, "a b c\nd e f g\n"},
	{`BEGIN { "echo piped" | getline v; close("echo piped"); print v; r = system("exit 2"); print r }`, ""},
	{`BEGIN { print "to-cat" | "cat >/dev/null"; r = close("cat >/dev/null"); print r }`, ""},
	{`BEGIN { print length(), NF, NR, FILENAME; print substr("abc", 0), -0, 1e3, 0.1 + 0.2 }`, ""},
	{`BEGIN { OFS = "-"; $0 = "a b c"; $1 = $1; print; print $(NF) }`, ""},
	{`BEGIN { getline; print "got", $0; getline x; print "x", x, NR }`, "first\nsecond\n"},
	{`{ a[NR] = $0 } END { for (i = NR; i >= 1; i--) print a[i]; delete a; print length(a) }`, "1\n2\n3\n"},
	{`BEGIN { $(-1) = "x" }`, ""},
	{`BEGIN { printf "%d %s\n" }`, ""},
	{`BEGIN { while (i++ < 2500) { if (i % 2) continue; if (i > 2400) break; s += i } print s, i }`, ""},
}
