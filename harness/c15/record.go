package c15

import (
	"bufio"
	"context"
	"encoding/json"
	"fmt"
	"math/rand"
	"os"
)

// Record runs n random cancellation scenarios on the real interpreter --
// deeper nestings than the exhaustive model holds (up to 6 contexts), the
// context made done at a random call (random position of the poll counter),
// random amounts of pending output (0-5 lines, or more than a buffer-full) at
// a random destination (unbuffered / bufio.Writer standard output, a file, a
// command), cancel / deadline / done-before-the-call / never -- and writes
// what the instruction hook observed, compressed to
//
//	{"ev":"reset"}
//	{"ev":"step","op":"start","ctx":true,"pre":bool}
//	{"ev":"step","op":"print","n":k,"dest":d}   lines printed before the cancellation, and where to: direct / buffered
//	                                            standard output, file (print > f), cmd (print | command)
//	{"ev":"step","op":"exec","n":N}             N instructions dispatched
//	{"ev":"step","op":"cancel","why":w}
//	{"ev":"step","op":"exec","n":M}             dispatched after the context was done
//	{"ev":"step","op":"end","result":r,"errid":e,"delivered":{"direct":k,"buffered":k,"file":k,"cmd":k},"same":bool}
//	                                            delivered: lines that had reached each destination when the call returned
//
// for Trace_Cancel.tla.  "same" (never-cancelled runs) says whether Execute
// on a new interpreter gave the same output, status and error class.
func Record(seed int64, n int, out string) (int, error) {
	r := rand.New(rand.NewSource(seed))
	f, err := os.Create(out)
	if err != nil {
		return 0, err
	}
	defer f.Close()
	bw := bufio.NewWriter(f)
	defer bw.Flush()
	emit := func(v any) {
		b, _ := json.Marshal(v)
		bw.Write(b)
		bw.WriteByte('\n')
	}
	outer := []string{"begin", "action", "pattern", "end"}
	destMenu := []string{"direct", "buffered", "file", "direct", "buffered", "file", "file", "buffered", "direct", "cmd"}
	if !haveShell() {
		destMenu = destMenu[:9]
	}
	deliveredAt := func(dest string, k int) map[string]int {
		m := map[string]int{"direct": 0, "buffered": 0, "file": 0, "cmd": 0}
		m[dest] = k
		return m
	}
	for t := 0; t < n; t++ {
		kinds := []string{outer[r.Intn(len(outer))]}
		for d := r.Intn(6); d > 0; d-- {
			kinds = append(kinds, []string{"func", "forin"}[r.Intn(2)])
		}
		dest := destMenu[r.Intn(len(destMenu))]
		printed := r.Intn(6)
		if dest != "direct" && r.Intn(6) == 0 {
			printed = bigLines // more than a buffer-full: part written out by the buffer filling up, the tail pending
		}
		shape := Shape{Kinds: kinds, Waiting: "none", Printed: printed, Dest: dest}.Canon(false)
		emit(map[string]any{"ev": "reset"})
		mode := r.Intn(10)
		switch {
		case mode == 0: // never cancelled
			if shape.Printed > 6 {
				shape.Printed = 5 // (the finite programs execute their innermost context a few thousand times only)
			}
			src := shape.Source(true)
			input := ""
			if shape.UsesRecords() {
				input = Records[:100]
			}
			oc := compareWithExecute(src, input, []string{"K", "-1", "pad", fmt.Sprint(r.Intn(50))}, "x", shape.Printed, dest, "")
			if oc.Skipped || (oc.Fail != nil && oc.Fail.Sig == "C15-MODEL/nocancel/lines") {
				return t, fmt.Errorf("driver program unusable: %s %v\n%s", oc.Note, oc.Fail, src)
			}
			emit(map[string]any{"ev": "step", "op": "start", "ctx": true, "pre": false})
			emit(map[string]any{"ev": "step", "op": "print", "n": shape.Printed, "dest": dest})
			emit(map[string]any{"ev": "step", "op": "end", "result": "ok", "errid": "none", "delivered": deliveredAt(dest, shape.Printed), "same": oc.Fail == nil})
		case mode == 1: // a real deadline on a program that never ends
			shape.Dest, dest = "direct", "direct"
			if shape.Printed > 6 {
				shape.Printed = 5
			}
			src := shape.Source(false)
			input := ""
			if shape.UsesRecords() {
				input = Records
			}
			o := runRealDeadline(src, input)
			if o.Result == "parse-error" {
				return t, fmt.Errorf("driver program rejected: %s\n%s", o.ErrText, src)
			}
			// how much was printed when the timer fired is not known: delivery is not judged here
			emit(map[string]any{"ev": "step", "op": "start", "ctx": true, "pre": false})
			emit(map[string]any{"ev": "step", "op": "exec", "n": o.NAtCancel})
			emit(map[string]any{"ev": "step", "op": "cancel", "why": "deadline"})
			emit(map[string]any{"ev": "step", "op": "exec", "n": o.Since})
			emit(map[string]any{"ev": "step", "op": "end", "result": o.Result, "errid": o.ErrID, "delivered": deliveredAt(dest, linesDelivered(o.Out, shape.Printed)), "same": true})
		default:
			src := shape.Source(false)
			input := ""
			if shape.UsesRecords() {
				input = Records
			}
			why := []string{"cancel", "deadline"}[r.Intn(2)]
			pre := mode == 2
			k := shape.Printed + 1 + r.Intn(300)
			pad := r.Intn(1000)
			bufFile := r.Intn(2) == 0
			var o Obs
			got := 0
			// (a command destination depends on the machine -- os/exec closes the pipe to a command 250 ms after its
			// context is done --: a run that lost lines there is repeated, up to three in all, and the last one recorded)
			for try := 0; try < 3; try++ {
				files := newRunFiles()
				vars := append([]string{"K", fmt.Sprint(k), "pad", fmt.Sprint(pad)}, files.vars(true)...)
				// Config.Output is a bufio.Writer when the lines go to buffered standard output (and sometimes when they go to a file)
				o = run(runOpts{src: src, input: input, vars: vars, why: why, pre: pre, hooked: true,
					buffered: dest == "buffered" || (dest == "file" && bufFile), files: files})
				got = 0
				switch {
				case pre:
				case dest == "file":
					got = linesDelivered(readFile(files.outf), shape.Printed)
				case dest == "cmd":
					_, got = drained(files.cmdf, shape.Printed)
				default:
					got = linesDelivered(o.Out, shape.Printed)
				}
				files.remove()
				if dest != "cmd" || pre || got >= shape.Printed {
					break
				}
			}
			if o.Result == "parse-error" {
				return t, fmt.Errorf("driver program rejected: %s\n%s", o.ErrText, src)
			}
			if o.NoMarker {
				return t, fmt.Errorf("the command of a driver program did not come up within 30 s\n%s", src)
			}
			res := o.Result
			if res == "aborted" {
				res = "running" // the hook gave up: the interpreter was still executing
			}
			emit(map[string]any{"ev": "step", "op": "start", "ctx": true, "pre": pre})
			if pre {
				emit(map[string]any{"ev": "step", "op": "cancel", "why": why})
				emit(map[string]any{"ev": "step", "op": "exec", "n": o.Since})
				emit(map[string]any{"ev": "step", "op": "end", "result": res, "errid": o.ErrID, "delivered": deliveredAt(dest, 0), "same": true})
			} else {
				emit(map[string]any{"ev": "step", "op": "print", "n": shape.Printed, "dest": dest})
				emit(map[string]any{"ev": "step", "op": "exec", "n": o.NAtCancel})
				emit(map[string]any{"ev": "step", "op": "cancel", "why": why})
				emit(map[string]any{"ev": "step", "op": "exec", "n": o.Since})
				emit(map[string]any{"ev": "step", "op": "end", "result": res, "errid": o.ErrID, "delivered": deliveredAt(dest, got), "same": true})
			}
		}
	}
	return n, nil
}

// runRealDeadline runs src under context.WithTimeout; the hook notices the
// moment the context reports an error and counts the dispatches from there.
func runRealDeadline(src, input string) Obs {
	ctx, cancel := context.WithTimeout(context.Background(), 3_000_000) // 3 ms
	defer cancel()
	return runWithCtx(src, input, ctx)
}
