// Package c18 binds spec/Cover.tla to the goawk command line tool: every
// exported program is written to 1-3 source files and run without coverage,
// with -covermode count and with -covermode set; output and exit status must
// be the same in all runs and equal the reference semantics (transparency), and
// the written profile must report exactly the blocks of the specification with
// the counts of the specification's ghost counters.
package c18

import (
	"bufio"
	"bytes"
	"encoding/json"
	"fmt"
	"hash/fnv"
	"os"
	"os/exec"
	"path/filepath"
	"regexp"
	"strconv"
	"strings"
	"time"

	"github.com/benhoyt/goawk/verifharness/awkast"
	"github.com/benhoyt/goawk/verifharness/hx"
)

type blockT struct {
	First string `json:"first"`
	N     int    `json:"n"`
	Count int    `json:"count"`
}

type expT struct {
	Out    hx.BS `json:"out"`
	Status int   `json:"status"`
	Err    bool  `json:"err"`
}

type caseT struct {
	Fam     string          `json:"fam"`
	Mech    string          `json:"mech"`
	Prog    json.RawMessage `json:"prog"`
	Input   json.RawMessage `json:"input"`
	Expect  expT            `json:"expect"`
	Profile []blockT        `json:"profile"`
	Total   int             `json:"total"`
	// FileHist: histories of runs writing to one profile path (true = -coverappend), each started from no file and
	// from a longer stale file; the prediction is Cover!ProfileFileAfter with this run's block lines as body.
	FileHist [][]bool `json:"filehist"`
}

var goawkBin = os.Getenv("VERIF_GOAWK")

type runOut struct {
	stdout []byte
	stderr []byte
	status int
	hang   bool
}

func runCLI(dir string, args []string, stdin []byte) runOut {
	cmd := exec.Command(goawkBin, args...)
	cmd.Dir = dir
	cmd.Stdin = bytes.NewReader(stdin)
	var o, e bytes.Buffer
	cmd.Stdout, cmd.Stderr = &o, &e
	done := make(chan error, 1)
	if err := cmd.Start(); err != nil {
		return runOut{status: -1, stderr: []byte(err.Error())}
	}
	go func() { done <- cmd.Wait() }()
	select {
	case <-done:
	case <-time.After(30 * time.Second):
		cmd.Process.Kill()
		<-done
		return runOut{hang: true}
	}
	return runOut{stdout: o.Bytes(), stderr: e.Bytes(), status: cmd.ProcessState.ExitCode()}
}

var markRe = regexp.MustCompile(`#@(s[0-9]+)`)
var profRe = regexp.MustCompile(`^(.*):([0-9]+)\.([0-9]+),([0-9]+)\.([0-9]+) ([0-9]+) ([0-9]+)$`)

type srcFile struct {
	name  string
	text  string
	lines []string
}

// layout distributes the top-level items over 1-3 files, some without a final
// newline, deterministically from the case content.
func layout(items []string, seed uint32, k int, roundRobin bool) []srcFile {
	if k > len(items) {
		k = len(items)
	}
	if k < 1 {
		k = 1
	}
	files := make([]srcFile, k)
	for i := range files {
		files[i].name = fmt.Sprintf("p%d.awk", i+1)
	}
	// two ways of distributing the items: contiguous chunks, or round-robin (so that one file holds
	// items of an early and of a late section with another file's items in between)
	for i, it := range items {
		f := i * k / len(items)
		if roundRobin {
			f = i % k
		}
		files[f].text += it
	}
	for i := range files {
		if (seed>>uint(2+i))&1 == 1 {
			files[i].text = strings.TrimSuffix(files[i].text, "\n")
		}
		files[i].lines = strings.Split(strings.TrimSuffix(files[i].text, "\n"), "\n")
	}
	return files
}

func sigClass(mech string) string {
	if i := strings.Index(mech, "/"); i >= 0 {
		j := strings.Index(mech[i+1:], "/")
		if j >= 0 {
			return mech[:i+1+j]
		}
	}
	return mech
}

// Replay is the hx.Replayer for Gen_Cover exports.
func Replay(raw json.RawMessage) hx.Outcome {
	if goawkBin == "" {
		return hx.Outcome{Fail: &hx.Failure{Sig: "HARNESS-PANIC", What: "VERIF_GOAWK not set"}}
	}
	var c caseT
	if err := json.Unmarshal(raw, &c); err != nil {
		return hx.Outcome{Skipped: true, Note: "bad case: " + err.Error()}
	}
	node, err := awkast.Decode(c.Prog)
	if err != nil {
		return hx.Outcome{Skipped: true, Note: err.Error()}
	}
	var items []string
	func() {
		defer func() {
			if r := recover(); r != nil {
				err = fmt.Errorf("render: %v", r)
			}
		}()
		items = awkast.ProgramItems(node)
	}()
	if err != nil {
		return hx.Outcome{Fail: &hx.Failure{Sig: "HARNESS-PANIC", What: err.Error()}}
	}
	h := fnv.New32a()
	h.Write(raw)
	seed := h.Sum32()
	type lay struct {
		k  int
		rr bool
	}
	lays := []lay{{1 + int(seed%3), (seed>>8)&1 == 1}}
	if c.Fam == "covershape" || len(items) >= 4 {
		// shapes made for coverage, and programs with many top-level items: every way of spreading them over files
		lays = []lay{{1, false}, {2, true}, {3, true}, {2, false}}
	}
	var inAny any
	json.Unmarshal(c.Input, &inAny)
	stdin := awkast.Input(inAny)
	for _, l := range lays {
		if o := runLayout(&c, items, seed, l.k, l.rr, stdin); o != nil {
			return *o
		}
	}
	return hx.OK(len(c.Profile) > 1)
}

// runLayout writes the program to files in one layout and performs the three runs; nil = agrees.
func runLayout(c *caseT, items []string, seed uint32, k int, rr bool, stdin []byte) *hx.Outcome {
	ret := func(o hx.Outcome) *hx.Outcome { return &o }
	files := layout(items, seed, k, rr)
	dir, err := os.MkdirTemp("", "c18-")
	if err != nil {
		return ret(hx.Outcome{Fail: &hx.Failure{Sig: "HARNESS-PANIC", What: err.Error()}})
	}
	defer os.RemoveAll(dir)
	fargs := []string{}
	show := ""
	labelAt := map[string]string{} // "file:line" -> label
	for _, f := range files {
		if err := os.WriteFile(filepath.Join(dir, f.name), []byte(f.text), 0o644); err != nil {
			return ret(hx.Outcome{Fail: &hx.Failure{Sig: "HARNESS-PANIC", What: err.Error()}})
		}
		fargs = append(fargs, "-f", f.name)
		show += "--- " + f.name + "\n" + f.text + "\n"
		for i, ln := range f.lines {
			if m := markRe.FindStringSubmatch(ln); m != nil {
				labelAt[fmt.Sprintf("%s:%d", f.name, i+1)] = m[1]
			}
		}
	}
	cls := sigClass(c.Mech)

	plain := runCLI(dir, fargs, stdin)
	if plain.hang {
		return ret(hx.Fail("C18/hang/"+cls, "run without coverage does not terminate", nil, nil, show))
	}
	if bytes.Contains(plain.stderr, []byte("panic:")) || bytes.Contains(plain.stderr, []byte("goroutine ")) {
		return ret(hx.Fail("C18/cli-panic/"+cls, "goawk panicked", nil, string(plain.stderr), show))
	}
	// the plain run must itself agree with the reference semantics (else this is C01's business: skip)
	plainErr := plain.status != 0 && len(plain.stderr) > 0 && c.Expect.Err
	if !bytes.Equal(plain.stdout, c.Expect.Out.Bytes()) || (c.Expect.Err != plainErr && c.Expect.Err) || (!c.Expect.Err && plain.status != c.Expect.Status) {
		return ret(hx.Outcome{Skipped: true, Note: "run without coverage differs from the reference semantics (C01's concern): " + show})
	}
	for _, mode := range []string{"count", "set"} {
		prof := "prof." + mode
		// the two flags in either order and either spelling (the arrangement is a function of the case, so that
		// every arrangement occurs and a case always gets the same one)
		var flags []string
		switch (len(show) + len(mode)) % 4 {
		case 0:
			flags = []string{"-coverprofile", prof, "-covermode", mode}
		case 1:
			flags = []string{"-covermode", mode, "-coverprofile", prof}
		case 2:
			flags = []string{"-covermode=" + mode, "-coverprofile=" + prof}
		default:
			flags = []string{"-coverprofile=" + prof, "-covermode=" + mode}
		}
		args := append(append([]string{}, fargs...), flags...)
		cov := runCLI(dir, args, stdin)
		if cov.hang {
			return ret(hx.Fail("C18/hang/"+cls, "run with coverage does not terminate", nil, nil, show))
		}
		if bytes.Contains(cov.stderr, []byte("panic:")) {
			return ret(hx.Fail("C18/cli-panic/"+cls, "goawk panicked with coverage on", nil, string(cov.stderr), show))
		}
		if !bytes.Equal(cov.stdout, plain.stdout) {
			return ret(hx.Fail("C18/transparency-stdout/"+cls, "["+mode+"] output differs when coverage is enabled",
				string(plain.stdout), string(cov.stdout), show))
		}
		if cov.status != plain.status {
			return ret(hx.Fail("C18/transparency-status/"+cls, fmt.Sprintf("[%s] exit status %d with coverage, %d without", mode, cov.status, plain.status),
				plain.status, cov.status, show))
		}
		if c.Expect.Err {
			continue // the profile of a run that ends with an error is not specified
		}
		data, err := os.ReadFile(filepath.Join(dir, prof))
		if err != nil {
			return ret(hx.Fail("C18/profile-missing/"+cls, "["+mode+"] no profile written", nil, err.Error(), show))
		}
		if o := checkProfile(c, mode, string(data), files, dir, labelAt, cls, show); o != nil {
			return o
		}
		// the histories on one profile path: for the shapes made for coverage and a quarter of the other programs,
		// in the single-file layout
		if mode == "count" && k == 1 && (c.Fam == "covershape" || seed%4 == 0) {
			if o := checkFileHistories(c, dir, fargs, stdin, string(data), cls, show); o != nil {
				return o
			}
		}
	}
	return nil
}

// checkFileHistories replays the exported histories of runs on one profile path.  fresh is the profile a single
// run writes to a new file (header line + block lines); the model (Cover!WriteProfileFile): without -coverappend
// the file becomes exactly that, whatever it held; with it (and the file present) the block lines are added.
func checkFileHistories(c *caseT, dir string, fargs []string, stdin []byte, fresh, cls, show string) *hx.Outcome {
	lines := strings.SplitAfter(fresh, "\n")
	if len(lines) < 2 {
		return nil
	}
	header, body := lines[0], strings.Join(lines[1:], "")
	for hi, hist := range c.FileHist {
		for _, stale := range []bool{false, true} {
			path := fmt.Sprintf("prof.hist%d.%v", hi, stale)
			full := filepath.Join(dir, path)
			model, exists := "", false
			if stale {
				// a longer profile left by an earlier, bigger program
				model, exists = header+body+body+"/stale/prog.awk:1.1,9.9 4 2\n/stale/prog.awk:10.1,19.9 3 1\n", true
				if err := os.WriteFile(full, []byte(model), 0o644); err != nil {
					o := hx.Outcome{Fail: &hx.Failure{Sig: "HARNESS-PANIC", What: err.Error()}}
					return &o
				}
			}
			for ri, app := range hist {
				args := append(append([]string{}, fargs...), "-coverprofile", path, "-covermode", "count")
				if app {
					args = append(args, "-coverappend")
				}
				r := runCLI(dir, args, stdin)
				if r.hang {
					o := hx.Fail("C18/hang/"+cls, "run with coverage does not terminate", nil, nil, show)
					return &o
				}
				if exists && app {
					model += body
				} else {
					model = header + body
				}
				exists = true
				got, err := os.ReadFile(full)
				if err != nil || string(got) != model {
					what := "profile-file-overwrite"
					if app {
						what = "profile-file-append"
					}
					from := "no file"
					if stale {
						from = "a longer stale profile"
					}
					o := hx.Fail("C18/"+what+"/"+cls, fmt.Sprintf("run %d of the history %v on one profile path (true = -coverappend), started from %s: the file is not what the model of the profile file predicts",
						ri+1, hist, from), model, string(got), show)
					return &o
				}
			}
		}
	}
	return nil
}

func checkProfile(c *caseT, mode, data string, files []srcFile, dir string, labelAt map[string]string, cls, show string) *hx.Outcome {
	fail := func(what, msg string, exp, obs any) *hx.Outcome {
		o := hx.Fail("C18/"+what+"/"+cls, "["+mode+"] "+msg, exp, obs, show+"--- profile\n"+data)
		return &o
	}
	sc := bufio.NewScanner(strings.NewReader(data))
	if !sc.Scan() || sc.Text() != "mode: "+mode {
		return fail("profile-header", "first line is not 'mode: "+mode+"'", "mode: "+mode, data)
	}
	want := map[string]blockT{}
	for _, b := range c.Profile {
		want[b.First] = b
	}
	seen := map[string]bool{}
	sum := 0
	realDir, _ := filepath.EvalSymlinks(dir)
	for sc.Scan() {
		m := profRe.FindStringSubmatch(sc.Text())
		if m == nil {
			return fail("profile-syntax", "unparsable profile line", nil, sc.Text())
		}
		path := m[1]
		sl, _ := strconv.Atoi(m[2])
		scol, _ := strconv.Atoi(m[3])
		el, _ := strconv.Atoi(m[4])
		ecol, _ := strconv.Atoi(m[5])
		n, _ := strconv.Atoi(m[6])
		cnt, _ := strconv.Atoi(m[7])
		var f *srcFile
		for i := range files {
			if path == filepath.Join(dir, files[i].name) || path == filepath.Join(realDir, files[i].name) {
				f = &files[i]
			}
		}
		if f == nil {
			return fail("position", "block names a path that is none of the source files", nil, sc.Text())
		}
		if sl < 1 || el > len(f.lines) || sl > el || (sl == el && scol >= ecol) || scol < 1 || ecol < 1 ||
			scol > len(f.lines[sl-1])+1 || ecol > len(f.lines[el-1])+1 {
			return fail("position", "block does not lie inside its file with start before end", fmt.Sprintf("%d lines", len(f.lines)), sc.Text())
		}
		lbl, ok := labelAt[fmt.Sprintf("%s:%d", f.name, sl)]
		if !ok {
			return fail("position", "block does not start on a line where a statement starts", nil, sc.Text())
		}
		w, ok := want[lbl]
		if !ok {
			return fail("block-extra", "reported block starts at statement "+lbl+", which does not start a block", c.Profile, sc.Text())
		}
		if seen[lbl] {
			return fail("block-duplicate", "block "+lbl+" reported twice", nil, sc.Text())
		}
		seen[lbl] = true
		sum += n
		if n != w.N {
			return fail("numstmts", fmt.Sprintf("block %s has %d statements, reported %d", lbl, w.N, n), w, sc.Text())
		}
		if mode == "count" && cnt != w.Count {
			return fail("count", fmt.Sprintf("block %s: first statement began %d times, reported count %d", lbl, w.Count, cnt), w, sc.Text())
		}
		if mode == "set" && ((cnt != 0 && cnt != 1) || (cnt == 1) != (w.Count > 0)) {
			return fail("set", fmt.Sprintf("block %s: began %d times, set-mode value %d", lbl, w.Count, cnt), w, sc.Text())
		}
	}
	for lbl := range want {
		if !seen[lbl] {
			return fail("block-missing", "no block reported for the statements starting at "+lbl, want[lbl], nil)
		}
	}
	if sum != c.Total {
		return fail("numstmts", fmt.Sprintf("blocks cover %d statements, the program has %d", sum, c.Total), c.Total, sum)
	}
	return nil
}
