// Package c13 adds to the IOStreams binding of package c12 the write-level
// schedules of spec/StdoutShare.tla: programs in which a child process and the
// interpreter (or two children) can write to the shared standard output at
// the same time are run with a gate writer as Config.Output.  The gate parks
// the first writer inside Write until a second goroutine enters Write as well
// (the lost-update schedule TLC exhibits for the unserialised variant) or a
// timeout shows that nobody else can get in.
//
// Everything else of C13 is replayed by package c12 (one engine for both
// properties): the delivery histories (incl. the command that never reads its
// input, whose close() must still report its exit status, and the system()
// child that shows a file the program is writing), and the failure family
// (a failure at every byte offset of standard output, in default, CSV and
// TSV output mode, with a plain writer and *bufio.Writers of 3, 16 and 4096
// bytes as Config.Output, plus the never-failing control), and the newline
// family (Config.NewlineOutput raw / crlf / smart x payloads with newlines in
// them, to standard output, files, commands and /dev/stderr: the bytes that
// arrive are compared with the model's CrlfOf / Out).
package c13

import (
	"encoding/json"
	"fmt"
	"strings"
	"sync"
	"time"

	"github.com/benhoyt/goawk/interp"
	"github.com/benhoyt/goawk/verifharness/c12"
	"github.com/benhoyt/goawk/verifharness/hx"
)

// Gate is an io.Writer that detects goroutines being inside Write at once.
type Gate struct {
	mu        sync.Mutex
	inside    int
	MaxInside int
	budget    int
	second    chan struct{}
	once      sync.Once
	wait      time.Duration
	Buf       []byte
	Writes    int
}

func NewGate(wait time.Duration) *Gate {
	return &Gate{budget: 1, second: make(chan struct{}), wait: wait}
}

func (g *Gate) Write(p []byte) (int, error) {
	g.mu.Lock()
	g.inside++
	g.Writes++
	if g.inside > g.MaxInside {
		g.MaxInside = g.inside
	}
	if g.inside >= 2 {
		g.once.Do(func() { close(g.second) })
	}
	park := g.budget > 0 && g.inside == 1
	if park {
		g.budget--
	}
	g.Buf = append(g.Buf, p...)
	g.mu.Unlock()
	if park {
		select {
		case <-g.second:
		case <-time.After(g.wait):
		}
	}
	g.mu.Lock()
	g.inside--
	g.mu.Unlock()
	return len(p), nil
}

type shareCase struct {
	Fam      string `json:"fam"`
	Scenario string `json:"scenario"`
	Pred     struct {
		MaxInside int `json:"maxInside"`
	} `json:"pred"`
}

var scenarios = map[string]struct {
	prog  string
	stdin string
}{
	// the child has been fed and echoes while the program keeps printing
	"pipe-and-print": {`BEGIN { print "k" | "cat"; fflush("cat"); for (i = 0; i < 2000; i++) print "p"; close("cat") }`, ""},
	// two children echo at the same time
	"two-pipes": {`BEGIN { print "k" | "cat"; print "m" | "sh -c 'cat; exit 3'"; fflush(); close("cat"); close("sh -c 'cat; exit 3'") }`, ""},
	// system(): the interpreter waits while the child writes
	"system-child": {`BEGIN { print "p"; system("cat"); print "p" }`, "k\n"},
	// control: nobody shares the output
	"no-child": {`BEGIN { print "p"; print "p" }`, ""},
}

// GateWait is how long the first writer is parked waiting for a second one.
var GateWait = 2500 * time.Millisecond

func replayShare(raw json.RawMessage) hx.Outcome {
	var c shareCase
	if err := json.Unmarshal(raw, &c); err != nil {
		return hx.Outcome{Skipped: true, Note: "bad case"}
	}
	sc, ok := scenarios[c.Scenario]
	if !ok {
		return hx.Outcome{Skipped: true, Note: "unknown scenario"}
	}
	g := NewGate(GateWait)
	res := hx.RunAwk(sc.prog, []byte(sc.stdin), &interp.Config{Output: g}, nil)
	if res.Panic != nil {
		return hx.Fail("C13/shared-stdout/panic/"+c.Scenario, fmt.Sprintf("panic: %v", res.Panic), nil, res.PanicStk, sc.prog)
	}
	if res.ParseErr != nil || res.Err != nil {
		return hx.Outcome{Skipped: true, Note: fmt.Sprint("scenario did not run: ", res.ParseErr, res.Err)}
	}
	g.mu.Lock()
	got := g.MaxInside
	g.mu.Unlock()
	if got != c.Pred.MaxInside {
		what := "concurrent-write"
		if got < c.Pred.MaxInside {
			what = "fewer-writers-than-predicted"
		}
		return hx.Fail("C13/shared-stdout/"+what+"/"+c.Scenario,
			fmt.Sprintf("%d goroutines were inside Config.Output.Write at the same time (%d writes in all); the specification allows %d",
				got, g.Writes, c.Pred.MaxInside), c.Pred.MaxInside, got, sc.prog)
	}
	return hx.OK(strings.Contains(sc.prog, "cat"))
}

// Replay handles the delivery / failure families (shared with C12) and the
// share scenarios.
func Replay(raw json.RawMessage) hx.Outcome {
	var head struct {
		Fam string `json:"fam"`
	}
	_ = json.Unmarshal(raw, &head)
	if head.Fam == "share" {
		return replayShare(raw)
	}
	if head.Fam == "race" {
		// a race-detector report is re-examined with the gate writer (same mechanism, no -race build needed)
		return replayShare(json.RawMessage(`{"fam":"share","scenario":"pipe-and-print","pred":{"maxInside":1}}`))
	}
	return c12.Replay(raw)
}
