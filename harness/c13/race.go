package c13

import (
	"bufio"
	"fmt"

	"github.com/benhoyt/goawk/interp"
	"github.com/benhoyt/goawk/verifharness/c12"
	"github.com/benhoyt/goawk/verifharness/hx"
)

// RaceMode (vreplay C13 race) is meant for a binary built with -race: it runs
// the pipe-and-print scenario with the most common non-concurrency-safe
// writer, a bufio.Writer, as Config.Output.  The race detector (a recording
// instrument, not a verdict of its own) reports on stderr if the interpreter
// and os/exec's copier touch the writer without synchronisation.
func RaceMode(args []string) int {
	for i := 0; i < 3; i++ {
		sink := &c12.LockedBuf{}
		bw := bufio.NewWriterSize(sink, 1<<16)
		res := hx.RunAwk(scenarios["pipe-and-print"].prog, nil, &interp.Config{Output: bw}, nil)
		if res.Err != nil || res.ParseErr != nil || res.Panic != nil {
			fmt.Println("RACE-RUN-FAILED", res.Err, res.ParseErr, res.Panic)
			return 2
		}
		bw.Flush()
		fmt.Printf("RACE-RUN-DONE %d bytes\n", len(sink.Bytes()))
	}
	return 0
}
