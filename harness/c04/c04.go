package c04

import (
	"encoding/json"
	"fmt"
	"sort"
	"strings"

	"github.com/benhoyt/goawk/parser"
	"github.com/benhoyt/goawk/verifharness/hx"
)

// Case is one behaviour exported by Gen_Grammar: an expression tree in a
// context, with both texts and the S-expression the table prescribes.
type Case struct {
	Fam      string   `json:"fam"`
	Ctx      string   `json:"ctx"`
	Min      []string `json:"min"`
	Full     []string `json:"full"`
	Sx       string   `json:"sx"`
	NOps     int      `json:"nops"`
	CondTail bool     `json:"condtail"`
	Deriv    []string `json:"deriv"`
}

// Text joins tokens with blanks; a function or array name is followed by
// its bracket without a blank.
func Text(toks []string) string {
	var sb strings.Builder
	for i, t := range toks {
		if i > 0 {
			prev := toks[i-1]
			glue := (t == "[" && (prev == "A" || prev == "B")) || (t == "(" && (prev == "length" || prev == "fg"))
			if !glue {
				sb.WriteByte(' ')
			}
		}
		sb.WriteString(t)
	}
	return sb.String()
}

// Compact is Text with every blank left out that the lexical rules do not need (Grammar.tla, "Spacing"): a blank stays
// between two tokens when the first ends and the second begins with a word character (letter, digit, _, ., quote), when
// a word is followed by ( or [ (a call or subscript would arise), when both are made of operator characters (they could
// fuse into another operator), and around regex literals (/ is also division).  The tree must not depend on spacing.
func Compact(toks []string) string {
	word := func(ch byte) bool {
		return ch == '_' || ch == '.' || ch == '"' || ch >= '0' && ch <= '9' || ch >= 'a' && ch <= 'z' || ch >= 'A' && ch <= 'Z'
	}
	opch := func(ch byte) bool { return strings.IndexByte("+-*/%^=<>!&|~?:,$", ch) >= 0 }
	var sb strings.Builder
	for i, t := range toks {
		if i > 0 {
			prev := toks[i-1]
			glue := (t == "[" && (prev == "A" || prev == "B")) || (t == "(" && (prev == "length" || prev == "fg"))
			if !glue {
				a, b := prev[len(prev)-1], t[0]
				need := isRegexTok(prev) || isRegexTok(t) || prev == "/" || t == "/" ||
					(word(a) && (word(b) || b == '(' || b == '[')) || (opch(a) && opch(b))
				if need {
					sb.WriteByte(' ')
				}
			}
		}
		sb.WriteString(t)
	}
	return sb.String()
}

// Program wraps the expression text in the minimal program of the context.
func Program(ctx, expr string) string {
	switch ctx {
	case "stmt":
		return "BEGIN { " + expr + " }"
	case "print", "printgt", "printpipe":
		return "BEGIN { print " + expr + " }"
	case "pat":
		return expr + " { }"
	case "cond":
		return "BEGIN { if (" + expr + ") zz }"
	}
	return ""
}

// ExpectProgram is the S-expression of that program when the expression
// denotes sx.
func ExpectProgram(ctx, sx string) string {
	switch ctx {
	case "stmt":
		return "(program (begin (expr " + sx + ")))"
	case "print", "printgt", "printpipe":
		return "(program (begin " + sx + "))"
	case "pat":
		return "(program (action (pattern " + sx + ") (body)))"
	case "cond":
		return "(program (begin (if " + sx + " (body (expr zz)) (else))))"
	}
	return ""
}

// ParseSexpr parses src with the real parser and prints the tree.
func ParseSexpr(src string, m Mode) (sx string, err error, panicked any) {
	defer func() {
		if r := recover(); r != nil {
			panicked = r
		}
	}()
	prog, err := parser.ParseProgram([]byte(src), nil)
	if err != nil {
		return "", err, nil
	}
	return ProgramSexpr(&prog.ResolvedProgram.Program, m), nil, nil
}

var leafProds = map[string]bool{"name": true, "num": true, "str": true, "re": true, "lname": true}

// MechanismName names the operators of the tree (at most three, sorted).
func MechanismName(deriv []string) string { return mechanism(deriv) }

func mechanism(deriv []string) string {
	seen := map[string]bool{}
	var ops []string
	for _, p := range deriv {
		if leafProds[p] {
			continue
		}
		switch p {
		case "lfield":
			p = "field"
		case "lidx":
			p = "idx"
		}
		if !seen[p] {
			seen[p] = true
			ops = append(ops, p)
		}
	}
	sort.Strings(ops)
	if len(ops) > 3 {
		ops = ops[:3]
	}
	if len(ops) == 0 {
		return "atom"
	}
	return strings.Join(ops, ",")
}

func isRegexTok(t string) bool { return len(t) >= 2 && t[0] == '/' && t[len(t)-1] == '/' }

// regexThenOperator: a regex literal directly after ~ or !~ is followed by
// an operator that binds tighter than ~ (or by a concatenated operand).
func regexThenOperator(ctx string, toks []string) bool {
	closers := map[string]bool{")": true, "]": true, ":": true, "?": true, "&&": true, "||": true, "in": true}
	for i := 0; i+2 < len(toks); i++ {
		if (toks[i] == "~" || toks[i] == "!~") && isRegexTok(toks[i+1]) && !closers[toks[i+2]] {
			if (ctx == "printgt" && toks[i+2] == ">" || ctx == "printpipe" && toks[i+2] == "|") && i+4 == len(toks) {
				continue // the redirection of the print context
			}
			return true
		}
	}
	return false
}

func classify(c *Case, which, what string, toks []string, observed string) string {
	if c.Ctx == "printgt" && c.CondTail && which == "min" && what == "tree" &&
		!strings.HasSuffix(observed, ` > "out")))`) && strings.Contains(observed, `"out"`) {
		return "C04/print-redirect/gt-taken-as-comparison/after-conditional"
	}
	if c.Ctx == "printpipe" && c.CondTail && which == "min" && what == "parse-error" {
		return "C04/print-redirect/pipe-taken-as-getline/after-conditional"
	}
	if what == "parse-error" && regexThenOperator(c.Ctx, toks) {
		return "C04/match-regex-operand/parse-error/regex-then-tighter-operator"
	}
	return "C04/" + mechanism(c.Deriv) + "/" + which + "-" + what + "/" + c.Ctx
}

// TraceCheck is a recorded expression that Trace_Grammar rejected: a
// candidate only.  For C04 it is a violation when the real parser, given the
// recorded tokens, does not build the tree the table prescribes.
type TraceCheck struct {
	Fam     string   `json:"fam"`
	Ctx     string   `json:"ctx"`
	Toks    []string `json:"toks"`
	Sx      string   `json:"sx"`
	Spec    string   `json:"spec"`
	Printed string   `json:"printed"`
	Rsx     string   `json:"rsx"`
	Src     string   `json:"src"`
}

func replayTraceCheck(raw json.RawMessage) hx.Outcome {
	var c TraceCheck
	if err := json.Unmarshal(raw, &c); err != nil {
		return hx.Outcome{Skipped: true, Note: "bad tracecheck case"}
	}
	src := Program(c.Ctx, Text(c.Toks))
	want := ExpectProgram(c.Ctx, c.Spec)
	got, err, pan := ParseSexpr(src, Mode{})
	if pan != nil || err != nil {
		return hx.Fail("C04/corpus-text/parse-error/"+c.Ctx, fmt.Sprintf("text %q (from %s) is inside the table's language but rejected by the parser: %v %v", src, c.Src, err, pan), want, fmt.Sprint(err, pan), src)
	}
	if got != want {
		return hx.Fail("C04/corpus-text/tree/"+c.Ctx, fmt.Sprintf("text %q (from %s) groups differently from the table", src, c.Src), want, got, src)
	}
	// the parser reads the text as the table does: the disagreement is between
	// the printed text and the tree it was printed from (C20), not C04's
	return hx.Outcome{Skipped: true, Note: "printer-side disagreement"}
}

// Replay parses both texts with the real parser and compares the trees with
// the one the specification prescribes.
func Replay(raw json.RawMessage) hx.Outcome {
	var c Case
	if err := json.Unmarshal(raw, &c); err == nil && c.Fam == "tracecheck" {
		return replayTraceCheck(raw)
	}
	if err := json.Unmarshal(raw, &c); err != nil || c.Fam != "expr" {
		return hx.Outcome{Skipped: true, Note: "not an expr case"}
	}
	want := ExpectProgram(c.Ctx, c.Sx)
	if want == "" {
		return hx.Outcome{Skipped: true, Note: "unknown context"}
	}
	for _, v := range []struct {
		which string
		toks  []string
	}{{"min", c.Min}, {"full", c.Full}, {"min-compact", c.Min}} {
		txt := Text(v.toks)
		if v.which == "min-compact" {
			if txt = Compact(v.toks); txt == Text(v.toks) {
				continue
			}
		}
		src := Program(c.Ctx, txt)
		got, err, pan := ParseSexpr(src, Mode{})
		if pan != nil {
			return hx.Fail(classify(&c, v.which, "panic", v.toks, ""), fmt.Sprintf("the parser panicked on %q: %v", src, pan), want, fmt.Sprint(pan), src)
		}
		if err != nil {
			return hx.Fail(classify(&c, v.which, "parse-error", v.toks, ""),
				fmt.Sprintf("%s text %q is rejected by the parser (%v); the table gives it the tree %s", v.which, src, err, c.Sx), want, err.Error(), src)
		}
		if got != want {
			return hx.Fail(classify(&c, v.which, "tree", v.toks, got),
				fmt.Sprintf("%s text %q groups differently from the table", v.which, src), want, got, src)
		}
	}
	return hx.OK(c.NOps >= 2)
}
