package c04

import (
	"bufio"
	"encoding/json"
	"fmt"
	goast "go/ast"
	goparser "go/parser"
	gotoken "go/token"
	"math/rand"
	"os"
	"path/filepath"
	"sort"
	"strconv"
	"strings"

	"github.com/benhoyt/goawk/internal/ast"
	"github.com/benhoyt/goawk/lexer"
	"github.com/benhoyt/goawk/parser"
)

// RepoDir is the tree under test (for the corpus): $VERIF_REPO_DIR or /repo.
func RepoDir() string {
	if d := os.Getenv("VERIF_REPO_DIR"); d != "" {
		return d
	}
	if d := os.Getenv("VERIF_REPO"); d != "" {
		return d
	}
	return "/repo"
}

// CorpusItem is one AWK source of the corpus.
type CorpusItem struct {
	Name string
	Src  string
}

// Corpus collects the AWK programs shipped with the repository: every file
// under testdata/ and every string literal of the Go test files, as far as
// the real parser accepts them.  The order is deterministic.
func Corpus(repo string) []CorpusItem {
	var items []CorpusItem
	seen := map[string]bool{}
	add := func(name, src string) {
		if len(src) == 0 || len(src) > 20000 || seen[src] {
			return
		}
		seen[src] = true
		if !parses(src) {
			return
		}
		items = append(items, CorpusItem{name, src})
	}
	var files []string
	filepath.Walk(filepath.Join(repo, "testdata"), func(p string, info os.FileInfo, err error) error {
		if err == nil && info.Mode().IsRegular() && info.Size() < 20000 {
			files = append(files, p)
		}
		return nil
	})
	sort.Strings(files)
	for _, f := range files {
		b, err := os.ReadFile(f)
		if err != nil {
			continue
		}
		rel, _ := filepath.Rel(repo, f)
		base := filepath.Base(f)
		if strings.HasSuffix(base, ".awk") || strings.HasPrefix(base, "p.") || strings.HasPrefix(base, "t.") || strings.HasPrefix(base, "g.") {
			add(rel, string(b))
		}
	}
	var tests []string
	filepath.Walk(repo, func(p string, info os.FileInfo, err error) error {
		if err == nil && info.Mode().IsRegular() && strings.HasSuffix(p, "_test.go") {
			tests = append(tests, p)
		}
		return nil
	})
	sort.Strings(tests)
	for _, f := range tests {
		fset := gotoken.NewFileSet()
		gf, err := goparser.ParseFile(fset, f, nil, 0)
		if err != nil {
			continue
		}
		rel, _ := filepath.Rel(repo, f)
		k := 0
		goast.Inspect(gf, func(n goast.Node) bool {
			if bl, ok := n.(*goast.BasicLit); ok && bl.Kind == gotoken.STRING {
				if s, err := strconv.Unquote(bl.Value); err == nil && strings.ContainsAny(s, "{}$=(") {
					k++
					add(fmt.Sprintf("%s#%d", rel, k), s)
				}
			}
			return true
		})
	}
	return items
}

func parses(src string) (ok bool) {
	defer func() {
		if r := recover(); r != nil {
			ok = false
		}
	}()
	_, err := parser.ParseProgram([]byte(src), nil)
	return err == nil
}

// ---- tokens of a printed expression, in the specification's alphabet ----

type ltok struct {
	tok   lexer.Token
	val   string
	start int // byte offset in the text
	end   int
	space bool // blank before the token
}

// lexText runs the real lexer over a printed expression (single line),
// switching to regex scanning where an operand is expected.
func lexText(text string) (toks []ltok, ok bool) {
	defer func() {
		if r := recover(); r != nil {
			ok = false
		}
	}()
	lx := lexer.NewLexer([]byte(text))
	operandEnd := false
	for {
		pos, tok, val := lx.Scan()
		if tok == lexer.EOF {
			break
		}
		if tok == lexer.ILLEGAL || tok == lexer.NEWLINE || pos.Line != 1 {
			return nil, false
		}
		start := pos.Column - 1
		if (tok == lexer.DIV || tok == lexer.DIV_ASSIGN) && !operandEnd {
			_, tok, val = lx.ScanRegex()
			if tok != lexer.REGEX {
				return nil, false
			}
		}
		toks = append(toks, ltok{tok: tok, val: val, start: start, space: lx.HadSpace()})
		switch tok {
		case lexer.NAME, lexer.NUMBER, lexer.STRING, lexer.REGEX, lexer.RPAREN, lexer.RBRACKET, lexer.GETLINE:
			operandEnd = true
		case lexer.INCR, lexer.DECR:
			// postfix keeps the operand complete, prefix keeps waiting for one
		default:
			if tok >= lexer.FIRST_FUNC && tok <= lexer.LAST_FUNC {
				operandEnd = true
			} else {
				operandEnd = false
			}
		}
	}
	for i := range toks {
		if i+1 < len(toks) {
			toks[i].end = toks[i+1].start
		} else {
			toks[i].end = len(text)
		}
	}
	return toks, true
}

var specOps = map[lexer.Token]string{
	lexer.ADD: "+", lexer.SUB: "-", lexer.MUL: "*", lexer.DIV: "/", lexer.MOD: "%", lexer.POW: "^",
	lexer.AND: "&&", lexer.OR: "||", lexer.MATCH: "~", lexer.NOT_MATCH: "!~", lexer.NOT: "!",
	lexer.EQUALS: "==", lexer.NOT_EQUALS: "!=", lexer.LESS: "<", lexer.LTE: "<=", lexer.GREATER: ">", lexer.GTE: ">=",
	lexer.INCR: "++", lexer.DECR: "--", lexer.PIPE: "|", lexer.GETLINE: "getline", lexer.IN: "in",
	lexer.ASSIGN: "=", lexer.ADD_ASSIGN: "+=", lexer.SUB_ASSIGN: "-=", lexer.MUL_ASSIGN: "*=", lexer.DIV_ASSIGN: "/=",
	lexer.MOD_ASSIGN: "%=", lexer.POW_ASSIGN: "^=", lexer.QUESTION: "?", lexer.COLON: ":", lexer.LPAREN: "(",
	lexer.RPAREN: ")", lexer.DOLLAR: "$", lexer.LBRACKET: "[", lexer.RBRACKET: "]",
}

var leafNames = []string{"a", "b", "c", "d", "e", "g", "h", "k", "m", "n", "p", "q", "r", "s", "t", "u", "v", "w", "x", "y", "z"}

// abstraction maps the atoms of one expression to the specification's alphabet.
type abstraction struct {
	scalars map[string]string
	arrays  map[string]string
	nums    map[string]string
	strs    map[string]string
	res     map[string]string
	over    bool // alphabet exhausted
}

func newAbstraction() *abstraction {
	return &abstraction{map[string]string{}, map[string]string{}, map[string]string{}, map[string]string{}, map[string]string{}, false}
}

func (a *abstraction) scalar(key string) string {
	if v, ok := a.scalars[key]; ok {
		return v
	}
	if len(a.scalars) >= len(leafNames) {
		a.over = true
		return "a"
	}
	v := leafNames[len(a.scalars)]
	a.scalars[key] = v
	return v
}
func (a *abstraction) array(key string) string {
	if v, ok := a.arrays[key]; ok {
		return v
	}
	if len(a.arrays) >= 2 {
		a.over = true
		return "A"
	}
	v := []string{"A", "B"}[len(a.arrays)]
	a.arrays[key] = v
	return v
}
func (a *abstraction) num(key string) string {
	if v, ok := a.nums[key]; ok {
		return v
	}
	if len(a.nums) >= 9 {
		a.over = true
		return "1"
	}
	v := strconv.Itoa(len(a.nums) + 1)
	a.nums[key] = v
	return v
}
func (a *abstraction) str(key string) string {
	if v, ok := a.strs[key]; ok {
		return v
	}
	if len(a.strs) >= len(leafNames) {
		a.over = true
		return `"a"`
	}
	v := `"` + leafNames[len(a.strs)] + `"`
	a.strs[key] = v
	return v
}
func (a *abstraction) re(key string) string {
	if v, ok := a.res[key]; ok {
		return v
	}
	if len(a.res) >= len(leafNames) {
		a.over = true
		return "/a/"
	}
	v := "/" + leafNames[len(a.res)] + "/"
	a.res[key] = v
	return v
}

func numKey(lit string) string {
	s := strings.TrimRight(lit, "eE")
	n, _ := strconv.ParseFloat(s, 64)
	return Num(n)
}

// matching returns the index of the bracket closing toks[i], and whether a
// comma occurs at depth 1.
func matching(toks []ltok, i int) (j int, comma bool, ok bool) {
	depth := 0
	for j = i; j < len(toks); j++ {
		switch toks[j].tok {
		case lexer.LPAREN, lexer.LBRACKET:
			depth++
		case lexer.RPAREN, lexer.RBRACKET:
			depth--
			if depth == 0 {
				return j, comma, true
			}
		case lexer.COMMA:
			if depth == 1 {
				comma = true
			}
		}
	}
	return 0, false, false
}

// specTokens converts the lexed text; ok is false when the expression uses
// something the specification's alphabet has no token for.
func specTokens(text string, toks []ltok, a *abstraction) (out []string, ok bool) {
	for i := 0; i < len(toks); i++ {
		t := toks[i]
		switch {
		case t.tok == lexer.NAME:
			if i+1 < len(toks) && toks[i+1].tok == lexer.LBRACKET {
				j, comma, good := matching(toks, i+1)
				if !good {
					return nil, false
				}
				if comma {
					out = append(out, a.scalar("opaque:"+text[t.start:toks[j].start+1]))
					i = j
					continue
				}
				out = append(out, a.array(t.val))
				continue
			}
			if i+1 < len(toks) && toks[i+1].tok == lexer.LPAREN && !toks[i+1].space {
				j, _, good := matching(toks, i+1)
				if !good {
					return nil, false
				}
				out = append(out, a.str("opaque:"+text[t.start:toks[j].start+1]))
				i = j
				continue
			}
			if i > 0 && toks[i-1].tok == lexer.IN {
				out = append(out, a.array(t.val))
				continue
			}
			out = append(out, a.scalar("name:"+t.val))
		case t.tok >= lexer.FIRST_FUNC && t.tok <= lexer.LAST_FUNC:
			if i+1 < len(toks) && toks[i+1].tok == lexer.LPAREN {
				j, comma, good := matching(toks, i+1)
				if !good {
					return nil, false
				}
				if t.tok == lexer.F_LENGTH && !comma && j > i+2 {
					out = append(out, "length")
					continue
				}
				out = append(out, a.str("opaque:"+text[t.start:toks[j].start+1]))
				i = j
				continue
			}
			out = append(out, a.str("opaque:"+text[t.start:t.start+len(t.tok.String())]))
		case t.tok == lexer.NUMBER:
			out = append(out, a.num(numKey(t.val)))
		case t.tok == lexer.STRING:
			out = append(out, a.str("str:"+t.val))
		case t.tok == lexer.REGEX:
			out = append(out, a.re(t.val))
		case t.tok == lexer.LPAREN:
			if j, comma, good := matching(toks, i); !good || comma {
				_ = j
				return nil, false // (i, j) in arr and print (a, b) are not modelled
			}
			out = append(out, "(")
		default:
			s, known := specOps[t.tok]
			if !known {
				return nil, false
			}
			out = append(out, s)
		}
	}
	return out, !a.over
}

// absSexpr prints the real tree with the atoms renamed by the abstraction.
func absSexpr(e ast.Expr, a *abstraction) string {
	switch e := e.(type) {
	case nil:
		return "_"
	case *ast.GroupingExpr:
		return absSexpr(e.Expr, a)
	case *ast.NumExpr:
		return a.num(Num(e.Value))
	case *ast.StrExpr:
		if e.Regex {
			return a.re(e.Value)
		}
		return a.str("str:" + e.Value)
	case *ast.RegExpr:
		return a.re(e.Regex)
	case *ast.VarExpr:
		return a.scalar("name:" + e.Name)
	case *ast.FieldExpr:
		return "($ " + absSexpr(e.Index, a) + ")"
	case *ast.IndexExpr:
		if len(e.Index) != 1 {
			return a.scalar("opaque:" + e.String())
		}
		return "([] " + a.array(e.Array) + " " + absSexpr(e.Index[0], a) + ")"
	case *ast.CallExpr:
		if e.Func == lexer.F_LENGTH && len(e.Args) == 1 {
			return "(call length " + absSexpr(e.Args[0], a) + ")"
		}
		return a.str("opaque:" + e.String())
	case *ast.UserCallExpr:
		return a.str("opaque:" + e.String())
	case *ast.IncrExpr:
		k := "post"
		if e.Pre {
			k = "pre"
		}
		return "(" + k + opName(e.Op) + " " + absSexpr(e.Expr, a) + ")"
	case *ast.UnaryExpr:
		return "(u" + opName(e.Op) + " " + absSexpr(e.Value, a) + ")"
	case *ast.BinaryExpr:
		return "(" + opName(e.Op) + " " + absSexpr(e.Left, a) + " " + absSexpr(e.Right, a) + ")"
	case *ast.InExpr:
		if len(e.Index) != 1 {
			a.over = true
			return "?"
		}
		return "(in " + a.array(e.Array) + " " + absSexpr(e.Index[0], a) + ")"
	case *ast.CondExpr:
		return "(?: " + absSexpr(e.Cond, a) + " " + absSexpr(e.True, a) + " " + absSexpr(e.False, a) + ")"
	case *ast.AssignExpr:
		return "(= " + absSexpr(e.Left, a) + " " + absSexpr(e.Right, a) + ")"
	case *ast.AugAssignExpr:
		return "(" + opName(e.Op) + "= " + absSexpr(e.Left, a) + " " + absSexpr(e.Right, a) + ")"
	case *ast.GetlineExpr:
		lv := "_"
		if e.Target != nil {
			v, isVar := e.Target.(*ast.VarExpr)
			if !isVar {
				a.over = true
				return "?"
			}
			lv = a.scalar("name:" + v.Name)
		}
		switch {
		case e.Command != nil && e.File != nil:
			a.over = true
			return "?"
		case e.Command != nil:
			return "(pget " + absSexpr(e.Command, a) + " " + lv + ")"
		case e.File != nil:
			return "(fget " + lv + " " + absSexpr(e.File, a) + ")"
		}
		return "(get " + lv + ")"
	}
	a.over = true
	return "?"
}

// Event is one recorded expression.
type Event struct {
	Ev      string   `json:"ev"`
	Kind    string   `json:"kind,omitempty"`
	Ctx     string   `json:"ctx,omitempty"`
	Toks    []string `json:"toks,omitempty"`
	Sx      string   `json:"sx,omitempty"`
	Printed string   `json:"printed,omitempty"`
	Rsx     string   `json:"rsx,omitempty"` // the real tree, atoms not renamed
	Src     string   `json:"src,omitempty"`
}

type ctxExpr struct {
	ctx string
	e   ast.Expr
}

func collectStmts(ss ast.Stmts, out *[]ctxExpr) {
	for _, s := range ss {
		collectStmt(s, out)
	}
}

func collectStmt(s ast.Stmt, out *[]ctxExpr) {
	switch s := s.(type) {
	case *ast.ExprStmt:
		*out = append(*out, ctxExpr{"stmt", s.Expr})
	case *ast.PrintStmt:
		for _, a := range s.Args {
			*out = append(*out, ctxExpr{"print", a})
		}
	case *ast.PrintfStmt:
		for _, a := range s.Args {
			*out = append(*out, ctxExpr{"print", a})
		}
	case *ast.IfStmt:
		*out = append(*out, ctxExpr{"cond", s.Cond})
		collectStmts(s.Body, out)
		collectStmts(s.Else, out)
	case *ast.ForStmt:
		if s.Pre != nil {
			collectStmt(s.Pre, out)
		}
		if s.Cond != nil {
			*out = append(*out, ctxExpr{"cond", s.Cond})
		}
		if s.Post != nil {
			collectStmt(s.Post, out)
		}
		collectStmts(s.Body, out)
	case *ast.ForInStmt:
		collectStmts(s.Body, out)
	case *ast.WhileStmt:
		*out = append(*out, ctxExpr{"cond", s.Cond})
		collectStmts(s.Body, out)
	case *ast.DoWhileStmt:
		collectStmts(s.Body, out)
		*out = append(*out, ctxExpr{"cond", s.Cond})
	case *ast.ExitStmt:
		if s.Status != nil {
			*out = append(*out, ctxExpr{"stmt", s.Status})
		}
	case *ast.ReturnStmt:
		if s.Value != nil {
			*out = append(*out, ctxExpr{"stmt", s.Value})
		}
	case *ast.BlockStmt:
		collectStmts(s.Body, out)
	}
}

// Expressions lists the statement-level expressions of a program with the
// context they stand in.
func Expressions(p *ast.Program) []ctxExpr {
	var out []ctxExpr
	for _, b := range p.Begin {
		collectStmts(b, &out)
	}
	for _, a := range p.Actions {
		for _, pe := range a.Pattern {
			out = append(out, ctxExpr{"pat", pe})
		}
		collectStmts(a.Stmts, &out)
	}
	for _, b := range p.End {
		collectStmts(b, &out)
	}
	for _, f := range p.Functions {
		collectStmts(f.Body, &out)
	}
	return out
}

// RecordExpr turns one expression of the real tree into an event: the
// tokens of the text the real printer gives it and the real tree, both in
// the specification's alphabet.  ok is false when the expression is outside
// the alphabet.
func RecordExpr(ce ctxExpr) (ev Event, ok bool) {
	defer func() {
		if r := recover(); r != nil {
			ok = false
		}
	}()
	text := ce.e.String()
	if strings.ContainsAny(text, "\n\r") || len(text) > 400 {
		return ev, false
	}
	lt, good := lexText(text)
	if !good || len(lt) == 0 || len(lt) > 60 {
		return ev, false
	}
	a := newAbstraction()
	toks, good := specTokens(text, lt, a)
	if !good {
		return ev, false
	}
	sx := absSexpr(ce.e, a)
	if a.over {
		return ev, false
	}
	rsx := Sexpr(ce.e, Mode{RegexKinds: true})
	if ce.ctx == "print" {
		sx = "(print " + sx + ")"
		rsx = "(print " + rsx + ")"
	}
	return Event{Ev: "step", Kind: "expr", Ctx: ce.ctx, Toks: toks, Sx: sx, Printed: text, Rsx: rsx}, true
}

// Record writes the events of (a seeded sample of) the corpus: one trace per
// program, one event per statement-level expression.
func Record(seed int64, n int, out string) (int, error) {
	items := Corpus(RepoDir())
	if len(items) == 0 {
		return 0, fmt.Errorf("empty corpus under %s", RepoDir())
	}
	if len(items) > n {
		rnd := rand.New(rand.NewSource(seed))
		rnd.Shuffle(len(items), func(i, j int) { items[i], items[j] = items[j], items[i] })
		items = items[:n]
		sort.Slice(items, func(i, j int) bool { return items[i].Name < items[j].Name })
	}
	f, err := os.Create(out)
	if err != nil {
		return 0, err
	}
	defer f.Close()
	w := bufio.NewWriter(f)
	defer w.Flush()
	enc := json.NewEncoder(w)
	enc.SetEscapeHTML(false)
	traces := 0
	seen := map[string]bool{}
	for _, it := range items {
		prog, err := parser.ParseProgram([]byte(it.Src), nil)
		if err != nil {
			continue
		}
		var evs []Event
		for _, ce := range Expressions(&prog.ResolvedProgram.Program) {
			ev, ok := RecordExpr(ce)
			if !ok {
				continue
			}
			key := ev.Ctx + "\x00" + strings.Join(ev.Toks, " ") + "\x00" + ev.Sx
			if seen[key] {
				continue
			}
			seen[key] = true
			ev.Src = it.Name
			evs = append(evs, ev)
		}
		if len(evs) == 0 {
			continue
		}
		enc.Encode(Event{Ev: "reset"})
		for _, ev := range evs {
			enc.Encode(ev)
		}
		traces++
	}
	return traces, nil
}
