// Package c04 binds spec/Grammar.tla to the real parser: expression trees
// enumerated by TLC (Gen_Grammar) are rendered, by the specification itself,
// once with the parentheses the POSIX table requires and once fully
// parenthesised; both texts are parsed by the real parser inside a minimal
// program for the context and the real syntax trees, printed as
// S-expressions (grouping nodes skipped), must equal the tree the table
// prescribes.  In the other direction expressions parsed by the real parser
// from a corpus are recorded (tokens + real tree) for Trace_Grammar to
// validate with the specification's parser.
package c04

import (
	"fmt"
	"strconv"
	"strings"

	"github.com/benhoyt/goawk/internal/ast"
	"github.com/benhoyt/goawk/lexer"
)

var opNames = map[lexer.Token]string{
	lexer.ADD: "+", lexer.SUB: "-", lexer.MUL: "*", lexer.DIV: "/", lexer.MOD: "%", lexer.POW: "^",
	lexer.AND: "&&", lexer.OR: "||", lexer.MATCH: "~", lexer.NOT_MATCH: "!~", lexer.NOT: "!",
	lexer.EQUALS: "==", lexer.NOT_EQUALS: "!=", lexer.LESS: "<", lexer.LTE: "<=", lexer.GREATER: ">", lexer.GTE: ">=",
	lexer.CONCAT: "cat", lexer.INCR: "++", lexer.DECR: "--", lexer.APPEND: ">>", lexer.PIPE: "|",
}

func opName(t lexer.Token) string {
	if s, ok := opNames[t]; ok {
		return s
	}
	return "?" + t.String() + "?"
}

// Mode selects details of the rendering.
type Mode struct {
	// RegexKinds distinguishes a regex used as a dynamic-regex string
	// (x ~ /re/, split(s, a, /re/)) from a stand-alone regex ($0 ~ /re/).
	// The precedence property (C04) is about grouping only, so it does not.
	RegexKinds bool
}

func quoteAtom(s string) string {
	return strings.ReplaceAll(strconv.Quote(s), " ", `\x20`)
}

func regexAtom(s string) string {
	q := quoteAtom(s)
	return "/" + q[1:len(q)-1] + "/"
}

// Num renders a numeric literal the way the properties compare it: to six
// significant digits.
func Num(v float64) string {
	if v < 0 {
		// a parser that folds the sign into the literal builds the same grouping
		return "(u- " + fmt.Sprintf("%.6g", -v) + ")"
	}
	return fmt.Sprintf("%.6g", v)
}

// Sexpr prints an expression of the real syntax tree as an S-expression;
// grouping nodes are skipped.
func Sexpr(e ast.Expr, m Mode) string {
	switch e := e.(type) {
	case nil:
		return "_"
	case *ast.GroupingExpr:
		return Sexpr(e.Expr, m)
	case *ast.NumExpr:
		return Num(e.Value)
	case *ast.StrExpr:
		if e.Regex {
			if m.RegexKinds {
				return "(strre " + regexAtom(e.Value) + ")"
			}
			return regexAtom(e.Value)
		}
		return quoteAtom(e.Value)
	case *ast.RegExpr:
		return regexAtom(e.Regex)
	case *ast.VarExpr:
		return e.Name
	case *ast.FieldExpr:
		return "($ " + Sexpr(e.Index, m) + ")"
	case *ast.NamedFieldExpr:
		return "(@ " + Sexpr(e.Field, m) + ")"
	case *ast.IndexExpr:
		return "([] " + e.Array + list(e.Index, m) + ")"
	case *ast.CallExpr:
		return "(call " + e.Func.String() + list(e.Args, m) + ")"
	case *ast.UserCallExpr:
		return "(ucall " + e.Name + list(e.Args, m) + ")"
	case *ast.IncrExpr:
		k := "post"
		if e.Pre {
			k = "pre"
		}
		return "(" + k + opName(e.Op) + " " + Sexpr(e.Expr, m) + ")"
	case *ast.UnaryExpr:
		return "(u" + opName(e.Op) + " " + Sexpr(e.Value, m) + ")"
	case *ast.BinaryExpr:
		return "(" + opName(e.Op) + " " + Sexpr(e.Left, m) + " " + Sexpr(e.Right, m) + ")"
	case *ast.InExpr:
		return "(in " + e.Array + list(e.Index, m) + ")"
	case *ast.CondExpr:
		return "(?: " + Sexpr(e.Cond, m) + " " + Sexpr(e.True, m) + " " + Sexpr(e.False, m) + ")"
	case *ast.AssignExpr:
		return "(= " + Sexpr(e.Left, m) + " " + Sexpr(e.Right, m) + ")"
	case *ast.AugAssignExpr:
		return "(" + opName(e.Op) + "= " + Sexpr(e.Left, m) + " " + Sexpr(e.Right, m) + ")"
	case *ast.GetlineExpr:
		switch {
		case e.Command != nil && e.File != nil:
			return "(pfget " + Sexpr(e.Command, m) + " " + Sexpr(e.Target, m) + " " + Sexpr(e.File, m) + ")"
		case e.Command != nil:
			return "(pget " + Sexpr(e.Command, m) + " " + Sexpr(e.Target, m) + ")"
		case e.File != nil:
			return "(fget " + Sexpr(e.Target, m) + " " + Sexpr(e.File, m) + ")"
		}
		return "(get " + Sexpr(e.Target, m) + ")"
	case *ast.MultiExpr:
		return "(multi" + list(e.Exprs, m) + ")"
	}
	return fmt.Sprintf("(unknown %T)", e)
}

func list(es []ast.Expr, m Mode) string {
	var sb strings.Builder
	for _, e := range es {
		sb.WriteByte(' ')
		sb.WriteString(Sexpr(e, m))
	}
	return sb.String()
}

func body(tag string, ss ast.Stmts, m Mode) string {
	var sb strings.Builder
	sb.WriteString("(" + tag)
	for _, s := range ss {
		sb.WriteByte(' ')
		sb.WriteString(StmtSexpr(s, m))
	}
	sb.WriteByte(')')
	return sb.String()
}

func printSexpr(tag string, args []ast.Expr, redirect lexer.Token, dest ast.Expr, m Mode) string {
	s := "(" + tag + list(args, m)
	if dest != nil {
		s += " " + opName(redirect) + " " + Sexpr(dest, m)
	}
	return s + ")"
}

// StmtSexpr prints a statement.  An absent else branch and an empty one are
// the same thing, as are an absent and an empty statement list.
func StmtSexpr(s ast.Stmt, m Mode) string {
	switch s := s.(type) {
	case *ast.PrintStmt:
		return printSexpr("print", s.Args, s.Redirect, s.Dest, m)
	case *ast.PrintfStmt:
		return printSexpr("printf", s.Args, s.Redirect, s.Dest, m)
	case *ast.ExprStmt:
		return "(expr " + Sexpr(s.Expr, m) + ")"
	case *ast.IfStmt:
		return "(if " + Sexpr(s.Cond, m) + " " + body("body", s.Body, m) + " " + body("else", s.Else, m) + ")"
	case *ast.ForStmt:
		pre, post := "_", "_"
		if s.Pre != nil {
			pre = StmtSexpr(s.Pre, m)
		}
		if s.Post != nil {
			post = StmtSexpr(s.Post, m)
		}
		return "(for " + pre + " " + Sexpr(s.Cond, m) + " " + post + " " + body("body", s.Body, m) + ")"
	case *ast.ForInStmt:
		return "(forin " + s.Var + " " + s.Array + " " + body("body", s.Body, m) + ")"
	case *ast.WhileStmt:
		return "(while " + Sexpr(s.Cond, m) + " " + body("body", s.Body, m) + ")"
	case *ast.DoWhileStmt:
		return "(do " + body("body", s.Body, m) + " " + Sexpr(s.Cond, m) + ")"
	case *ast.BreakStmt:
		return "(break)"
	case *ast.ContinueStmt:
		return "(continue)"
	case *ast.NextStmt:
		return "(next)"
	case *ast.NextfileStmt:
		return "(nextfile)"
	case *ast.ExitStmt:
		return "(exit " + Sexpr(s.Status, m) + ")"
	case *ast.ReturnStmt:
		return "(return " + Sexpr(s.Value, m) + ")"
	case *ast.DeleteStmt:
		return "(delete " + s.Array + list(s.Index, m) + ")"
	case *ast.BlockStmt:
		return body("block", s.Body, m)
	}
	return fmt.Sprintf("(unknown %T)", s)
}

// ProgramSexpr prints a whole program.
func ProgramSexpr(p *ast.Program, m Mode) string {
	var sb strings.Builder
	sb.WriteString("(program")
	for _, b := range p.Begin {
		sb.WriteString(" " + body("begin", b, m))
	}
	for _, a := range p.Actions {
		sb.WriteString(" (action (pattern" + list(a.Pattern, m) + ") ")
		if a.Stmts == nil {
			sb.WriteString("(default)")
		} else {
			sb.WriteString(body("body", a.Stmts, m))
		}
		sb.WriteString(")")
	}
	for _, b := range p.End {
		sb.WriteString(" " + body("end", b, m))
	}
	for _, f := range p.Functions {
		sb.WriteString(" (function " + f.Name + " (params")
		for _, prm := range f.Params {
			sb.WriteString(" " + prm)
		}
		sb.WriteString(") " + body("body", f.Body, m) + ")")
	}
	sb.WriteByte(')')
	return sb.String()
}
