// Package hx is the common library of the conformance harness: reading the
// behaviours exported by TLC, running AWK programs against the real packages
// built from /repo, and reporting outcomes.
package hx

import (
	"bufio"
	"bytes"
	"context"
	"crypto/sha1"
	"encoding/hex"
	"encoding/json"
	"fmt"
	"io"
	"os"
	"runtime"
	"sort"
	"strings"
	"sync"
	"time"

	"github.com/benhoyt/goawk/interp"
	"github.com/benhoyt/goawk/parser"
)

// BS is a byte string as the specification writes it: a JSON array of
// integers 0..255.
type BS []int

func (b BS) Bytes() []byte {
	out := make([]byte, len(b))
	for i, v := range b {
		out[i] = byte(v)
	}
	return out
}
func (b BS) String() string { return string(b.Bytes()) }

func FromBytes(b []byte) BS {
	out := make(BS, len(b))
	for i, v := range b {
		out[i] = int(v)
	}
	return out
}

// AwkString renders bytes as an AWK string literal that GoAWK's lexer reads
// back as exactly those bytes.
func AwkString(b []byte) string {
	var sb strings.Builder
	sb.WriteByte('"')
	for _, c := range b {
		switch {
		case c == '"':
			sb.WriteString(`\"`)
		case c == '\\':
			sb.WriteString(`\\`)
		case c == '\n':
			sb.WriteString(`\n`)
		case c == '\t':
			sb.WriteString(`\t`)
		case c == '\r':
			sb.WriteString(`\r`)
		case c >= 32 && c < 127:
			sb.WriteByte(c)
		default:
			fmt.Fprintf(&sb, "\\%03o", c)
		}
	}
	sb.WriteByte('"')
	return sb.String()
}

// LP writes the length-prefixed form <len>:<bytes> used by probe programs.
func LP(b []byte) string { return fmt.Sprintf("%d:%s", len(b), b) }

// Failure describes one disagreement between the real code and the
// specification's prediction.
type Failure struct {
	Sig      string          `json:"sig"`
	What     string          `json:"what"`
	Case     json.RawMessage `json:"case"`
	Expected any             `json:"expected,omitempty"`
	Observed any             `json:"observed,omitempty"`
	Program  string          `json:"program,omitempty"`
}

// Outcome of replaying one case.
type Outcome struct {
	Fail       *Failure
	Nontrivial bool
	Skipped    bool   // case outside what the replayer handles (counted, never a verdict)
	Note       string // free text for skipped cases
}

func OK(nontrivial bool) Outcome { return Outcome{Nontrivial: nontrivial} }
func Fail(sig, what string, expected, observed any, program string) Outcome {
	return Outcome{Fail: &Failure{Sig: sig, What: what, Expected: expected, Observed: observed, Program: program}, Nontrivial: true}
}

// Replayer replays one exported behaviour (one JSON line) on the real code.
type Replayer func(raw json.RawMessage) Outcome

// Summary is written as the result of a replay run.
type Summary struct {
	N            int                `json:"n"`
	Distinct     int                `json:"distinct"`
	Nontrivial   int                `json:"distinct_nontrivial"`
	Skipped      int                `json:"skipped"`
	Failures     []*Failure         `json:"failures"`
	SigCounts    map[string]int     `json:"sig_counts"`
	Samples      []json.RawMessage  `json:"samples"`
	WallS        float64            `json:"wall_s"`
	Extra        map[string]any     `json:"extra,omitempty"`
}

// RunReplay streams ndjson cases from r through rep on all cores.
func RunReplay(r io.Reader, rep Replayer, maxFailPerSig int) *Summary {
	start := time.Now()
	type item struct {
		raw json.RawMessage
	}
	type res struct {
		raw json.RawMessage
		out Outcome
	}
	in := make(chan item, 1024)
	out := make(chan res, 1024)
	var wg sync.WaitGroup
	nw := runtime.NumCPU()
	if s := os.Getenv("VERIF_WORKERS"); s != "" {
		fmt.Sscanf(s, "%d", &nw)
	}
	for w := 0; w < nw; w++ {
		wg.Add(1)
		go func() {
			defer wg.Done()
			for it := range in {
				out <- res{it.raw, safeReplay(rep, it.raw)}
			}
		}()
	}
	go func() {
		sc := bufio.NewScanner(r)
		sc.Buffer(make([]byte, 1<<20), 1<<28)
		for sc.Scan() {
			line := bytes.TrimSpace(sc.Bytes())
			if len(line) == 0 {
				continue
			}
			cp := make([]byte, len(line))
			copy(cp, line)
			in <- item{cp}
		}
		close(in)
		wg.Wait()
		close(out)
	}()
	sum := &Summary{SigCounts: map[string]int{}, Failures: []*Failure{}, Samples: []json.RawMessage{}}
	seen := map[[20]byte]bool{}
	for rs := range out {
		sum.N++
		h := sha1.Sum(rs.raw)
		dup := seen[h]
		seen[h] = true
		if !dup {
			sum.Distinct++
			if rs.out.Nontrivial && !rs.out.Skipped {
				sum.Nontrivial++
			}
		}
		if rs.out.Skipped {
			sum.Skipped++
			continue
		}
		if len(sum.Samples) < 5 && (sum.N%997 == 1) {
			sum.Samples = append(sum.Samples, rs.raw)
		}
		if f := rs.out.Fail; f != nil {
			sum.SigCounts[f.Sig]++
			if sum.SigCounts[f.Sig] <= maxFailPerSig {
				f.Case = rs.raw
				sum.Failures = append(sum.Failures, f)
			}
		}
	}
	sort.Slice(sum.Failures, func(i, j int) bool {
		if sum.Failures[i].Sig != sum.Failures[j].Sig {
			return sum.Failures[i].Sig < sum.Failures[j].Sig
		}
		return len(sum.Failures[i].Case) < len(sum.Failures[j].Case)
	})
	sum.WallS = time.Since(start).Seconds()
	return sum
}

func safeReplay(rep Replayer, raw json.RawMessage) (o Outcome) {
	defer func() {
		if r := recover(); r != nil {
			// a panic in harness code itself (not in the code under test, which
			// replayers guard on their own) is a harness defect
			buf := make([]byte, 4096)
			n := runtime.Stack(buf, false)
			o = Outcome{Fail: &Failure{Sig: "HARNESS-PANIC", What: fmt.Sprintf("%v\n%s", r, buf[:n])}}
		}
	}()
	return rep(raw)
}

func ShortHash(b []byte) string {
	h := sha1.Sum(b)
	return hex.EncodeToString(h[:6])
}

// RunResult is what executing an AWK program produced.
type RunResult struct {
	Stdout   []byte
	Stderr   []byte
	Status   int
	Err      error  // error returned by ExecProgram / Execute (nil if none)
	ParseErr error  // error from ParseProgram
	Panic    any    // recovered panic value, if any
	PanicStk string
	TimedOut bool
}

func (r *RunResult) Errored() bool { return r.Err != nil || r.ParseErr != nil }

// RunAwk parses and executes src with the given stdin under recover(), with a
// hang guard.  cfg may be nil; Stdin/Output/Error are filled in when nil.
func RunAwk(src string, stdin []byte, cfg *interp.Config, pcfg *parser.ParserConfig) *RunResult {
	res := &RunResult{}
	var prog *parser.Program
	func() {
		defer func() {
			if r := recover(); r != nil {
				res.Panic = r
				res.PanicStk = stack()
			}
		}()
		var err error
		prog, err = parser.ParseProgram([]byte(src), pcfg)
		if err != nil {
			res.ParseErr = err
		}
	}()
	if res.Panic != nil || res.ParseErr != nil {
		return res
	}
	return RunProg(prog, stdin, cfg)
}

// RunProg executes an already parsed program.
func RunProg(prog *parser.Program, stdin []byte, cfg *interp.Config) *RunResult {
	res := &RunResult{}
	var c interp.Config
	if cfg != nil {
		c = *cfg
	}
	var outb, errb bytes.Buffer
	if c.Stdin == nil {
		c.Stdin = bytes.NewReader(stdin)
	}
	if c.Output == nil {
		c.Output = &outb
	}
	if c.Error == nil {
		c.Error = &errb
	}
	if c.Environ == nil {
		c.Environ = []string{}
	}
	ctx, cancel := context.WithTimeout(context.Background(), HangTimeout)
	defer cancel()
	func() {
		defer func() {
			if r := recover(); r != nil {
				res.Panic = r
				res.PanicStk = stack()
			}
		}()
		in, err := interp.New(prog)
		if err != nil {
			res.Err = err
			return
		}
		res.Status, res.Err = in.ExecuteContext(ctx, &c)
	}()
	if ctx.Err() == context.DeadlineExceeded && res.Err != nil {
		res.TimedOut = true
	}
	res.Stdout = outb.Bytes()
	res.Stderr = errb.Bytes()
	return res
}

// HangTimeout bounds one replayed run; generated programs finish in
// microseconds, so reaching it means a hang.
var HangTimeout = 20 * time.Second

func stack() string {
	buf := make([]byte, 8192)
	n := runtime.Stack(buf, false)
	return string(buf[:n])
}

// WriteJSON writes v to path (pretty when small).
func WriteJSON(path string, v any) error {
	b, err := json.MarshalIndent(v, "", " ")
	if err != nil {
		return err
	}
	return os.WriteFile(path, b, 0o644)
}
