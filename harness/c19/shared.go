package c19

import (
	"bytes"
	"encoding/json"
	"fmt"
	"strings"
	"sync"
	"time"

	"github.com/benhoyt/goawk/interp"
	"github.com/benhoyt/goawk/parser"
	"github.com/benhoyt/goawk/verifharness/hx"
)

type Instr struct {
	Op string `json:"op"`
	G  int    `json:"g"`
	K  int    `json:"k"`
}

type SharedCase struct {
	Fam    string  `json:"fam"`
	Body   []Instr `json:"body"`
	NProc  int     `json:"nproc"`
	Sched  []int   `json:"sched"`
	Expect struct {
		Out []int `json:"out"`
		G   []int `json:"g"`
	} `json:"expect"`
}

var sharedConsts = []string{"0", "1", "7", "10"} // SharedProgram!Consts
var sharedRegex = []string{"/^1/", "/0$/"}       // SharedProgram!Matches
var sharedVar = []string{"a", "b"}

// RenderShared writes a SharedProgram body as AWK.
func RenderShared(body []Instr) (string, bool) {
	var sb strings.Builder
	sb.WriteString("function dbl(x) { return x + x }\nBEGIN {\n  a = 0; b = 0\n")
	for _, in := range body {
		if in.G < 1 || in.G > 2 {
			return "", false
		}
		g := sharedVar[in.G-1]
		switch in.Op {
		case "set":
			fmt.Fprintf(&sb, "  %s = %s\n", g, sharedConsts[in.K-1])
		case "add":
			fmt.Fprintf(&sb, "  %s = %s + %s\n", g, g, sharedConsts[in.K-1])
		case "match":
			fmt.Fprintf(&sb, "  %s = (%s ~ %s)\n", g, g, sharedRegex[in.K-1])
		case "call":
			fmt.Fprintf(&sb, "  %s = dbl(%s)\n", g, g)
		case "print":
			fmt.Fprintf(&sb, "  print %s\n", g)
		default:
			return "", false
		}
	}
	sb.WriteString("  print a\n  print b\n}\n")
	return sb.String(), true
}

// The per-instruction hook of the interpreter is one global, so scheduled
// runs are serialised.
var schedMu sync.Mutex

type procResult struct {
	out      []byte
	status   int
	err      error
	panicked any
}

// RunScheduled executes n interpreters over ONE program, letting exactly one
// of them advance by one VM instruction at a time, in the order given by
// sched (repeated cyclically, finished processes skipped).  The first grant
// of a process covers interp.New and the set-up of Execute.
func RunScheduled(prog *parser.Program, n int, sched []int) ([]procResult, int, error) {
	schedMu.Lock()
	defer schedMu.Unlock()
	grant := make([]chan struct{}, n)
	for i := range grant {
		grant[i] = make(chan struct{})
	}
	arrived := make(chan int)
	done := make(chan int)
	res := make([]procResult, n)
	cur := -1
	interp.SetVerifStepHook(func(interp.VerifStepInfo) {
		id := cur // only the process holding the grant is running
		arrived <- id
		<-grant[id]
	})
	defer interp.SetVerifStepHook(nil)
	for i := 0; i < n; i++ {
		go func(i int) {
			<-grant[i]
			func() {
				defer func() {
					if r := recover(); r != nil {
						res[i].panicked = r
					}
				}()
				in, err := interp.New(prog)
				if err != nil {
					res[i].err = err
					return
				}
				var out bytes.Buffer
				res[i].status, res[i].err = in.Execute(&interp.Config{Stdin: strings.NewReader(""), Output: &out, Error: &out, Environ: []string{}})
				res[i].out = out.Bytes()
			}()
			done <- i
		}(i)
	}
	finished := make([]bool, n)
	arrivals := 0
	left := n
	pos := 0
	timeout := time.After(20 * time.Second)
	for left > 0 {
		// next unfinished process of the schedule
		p := -1
		for tries := 0; tries < len(sched)+1; tries++ {
			c := sched[pos%len(sched)] - 1
			pos++
			if c >= 0 && c < n && !finished[c] {
				p = c
				break
			}
		}
		if p < 0 {
			for c := 0; c < n; c++ {
				if !finished[c] {
					p = c
				}
			}
		}
		cur = p
		grant[p] <- struct{}{}
		select {
		case <-arrived:
			arrivals++
		case i := <-done:
			finished[i] = true
			left--
		case <-timeout:
			return nil, arrivals, fmt.Errorf("scheduled run stuck")
		}
	}
	return res, arrivals, nil
}

func replayShared(raw json.RawMessage) hx.Outcome {
	var c SharedCase
	if err := json.Unmarshal(raw, &c); err != nil || c.NProc < 1 || len(c.Sched) == 0 {
		return hx.Outcome{Skipped: true, Note: "bad case"}
	}
	src, ok := RenderShared(c.Body)
	if !ok {
		return hx.Outcome{Skipped: true, Note: "unknown instruction"}
	}
	prog, err := parser.ParseProgram([]byte(src), nil)
	if err != nil {
		return hx.Outcome{Skipped: true, Note: "generated program rejected: " + err.Error()}
	}
	var want strings.Builder
	for _, v := range c.Expect.Out {
		fmt.Fprintf(&want, "%d\n", v)
	}
	before := Digest(prog)
	res, arrivals, rerr := RunScheduled(prog, c.NProc, c.Sched)
	if rerr != nil {
		return hx.Fail("C19/shared/stuck", rerr.Error(), want.String(), nil, src)
	}
	if arrivals < c.NProc {
		// the per-instruction hook never fired: the schedule was not imposed (harness not built with -tags verif)
		return hx.Outcome{Skipped: true, Note: "step hook inactive"}
	}
	after := Digest(prog)
	cls := "plain"
	for _, in := range c.Body {
		if in.Op == "match" {
			cls = "regex"
		} else if in.Op == "call" && cls == "plain" {
			cls = "call"
		}
	}
	for i, r := range res {
		if r.panicked != nil {
			return hx.Fail("C19/shared/panic", fmt.Sprintf("interpreter %d panicked: %v", i+1, r.panicked), want.String(), nil, src)
		}
		if r.err != nil || string(r.out) != want.String() {
			return hx.Fail("C19/shared/result-differs/"+cls,
				fmt.Sprintf("interpreter %d of %d (schedule %v) did not produce the result of running alone", i+1, c.NProc, c.Sched),
				want.String(), fmt.Sprintf("%s err=%v", r.out, r.err), src)
		}
	}
	if before != after {
		return hx.Fail("C19/shared/program-modified/"+cls, "the structural digest of the Program changed during execution", before, after, src)
	}
	return hx.OK(c.NProc > 1 && len(c.Body) > 0)
}
