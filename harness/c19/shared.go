package c19

import (
	"bytes"
	"context"
	"encoding/json"
	"fmt"
	"strings"
	"sync"
	"time"

	"github.com/benhoyt/goawk/interp"
	"github.com/benhoyt/goawk/parser"
	"github.com/benhoyt/goawk/verifharness/hx"
)

type Instr struct {
	Op string `json:"op"`
	G  int    `json:"g"`
	K  int    `json:"k"`
}

type SharedCase struct {
	Fam    string   `json:"fam"`
	Body   []Instr  `json:"body"`
	NProc  int      `json:"nproc"`
	Runs   int      `json:"runs"` // executions per process, one after the other
	Sched  []int    `json:"sched"`
	Apis   []string `json:"apis"` // execution interface of every process (SharedProgram!ApiOf)
	Expect struct {
		Out []int `json:"out"` // values >= 10000 are tokens (SharedProgram!RandTok, Seed0Tok)
		G   []int `json:"g"`
	} `json:"expect"`
}

var sharedConsts = []string{"0", "1", "7", "10"}     // SharedProgram!Consts
var sharedRegex = []string{"/^1/", "/0$/", "/1|10/"} // SharedProgram!Matches
var sharedVar = []string{"a", "b"}

// The execution interfaces (SharedProgram!ApiOf).
const (
	ApiNewExecute        = "new-execute"
	ApiNewExecuteContext = "new-executecontext"
	ApiExecProgram       = "execprogram"
)

// ExecVia executes prog once through the named interface, with an
// interpreter of its own.
func ExecVia(api string, prog *parser.Program, cfg *interp.Config) (int, error) {
	switch api {
	case ApiExecProgram:
		return interp.ExecProgram(prog, cfg)
	case ApiNewExecuteContext:
		in, err := interp.New(prog)
		if err != nil {
			return 0, err
		}
		return in.ExecuteContext(context.Background(), cfg)
	default:
		in, err := interp.New(prog)
		if err != nil {
			return 0, err
		}
		return in.Execute(cfg)
	}
}

// RenderShared writes a SharedProgram body as AWK.
func RenderShared(body []Instr) (string, bool) {
	var sb, rules strings.Builder
	sb.WriteString("function dbl(x) { return x + x }\nBEGIN {\n  a = 0; b = 0\n")
	for j, in := range body {
		if in.Op == "range" {
			// a range rule of the program (SharedProgram: "range"), applied to the records of SharedInput after BEGIN
			fmt.Fprintf(&rules, "NR == %d, NR == %d { print %d + NR }\n", in.G, in.K, 1000*(j+1))
			continue
		}
		if in.G < 1 || in.G > 2 {
			return "", false
		}
		g := sharedVar[in.G-1]
		switch in.Op {
		case "set":
			fmt.Fprintf(&sb, "  %s = %s\n", g, sharedConsts[in.K-1])
		case "add":
			fmt.Fprintf(&sb, "  %s = %s + %s\n", g, g, sharedConsts[in.K-1])
		case "match":
			// the stand-alone literal: the regular expression object compiled into the Program, matched against $0
			fmt.Fprintf(&sb, "  $0 = %s; %s = (%s ? 1 : 0)\n", g, g, sharedRegex[in.K-1])
		case "rlen":
			// the same source on the run-time path (compiled by the interpreter when first used)
			fmt.Fprintf(&sb, "  match(%s, %s); %s = RLENGTH\n", g, sharedRegex[in.K-1], g)
		case "rand":
			sb.WriteString("  print int(rand() * 1000000)\n")
		case "srand":
			fmt.Fprintf(&sb, "  print srand(%s)\n", sharedConsts[in.K-1])
		case "call":
			fmt.Fprintf(&sb, "  %s = dbl(%s)\n", g, g)
		case "print":
			fmt.Fprintf(&sb, "  print %s\n", g)
		// instructions that start a command; the command string is built from the variable id (Config.Vars), which is
		// different for every execution of a case (SharedProgram!CmdOf); echo and read are builtins of /bin/sh
		case "system":
			sb.WriteString("  system(\"echo \" id)\n")
		case "cmdgetline":
			fmt.Fprintf(&sb, "  (\"echo \" id) | getline %s\n", g)
		case "printcmd":
			fmt.Fprintf(&sb, "  print %s | (\"echo \" id \"; read v; echo $v\"); close(\"echo \" id \"; read v; echo $v\")\n", g)
		// conversions of a NON-INTEGER number through the formats of the execution (OFMT / CONVFMT are variables of
		// Config.Vars, different for every execution of a case: SharedProgram!FmtOf)
		case "oprint":
			fmt.Fprintf(&sb, "  print %s + 0.25\n", g)
		case "conv":
			fmt.Fprintf(&sb, "  print ((%s + 0.25) \"\")\n", g)
		case "close":
			sb.WriteString("  close(\"echo \" id)\n")
		default:
			return "", false
		}
	}
	if rules.Len() > 0 {
		sb.WriteString("}\n" + rules.String() + "END {\n")
	}
	sb.WriteString("  print a\n  print b\n}\n")
	return sb.String(), true
}

// SharedInput is the input of a SharedProgram body: SharedProgram!NRec records when the program has range rules.
func SharedInput(body []Instr) string {
	for _, in := range body {
		if in.Op == "range" {
			return "r1\nr2\nr3\n"
		}
	}
	return ""
}

// The per-instruction hook of the interpreter is one global, so scheduled
// runs are serialised.
var schedMu sync.Mutex

type procResult struct {
	outs     [][]byte // output of every execution of the process
	status   int
	err      error
	panicked any
}

// RunScheduled lets n processes execute ONE program `runs` times each (every
// execution with an interpreter of its own, through the process's execution
// interface), letting exactly one of them advance by one VM instruction at a
// time, in the order given by sched (repeated cyclically, finished processes
// skipped).  The first grant of an execution covers the allocation of the
// interpreter and the set-up of the execution.
func RunScheduled(prog *parser.Program, n int, sched []int, apis []string, runs int, input string) ([]procResult, int, error) {
	if runs < 1 {
		runs = 1
	}
	schedMu.Lock()
	defer schedMu.Unlock()
	grant := make([]chan struct{}, n)
	for i := range grant {
		grant[i] = make(chan struct{})
	}
	arrived := make(chan int)
	done := make(chan int)
	res := make([]procResult, n)
	cur := -1
	interp.SetVerifStepHook(func(interp.VerifStepInfo) {
		id := cur // only the process holding the grant is running
		arrived <- id
		<-grant[id]
	})
	defer interp.SetVerifStepHook(nil)
	for i := 0; i < n; i++ {
		go func(i int) {
			<-grant[i]
			func() {
				defer func() {
					if r := recover(); r != nil {
						res[i].panicked = r
					}
				}()
				api := ApiNewExecute
				if i < len(apis) {
					api = apis[i]
				}
				for k := 0; k < runs && res[i].err == nil; k++ {
					var out bytes.Buffer
					res[i].status, res[i].err = ExecVia(api, prog, &interp.Config{Stdin: strings.NewReader(input), Output: &out, Error: &out, Environ: []string{}})
					res[i].outs = append(res[i].outs, out.Bytes())
				}
			}()
			done <- i
		}(i)
	}
	finished := make([]bool, n)
	arrivals := 0
	left := n
	pos := 0
	timeout := time.After(20 * time.Second)
	for left > 0 {
		// next unfinished process of the schedule
		p := -1
		for tries := 0; tries < len(sched)+1; tries++ {
			c := sched[pos%len(sched)] - 1
			pos++
			if c >= 0 && c < n && !finished[c] {
				p = c
				break
			}
		}
		if p < 0 {
			for c := 0; c < n; c++ {
				if !finished[c] {
					p = c
				}
			}
		}
		cur = p
		grant[p] <- struct{}{}
		select {
		case <-arrived:
			arrivals++
		case i := <-done:
			finished[i] = true
			left--
		case <-timeout:
			return nil, arrivals, fmt.Errorf("scheduled run stuck")
		}
	}
	return res, arrivals, nil
}

// tokenMap checks one execution's output against the predicted values: plain
// values must be printed exactly; a token (a random number, the initial seed)
// may be any number, but the same token must be the same text in every
// execution of the case (tm accumulates the binding).
func tokenMap(tm map[int]string, want []int, got []byte) string {
	lines := strings.Split(strings.TrimSuffix(string(got), "\n"), "\n")
	if len(got) == 0 {
		lines = nil
	}
	if len(lines) != len(want) {
		return fmt.Sprintf("%d lines of output, the specification says %d", len(lines), len(want))
	}
	for j, w := range want {
		if w < 10000 {
			if lines[j] != fmt.Sprint(w) {
				return fmt.Sprintf("line %d is %q, the specification says %d", j+1, lines[j], w)
			}
			continue
		}
		if prev, ok := tm[w]; ok && prev != lines[j] {
			return fmt.Sprintf("line %d (token %d: a random number or the initial seed) is %q here and %q in another execution", j+1, w, lines[j], prev)
		}
		tm[w] = lines[j]
	}
	return ""
}

func replayShared(raw json.RawMessage) hx.Outcome {
	var c SharedCase
	if err := json.Unmarshal(raw, &c); err != nil || c.NProc < 1 || len(c.Sched) == 0 {
		return hx.Outcome{Skipped: true, Note: "bad case"}
	}
	src, ok := RenderShared(c.Body)
	if !ok {
		return hx.Outcome{Skipped: true, Note: "unknown instruction"}
	}
	prog, err := parser.ParseProgram([]byte(src), nil)
	if err != nil {
		return hx.Outcome{Skipped: true, Note: "generated program rejected: " + err.Error()}
	}
	var want strings.Builder
	for _, v := range c.Expect.Out {
		fmt.Fprintf(&want, "%d\n", v)
	}
	cls := "plain"
	for _, in := range c.Body {
		switch in.Op {
		case "match", "rlen":
			cls = "regex"
		case "rand", "srand":
			if cls != "regex" {
				cls = "random"
			}
		case "call":
			if cls == "plain" {
				cls = "call"
			}
		}
	}
	for _, in := range c.Body {
		if in.Op == "range" {
			cls = "range-rule" // the in-range state of a rule is state of the execution
			if in.K > 3 {
				cls = "range-rule-open-at-end"
				break
			}
		}
	}
	// the reference: one execution on a Program of its own
	tm := map[int]string{}
	if own, err := parser.ParseProgram([]byte(src), nil); err == nil {
		var out bytes.Buffer
		schedMu.Lock() // no scheduled run (whose step hook is global) is in progress
		_, xerr := ExecVia(ApiNewExecute, own, &interp.Config{Stdin: strings.NewReader(SharedInput(c.Body)), Output: &out, Error: &out, Environ: []string{}})
		schedMu.Unlock()
		if xerr == nil {
			if d := tokenMap(tm, c.Expect.Out, out.Bytes()); d != "" {
				return hx.Fail("C19/shared/single-execution/"+cls, "a single execution on a Program of its own: "+d, want.String(), out.String(), src)
			}
		}
	}
	before := Digest(prog)
	res, arrivals, rerr := RunScheduled(prog, c.NProc, c.Sched, c.Apis, c.Runs, SharedInput(c.Body))
	if rerr != nil {
		return hx.Fail("C19/shared/stuck", rerr.Error(), want.String(), nil, src)
	}
	if arrivals < c.NProc {
		// the per-instruction hook never fired: the schedule was not imposed (harness not built with -tags verif)
		return hx.Outcome{Skipped: true, Note: "step hook inactive"}
	}
	after := Digest(prog)
	for i, r := range res {
		api := ApiNewExecute
		if i < len(c.Apis) {
			api = c.Apis[i]
		}
		if r.panicked != nil {
			return hx.Fail("C19/shared/panic", fmt.Sprintf("process %d (%s) panicked: %v", i+1, api, r.panicked), want.String(), nil, src)
		}
		if r.err != nil {
			return hx.Fail("C19/shared/result-differs/"+cls+"/"+api, fmt.Sprintf("process %d of %d (%s): error %v", i+1, c.NProc, api, r.err), want.String(), nil, src)
		}
		for k, out := range r.outs {
			if d := tokenMap(tm, c.Expect.Out, out); d != "" {
				return hx.Fail("C19/shared/result-differs/"+cls+"/"+api,
					fmt.Sprintf("execution %d of process %d of %d (%s, schedule %v) did not produce the result of a single execution: %s", k+1, i+1, c.NProc, api, c.Sched, d),
					want.String(), string(out), src)
			}
		}
	}
	if before != after {
		return hx.Fail("C19/shared/program-modified/"+cls, "the structural digest of the Program (state of its compiled regular expressions included) changed during execution", before, after, src)
	}
	return hx.OK((c.NProc > 1 || c.Runs > 1) && len(c.Body) > 0)
}
