package c19

// Parse histories (spec/ParseHistory.tla): a case is a sequence of abstract
// sources that one process parses in that order.  The specification makes
// ParseProgram a function of the source alone, so
//   - whether a source is accepted must be what Verdict says, wherever the
//     source stands in the history, and
//   - verdict, error text and position, disassembly and compiled tables of a
//     source must be those of the FIRST parse of the same text in this process
//     (a process-wide table), whatever was parsed in between.
// A deviation is confirmed by parsing the text in a process of its own
// (`vreplay C19 freshparse`): the signature then says whether the verdict
// depends on the history or differs from the specification in a fresh process
// too.  ParseProgram panicking instead of returning is a violation of its own.

import (
	"bufio"
	"bytes"
	"encoding/json"
	"flag"
	"fmt"
	"io"
	"math/rand"
	"os"
	"os/exec"
	"strings"
	"sync"
	"sync/atomic"
	"time"

	"github.com/benhoyt/goawk/verifharness/hx"
)

// AbsSource is ParseHistory!Describe.
type AbsSource struct {
	Ctx   string   `json:"ctx"`
	Loops []string `json:"loops"`
	Stmt  string   `json:"stmt"`
	Brk   string   `json:"brk"`
	V     string   `json:"v"`   // the specified verdict: accept | reject
	Err   string   `json:"err"` // the specified error class (not compared: the statement does not name messages)
}

type HistoryCase struct {
	Fam  string      `json:"fam"`
	Hist []AbsSource `json:"hist"`
}

// HistoryRounds is the number of times a history is run through (the second
// and third round start after the last source of the previous one).
var HistoryRounds = 3

var stmtText = map[string]string{
	"plain":        "y = 1",
	"print":        "print y",
	"next":         "next",
	"nextfile":     "nextfile",
	"break":        "break",
	"continue":     "continue",
	"return":       "return 1",
	"getline-cmd":  `"echo hi" | getline x`,
	"getline-file": `getline x < "file"`,
	"in-multi":     "if ((1, 2) in arr) y = 1",
	"print-multi":  "print (1, 2)",
	"stray-multi":  "(1, 2)",
}

var brkText = map[string]string{
	"syntax":    "z = )",
	"lex":       "z = \"abc\n",
	"pipe":      `"cmd" | z`,
	"inlist":    "(1, )",
	"afterlist": "(3, 4); z = )",
	"resolver":  "nofunc(1)",
}

// RenderSource writes an abstract source as AWK text.
func RenderSource(s *AbsSource) (string, bool) {
	st, ok := stmtText[s.Stmt]
	if !ok {
		return "", false
	}
	var open, closing []string
	switch s.Ctx {
	case "begin":
		open, closing = append(open, "BEGIN {"), append(closing, "}")
	case "end":
		open, closing = append(open, "END {"), append(closing, "}")
	case "action":
		if s.Brk == "pattern" {
			open = append(open, "$1 > {")
		} else {
			open = append(open, "$1 > 0 {")
		}
		closing = append(closing, "}")
	case "func":
		open, closing = append(open, "function f(p) {"), append(closing, "}\nBEGIN { f(1) }")
	default:
		return "", false
	}
	for _, l := range s.Loops {
		switch l {
		case "while":
			open, closing = append(open, "while (i < 3) {"), append(closing, "}")
		case "for":
			open, closing = append(open, "for (i = 0; i < 3; i++) {"), append(closing, "}")
		case "forin":
			open, closing = append(open, "for (k in arr) {"), append(closing, "}")
		case "do":
			open, closing = append(open, "do {"), append(closing, "} while (i < 3)")
		default:
			return "", false
		}
	}
	var sb strings.Builder
	if s.Brk == "toplevel" {
		sb.WriteString("BEGIN 1\n")
	}
	sb.WriteString(strings.Join(open, " "))
	sb.WriteString(" " + st)
	switch s.Brk {
	case "none", "pattern", "toplevel":
	case "eof":
		// the text ends here, inside the innermost body
		sb.WriteString("\n")
		return sb.String(), true
	default:
		bt, ok := brkText[s.Brk]
		if !ok {
			return "", false
		}
		sb.WriteString("; " + bt)
	}
	for i := len(closing) - 1; i >= 0; i-- {
		sb.WriteString(" " + closing[i])
	}
	sb.WriteString("\n")
	return sb.String(), true
}

// the place at which a rejected source fails, for signatures: the body the walk was in
func failPlace(s *AbsSource) string {
	switch s.Brk {
	case "pattern", "toplevel", "resolver":
		return s.Brk
	}
	if n := len(s.Loops); n > 1 {
		return "nested-loops"
	} else if n == 1 {
		return s.Loops[0] + "-body"
	}
	return map[string]string{"begin": "begin", "end": "end", "action": "action", "func": "function-body"}[s.Ctx]
}

// what a source probes, for signatures
func probeKind(s *AbsSource) string {
	where := map[string]string{"begin": "begin", "end": "end", "action": "action", "func": "function"}[s.Ctx]
	k := s.Stmt
	switch s.Stmt {
	case "break", "continue":
		if len(s.Loops) == 0 {
			k += "-outside-loop"
		} else {
			k += "-inside-loop"
		}
	case "next", "nextfile", "return":
		k += "-in-" + where
	}
	if s.Brk != "none" {
		k += "-then-" + s.Brk + "-error"
	}
	return k
}

func outcomeKey(o *parseOutcome) string {
	switch {
	case o.panicked != "":
		return "panic: " + o.panicked
	case o.accepted:
		return "accept " + hx.ShortHash([]byte(o.disasm)) + " " + hx.ShortHash([]byte(o.compiled))
	}
	return o.errText
}

// firstSeen: source text -> outcome key of the first parse of that text in this process
var firstSeen sync.Map

// ---- parses in a process of their own ---------------------------------------------------------------------

type freshResult struct {
	Keys     []string `json:"keys"` // outcome of every text, in the order parsed
	Accepted []bool   `json:"accepted"`
	ok       bool
}

var freshCache sync.Map // texts joined -> *freshResult
var freshSem = make(chan struct{}, 4)
var freshRuns int32

// FreshRunsMax bounds the number of child processes started to confirm
// deviations (only a tree that violates the property starts any).
const FreshRunsMax = 160

// FreshParseMode is `vreplay C19 freshparse`: parse the texts on standard
// input (a JSON array of strings) in that order in this new process, on one
// goroutine, and print the outcome of each.
func FreshParseMode(args []string) int {
	var texts []string
	b, err := io.ReadAll(os.Stdin)
	if err != nil || json.Unmarshal(b, &texts) != nil {
		return 2
	}
	res := freshResult{Keys: []string{}, Accepted: []bool{}}
	for _, t := range texts {
		o := parseOnce(t, nil)
		res.Keys = append(res.Keys, outcomeKey(&o))
		res.Accepted = append(res.Accepted, o.accepted)
	}
	out, _ := json.Marshal(res)
	os.Stdout.Write(out)
	return 0
}

// freshParse parses texts, in that order, in a new process.
func freshParse(texts []string) *freshResult {
	ck := strings.Join(texts, "\x00")
	if v, ok := freshCache.Load(ck); ok {
		return v.(*freshResult)
	}
	res := &freshResult{}
	if atomic.AddInt32(&freshRuns, 1) > FreshRunsMax {
		return res
	}
	freshSem <- struct{}{}
	defer func() { <-freshSem }()
	if exe, err := os.Executable(); err == nil {
		in, _ := json.Marshal(texts)
		cmd := exec.Command(exe, "C19", "freshparse")
		cmd.Stdin = bytes.NewReader(in)
		var out bytes.Buffer
		cmd.Stdout = &out
		done := make(chan error, 1)
		if err := cmd.Start(); err == nil {
			go func() { done <- cmd.Wait() }()
			select {
			case werr := <-done:
				if werr == nil && json.Unmarshal(out.Bytes(), res) == nil && len(res.Keys) == len(texts) && len(res.Accepted) == len(texts) {
					res.ok = true
				}
			case <-time.After(60 * time.Second):
				cmd.Process.Kill()
				<-done
			}
		}
	}
	v, _ := freshCache.LoadOrStore(ck, res)
	return v.(*freshResult)
}

func replayHistory(raw json.RawMessage) hx.Outcome {
	var c HistoryCase
	if err := json.Unmarshal(raw, &c); err != nil || len(c.Hist) == 0 {
		return hx.Outcome{Skipped: true, Note: "bad case"}
	}
	texts := make([]string, len(c.Hist))
	for i := range c.Hist {
		if c.Hist[i].V != "accept" && c.Hist[i].V != "reject" {
			return hx.Outcome{Skipped: true, Note: "bad verdict"}
		}
		t, ok := RenderSource(&c.Hist[i])
		if !ok {
			return hx.Outcome{Skipped: true, Note: "unknown source"}
		}
		texts[i] = t
	}
	whole := func() string {
		var sb strings.Builder
		for i, t := range texts {
			fmt.Fprintf(&sb, "# source %d of the history (specified: %s)\n%s", i+1, c.Hist[i].V, t)
		}
		return sb.String()
	}
	lastFail := ""
	sensitive := false
	var parsed []string // the texts parsed so far, all rounds
	for round := 0; round < HistoryRounds; round++ {
		for i := range texts {
			s := &c.Hist[i]
			o := parseOnce(texts[i], nil)
			parsed = append(parsed, texts[i])
			key := outcomeKey(&o)
			if lastFail != "" && s.Stmt != "plain" && s.Stmt != "print" {
				sensitive = true
			}
			first, _ := firstSeen.LoadOrStore(texts[i], key)
			specAccept := s.V == "accept"
			if first.(string) != key || o.accepted != specAccept || o.panicked != "" {
				pos := fmt.Sprintf("source %d of %d, round %d", i+1, len(texts), round+1)
				// confirm in a process of its own: the text alone ...
				fr := freshParse([]string{texts[i]})
				exp := map[string]any{"specified": s.V, "error class": s.Err, "first parse of this text in the process": first}
				what := "verdict"
				switch {
				case o.panicked != "":
					what = "panic"
				case fr.ok && o.accepted == fr.Accepted[0] && o.accepted:
					what = "program"
				case fr.ok && o.accepted == fr.Accepted[0]:
					what = "error"
				}
				if !fr.ok {
					return hx.Fail("C19/parse-history/"+what+"-unconfirmed/"+probeKind(s), "the outcome of a parse differs from the specification or from the first parse of the same text ("+pos+"); no parse in a new process was run to confirm it",
						exp, key, whole())
				}
				exp["a new process"] = fr.Keys[0]
				if fr.Keys[0] == key && fr.Accepted[0] != specAccept {
					return hx.Fail("C19/parse-history/verdict/spec-"+s.V+"/"+probeKind(s), "the verdict differs from the specification's, in a new process too ("+pos+")", exp, key, whole())
				}
				if fr.Keys[0] == key {
					// this parse is what a new process gives: the FIRST parse of the text in this process was not
					return hx.Fail("C19/parse-history/verdict-varies/"+probeKind(s)+"-at-its-first-parse-in-the-process",
						"the first parse of this text in the process gave another outcome than this one ("+pos+") and than a new process", exp, key, whole())
				}
				// ... and this history up to here: is it the cause, or other parses of the process?
				after := "-after-other-parses-in-the-process"
				if lastFail == "" {
					after = "-after-successful-parses"
				}
				if hr := freshParse(parsed); hr.ok {
					exp["this history in a new process"] = hr.Keys
					if hr.Keys[len(parsed)-1] != fr.Keys[0] {
						if lastFail != "" {
							after = "-after-failure-in-" + lastFail
						}
					} else {
						after = "-after-other-parses-in-the-process"
					}
				}
				if what == "panic" {
					return hx.Fail("C19/parse-history/panic/"+probeKind(s)+after, "ParseProgram panicked instead of returning ("+pos+"): "+o.panicked, exp, key, whole())
				}
				return hx.Fail("C19/parse-history/"+what+"-varies/"+probeKind(s)+after,
					fmt.Sprintf("%s: the %s of parsing this text differs from that of parsing it in a new process; the specification says %s", pos, what, s.V),
					exp, key, whole())
			}
			if s.V == "reject" {
				lastFail = failPlace(s)
			}
		}
	}
	return hx.OK(sensitive)
}

// ---- code -> spec: recorded histories for Trace_ParseHistory.tla ---------------------------------------------

var histCtxs = []string{"begin", "end", "action", "func"}
var histLoops = []string{"while", "for", "forin", "do"}
var histStmts = []string{"plain", "print", "next", "nextfile", "break", "continue", "return",
	"getline-cmd", "getline-file", "in-multi", "print-multi", "stray-multi"}
var histBrks = []string{"syntax", "lex", "eof", "pipe", "inlist", "afterlist", "pattern", "toplevel", "resolver"}

func randSource(r *rand.Rand) AbsSource {
	s := AbsSource{Ctx: histCtxs[r.Intn(len(histCtxs))], Loops: []string{}, Stmt: histStmts[r.Intn(len(histStmts))], Brk: "none"}
	depth := []int{0, 0, 1, 1, 2, 3, 4}[r.Intn(7)]
	for i := 0; i < depth; i++ {
		s.Loops = append(s.Loops, histLoops[r.Intn(len(histLoops))])
	}
	if r.Intn(2) == 0 {
		s.Brk = histBrks[r.Intn(len(histBrks))]
		if s.Brk == "pattern" {
			s.Ctx = "action"
		}
	}
	return s
}

// RecordHistories is `vreplay C19 record-history -seed S -n N -out F`: N
// histories of 6-12 random abstract sources (deeper loop nests than the
// exported ones), all parsed by this one process, on one goroutine.
func RecordHistories(args []string) int {
	fs := flag.NewFlagSet("record-history", flag.ContinueOnError)
	seed := fs.Int64("seed", 1, "seed")
	n := fs.Int("n", 100, "number of histories")
	outp := fs.String("out", "", "output file")
	if fs.Parse(args) != nil || *outp == "" {
		return 2
	}
	r := rand.New(rand.NewSource(*seed))
	f, err := os.Create(*outp)
	if err != nil {
		fmt.Fprintln(os.Stderr, err)
		return 2
	}
	defer f.Close()
	w := bufio.NewWriter(f)
	defer w.Flush()
	emit := func(v any) {
		b, _ := json.Marshal(v)
		w.Write(b)
		w.WriteByte('\n')
	}
	first := map[string]string{}
	for h := 0; h < *n; h++ {
		emit(map[string]any{"ev": "reset"})
		lastFail := ""
		for k, hl := 0, 6+r.Intn(7); k < hl; k++ {
			s := randSource(r)
			text, ok := RenderSource(&s)
			if !ok {
				continue
			}
			o := parseOnce(text, nil)
			key := outcomeKey(&o)
			if _, seen := first[text]; !seen {
				first[text] = key
			}
			v := "reject"
			if o.panicked != "" {
				v = "panic"
			} else if o.accepted {
				v = "accept"
			}
			after := "-after-no-failure"
			if lastFail != "" {
				after = "-after-failure-in-" + lastFail
			}
			emit(map[string]any{"ev": "step", "op": "parse", "src": map[string]any{"ctx": s.Ctx, "loops": s.Loops, "stmt": s.Stmt, "brk": s.Brk},
				"v": v, "same": first[text] == key, "probe": probeKind(&s), "after": after, "text": text, "outcome": key, "first": first[text]})
			if v != "accept" {
				lastFail = failPlace(&s)
			}
		}
	}
	fmt.Printf("recorded %d histories\n", *n)
	return 0
}
