package c19

import (
	"bufio"
	"encoding/json"
	"fmt"
	"math/rand"
	"os"
	"strings"
	"sync"

	"github.com/benhoyt/goawk/interp"
	"github.com/benhoyt/goawk/parser"
	"github.com/benhoyt/goawk/verifharness/c16"
)

// G interpreters share one Program.
const G = 8

type source struct {
	name  string
	src   string
	input string
	funcs map[string]any
	prog  *c16.Prog // the abstract program the source was rendered from, if any
	// variant, if set, changes an ENTRY of funcs (same map, same name, same type, another function value)
	// between two sequential executions; nvariants is the number of variants (0 or 1: none)
	variant   func(funcs map[string]any, v int)
	nvariants int
}

// Apis are the execution interfaces, in the order in which the executions
// of a trace cycle through them (so that executions number 1, 4, 7 are
// consecutive calls of ExecProgram on the one Program).
var Apis = []string{ApiNewExecute, ApiExecProgram, ApiNewExecuteContext}

// Seq is the number of sequential executions of a trace.
const Seq = 9

var nativeFuncs = map[string]any{
	"na": func(n int) int { return n + 1 },
	"nb": func(s string) string { return s + "!" },
	"nc": func(a, b float64) float64 { return a * b },
}

// fixed menu: the features whose implementation keeps per-program or
// per-interpreter caches (regexes, formats, fields, arrays, functions)
var menu = []source{
	{"regex-literal", `{ if ($0 ~ /^a+b/) n++; if ($1 ~ /c$/) m++ } END { print n + 0, m + 0 }`, "aab c\nxc d\nab\n", nil, nil, nil, 0},
	{"regex-dynamic", `BEGIN { r = "^[ab]+" } { if (match($0, r)) print RSTART, RLENGTH; sub(r, "<&>"); print }`, "abba x\nzz\nbab\n", nil, nil, nil, 0},
	{"printf-formats", `{ printf "%5.2f|%-4s|%d|%c\n", $1, $2, $1, $2 } END { printf "%s %s\n", NR, sprintf("%03d", NR) }`, "3.14159 abc\n2 z\n", nil, nil, nil, 0},
	{"arrays-split", `{ n = split($0, parts, ","); for (i = 1; i <= n; i++) cnt[parts[i]]++ } END { print cnt["a"] + 0, cnt["b"] + 0, length(cnt) }`, "a,b,a\nb,c\n", nil, nil, nil, 0},
	{"functions-recursion", `function fib(n) { return n < 2 ? n : fib(n-1) + fib(n-2) } function fill(arr, n,  i) { for (i = 0; i < n; i++) arr[i] = fib(i) } BEGIN { fill(t, 12); print t[11], length(t) }`, "", nil, nil, nil, 0},
	{"fields-assign", `{ $2 = "X"; NF = 3; print; print NF } END { $0 = "p q r s"; print $3, NF }`, "a b c d\ne\n", nil, nil, nil, 0},
	{"getline-vars", `BEGIN { while ((getline line) > 0) { n++; s = s line ";" } print n, s; OFS = "-"; $0 = "x y"; $1 = $1; print }`, "l1\nl2\nl3\n", nil, nil, nil, 0},
	{"gsub-tolower-substr", `{ x = $0; gsub(/[aeiou]/, "#", x); print toupper(substr(x, 2, 4)), index($0, "b"), length() }`, "abecedarian\nrhythm\n", nil, nil, nil, 0},
	{"range-next-exit", `NR == 2, NR == 3 { print "in", $0; next } { print "out", $0 } NR == 5 { exit 3 }`, "1\n2\n3\n4\n5\n6\n", nil, nil, nil, 0},
	{"numeric-strings", `{ print ($1 == $2), ($1 < $2), $1 + $2, $1 $2 } END { CONVFMT = "%.2g"; a = 3.14159; b = a ""; print b }`, "10 9\nabc abd\n1e2 100\n", nil, nil, nil, 0},
	{"natives", `function fa(x) { return na(x) } function fb(y) { return nb(y) } { print fa($1), fb($2), nc($1, 2) }`, "1 a\n5 bc\n", nativeFuncs, nil, nil, 0},
	// the SAME regular expression source as a stand-alone pattern (the object compiled into the Program) and in the
	// positions where the interpreter compiles it at run time (match, gsub, split, ~ with a field, a dynamic string);
	// a|ab tells leftmost-longest from leftmost-first
	{"regex-same-source", `/a|ab/ { n++ } { if (match($0, /a|ab/)) print RSTART, RLENGTH; x = $0; k = gsub(/a|ab/, "<&>", x); print k, x; print split($0, parts, /a|ab/); if ($1 ~ /a|ab/) m++; r = "a|ab"; if ($0 ~ r) d++ } END { print n + 0, m + 0, d + 0 }`, "xaby ab\nzzz\nabab\n", nil, nil, nil, 0},
	{"regex-same-source-sub", `/^[0-9]+|x/ { c++ } { y = $0; sub(/^[0-9]+|x/, "#", y); print y; if (y ~ /b+/) print "b:", match(y, /b+/), RLENGTH } /b+/ { b++ } END { print c + 0, b + 0 }`, "123abc\nxbbx\nq\n", nil, nil, nil, 0},
	// output that depends on the random generator: every execution starts from the same seed
	{"rand-no-srand", `BEGIN { for (i = 0; i < 5; i++) printf "%d ", int(rand() * 1000); print "" } { print int(rand() * 100) }`, "a\nb\n", nil, nil, nil, 0},
	{"srand-return", `BEGIN { print srand(42); print srand(7); print int(rand() * 1000); print srand(7); print int(rand() * 1000) }`, "", nil, nil, nil, 0},
	{"rand-pick", `function pick(n,  i, s) { for (i = 1; i <= n; i++) if (rand() < 0.5) s = s " " i; return s } BEGIN { print "picked:" pick(10) } END { print srand() }`, "", nil, nil, nil, 0},
	// the Go functions of Config.Funcs change (same map, same names and types) between two sequential executions
	{"natives-variant", `{ print na($1), nb($2) }`, "1 a\n5 bc\n", map[string]any{
		"na": func(n int) int { return n + 1 },
		"nb": func(s string) string { return s + "!" },
	}, nil, func(funcs map[string]any, v int) {
		k := v
		funcs["na"] = func(n int) int { return n + 1 + 10*k }
	}, 2},
	{"uninit-delete-in", `BEGIN { if (!("k" in arr)) print "absent"; arr["k"]; if ("k" in arr) print "present"; delete arr["k"]; print length(arr), x + 0, "[" y "]" }`, "", nil, nil, nil, 0},
}

// shellIDs: sources that START COMMANDS (system, cmd | getline, print | cmd, close) with a command string built from
// the variable id, and the number of different ids their executions cycle through.  The id -- the command string --
// is private to an execution (SharedProgram!CmdOf): execution number k of a trace runs with id = 101 + k mod n as
// "variant" vk, and must produce what a single execution with THAT id produces.
var shellIDs = map[string]int{"shell-system-getline": 4, "shell-print-pipe": 4}

func init() {
	menu = append(menu,
		source{name: "shell-system-getline", src: `BEGIN { system("echo " id); ("echo " id) | getline x; print "got", x; r = (("echo " id) | getline y); print r, "[" y "]"; close("echo " id); ("echo " id) | getline y; print y }`},
		source{name: "shell-print-pipe", src: `{ print $1 | ("echo " id "; read v; echo $v"); close("echo " id "; read v; echo $v") } END { system("echo end " id) }`, input: "a\nb\n"},
	)
}

// range rules: the in-range state of a rule is state of the EXECUTION (SharedProgram: interp[i].open) -- executions
// that end while a range is open (input exhausted, exit, a range that never closes beside one that does), so that
// anything an execution leaves behind would show in the next one
func init() {
	menu = append(menu,
		source{name: "range-open-at-end", src: `$1 == "begin", $1 == "end" { print "in:", $0 } END { print NR }`, input: "header\nbegin\nbody\n"},
		source{name: "range-exit-inside", src: `NR == 2, NR == 4 { n++; if (NR == 3) exit n } { print "rec", NR, n + 0 }`, input: "1\n2\n3\n4\n5\n"},
		source{name: "range-two-rules", src: `/a/, /b/ { print "ab:" $0 } /c/, /nomatch/ { print "c:" $0 } NR == 1, NR == 1 { print "one:" $0 }`, input: "x\na\nc\nb\nd\n"},
		source{name: "range-in-function-state", src: `function inr() { return k++ > 0 } inr(), 0 { print "r", NR }`, input: "p\nq\nr\n"},
	)
}

// fmtIDs: sources whose executions get their OWN number formats (Config.Vars OFMT / CONVFMT: private state of the
// interpreter, like the command string) and convert non-integer numbers; execution number k of a trace runs with
// variant vk = the k-th pair of fmtPairs and must produce what a single execution with THAT pair produces.
var fmtIDs = map[string]int{"formats-per-execution": 4, "formats-per-execution-records": 4}
var fmtPairs = [][2]string{{"%.2f", "%.4f"}, {"%.3g", "%.1f"}, {"%g", "%.8g"}, {"%.5e", "%G"}}

func init() {
	menu = append(menu,
		// OFMT and CONVFMT set by the program, different from the default and from each other
		source{name: "formats-ofmt-convfmt", src: `BEGIN { OFMT = "%.2f"; CONVFMT = "%.4f" } { x = $1 / 7; s = x ""; print x, s; t = t s " " } END { print t; print NR / 3, (NR / 3) "" }`,
			input: "1\n22\n333\n4.5\n1e3\n"},
		// ... and given to every execution as its own variables
		source{name: "formats-per-execution", src: `BEGIN { for (i = 1; i <= 40; i++) { x = i / 7 + 100; s = x ""; print x, s } }`},
		source{name: "formats-per-execution-records", src: `{ x = $1 / 3; arr[x] = NR; print x, (x "") } END { n = 0; for (k in arr) n++; print n, 2 / 3, (2 / 3) "" }`,
			input: "1\n2\n4\n5\n7\n0.5\n1e-3\n"},
	)
}

func varsOf(s *source, k int) []string {
	if shellIDs[s.name] > 0 {
		return []string{"id", fmt.Sprint(101 + k)}
	}
	if n := fmtIDs[s.name]; n > 0 {
		return []string{"OFMT", fmtPairs[k%n][0], "CONVFMT", fmtPairs[k%n][1]}
	}
	return nil
}

// privateVariants: the number of different sets of private variables the executions of a source cycle through
func privateVariants(s *source) int {
	if n := shellIDs[s.name]; n > 0 {
		return n
	}
	return fmtIDs[s.name]
}

// runOnce: one execution through the named interface; k selects the private variables of the execution (varsOf)
func runOnce(prog *parser.Program, s *source, api string, k int) string {
	res := ""
	for try := 0; try < 3; try++ {
		var out lockedBuf // see shell.go: os/exec writes a command's output from a goroutine of its own
		status, err, pv := 0, error(nil), any(nil)
		func() {
			defer func() { pv = recover() }()
			status, err = ExecVia(api, prog, &interp.Config{Stdin: &lockedReader{r: strings.NewReader(s.input)}, Output: &out, Error: &out,
				Environ: []string{}, Funcs: s.funcs, Vars: varsOf(s, k)})
		}()
		res = fmt.Sprintf("status=%d err=%v panic=%v out=%q", status, err, pv, out.String())
		// a starved machine loses the output of a command (os/exec gives its copying goroutines Cmd.WaitDelay = 250 ms
		// after the child has exited, and says so): the environment's doing, the execution is repeated
		if shellIDs[s.name] == 0 || !strings.Contains(res, "WaitDelay expired") {
			break
		}
	}
	return res
}

func variantName(v int) string { return fmt.Sprintf("v%d", v) }

func varies(v Variation, src string, cfg *parser.ParserConfig) string {
	switch v.Kind {
	case "":
		return ""
	case "disassembly-varies":
		return "disassembly-varies/" + disasmDiffClass(src, cfg)
	case "error-varies":
		return "error-varies/recorded"
	}
	return v.Kind + "/recorded"
}

// recordOne writes the events of one trace: parse, Seq sequential executions
// cycling through the execution interfaces (and through the variants of
// Config.Funcs, if the source has any), then G concurrent goroutines each
// executing `rounds` times through its interface.
func recordOne(emit func(any), s *source, rounds int) error {
	cfg := &parser.ParserConfig{Funcs: s.funcs}
	emit(map[string]any{"ev": "reset"})
	v := ParseMany(s.src, cfg, Parses)
	pj := map[string]any{"funcs": []any{}, "main": []any{}}
	if s.prog != nil {
		pj = c16.ProgJSON(s.prog)
	}
	emit(map[string]any{"ev": "step", "op": "parses", "name": s.name, "n": Parses, "distinct": v.Distinct,
		"varies": varies(v, s.src, cfg), "samples": v.Samples, "src": s.src, "hasprog": s.prog != nil, "prog": pj})
	prog, err := parser.ParseProgram([]byte(s.src), cfg)
	if err != nil {
		return nil // a rejected source has nothing to execute
	}
	own, err := parser.ParseProgram([]byte(s.src), cfg)
	if err != nil {
		return fmt.Errorf("second parse of %s failed: %v", s.name, err)
	}
	nv := s.nvariants
	if nv < 1 {
		nv = 1
	}
	if privateVariants(s) > 0 {
		nv = privateVariants(s)
	}
	setVariant := func(k int) {
		if s.variant != nil {
			s.variant(s.funcs, k)
		}
	}
	// what a single execution produces, per variant: on a Program of its own, with a new interpreter
	solo := map[string]any{}
	for k := 0; k < nv; k++ {
		setVariant(k)
		solo[variantName(k)] = runOnce(own, s, ApiNewExecute, k)
	}
	d0 := Digest(prog)
	emit(map[string]any{"ev": "step", "op": "parse", "name": s.name, "digest": d0, "solo": solo, "src": s.src})
	for i := 0; i < Seq; i++ {
		k := (i / len(Apis)) % nv // executions 1-3 variant 0, 4-6 variant 1, ...
		setVariant(k)
		api := Apis[i%len(Apis)]
		before := Digest(prog)
		r := runOnce(prog, s, api, k)
		emit(map[string]any{"ev": "step", "op": "exec", "proc": i + 1, "phase": "seq", "api": api, "variant": variantName(k),
			"before": before, "after": Digest(prog), "result": r})
	}
	setVariant(0) // the map is not touched while the goroutines run
	type rec struct {
		proc          int
		before, after string
		result        string
	}
	// the variant (private variables) of goroutine i: its own command string for sources that start commands
	concVariant := func(i int) int {
		if privateVariants(s) > 0 {
			return i % nv
		}
		return 0
	}
	recs := make([][]rec, G)
	var wg sync.WaitGroup
	start := make(chan struct{})
	for i := 0; i < G; i++ {
		wg.Add(1)
		go func(i int) {
			defer wg.Done()
			<-start
			for k := 0; k < rounds; k++ {
				before := Digest(prog)
				r := runOnce(prog, s, Apis[i%len(Apis)], concVariant(i))
				recs[i] = append(recs[i], rec{i + 1, before, Digest(prog), r})
			}
		}(i)
	}
	close(start)
	wg.Wait()
	for i := 0; i < G; i++ {
		for _, r := range recs[i] {
			emit(map[string]any{"ev": "step", "op": "exec", "proc": r.proc, "phase": "conc", "api": Apis[i%len(Apis)], "variant": variantName(concVariant(i)),
				"before": r.before, "after": r.after, "result": r.result})
		}
	}
	return nil
}

// Record: the fixed menu, then n random programs of c16.GenProg (accepted
// ones are executed, rejected ones only parsed repeatedly).
func Record(seed int64, n int, out string) (int, error) {
	r := rand.New(rand.NewSource(seed))
	f, err := os.Create(out)
	if err != nil {
		return 0, err
	}
	defer f.Close()
	w := bufio.NewWriter(f)
	defer w.Flush()
	emit := func(v any) {
		b, _ := json.Marshal(v)
		w.Write(b)
		w.WriteByte('\n')
	}
	cnt := 0
	for i := range menu {
		if err := recordOne(emit, &menu[i], 3); err != nil {
			return cnt, err
		}
		cnt++
	}
	for t := 0; t < n; t++ {
		p := c16.GenProg(r)
		ords := c16.Orders(len(p.Funcs))
		s := &source{name: fmt.Sprintf("random-%d", t), src: c16.Render(p, &c16.Plain, ords[r.Intn(len(ords))], r.Intn(2) == 0), prog: p}
		if err := recordOne(emit, s, 2); err != nil {
			return cnt, err
		}
		cnt++
	}
	return cnt, nil
}
