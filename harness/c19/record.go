package c19

import (
	"bufio"
	"bytes"
	"encoding/json"
	"fmt"
	"math/rand"
	"os"
	"strings"
	"sync"

	"github.com/benhoyt/goawk/interp"
	"github.com/benhoyt/goawk/parser"
	"github.com/benhoyt/goawk/verifharness/c16"
)

// G interpreters share one Program.
const G = 8

type source struct {
	name  string
	src   string
	input string
	funcs map[string]any
	prog  *c16.Prog // the abstract program the source was rendered from, if any
}

var nativeFuncs = map[string]any{
	"na": func(n int) int { return n + 1 },
	"nb": func(s string) string { return s + "!" },
	"nc": func(a, b float64) float64 { return a * b },
}

// fixed menu: the features whose implementation keeps per-program or
// per-interpreter caches (regexes, formats, fields, arrays, functions)
var menu = []source{
	{"regex-literal", `{ if ($0 ~ /^a+b/) n++; if ($1 ~ /c$/) m++ } END { print n + 0, m + 0 }`, "aab c\nxc d\nab\n", nil, nil},
	{"regex-dynamic", `BEGIN { r = "^[ab]+" } { if (match($0, r)) print RSTART, RLENGTH; sub(r, "<&>"); print }`, "abba x\nzz\nbab\n", nil, nil},
	{"printf-formats", `{ printf "%5.2f|%-4s|%d|%c\n", $1, $2, $1, $2 } END { printf "%s %s\n", NR, sprintf("%03d", NR) }`, "3.14159 abc\n2 z\n", nil, nil},
	{"arrays-split", `{ n = split($0, parts, ","); for (i = 1; i <= n; i++) cnt[parts[i]]++ } END { print cnt["a"] + 0, cnt["b"] + 0, length(cnt) }`, "a,b,a\nb,c\n", nil, nil},
	{"functions-recursion", `function fib(n) { return n < 2 ? n : fib(n-1) + fib(n-2) } function fill(arr, n,  i) { for (i = 0; i < n; i++) arr[i] = fib(i) } BEGIN { fill(t, 12); print t[11], length(t) }`, "", nil, nil},
	{"fields-assign", `{ $2 = "X"; NF = 3; print; print NF } END { $0 = "p q r s"; print $3, NF }`, "a b c d\ne\n", nil, nil},
	{"getline-vars", `BEGIN { while ((getline line) > 0) { n++; s = s line ";" } print n, s; OFS = "-"; $0 = "x y"; $1 = $1; print }`, "l1\nl2\nl3\n", nil, nil},
	{"gsub-tolower-substr", `{ x = $0; gsub(/[aeiou]/, "#", x); print toupper(substr(x, 2, 4)), index($0, "b"), length() }`, "abecedarian\nrhythm\n", nil, nil},
	{"range-next-exit", `NR == 2, NR == 3 { print "in", $0; next } { print "out", $0 } NR == 5 { exit 3 }`, "1\n2\n3\n4\n5\n6\n", nil, nil},
	{"numeric-strings", `{ print ($1 == $2), ($1 < $2), $1 + $2, $1 $2 } END { CONVFMT = "%.2g"; a = 3.14159; b = a ""; print b }`, "10 9\nabc abd\n1e2 100\n", nil, nil},
	{"natives", `function fa(x) { return na(x) } function fb(y) { return nb(y) } { print fa($1), fb($2), nc($1, 2) }`, "1 a\n5 bc\n", nativeFuncs, nil},
	{"uninit-delete-in", `BEGIN { if (!("k" in arr)) print "absent"; arr["k"]; if ("k" in arr) print "present"; delete arr["k"]; print length(arr), x + 0, "[" y "]" }`, "", nil, nil},
}

func runOnce(prog *parser.Program, s *source) string {
	var out bytes.Buffer
	status, err, pv := 0, error(nil), any(nil)
	func() {
		defer func() { pv = recover() }()
		var in *interp.Interpreter
		in, err = interp.New(prog)
		if err != nil {
			return
		}
		status, err = in.Execute(&interp.Config{Stdin: strings.NewReader(s.input), Output: &out, Error: &out,
			Environ: []string{}, Funcs: s.funcs})
	}()
	return fmt.Sprintf("status=%d err=%v panic=%v out=%q", status, err, pv, out.String())
}

func varies(v Variation, src string, cfg *parser.ParserConfig) string {
	switch v.Kind {
	case "":
		return ""
	case "disassembly-varies":
		return "disassembly-varies/" + disasmDiffClass(src, cfg)
	case "error-varies":
		return "error-varies/recorded"
	}
	return v.Kind + "/recorded"
}

// RecordOne writes the events of one trace: parse, G sequential executions,
// then G concurrent goroutines each executing `rounds` times.
func recordOne(emit func(any), s *source, rounds int) error {
	cfg := &parser.ParserConfig{Funcs: s.funcs}
	emit(map[string]any{"ev": "reset"})
	v := ParseMany(s.src, cfg, Parses)
	pj := map[string]any{"funcs": []any{}, "main": []any{}}
	if s.prog != nil {
		pj = c16.ProgJSON(s.prog)
	}
	emit(map[string]any{"ev": "step", "op": "parses", "name": s.name, "n": Parses, "distinct": v.Distinct,
		"varies": varies(v, s.src, cfg), "samples": v.Samples, "src": s.src, "hasprog": s.prog != nil, "prog": pj})
	prog, err := parser.ParseProgram([]byte(s.src), cfg)
	if err != nil {
		return nil // a rejected source has nothing to execute
	}
	own, err := parser.ParseProgram([]byte(s.src), cfg)
	if err != nil {
		return fmt.Errorf("second parse of %s failed: %v", s.name, err)
	}
	solo := runOnce(own, s)
	d0 := Digest(prog)
	emit(map[string]any{"ev": "step", "op": "parse", "name": s.name, "digest": d0, "solo": solo, "src": s.src})
	for i := 0; i < G; i++ {
		before := Digest(prog)
		r := runOnce(prog, s)
		emit(map[string]any{"ev": "step", "op": "exec", "proc": i + 1, "phase": "seq", "before": before, "after": Digest(prog), "result": r})
	}
	type rec struct {
		proc          int
		before, after string
		result        string
	}
	recs := make([][]rec, G)
	var wg sync.WaitGroup
	start := make(chan struct{})
	for i := 0; i < G; i++ {
		wg.Add(1)
		go func(i int) {
			defer wg.Done()
			<-start
			for k := 0; k < rounds; k++ {
				before := Digest(prog)
				r := runOnce(prog, s)
				recs[i] = append(recs[i], rec{i + 1, before, Digest(prog), r})
			}
		}(i)
	}
	close(start)
	wg.Wait()
	for i := 0; i < G; i++ {
		for _, r := range recs[i] {
			emit(map[string]any{"ev": "step", "op": "exec", "proc": r.proc, "phase": "conc", "before": r.before, "after": r.after, "result": r.result})
		}
	}
	return nil
}

// Record: the fixed menu, then n random programs of c16.GenProg (accepted
// ones are executed, rejected ones only parsed repeatedly).
func Record(seed int64, n int, out string) (int, error) {
	r := rand.New(rand.NewSource(seed))
	f, err := os.Create(out)
	if err != nil {
		return 0, err
	}
	defer f.Close()
	w := bufio.NewWriter(f)
	defer w.Flush()
	emit := func(v any) {
		b, _ := json.Marshal(v)
		w.Write(b)
		w.WriteByte('\n')
	}
	cnt := 0
	for i := range menu {
		if err := recordOne(emit, &menu[i], 3); err != nil {
			return cnt, err
		}
		cnt++
	}
	for t := 0; t < n; t++ {
		p := c16.GenProg(r)
		ords := c16.Orders(len(p.Funcs))
		s := &source{name: fmt.Sprintf("random-%d", t), src: c16.Render(p, &c16.Plain, ords[r.Intn(len(ords))], r.Intn(2) == 0), prog: p}
		if err := recordOne(emit, s, 2); err != nil {
			return cnt, err
		}
		cnt++
	}
	return cnt, nil
}
