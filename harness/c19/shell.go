package c19

// Programs that start commands (SharedProgram.tla, instructions system /
// cmdgetline / printcmd / close; Gen_SharedProgram family "shell"): ONE
// parsed Program, NG executions each with an interpreter of its own and a
// COMMAND STRING of its own (`echo <id>`, id given as a variable through
// Config.Vars), first one after the other, then from NG goroutines at the
// same time, ShellIters executions per goroutine.  Every execution must
// produce what the specification predicts for ITS command string.  No
// schedule is imposed: the steps that matter (building the argument vector of
// the command, starting the process) lie inside one VM instruction; the same
// family is replayed under the race detector.

import (
	"bytes"
	"encoding/json"
	"fmt"
	"io"
	"strings"
	"sync"

	"github.com/benhoyt/goawk/interp"
	"github.com/benhoyt/goawk/parser"
	"github.com/benhoyt/goawk/verifharness/hx"
)

type ShellCase struct {
	Fam    string   `json:"fam"`
	Body   []Instr  `json:"body"`
	NG     int      `json:"ng"`
	Ids    []int    `json:"ids"`  // the id of every execution (SharedProgram!CmdVal(CmdOf(i)))
	Apis   []string `json:"apis"` // execution interface of every goroutine
	Expect []struct {
		Out []int `json:"out"`
		G   []int `json:"g"`
	} `json:"expect"`
}

// ShellIters is the number of executions per goroutine in the concurrent phase.
var ShellIters = 3

// the form of command start that produced output line j (0-based) of a body's output
func shellLineForms(body []Instr) []string {
	var forms []string
	src := map[int]string{1: "plain", 2: "plain"} // where the value of a, b comes from
	for _, in := range body {
		switch in.Op {
		case "system":
			forms = append(forms, "system")
		case "printcmd":
			forms = append(forms, "print-pipe", "print-pipe")
		case "print":
			forms = append(forms, src[in.G])
		case "cmdgetline":
			src[in.G] = "cmd-getline"
		case "set":
			src[in.G] = "plain"
		}
	}
	return append(forms, src[1], src[2])
}

// lockedBuf is the Output and Error of an execution that starts commands.  While a command is running, os/exec
// copies what the child writes to its standard output / error into these writers from a goroutine of its own, at the
// same time as the interpreter writes to them (a bytes.Buffer would be corrupted: its ReadFrom reads into the
// buffer's spare capacity while the interpreter appends).  That sharing inside ONE execution is not this
// property's subject (C13); the writer given to the interpreter is therefore safe for concurrent use.
type lockedBuf struct {
	mu sync.Mutex
	b  bytes.Buffer
}

func (l *lockedBuf) Write(p []byte) (int, error) {
	l.mu.Lock()
	defer l.mu.Unlock()
	return l.b.Write(p)
}

func (l *lockedBuf) String() string {
	l.mu.Lock()
	defer l.mu.Unlock()
	return l.b.String()
}

// lockedReader is the Stdin of such an execution: every command the program starts inherits the standard input of
// the execution, and os/exec feeds it to the child from one goroutine per command (strings.Reader.WriteTo from two
// of them at once is a data race of the harness's reader, not of goawk).
type lockedReader struct {
	mu sync.Mutex
	r  io.Reader
}

func (l *lockedReader) Read(p []byte) (int, error) {
	l.mu.Lock()
	defer l.mu.Unlock()
	return l.r.Read(p)
}

func runShell(prog *parser.Program, api string, id int) (string, error, any) {
	var out lockedBuf
	var err error
	var pv any
	func() {
		defer func() { pv = recover() }()
		_, err = ExecVia(api, prog, &interp.Config{Stdin: &lockedReader{r: strings.NewReader("")}, Output: &out, Error: &out, Environ: []string{},
			Vars: []string{"id", fmt.Sprint(id)}})
	}()
	return out.String(), err, pv
}

// Cases that start processes run one at a time: sixteen replay workers forking at once starve the goroutines
// that copy the commands' output (os/exec gives them Cmd.WaitDelay = 250 ms after the child has exited).
var shellMu sync.Mutex

// ShellTries: a result that differs WITHOUT showing another execution's command is taken as a verdict only if it
// differs in every one of ShellTries runs of the case (a starved machine loses command output, see above); output
// that names the expired WaitDelay is the environment's, and the case is then skipped.
var ShellTries = 3

func replayShell(raw json.RawMessage) hx.Outcome {
	shellMu.Lock()
	defer shellMu.Unlock()
	var last hx.Outcome
	for try := 0; try < ShellTries; try++ {
		last = replayShellOnce(raw)
		if last.Fail == nil || strings.HasPrefix(last.Fail.Sig, "C19/shared/command-of-another-interpreter/") || strings.HasPrefix(last.Fail.Sig, "C19/shared/program-modified/") {
			return last
		}
	}
	if s, ok := last.Fail.Observed.(string); ok && strings.Contains(s, "WaitDelay expired") {
		return hx.Outcome{Skipped: true, Note: "command output lost by the environment (WaitDelay expired)"}
	}
	return last
}

func replayShellOnce(raw json.RawMessage) hx.Outcome {
	var c ShellCase
	if err := json.Unmarshal(raw, &c); err != nil || c.NG < 1 || len(c.Ids) != c.NG || len(c.Expect) != c.NG || len(c.Apis) != c.NG {
		return hx.Outcome{Skipped: true, Note: "bad case"}
	}
	src, ok := RenderShared(c.Body)
	if !ok {
		return hx.Outcome{Skipped: true, Note: "unknown instruction"}
	}
	prog, err := parser.ParseProgram([]byte(src), nil)
	if err != nil {
		return hx.Outcome{Skipped: true, Note: "generated program rejected: " + err.Error()}
	}
	forms := shellLineForms(c.Body)
	others := map[string]bool{}
	want := make([]string, c.NG)
	for i := range c.Expect {
		var sb strings.Builder
		for _, v := range c.Expect[i].Out {
			fmt.Fprintf(&sb, "%d\n", v)
		}
		want[i] = sb.String()
		others[fmt.Sprint(c.Ids[i])] = true
	}
	// compare one execution's output with the prediction for its own command string
	judge := func(i int, phase, got string, xerr error, pv any) *hx.Outcome {
		api := c.Apis[i]
		who := fmt.Sprintf("execution with id %d (%s, %s)", c.Ids[i], phase, api)
		if pv != nil {
			o := hx.Fail("C19/shared/panic", fmt.Sprintf("%s panicked: %v", who, pv), want[i], nil, src)
			return &o
		}
		if xerr != nil {
			o := hx.Fail("C19/shared/result-differs/shell/"+phase+"-"+api, fmt.Sprintf("%s: error %v", who, xerr), want[i], got, src)
			return &o
		}
		if got == want[i] {
			return nil
		}
		gl, wl := strings.Split(got, "\n"), strings.Split(want[i], "\n")
		for j := range wl {
			if j < len(gl) && gl[j] != wl[j] && others[gl[j]] && j < len(forms) && forms[j] != "plain" {
				o := hx.Fail("C19/shared/command-of-another-interpreter/"+forms[j],
					fmt.Sprintf("%s: output line %d is %s, what the command of the execution with id %s prints; every execution has an interpreter and a command string of its own", who, j+1, gl[j], gl[j]),
					want[i], got, src)
				return &o
			}
		}
		o := hx.Fail("C19/shared/result-differs/shell/"+phase+"-"+api, who+" did not produce what the specification predicts for its command string", want[i], got, src)
		return &o
	}
	before := Digest(prog)
	for i := 0; i < c.NG; i++ {
		got, xerr, pv := runShell(prog, c.Apis[i], c.Ids[i])
		if f := judge(i, "seq", got, xerr, pv); f != nil {
			return *f
		}
	}
	type res struct {
		got string
		err error
		pv  any
	}
	results := make([][]res, c.NG)
	var wg sync.WaitGroup
	start := make(chan struct{})
	for i := 0; i < c.NG; i++ {
		wg.Add(1)
		go func(i int) {
			defer wg.Done()
			<-start
			for k := 0; k < ShellIters; k++ {
				got, xerr, pv := runShell(prog, c.Apis[i], c.Ids[i])
				results[i] = append(results[i], res{got, xerr, pv})
			}
		}(i)
	}
	close(start)
	wg.Wait()
	for i := range results {
		for _, r := range results[i] {
			if f := judge(i, "conc", r.got, r.err, r.pv); f != nil {
				return *f
			}
		}
	}
	if after := Digest(prog); before != after {
		return hx.Fail("C19/shared/program-modified/shell", "the structural digest of the Program changed during executions that start commands", before, after, src)
	}
	return hx.OK(c.NG > 1)
}
