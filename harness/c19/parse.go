package c19

import (
	"bytes"
	"encoding/json"
	"fmt"
	"sort"
	"strings"

	"github.com/benhoyt/goawk/parser"
	"github.com/benhoyt/goawk/verifharness/c16"
	"github.com/benhoyt/goawk/verifharness/hx"
)

// Parses is the number of times every source is parsed.
var Parses = 50

// Outcome of one parse, split into the parts the statement names.
type parseOutcome struct {
	accepted bool
	errText  string // message and position ("parse error at L:C: msg")
	disasm   string
	compiled string
	panicked string
}

func parseOnce(src string, cfg *parser.ParserConfig) (o parseOutcome) {
	defer func() {
		if r := recover(); r != nil {
			o = parseOutcome{panicked: fmt.Sprint(r)}
		}
	}()
	prog, err := parser.ParseProgram([]byte(src), cfg)
	if err != nil {
		return parseOutcome{errText: err.Error()}
	}
	var b bytes.Buffer
	if derr := prog.Disassemble(&b); derr != nil {
		b.WriteString("\nDISASSEMBLE ERROR: " + derr.Error())
	}
	return parseOutcome{accepted: true, disasm: b.String(), compiled: CompiledDigest(prog)}
}

// Variation describes how n parses of one source differed (empty: not at all).
type Variation struct {
	Kind     string // "", "panic", "verdict-varies", "error-varies", "compiled-varies", "disassembly-varies"
	Distinct int
	Samples  []string
	Accepted bool
}

// ParseMany parses src n times and reports whether anything the statement
// names varied.
func ParseMany(src string, cfg *parser.ParserConfig, n int) Variation {
	seen := map[string]int{}
	var acc, rej int
	errs, dis, comp := map[string]bool{}, map[string]bool{}, map[string]bool{}
	for i := 0; i < n; i++ {
		o := parseOnce(src, cfg)
		if o.panicked != "" {
			return Variation{Kind: "panic", Distinct: 1, Samples: []string{o.panicked}}
		}
		if o.accepted {
			acc++
			dis[o.disasm] = true
			comp[o.compiled] = true
			seen["accept "+hx.ShortHash([]byte(o.disasm))+" "+o.compiled[:12]]++
		} else {
			rej++
			errs[o.errText] = true
			seen[o.errText]++
		}
	}
	v := Variation{Distinct: len(seen), Accepted: acc > 0}
	for k, c := range seen {
		v.Samples = append(v.Samples, fmt.Sprintf("%dx %s", c, k))
	}
	sort.Strings(v.Samples)
	switch {
	case acc > 0 && rej > 0:
		v.Kind = "verdict-varies"
	case len(errs) > 1:
		v.Kind = "error-varies"
	case len(comp) > 1:
		v.Kind = "compiled-varies"
	case len(dis) > 1:
		v.Kind = "disassembly-varies"
	}
	return v
}

func disasmDiffClass(src string, cfg *parser.ParserConfig) string {
	// which line of the disassembly differs between two differing parses
	first := parseOnce(src, cfg)
	for i := 0; i < 200; i++ {
		o := parseOnce(src, cfg)
		if o.accepted && first.accepted && o.disasm != first.disasm {
			a, b := strings.Split(first.disasm, "\n"), strings.Split(o.disasm, "\n")
			for j := range a {
				if j < len(b) && a[j] != b[j] {
					if strings.Contains(a[j], "CallNative") {
						return "native-name-table"
					}
					return "other"
				}
			}
		}
	}
	return "other"
}

// replayParse: parse determinism on one Gen_Resolver export.
func replayParse(raw json.RawMessage) hx.Outcome {
	var c c16.Case
	if err := json.Unmarshal(raw, &c); err != nil || c.Verdict == "" {
		return hx.Outcome{Skipped: true, Note: "bad case"}
	}
	if len(c.Prog.Funcs) > 10 {
		return hx.Outcome{Skipped: true, Note: "too many functions"}
	}
	ords := c16.Orders(len(c.Prog.Funcs))
	src := c16.Render(&c.Prog, &c16.Plain, ords[0], false)
	v := ParseMany(src, nil, Parses)
	nerr := len(c.Errs)
	cls := fmt.Sprintf("%s-%dfuncs", c.Fam, len(c.Prog.Funcs))
	switch v.Kind {
	case "panic":
		return hx.Fail("C19/parse/panic", "parser panicked: "+v.Samples[0], c.Verdict, "panic", src)
	case "verdict-varies":
		return hx.Fail("C19/parse/verdict-varies/"+cls, fmt.Sprintf("%d parses of one source: both accepted and rejected", Parses), "one outcome", v.Samples, src)
	case "error-varies":
		mech := "unexplained"
		if nerr > 1 {
			// the as-built model (Resolver!PossibleOrders with MapOrder = "any") predicts several first errors:
			// the order in which function bodies are visited comes from Go map iteration
			mech = "body-order"
		}
		return hx.Fail("C19/parse/error-varies/"+mech, fmt.Sprintf("%d parses of one source gave %d different error messages/positions", Parses, v.Distinct),
			"one message and position", v.Samples, src)
	case "compiled-varies":
		return hx.Fail("C19/parse/compiled-varies/"+cls, fmt.Sprintf("%d parses of one source gave %d different compiled programs", Parses, v.Distinct), "one compiled program", v.Samples, src)
	case "disassembly-varies":
		return hx.Fail("C19/parse/disassembly-varies/"+disasmDiffClass(src, nil), fmt.Sprintf("%d parses of one source gave %d different disassemblies", Parses, v.Distinct), "one disassembly", v.Samples, src)
	}
	if v.Accepted != (c.Verdict == "accept") {
		return hx.Fail("C19/parse/verdict/spec-"+c.Verdict, "verdict of every parse differs from the specification's", c.Verdict, v.Samples, src)
	}
	return hx.OK(c.Norders > 1)
}

// ---- sources with several collected errors (Resolver.tla section 4, ResolverGen family "collect") ----

// CollectParses is the number of times a source with several collected
// errors is parsed.
var CollectParses = 200

type Site struct {
	L int    `json:"l"`
	C int    `json:"c"`
	K string `json:"k"`
}

type CollectCase struct {
	Fam      string `json:"fam"`
	Lines    int    `json:"lines"`
	Sites    []Site `json:"sites"`
	Verdict  string `json:"verdict"`
	Distinct int    `json:"distinct"` // number of different outcomes of repeated parses: 1
	Walks    int    `json:"walks"`    // orders in which the parser's table of comma lists can be walked
}

// RenderCollect writes the source: CLines lines of three places of equal
// width inside BEGIN; a place holds a harmless assignment or an error site.
// A later line's first place starts at a smaller column than an earlier
// line's second and third place.
func RenderCollect(lines int, sites []Site) (string, bool) {
	at := map[[2]int]string{}
	for _, st := range sites {
		if st.L < 1 || st.L > lines || st.C < 1 || st.C > 3 {
			return "", false
		}
		at[[2]int{st.L, st.C}] = st.K
	}
	var sb strings.Builder
	sb.WriteString("function f1(p) { return p }\nBEGIN {\n")
	for l := 1; l <= lines; l++ {
		sb.WriteString("  ")
		for c := 1; c <= 3; c++ {
			var text string
			switch at[[2]int{l, c}] {
			case "":
				text = fmt.Sprintf("n%d%d = 1;", l, c)
			case "comma": // an unused parenthesised comma list: kept in the parser's table until the end of the text
				text = fmt.Sprintf("(a%d%d, 1);", l, c)
			case "type": // a global used as an array and as a scalar
				text = fmt.Sprintf("t%d%d[1] = 1; t%d%d = 2;", l, c, l, c)
			case "undef": // a call of a function that is not defined
				text = fmt.Sprintf("u%d%d();", l, c)
			case "args": // more arguments than parameters
				text = "f1(1, 2);"
			default:
				return "", false
			}
			fmt.Fprintf(&sb, "%-28s", text)
		}
		sb.WriteString("\n")
	}
	sb.WriteString("}\n")
	return sb.String(), true
}

func collectClass(sites []Site) string {
	kinds := map[string]int{}
	for _, st := range sites {
		kinds[st.K]++
	}
	switch {
	case len(kinds) == 1 && kinds["comma"] > 0:
		return "comma-lists"
	case len(kinds) == 1:
		return sites[0].K + "-errors"
	case kinds["comma"] > 1:
		return "mixed-with-comma-lists"
	}
	return "mixed"
}

// replayCollect: a source with several independent errors, parsed
// CollectParses times: one verdict, one message and position.
func replayCollect(raw json.RawMessage) hx.Outcome {
	var c CollectCase
	if err := json.Unmarshal(raw, &c); err != nil || c.Verdict == "" {
		return hx.Outcome{Skipped: true, Note: "bad case"}
	}
	src, ok := RenderCollect(c.Lines, c.Sites)
	if !ok {
		return hx.Outcome{Skipped: true, Note: "unknown site"}
	}
	v := ParseMany(src, nil, CollectParses)
	cls := collectClass(c.Sites)
	switch v.Kind {
	case "panic":
		return hx.Fail("C19/parse/panic", "parser panicked: "+v.Samples[0], c.Verdict, "panic", src)
	case "verdict-varies":
		return hx.Fail("C19/parse/verdict-varies/collected-"+cls, fmt.Sprintf("%d parses of one source: both accepted and rejected", CollectParses), "one outcome", v.Samples, src)
	case "error-varies":
		return hx.Fail("C19/parse/error-varies/collected-"+cls,
			fmt.Sprintf("%d parses of one source with %d independent errors gave %d different error messages/positions", CollectParses, len(c.Sites), v.Distinct),
			"one message and position", v.Samples, src)
	case "compiled-varies", "disassembly-varies":
		return hx.Fail("C19/parse/"+v.Kind+"/collected", fmt.Sprintf("%d parses of one source gave %d different programs", CollectParses, v.Distinct), "one program", v.Samples, src)
	}
	if v.Accepted != (c.Verdict == "accept") {
		return hx.Fail("C19/parse/verdict/collected-spec-"+c.Verdict, "verdict of every parse differs from the specification's", c.Verdict, v.Samples, src)
	}
	if c.Distinct != 0 && v.Distinct != c.Distinct {
		return hx.Fail("C19/parse/outcomes/collected-"+cls, fmt.Sprintf("%d distinct outcomes, the specification says %d", v.Distinct, c.Distinct), c.Distinct, v.Samples, src)
	}
	return hx.OK(len(c.Sites) >= 2)
}

// Replay dispatches on the family of the exported behaviour.
func Replay(raw json.RawMessage) hx.Outcome {
	var head struct {
		Fam string `json:"fam"`
	}
	if err := json.Unmarshal(raw, &head); err != nil {
		return hx.Outcome{Skipped: true, Note: "bad case"}
	}
	if head.Fam == "shared" {
		return replayShared(raw)
	}
	if head.Fam == "collect" {
		return replayCollect(raw)
	}
	if head.Fam == "shell" {
		return replayShell(raw)
	}
	if head.Fam == "formats" {
		return replayFormats(raw)
	}
	if head.Fam == "history" {
		return replayHistory(raw)
	}
	return replayParse(raw)
}
