package c19

import (
	"bytes"
	"encoding/json"
	"fmt"
	"sort"
	"strings"

	"github.com/benhoyt/goawk/parser"
	"github.com/benhoyt/goawk/verifharness/c16"
	"github.com/benhoyt/goawk/verifharness/hx"
)

// Parses is the number of times every source is parsed.
var Parses = 50

// Outcome of one parse, split into the parts the statement names.
type parseOutcome struct {
	accepted bool
	errText  string // message and position ("parse error at L:C: msg")
	disasm   string
	compiled string
	panicked string
}

func parseOnce(src string, cfg *parser.ParserConfig) (o parseOutcome) {
	defer func() {
		if r := recover(); r != nil {
			o = parseOutcome{panicked: fmt.Sprint(r)}
		}
	}()
	prog, err := parser.ParseProgram([]byte(src), cfg)
	if err != nil {
		return parseOutcome{errText: err.Error()}
	}
	var b bytes.Buffer
	if derr := prog.Disassemble(&b); derr != nil {
		b.WriteString("\nDISASSEMBLE ERROR: " + derr.Error())
	}
	return parseOutcome{accepted: true, disasm: b.String(), compiled: CompiledDigest(prog)}
}

// Variation describes how n parses of one source differed (empty: not at all).
type Variation struct {
	Kind     string // "", "panic", "verdict-varies", "error-varies", "compiled-varies", "disassembly-varies"
	Distinct int
	Samples  []string
	Accepted bool
}

// ParseMany parses src n times and reports whether anything the statement
// names varied.
func ParseMany(src string, cfg *parser.ParserConfig, n int) Variation {
	seen := map[string]int{}
	var acc, rej int
	errs, dis, comp := map[string]bool{}, map[string]bool{}, map[string]bool{}
	for i := 0; i < n; i++ {
		o := parseOnce(src, cfg)
		if o.panicked != "" {
			return Variation{Kind: "panic", Distinct: 1, Samples: []string{o.panicked}}
		}
		if o.accepted {
			acc++
			dis[o.disasm] = true
			comp[o.compiled] = true
			seen["accept "+hx.ShortHash([]byte(o.disasm))+" "+o.compiled[:12]]++
		} else {
			rej++
			errs[o.errText] = true
			seen[o.errText]++
		}
	}
	v := Variation{Distinct: len(seen), Accepted: acc > 0}
	for k, c := range seen {
		v.Samples = append(v.Samples, fmt.Sprintf("%dx %s", c, k))
	}
	sort.Strings(v.Samples)
	switch {
	case acc > 0 && rej > 0:
		v.Kind = "verdict-varies"
	case len(errs) > 1:
		v.Kind = "error-varies"
	case len(comp) > 1:
		v.Kind = "compiled-varies"
	case len(dis) > 1:
		v.Kind = "disassembly-varies"
	}
	return v
}

func disasmDiffClass(src string, cfg *parser.ParserConfig) string {
	// which line of the disassembly differs between two differing parses
	first := parseOnce(src, cfg)
	for i := 0; i < 200; i++ {
		o := parseOnce(src, cfg)
		if o.accepted && first.accepted && o.disasm != first.disasm {
			a, b := strings.Split(first.disasm, "\n"), strings.Split(o.disasm, "\n")
			for j := range a {
				if j < len(b) && a[j] != b[j] {
					if strings.Contains(a[j], "CallNative") {
						return "native-name-table"
					}
					return "other"
				}
			}
		}
	}
	return "other"
}

// replayParse: parse determinism on one Gen_Resolver export.
func replayParse(raw json.RawMessage) hx.Outcome {
	var c c16.Case
	if err := json.Unmarshal(raw, &c); err != nil || c.Verdict == "" {
		return hx.Outcome{Skipped: true, Note: "bad case"}
	}
	if len(c.Prog.Funcs) > 10 {
		return hx.Outcome{Skipped: true, Note: "too many functions"}
	}
	ords := c16.Orders(len(c.Prog.Funcs))
	src := c16.Render(&c.Prog, &c16.Plain, ords[0], false)
	v := ParseMany(src, nil, Parses)
	nerr := len(c.Errs)
	cls := fmt.Sprintf("%s-%dfuncs", c.Fam, len(c.Prog.Funcs))
	switch v.Kind {
	case "panic":
		return hx.Fail("C19/parse/panic", "parser panicked: "+v.Samples[0], c.Verdict, "panic", src)
	case "verdict-varies":
		return hx.Fail("C19/parse/verdict-varies/"+cls, fmt.Sprintf("%d parses of one source: both accepted and rejected", Parses), "one outcome", v.Samples, src)
	case "error-varies":
		mech := "unexplained"
		if nerr > 1 {
			// the as-built model (Resolver!PossibleOrders with MapOrder = "any") predicts several first errors:
			// the order in which function bodies are visited comes from Go map iteration
			mech = "body-order"
		}
		return hx.Fail("C19/parse/error-varies/"+mech, fmt.Sprintf("%d parses of one source gave %d different error messages/positions", Parses, v.Distinct),
			"one message and position", v.Samples, src)
	case "compiled-varies":
		return hx.Fail("C19/parse/compiled-varies/"+cls, fmt.Sprintf("%d parses of one source gave %d different compiled programs", Parses, v.Distinct), "one compiled program", v.Samples, src)
	case "disassembly-varies":
		return hx.Fail("C19/parse/disassembly-varies/"+disasmDiffClass(src, nil), fmt.Sprintf("%d parses of one source gave %d different disassemblies", Parses, v.Distinct), "one disassembly", v.Samples, src)
	}
	if v.Accepted != (c.Verdict == "accept") {
		return hx.Fail("C19/parse/verdict/spec-"+c.Verdict, "verdict of every parse differs from the specification's", c.Verdict, v.Samples, src)
	}
	return hx.OK(c.Norders > 1)
}

// Replay dispatches on the family of the exported behaviour.
func Replay(raw json.RawMessage) hx.Outcome {
	var head struct {
		Fam string `json:"fam"`
	}
	if err := json.Unmarshal(raw, &head); err != nil {
		return hx.Outcome{Skipped: true, Note: "bad case"}
	}
	if head.Fam == "shared" {
		return replayShared(raw)
	}
	return replayParse(raw)
}
