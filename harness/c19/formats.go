package c19

// Programs that convert NON-INTEGER numbers (SharedProgram.tla, instructions oprint / conv; Gen_SharedProgram family
// "formats"): ONE parsed Program, NG executions each with an interpreter and NUMBER FORMATS of its own -- execution i
// gets OFMT = "%.<p>f" and CONVFMT = "%.<p+1>f" (p = fmts[i]) as variables of Config.Vars --, first one after the
// other, then NG goroutines x FormatIters executions at the same time.  Every output must be what the specification
// predicts for ITS formats: the number a + 1/4 written with p (print) or p + 1 (concatenation) fraction digits.

import (
	"bytes"
	"encoding/json"
	"fmt"
	"regexp"
	"strings"
	"sync"

	"github.com/benhoyt/goawk/interp"
	"github.com/benhoyt/goawk/parser"
	"github.com/benhoyt/goawk/verifharness/hx"
)

type FormatsCase struct {
	Fam    string   `json:"fam"`
	Body   []Instr  `json:"body"`
	NG     int      `json:"ng"`
	Fmts   []int    `json:"fmts"` // fraction digits of every execution's OFMT (SharedProgram!FmtOf(i))
	Apis   []string `json:"apis"`
	Expect []struct {
		Out []int `json:"out"`
		G   []int `json:"g"`
	} `json:"expect"`
}

// FormatIters is the number of executions per goroutine in the concurrent phase.
var FormatIters = 25

var numeralRE = regexp.MustCompile(`^[0-9]+\.[0-9]+$`)

// numeralLines rewrites every output line that is a numeral with fraction digits, d.ddd, as the specification writes
// it: the number of fraction digits, then the digits with the point left out (7.250 -> "3", "7250").
func numeralLines(out string) string {
	var sb strings.Builder
	for _, l := range strings.Split(strings.TrimSuffix(out, "\n"), "\n") {
		if numeralRE.MatchString(l) {
			i := strings.IndexByte(l, '.')
			digits := strings.TrimLeft(l[:i]+l[i+1:], "0") // as a number: 0.250 is <<3, 250>>
			if digits == "" {
				digits = "0"
			}
			fmt.Fprintf(&sb, "%d\n%s\n", len(l)-i-1, digits)
		} else {
			sb.WriteString(l + "\n")
		}
	}
	return sb.String()
}

func runFormats(prog *parser.Program, api string, p int) (string, error, any) {
	var out bytes.Buffer
	var err error
	var pv any
	func() {
		defer func() { pv = recover() }()
		_, err = ExecVia(api, prog, &interp.Config{Stdin: strings.NewReader(""), Output: &out, Error: &out, Environ: []string{},
			Vars: []string{"OFMT", fmt.Sprintf("%%.%df", p), "CONVFMT", fmt.Sprintf("%%.%df", p+1)}})
	}()
	return out.String(), err, pv
}

func replayFormats(raw json.RawMessage) hx.Outcome {
	var c FormatsCase
	if err := json.Unmarshal(raw, &c); err != nil || c.NG < 1 || len(c.Fmts) != c.NG || len(c.Expect) != c.NG || len(c.Apis) != c.NG {
		return hx.Outcome{Skipped: true, Note: "bad case"}
	}
	src, ok := RenderShared(c.Body)
	if !ok {
		return hx.Outcome{Skipped: true, Note: "unknown instruction"}
	}
	prog, err := parser.ParseProgram([]byte(src), nil)
	if err != nil {
		return hx.Outcome{Skipped: true, Note: "generated program rejected: " + err.Error()}
	}
	want := make([]string, c.NG)
	for i := range c.Expect {
		var sb strings.Builder
		for _, v := range c.Expect[i].Out {
			fmt.Fprintf(&sb, "%d\n", v)
		}
		want[i] = sb.String()
	}
	judge := func(i int, phase, raw string, xerr error, pv any) *hx.Outcome {
		api := c.Apis[i]
		who := fmt.Sprintf("execution with OFMT=%%.%df CONVFMT=%%.%df (%s, %s)", c.Fmts[i], c.Fmts[i]+1, phase, api)
		if pv != nil {
			o := hx.Fail("C19/shared/panic", fmt.Sprintf("%s panicked: %v", who, pv), want[i], nil, src)
			return &o
		}
		if xerr != nil {
			o := hx.Fail("C19/shared/result-differs/formats/"+phase+"-"+api, fmt.Sprintf("%s: error %v", who, xerr), want[i], raw, src)
			return &o
		}
		got := numeralLines(raw)
		if got == want[i] {
			return nil
		}
		o := hx.Fail("C19/shared/number-format-of-another-conversion/"+phase+"-"+api,
			who+" did not print its non-integer numbers with its own formats (the formats are state of the interpreter); output, "+
				"numerals written as <fraction digits>, <digits>", want[i], got, src)
		return &o
	}
	before := Digest(prog)
	for i := 0; i < c.NG; i++ {
		got, xerr, pv := runFormats(prog, c.Apis[i], c.Fmts[i])
		if f := judge(i, "seq", got, xerr, pv); f != nil {
			return *f
		}
	}
	type res struct {
		got string
		err error
		pv  any
	}
	results := make([][]res, c.NG)
	var wg sync.WaitGroup
	start := make(chan struct{})
	for i := 0; i < c.NG; i++ {
		wg.Add(1)
		go func(i int) {
			defer wg.Done()
			<-start
			for k := 0; k < FormatIters; k++ {
				got, xerr, pv := runFormats(prog, c.Apis[i], c.Fmts[i])
				results[i] = append(results[i], res{got, xerr, pv})
			}
		}(i)
	}
	close(start)
	wg.Wait()
	for i := range results {
		for _, r := range results[i] {
			if f := judge(i, "conc", r.got, r.err, r.pv); f != nil {
				return *f
			}
		}
	}
	if after := Digest(prog); before != after {
		return hx.Fail("C19/shared/program-modified/formats", "the structural digest of the Program changed during executions that convert numbers", before, after, src)
	}
	return hx.OK(c.NG > 1)
}
