// Package c19 binds property C19 (parsing is deterministic; a parsed Program
// is immutable and shareable) to the real code:
//   - parse.go   repeated parses of sources rendered from Gen_Resolver exports
//                must agree on verdict, error text and position, disassembly
//                and the compiled tables;
//   - shared.go  interleavings exported by TLC from Gen_SharedProgram are
//                imposed on real interpreters sharing one *parser.Program, at
//                the granularity of one VM instruction (verif step hook);
//   - record.go  executions of richer programs, sequential and concurrent,
//                recorded for Trace_SharedProgram.tla.
package c19

import (
	"crypto/sha1"
	"encoding/hex"
	"fmt"
	"hash"
	"reflect"
	"regexp"
	"sort"
	"strings"

	"github.com/benhoyt/goawk/parser"
)

var regexpType = reflect.TypeOf((*regexp.Regexp)(nil))

type digester struct {
	h    hash.Hash
	seen map[uintptr]int
}

// Digest is a structural digest of everything reachable from the Program:
// the syntax tree, the resolver's tables (unexported fields included) and the
// compiled code, constants and regular expressions (with their state: see
// regex).  Pointers are replaced by
// the order of first visit, map entries are sorted, so that two Programs
// built from the same source by a deterministic parser have the same digest
// and any write into a Program changes it.
func Digest(p *parser.Program) string {
	d := &digester{h: sha1.New(), seen: map[uintptr]int{}}
	d.walk(reflect.ValueOf(p), 0)
	return hex.EncodeToString(d.h.Sum(nil))
}

func (d *digester) str(s string) { fmt.Fprintf(d.h, "%d:%s;", len(s), s) }

// regex digests the state of a compiled regular expression: what the regexp
// API lets a user observe (source, number and names of the groups, literal
// prefix, and -- by matching a probe -- whether it prefers the leftmost-longest
// match), and the object's own scalar fields (the flag Longest() sets is one
// of them); the matcher's program is Go's and a function of the source.
func (d *digester) regex(v reflect.Value) {
	if v.CanInterface() {
		d.str(RegexState(v.Interface().(*regexp.Regexp)))
	} else {
		d.str("re?")
	}
	e := v.Elem()
	t := e.Type()
	for i := 0; i < e.NumField(); i++ {
		f := e.Field(i)
		switch f.Kind() {
		case reflect.Bool:
			d.str(fmt.Sprint(t.Field(i).Name, "=", f.Bool()))
		case reflect.Int, reflect.Int8, reflect.Int16, reflect.Int32, reflect.Int64:
			d.str(fmt.Sprint(t.Field(i).Name, "=", f.Int()))
		case reflect.Uint, reflect.Uint8, reflect.Uint16, reflect.Uint32, reflect.Uint64:
			d.str(fmt.Sprint(t.Field(i).Name, "=", f.Uint()))
		case reflect.String:
			d.str(t.Field(i).Name + "=" + f.String())
		}
	}
}

// longestProbes: for a source S, the regular expression (?:S)|(?:S)x has the
// same first alternative as S; what distinguishes leftmost-first from
// leftmost-longest through the API is matching a text on which two
// alternatives of the SAME object match with different lengths.  For an
// arbitrary object that text is not known, so the probes are texts that
// separate the two disciplines for the alternations the harness generates
// (a|ab, 1|10, x|xy ...): every 2- and 3-letter word over the letters that
// occur in the source.
func longestProbes(src string) []string {
	seen := map[byte]bool{}
	var letters []byte
	for i := 0; i < len(src) && len(letters) < 4; i++ {
		c := src[i]
		if (c >= 'a' && c <= 'z' || c >= '0' && c <= '9') && !seen[c] {
			seen[c] = true
			letters = append(letters, c)
		}
	}
	var out []string
	for _, a := range letters {
		for _, b := range letters {
			out = append(out, string([]byte{a, b}))
			for _, c := range letters {
				out = append(out, string([]byte{a, b, c}))
			}
		}
	}
	return out
}

// RegexState renders what the regexp API shows of re.
func RegexState(re *regexp.Regexp) string {
	var sb strings.Builder
	prefix, complete := re.LiteralPrefix()
	fmt.Fprintf(&sb, "re %q subexp=%d names=%q prefix=%q/%v", re.String(), re.NumSubexp(), re.SubexpNames(), prefix, complete)
	for _, probe := range longestProbes(re.String()) {
		fmt.Fprintf(&sb, " %s>%q", probe, re.FindString(probe))
	}
	return sb.String()
}

func (d *digester) walk(v reflect.Value, depth int) {
	if depth > 200 {
		d.str("<deep>")
		return
	}
	if !v.IsValid() {
		d.str("<invalid>")
		return
	}
	switch v.Kind() {
	case reflect.Bool:
		d.str(fmt.Sprint("b", v.Bool()))
	case reflect.Int, reflect.Int8, reflect.Int16, reflect.Int32, reflect.Int64:
		d.str(fmt.Sprint("i", v.Int()))
	case reflect.Uint, reflect.Uint8, reflect.Uint16, reflect.Uint32, reflect.Uint64, reflect.Uintptr:
		d.str(fmt.Sprint("u", v.Uint()))
	case reflect.Float32, reflect.Float64:
		d.str(fmt.Sprintf("f%x", v.Float()))
	case reflect.String:
		d.str("s" + v.String())
	case reflect.Ptr:
		if v.IsNil() {
			d.str("nil")
			return
		}
		if id, ok := d.seen[v.Pointer()]; ok {
			d.str(fmt.Sprint("ref", id))
			return
		}
		d.seen[v.Pointer()] = len(d.seen)
		if v.Type() == regexpType {
			d.regex(v)
			return
		}
		d.str("ptr")
		d.walk(v.Elem(), depth+1)
	case reflect.Interface:
		if v.IsNil() {
			d.str("nilif")
			return
		}
		d.str("if" + v.Elem().Type().String())
		d.walk(v.Elem(), depth+1)
	case reflect.Struct:
		t := v.Type()
		d.str("struct" + t.String())
		for i := 0; i < v.NumField(); i++ {
			d.str(t.Field(i).Name)
			d.walk(v.Field(i), depth+1)
		}
	case reflect.Slice:
		if v.IsNil() {
			d.str("nilslice")
			return
		}
		d.str(fmt.Sprint("slice", v.Len()))
		for i := 0; i < v.Len(); i++ {
			d.walk(v.Index(i), depth+1)
		}
	case reflect.Array:
		d.str(fmt.Sprint("array", v.Len()))
		for i := 0; i < v.Len(); i++ {
			d.walk(v.Index(i), depth+1)
		}
	case reflect.Map:
		if v.IsNil() {
			d.str("nilmap")
			return
		}
		// entries sorted by the digest of the key
		type ent struct {
			k string
			v reflect.Value
		}
		var es []ent
		it := v.MapRange()
		for it.Next() {
			kd := &digester{h: sha1.New(), seen: map[uintptr]int{}}
			kd.walk(it.Key(), depth+1)
			es = append(es, ent{hex.EncodeToString(kd.h.Sum(nil)), it.Value()})
		}
		sort.Slice(es, func(i, j int) bool { return es[i].k < es[j].k })
		d.str(fmt.Sprint("map", len(es)))
		for _, e := range es {
			d.str(e.k)
			d.walk(e.v, depth+1)
		}
	case reflect.Func:
		if v.IsNil() {
			d.str("nilfunc")
		} else {
			d.str("func")
		}
	default:
		d.str("other" + v.Kind().String())
	}
}

// CompiledDigest covers only the executable tables (what the interpreter
// runs), not the name tables kept for disassembly.
func CompiledDigest(p *parser.Program) string {
	d := &digester{h: sha1.New(), seen: map[uintptr]int{}}
	c := p.Compiled
	d.walk(reflect.ValueOf(c.Begin), 0)
	d.walk(reflect.ValueOf(c.Actions), 0)
	d.walk(reflect.ValueOf(c.End), 0)
	d.walk(reflect.ValueOf(c.Functions), 0)
	d.walk(reflect.ValueOf(c.Nums), 0)
	d.walk(reflect.ValueOf(c.Strs), 0)
	d.walk(reflect.ValueOf(c.Regexes), 0)
	return hex.EncodeToString(d.h.Sum(nil))
}
