package c03

import (
	"bytes"
	"context"
	"encoding/json"
	"fmt"
	"os"
	"os/exec"
	"strconv"
	"strings"
	"time"

	"github.com/benhoyt/goawk/parser"
	"github.com/benhoyt/goawk/verifharness/hx"
)

// ReplayCLI runs the goawk binary built from the tree under test
// ($C03_GOAWK) on a source that the parser rejects, once with the source in
// a file (-f), once inline, and (every third source) as the second of two
// program files, always with -d so that nothing is ever executed.  Required (and only this): no Go panic trace; the message names a
// position that exists in the text the tool parsed (the source, plus the
// newline the tool appends when the source does not end with one), and the
// offending line is shown with a caret line under it.
func ReplayCLI(raw json.RawMessage) hx.Outcome {
	var c Case
	if err := json.Unmarshal(raw, &c); err != nil || len(c.Clt) == 0 {
		return hx.Outcome{Skipped: true, Note: "bad case"}
	}
	bin := os.Getenv("C03_GOAWK")
	if bin == "" {
		panic("C03_GOAWK not set")
	}
	src := c.Src.Bytes()
	gate(&c, src)
	cli := src
	if c.CliAdd {
		cli = append(append([]byte{}, src...), '\n')
	}
	if g := goLineTable(cli); len(g) != len(c.Clt) {
		panic("spec gate: cli line table")
	}
	// only sources the parser rejects are of interest (and safe to hand to the tool)
	err, pv, _ := ParseReal(cli)
	if pv != nil {
		return hx.OK(false) // reported by the C03 replay itself
	}
	if _, ok := err.(*parser.ParseError); !ok {
		return hx.OK(false)
	}
	mech := srcMechCLI(&c)

	f, ferr := os.CreateTemp("", "c03-*.awk")
	if ferr != nil {
		panic(ferr)
	}
	defer os.Remove(f.Name())
	f.Write(src)
	f.Close()
	if o := runCLI(bin, []string{"-d", "-f", f.Name()}, f.Name(), &c, cli, mech, "file"); o != nil {
		return *o
	}
	if !bytes.Contains(src, []byte{0}) && len(src) < 60000 {
		if o := runCLI(bin, []string{"-d", "--", string(src)}, "<cmdline>", &c, cli, mech, "inline"); o != nil {
			return *o
		}
	}
	// every third source also as the second of two program files (the tool maps the line of the
	// concatenated text back to the file); judged only if the concatenation is rejected as well
	if len(src)%3 == 0 {
		const first = "BEGIN { }\n"
		if e2, pv2, _ := ParseReal(append([]byte(first), cli...)); pv2 == nil {
			if _, ok := e2.(*parser.ParseError); ok {
				f1, ferr := os.CreateTemp("", "c03-first-*.awk")
				if ferr != nil {
					panic(ferr)
				}
				defer os.Remove(f1.Name())
				f1.WriteString(first)
				f1.Close()
				if o := runCLI(bin, []string{"-d", "-f", f1.Name(), "-f", f.Name()}, f.Name(), &c, cli, mech, "second-file"); o != nil {
					return *o
				}
			}
		}
	}
	return hx.OK(true)
}

func runCLI(bin string, args []string, name string, c *Case, cli []byte, mech, how string) *hx.Outcome {
	ctx, cancel := context.WithTimeout(context.Background(), 60*time.Second)
	defer cancel()
	cmd := exec.CommandContext(ctx, bin, args...)
	var so, se bytes.Buffer
	cmd.Stdin = bytes.NewReader(nil)
	cmd.Stdout = &so
	cmd.Stderr = &se
	cmd.Env = []string{"PATH=/usr/bin:/bin"}
	err := cmd.Run()
	status := 0
	if err != nil {
		if ee, ok := err.(*exec.ExitError); ok {
			status = ee.ExitCode()
		} else {
			panic(fmt.Sprintf("cannot run %s: %v", bin, err))
		}
	}
	if ctx.Err() != nil {
		o := hx.Fail("C03/cli/hang/"+mech, "goawk did not finish within 60 s on a rejected program ("+how+")", nil, nil, string(cli))
		return &o
	}
	stderr := se.String()
	obs := map[string]any{"status": status, "stderr": stderr, "how": how}
	if strings.Contains(stderr, "panic:") || strings.Contains(stderr, "goroutine ") {
		o := hx.Fail("C03/cli/panic/"+mech, "goawk printed a Go panic trace instead of showing the offending line ("+how+")",
			"file:line:col: message, the source line, a caret line", obs, string(cli))
		return &o
	}
	// Which line is "the offending line"?  When the message starts with <name>:<line>:<col>: and the line
	// is a line of the file, that line (and the position must exist; ":0:<col>:", which the tool printed
	// for an error at the very end of the text, names no position and is a failure); otherwise any line of the program text.  The line counts as shown
	// when some line of the message contains it; blanks and tabs are ignored in the comparison, so the way
	// the tool expands tabs or decorates the line is not judged, and neither is the caret line.
	squeeze := func(s string) string { return strings.NewReplacer(" ", "", "\t", "").Replace(s) }
	msgLines := strings.Split(stderr, "\n")
	showsRow := func(row LT) bool {
		want := squeeze(string(cli[row.Lo:row.Hi]))
		for _, ml := range msgLines[1:] {
			if strings.Contains(squeeze(ml), want) {
				return true
			}
		}
		return false
	}
	line, col := 0, 0
	if strings.HasPrefix(stderr, name+":") {
		parts := strings.SplitN(stderr[len(name)+1:], ":", 3)
		if len(parts) == 3 {
			l, e1 := strconv.Atoi(parts[0])
			c2, e2 := strconv.Atoi(parts[1])
			if e1 == nil && e2 == nil {
				line, col = l, c2
			}
		}
	}
	if strings.HasPrefix(stderr, ":0:") {
		// no file name and line 0: the tool could not place the error in any of its source files
		o := hx.Fail("C03/cli/error-position/"+mech,
			fmt.Sprintf("goawk reports the error at %q: no file name and line 0, which does not exist in the program text (%s)",
				strings.SplitN(stderr, " ", 2)[0], how),
			"<file>:<line>:<col>: of a position inside the program text (its end included)", obs, string(cli))
		return &o
	}
	if line >= 1 {
		if !validIn(c.Clt, line, col) {
			o := hx.Fail("C03/cli/error-position/"+mech,
				fmt.Sprintf("goawk reports %d:%d, which does not exist in the program text (%s, %s)", line, col, howInvalid(c.Clt, line, col), how),
				"a position inside the program text", obs, string(cli))
			return &o
		}
		if !showsRow(c.Clt[line-1]) {
			o := hx.Fail("C03/cli/offending-line-not-shown/"+mech, fmt.Sprintf("goawk reports line %d but does not show that line (%s)", line, how),
				string(cli[c.Clt[line-1].Lo:c.Clt[line-1].Hi]), obs, string(cli))
			return &o
		}
		return nil
	}
	for _, row := range c.Clt {
		if showsRow(row) {
			return nil
		}
	}
	o := hx.Fail("C03/cli/offending-line-not-shown/"+mech, "goawk shows no line of the program text ("+how+")", nil, obs, string(cli))
	return &o
}

// srcMechCLI classifies the text the tool parses: when it appends a newline, an
// un-read at the end of the source becomes an un-read over that newline.
func srcMechCLI(c *Case) string {
	over := ""
	for _, t := range c.Toks {
		uc := t.Uc
		if uc == "eof" && c.CliAdd {
			uc = "lf"
		}
		if t.Ub > 0 && (uc == "lf" || (uc == "cr" && over == "")) {
			over = uc
		}
	}
	if over != "" {
		return "unread-over-" + over
	}
	return "other"
}
