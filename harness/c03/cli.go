package c03

import (
	"bytes"
	"context"
	"encoding/json"
	"fmt"
	"os"
	"os/exec"
	"regexp"
	"strconv"
	"strings"
	"time"

	"github.com/benhoyt/goawk/parser"
	"github.com/benhoyt/goawk/verifharness/hx"
)

// ReplayCLI runs the goawk binary built from the tree under test
// ($C03_GOAWK) on a source that the parser rejects, once with the source in
// a file (-f) and once inline, always with -d so that nothing is ever
// executed.  Required (and only this): no Go panic trace; the message names a
// position that exists in the text the tool parsed (the source, plus the
// newline the tool appends when the source does not end with one), and the
// offending line is shown with a caret line under it.
func ReplayCLI(raw json.RawMessage) hx.Outcome {
	var c Case
	if err := json.Unmarshal(raw, &c); err != nil || len(c.Clt) == 0 {
		return hx.Outcome{Skipped: true, Note: "bad case"}
	}
	bin := os.Getenv("C03_GOAWK")
	if bin == "" {
		panic("C03_GOAWK not set")
	}
	src := c.Src.Bytes()
	gate(&c, src)
	cli := src
	if c.CliAdd {
		cli = append(append([]byte{}, src...), '\n')
	}
	if g := goLineTable(cli); len(g) != len(c.Clt) {
		panic("spec gate: cli line table")
	}
	// only sources the parser rejects are of interest (and safe to hand to the tool)
	err, pv, _ := ParseReal(cli)
	if pv != nil {
		return hx.OK(false) // reported by the C03 replay itself
	}
	if _, ok := err.(*parser.ParseError); !ok {
		return hx.OK(false)
	}
	mech := srcMechCLI(&c)

	f, ferr := os.CreateTemp("", "c03-*.awk")
	if ferr != nil {
		panic(ferr)
	}
	defer os.Remove(f.Name())
	f.Write(src)
	f.Close()
	if o := runCLI(bin, []string{"-d", "-f", f.Name()}, f.Name(), &c, cli, mech, "file"); o != nil {
		return *o
	}
	if !bytes.Contains(src, []byte{0}) && len(src) < 60000 {
		if o := runCLI(bin, []string{"-d", "--", string(src)}, "<cmdline>", &c, cli, mech, "inline"); o != nil {
			return *o
		}
	}
	return hx.OK(true)
}

var caretRe = regexp.MustCompile(`^ *\^$`)

func runCLI(bin string, args []string, name string, c *Case, cli []byte, mech, how string) *hx.Outcome {
	ctx, cancel := context.WithTimeout(context.Background(), 60*time.Second)
	defer cancel()
	cmd := exec.CommandContext(ctx, bin, args...)
	var so, se bytes.Buffer
	cmd.Stdin = bytes.NewReader(nil)
	cmd.Stdout = &so
	cmd.Stderr = &se
	cmd.Env = []string{"PATH=/usr/bin:/bin"}
	err := cmd.Run()
	status := 0
	if err != nil {
		if ee, ok := err.(*exec.ExitError); ok {
			status = ee.ExitCode()
		} else {
			panic(fmt.Sprintf("cannot run %s: %v", bin, err))
		}
	}
	if ctx.Err() != nil {
		o := hx.Fail("C03/cli/hang/"+mech, "goawk did not finish within 60 s on a rejected program ("+how+")", nil, nil, string(cli))
		return &o
	}
	stderr := se.String()
	obs := map[string]any{"status": status, "stderr": stderr, "how": how}
	if strings.Contains(stderr, "panic:") || strings.Contains(stderr, "goroutine ") {
		o := hx.Fail("C03/cli/panic/"+mech, "goawk printed a Go panic trace instead of showing the offending line ("+how+")",
			"file:line:col: message, the source line, a caret line", obs, string(cli))
		return &o
	}
	// the message ends with the offending line (tabs shown as four blanks) and a caret line
	tail := strings.TrimSuffix(stderr, "\n")
	k := strings.LastIndexByte(tail, '\n')
	if k < 0 || !caretRe.MatchString(tail[k+1:]) {
		o := hx.Fail("C03/cli/source-line-not-shown/"+mech, "goawk did not end its message with the offending line and a caret line ("+how+")",
			"the source line, a caret line", obs, string(cli))
		return &o
	}
	shown := tail[:k]
	if j := strings.LastIndexByte(shown, '\n'); j >= 0 {
		shown = shown[j+1:]
	}
	expand := func(row LT) string { return strings.ReplaceAll(string(cli[row.Lo:row.Hi]), "\t", "    ") }
	// when the message starts with <name>:<line>:<col>: and the line is a line of the file, the position
	// must exist and the line shown must be that line; otherwise (the tool prints ":0:<col>:" for an
	// error at the very end of the text) it must at least be a line of the program text
	line, col := 0, 0
	if strings.HasPrefix(stderr, name+":") {
		parts := strings.SplitN(stderr[len(name)+1:], ":", 3)
		if len(parts) == 3 {
			l, e1 := strconv.Atoi(parts[0])
			c2, e2 := strconv.Atoi(parts[1])
			if e1 == nil && e2 == nil {
				line, col = l, c2
			}
		}
	}
	if line >= 1 {
		if !validIn(c.Clt, line, col) {
			o := hx.Fail("C03/cli/error-position/"+mech,
				fmt.Sprintf("goawk reports %d:%d, which does not exist in the program text (%s, %s)", line, col, howInvalid(c.Clt, line, col), how),
				"a position inside the program text", obs, string(cli))
			return &o
		}
		if shown != expand(c.Clt[line-1]) {
			o := hx.Fail("C03/cli/wrong-line-shown/"+mech, fmt.Sprintf("goawk reports line %d but shows a different line (%s)", line, how),
				expand(c.Clt[line-1]), obs, string(cli))
			return &o
		}
		return nil
	}
	for _, row := range c.Clt {
		if shown == expand(row) {
			return nil
		}
	}
	o := hx.Fail("C03/cli/source-line-not-shown/"+mech, "the line goawk shows is not a line of the program text ("+how+")", nil, obs, string(cli))
	return &o
}

// srcMechCLI classifies the text the tool parses: when it appends a newline, an
// un-read at the end of the source becomes an un-read over that newline.
func srcMechCLI(c *Case) string {
	over := ""
	for _, t := range c.Toks {
		uc := t.Uc
		if uc == "eof" && c.CliAdd {
			uc = "lf"
		}
		if t.Ub > 0 && (uc == "lf" || (uc == "cr" && over == "")) {
			over = uc
		}
	}
	if over != "" {
		return "unread-over-" + over
	}
	return "other"
}
