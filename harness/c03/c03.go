// Package c03 binds spec/Lexer.tla to the real lexer, parser and command
// line tool (property C03: parsing is total, error positions exist in the
// source, token positions are the true line/column of the first byte).
//
// Spec -> code: every case exported by Gen_Lexer carries a
// source, the token stream the specification predicts (kind class, start
// offset, true line and column) and the line table that decides which
// positions exist.  Replay lexes the source with lexer.Scan (and ScanRegex
// after / and /= when rx is set), compares every reported position with the
// prediction, parses the source under recover() and checks that a
// *parser.ParseError position exists in the source.
//
// Code -> spec: Record lexes and parses the repository's AWK corpus, the
// sources embedded in its Go tests and mutated windows of both, and writes
// the observed (kind, line, col) streams for Trace_Lexer.tla to validate.
package c03

import (
	"encoding/json"
	"fmt"
	"regexp"
	"runtime"
	"strings"

	"github.com/benhoyt/goawk/lexer"
	"github.com/benhoyt/goawk/parser"
	"github.com/benhoyt/goawk/verifharness/hx"
)

// Tok is a token as the specification predicts it.
type Tok struct {
	K    string `json:"k"`
	S    int    `json:"s"`
	Line int    `json:"line"`
	Col  int    `json:"col"`
	Why  string `json:"why,omitempty"`
	Ub   int    `json:"ub,omitempty"`
	Uc   string `json:"uc,omitempty"`
}

// LT is one row of the specification's line table.
type LT struct {
	Lo int `json:"lo"`
	Hi int `json:"hi"`
	W  int `json:"w"`
}

type Case struct {
	Fam    string `json:"fam"`
	Src    hx.BS  `json:"src"`
	Rx     bool   `json:"rx"`
	Toks   []Tok  `json:"toks"`
	Lt     []LT   `json:"lt"`
	Clt    []LT   `json:"clt"`
	CliAdd bool   `json:"cliadd"`
}

// RTok is a token as the real lexer reports it.
type RTok struct {
	Line, Col int
	Tok       lexer.Token
	Class     string
}

// ClassOf maps a real token to the kind classes of Lexer.tla.
func ClassOf(t lexer.Token) string {
	switch t {
	case lexer.ILLEGAL:
		return "illegal"
	case lexer.EOF:
		return "eof"
	case lexer.NEWLINE:
		return "newline"
	case lexer.NAME:
		return "word"
	case lexer.NUMBER:
		return "number"
	case lexer.STRING:
		return "string"
	case lexer.REGEX:
		return "regex"
	}
	if lexer.KeywordToken(t.String()) == t {
		return "word" // keyword or builtin function name
	}
	return "op"
}

// LexReal runs the real lexer to EOF / ILLEGAL.  With rx, ScanRegex is called
// after every DIV and DIV_ASSIGN token (the documented precondition).
func LexReal(src []byte, rx bool) (toks []RTok, panicVal any, stk string) {
	defer func() {
		if r := recover(); r != nil {
			panicVal = r
			stk = stack()
		}
	}()
	lx := lexer.NewLexer(src)
	limit := 2*len(src) + 4
	for len(toks) < limit {
		pos, tok, _ := lx.Scan()
		toks = append(toks, RTok{pos.Line, pos.Column, tok, ClassOf(tok)})
		if tok == lexer.EOF || tok == lexer.ILLEGAL {
			return
		}
		if rx && (tok == lexer.DIV || tok == lexer.DIV_ASSIGN) {
			pos, tok, _ = lx.ScanRegex()
			toks = append(toks, RTok{pos.Line, pos.Column, tok, ClassOf(tok)})
			if tok == lexer.ILLEGAL {
				return
			}
		}
	}
	return
}

// ParseReal calls parser.ParseProgram under recover().
func ParseReal(src []byte) (err error, panicVal any, stk string) {
	defer func() {
		if r := recover(); r != nil {
			panicVal = r
			stk = stack()
		}
	}()
	_, err = parser.ParseProgram(src, nil)
	return
}

func stack() string {
	buf := make([]byte, 16384)
	return string(buf[:runtime.Stack(buf, false)])
}

var frameRe = regexp.MustCompile(`github\.com/benhoyt/goawk/([A-Za-z0-9_/]+)\.([^\s(]*(?:\([^)]*\))?[A-Za-z0-9_.]*)\(`)

// PanicSite names the innermost goawk function on the panicking stack (for
// mechanism-specific signatures).
func PanicSite(stk string) string {
	for _, m := range frameRe.FindAllStringSubmatch(stk, -1) {
		if strings.HasPrefix(m[1], "verifharness") {
			continue
		}
		fn := m[1] + "." + m[2]
		if strings.Contains(fn, "ParseProgram.func") {
			continue // the deferred recover handler itself
		}
		fn = strings.NewReplacer("(*", "", ")", "", "/", ".").Replace(fn)
		return fn
	}
	return "unknown"
}

func validIn(lt []LT, line, col int) bool {
	return line >= 1 && line <= len(lt) && col >= 1 && col <= lt[line-1].W+1
}

func howInvalid(lt []LT, line, col int) string {
	switch {
	case line < 1:
		return "line-below-1"
	case line > len(lt):
		return "line-beyond-source"
	case col < 1:
		return "col-below-1"
	default:
		return "col-beyond-line"
	}
}

// goLineTable recomputes the line table; used only as a sanity gate on the
// specification's export (a disagreement is a machinery error, not a verdict).
func goLineTable(src []byte) []LT {
	var lt []LT
	lo, w := 0, 0
	for i, b := range src {
		if b == '\n' {
			lt = append(lt, LT{lo, i, w})
			lo, w = i+1, 0
		} else if b != '\r' {
			w++
		}
	}
	return append(lt, LT{lo, len(src), w})
}

func gate(c *Case, src []byte) {
	g := goLineTable(src)
	if len(g) != len(c.Lt) {
		panic(fmt.Sprintf("spec gate: line table has %d lines, source has %d", len(c.Lt), len(g)))
	}
	for i := range g {
		if g[i] != c.Lt[i] {
			panic(fmt.Sprintf("spec gate: line table row %d is %v, recomputed %v", i+1, c.Lt[i], g[i]))
		}
	}
	if c.CliAdd != !strings.HasSuffix(string(src), "\n") {
		panic("spec gate: cliadd")
	}
	for _, t := range c.Toks {
		if t.K == "illegal" {
			continue
		}
		// the predicted position must be the true position of offset s
		line, col := 1, 1
		for _, b := range src[:t.S] {
			if b == '\n' {
				line, col = line+1, 1
			} else if b != '\r' {
				col++
			}
		}
		if line != t.Line || col != t.Col {
			panic(fmt.Sprintf("spec gate: token at offset %d predicted %d:%d, true position %d:%d", t.S, t.Line, t.Col, line, col))
		}
	}
}

// gapClass names what lies between offsets a and b (for signatures).
func gapClass(src []byte, a, b int) string {
	if a < 0 {
		a = 0
	}
	if b > len(src) {
		b = len(src)
	}
	has := func(f func(byte) bool) bool {
		for _, c := range src[a:b] {
			if f(c) {
				return true
			}
		}
		return false
	}
	switch {
	case has(func(c byte) bool { return c >= 0x80 }):
		return "non-ascii"
	case has(func(c byte) bool { return c == '\r' }):
		return "cr"
	case has(func(c byte) bool { return c == '\\' }):
		return "backslash"
	case has(func(c byte) bool { return c == '\t' }):
		return "tab"
	case has(func(c byte) bool { return c == 0 }):
		return "nul"
	case has(func(c byte) bool { return c == '\n' }):
		return "newline"
	}
	return "plain"
}

// mechanism of a wrong position at spec token i
func posMech(c *Case, src []byte, i int) string {
	for j := i - 1; j >= 0; j-- {
		if c.Toks[j].Ub > 0 {
			return "after-unread-over-" + c.Toks[j].Uc
		}
	}
	from := 0
	if i > 0 {
		from = c.Toks[i-1].S
	}
	return gapClass(src, from, c.Toks[i].S)
}

// mechanism class of a source for parser / CLI findings
func srcMech(c *Case, src []byte) string {
	over := ""
	for _, t := range c.Toks {
		if t.Ub > 0 && (t.Uc == "lf" || (t.Uc == "cr" && over == "")) {
			over = t.Uc
		}
	}
	if len(c.Toks) == 0 {
		// long source exported without a token prediction: look for the spelling itself
		if m := danglingExpRe.FindSubmatch(src); m != nil {
			over = "lf"
		} else if danglingExpCRRe.Match(src) {
			over = "cr"
		}
	}
	if over != "" {
		return "unread-over-" + over
	}
	if len(src) > 0 && src[len(src)-1] == '\\' {
		return "escape-at-eof"
	}
	return "other"
}

var danglingExpRe = regexp.MustCompile(`[0-9.][eE][+-]?\n`)
var danglingExpCRRe = regexp.MustCompile(`[0-9.][eE][+-]?\r`)

type posPair struct{ Line, Col int }

// CheckLex compares the real token stream with the prediction.  unjudged is
// set when the two disagree on the tokenisation itself (kind classes or
// number of tokens), which the property does not speak about.
func CheckLex(c *Case, src []byte) (fail *hx.Outcome, unjudged string) {
	real, pv, stk := LexReal(src, c.Rx)
	if pv != nil {
		o := hx.Fail("C03/lexer/panic/"+PanicSite(stk), fmt.Sprintf("lexer panicked: %v", pv), nil, stk, string(src))
		return &o, ""
	}
	if len(real) >= 2*len(src)+4 {
		o := hx.Fail("C03/lexer/no-progress", "lexer did not reach EOF/ILLEGAL within 2*len+4 tokens", nil, len(real), string(src))
		return &o, ""
	}
	for i, st := range c.Toks {
		if i >= len(real) {
			return nil, fmt.Sprintf("real lexer stopped after %d tokens, spec has %d", len(real), len(c.Toks))
		}
		rt := real[i]
		if rt.Class != st.K {
			return nil, fmt.Sprintf("token %d: spec kind %s, real kind %s", i, st.K, rt.Class)
		}
		if st.K == "illegal" {
			if !validIn(c.Lt, rt.Line, rt.Col) {
				o := hx.Fail("C03/lexer/illegal-position/"+st.Why,
					fmt.Sprintf("ILLEGAL token reported at %d:%d, which does not exist in the source (%s)", rt.Line, rt.Col, howInvalid(c.Lt, rt.Line, rt.Col)),
					"a position inside the source", posPair{rt.Line, rt.Col}, string(src))
				return &o, ""
			}
			break
		}
		if rt.Line != st.Line || rt.Col != st.Col {
			o := hx.Fail("C03/lexer/position/"+posMech(c, src, i),
				fmt.Sprintf("token %d (%s, first byte at offset %d) reported at %d:%d, true position %d:%d",
					i, st.K, st.S, rt.Line, rt.Col, st.Line, st.Col),
				posPair{st.Line, st.Col}, posPair{rt.Line, rt.Col}, string(src))
			return &o, ""
		}
	}
	if len(real) > len(c.Toks) {
		return nil, "real lexer delivered more tokens than the spec"
	}
	return nil, ""
}

// CheckParse: ParseProgram never panics; a ParseError position exists.
func CheckParse(c *Case, src []byte) (fail *hx.Outcome, errored bool) {
	err, pv, stk := ParseReal(src)
	if pv != nil {
		o := hx.Fail("C03/parser/panic/"+PanicSite(stk), fmt.Sprintf("ParseProgram panicked: %v", pv), "a program or a *ParseError", stk, string(src))
		return &o, true
	}
	if err == nil {
		return nil, false
	}
	pe, ok := err.(*parser.ParseError)
	if !ok {
		return nil, true // some other error value (e.g. "program too large"): an error, no position to judge
	}
	if !validIn(c.Lt, pe.Position.Line, pe.Position.Column) {
		o := hx.Fail("C03/parser/error-position/"+srcMech(c, src),
			fmt.Sprintf("ParseError at %d:%d (%s): no such position in a source of %d line(s) (%s)", pe.Position.Line, pe.Position.Column, pe.Message, len(c.Lt), howInvalid(c.Lt, pe.Position.Line, pe.Position.Column)),
			"a position inside the source", posPair{pe.Position.Line, pe.Position.Column}, string(src))
		return &o, true
	}
	return nil, true
}

// Replay is the hx.Replayer for Gen_Lexer exports: the lexer's positions.
// (The spec's export is cross-checked by gate() only after the comparison, so
// that the binding self-test's corrupted predictions are rejected by the
// comparison itself; a wrong export would trip the gate on the passing cases.)
func Replay(raw json.RawMessage) hx.Outcome {
	var c Case
	if err := json.Unmarshal(raw, &c); err != nil || len(c.Lt) == 0 {
		return hx.Outcome{Skipped: true, Note: "bad case"}
	}
	src := c.Src.Bytes()
	var fail *hx.Outcome
	unjudged := ""
	if len(c.Toks) > 0 { // (no token prediction for long sources: parser only)
		fail, unjudged = CheckLex(&c, src)
		if fail != nil {
			return *fail
		}
	}
	// (also the parser, so that `./check C03 --replay <file>` re-runs parser findings too; in a full run
	// the parser is replayed separately under the name C03PARSE, where a lexer finding cannot mask it)
	if !c.Rx {
		if pf, _ := CheckParse(&c, src); pf != nil {
			return *pf
		}
	}
	gate(&c, src)
	if unjudged != "" {
		return hx.Outcome{Skipped: true, Note: "tokenisation differs (not judged): " + unjudged}
	}
	// non-trivial: some position is not simply (1, offset+1)
	for _, t := range c.Toks {
		if t.K != "illegal" && (t.Line != 1 || t.Col != t.S+1) {
			return hx.OK(true)
		}
	}
	return hx.OK(false)
}

// ReplayParse is the hx.Replayer (property name C03PARSE) for the same
// exports: ParseProgram is total and its error positions exist in the source.
func ReplayParse(raw json.RawMessage) hx.Outcome {
	var c Case
	if err := json.Unmarshal(raw, &c); err != nil || len(c.Lt) == 0 {
		return hx.Outcome{Skipped: true, Note: "bad case"}
	}
	if c.Rx {
		return hx.OK(false) // same source as its rx = false twin
	}
	src := c.Src.Bytes()
	fail, errored := CheckParse(&c, src)
	if fail != nil {
		return *fail
	}
	gate(&c, src)
	return hx.OK(errored)
}
